(* ExprModel.v -- C04: executable model of the expression evaluator of
   Include/Template.hpp (getOperation, isExpression, parseValue,
   parseExpressions, evaluate, GetExpressionValue, evaluateExpression, isEqual)
   and of the typed arithmetic of Include/QExpression.hpp, AFTER the repairs
   findings/D1_precedence_after_recursion.patch (/repo d87efe1), findings/D14_remainder_by_zero.patch
   (/repo 8e23fd8), the lead's D47 (/repo 3d5d94b: x % -1 = 0 without dividing), D80 (/repo 4703e54:
   getOperation's two-character look-ahead is bounded by the end of the expression) and
   findings/D90_natural_compare_signed.patch (whole numbers are compared by value).
   Definitions only (no proofs).  The second half is the SPECIFICATION:
   expression trees, textbook precedence climbing ([std_tree]) and two
   evaluators of trees: [tree_eval] (same typed arithmetic, used by the
   precedence theorem) and [spec_eval] (exact integers and exact rationals,
   the oracle of the correspondence run).

   Conventions: 64-bit machine words are [N] reduced mod 2^64 ("bits");
   doubles are [SpecFloat.spec_float] at prec 53 / emax 1024 (pure Z
   arithmetic, no axioms); conversions double -> int64 outside the target
   range are [Err (EUB _)] (undefined behaviour in the C++). *)
From Coq Require Import NArith ZArith List Bool Floats.SpecFloat.
From Qv Require Import gen.Tables_expr.
Import ListNotations.
Local Open Scope N_scope.

(* ------------------------------------------------------------------ *)
(* outcomes *)

Inductive err :=
| EFuel                    (* the model ran out of fuel (never on well-formed input: see proofs) *)
| EShape                   (* item list not of the shape the parser produces *)
| EUB (site : N)           (* undefined behaviour in the C++: 1 = double->int64 out of range *)
| ETrap (site : N)         (* hardware trap; no function of the model produces it any more (c04_no_trap) *)
| EOOB (site : N)          (* read outside the content buffer *)
| EUnsupported (site : N). (* outside the modelled domain: 1 = text operand of a non-equality operator,
                              2 = numeral form not covered by [numeral], 3 = variable with [index],
                              4 = operator value outside QOperation's binary operators *)

Inductive outcome (A : Type) :=
| Ok (a : A)
| NoValue                  (* the C++ function returned false *)
| Err (e : err).
Arguments Ok {A} a.
Arguments NoValue {A}.
Arguments Err {A} e.

Definition bind {A B} (x : outcome A) (f : A -> outcome B) : outcome B :=
  match x with Ok a => f a | NoValue => NoValue | Err e => Err e end.

(* ------------------------------------------------------------------ *)
(* machine words and doubles *)

Definition two64 : N := 18446744073709551616.
Definition two63 : N := 9223372036854775808.
Definition wrapN (n : N) : N := n mod two64.
Definition wrapZ (z : Z) : N := Z.to_N (z mod Z.of_N two64).
Definition signed (b : N) : Z := if b <? two63 then Z.of_N b else (Z.of_N b - Z.of_N two64)%Z.

Definition fprec : Z := 53.
Definition femax : Z := 1024.
Definition fzero : spec_float := S754_zero false.
Definition fone : spec_float := S754_finite false 4503599627370496 (-52).
Definition d_of_Z (z : Z) : spec_float := binary_normalize fprec femax z 0 false.
Definition d_of_nat (b : N) : spec_float := d_of_Z (Z.of_N b).        (* double(Natural) *)
Definition d_of_int (b : N) : spec_float := d_of_Z (signed b).        (* double(Integer) *)
Definition fadd := SFadd fprec femax.
Definition fsub := SFsub fprec femax.
Definition fmul := SFmul fprec femax.
Definition fdiv := SFdiv fprec femax.
Definition fneg := SFopp.
Definition fcmp := SFcompare.
Definition f_lt a b := match fcmp a b with Some Lt => true | _ => false end.
Definition f_le a b := match fcmp a b with Some Lt | Some Eq => true | _ => false end.
Definition f_gt a b := match fcmp a b with Some Gt => true | _ => false end.
Definition f_ge a b := match fcmp a b with Some Gt | Some Eq => true | _ => false end.
Definition f_eq a b := match fcmp a b with Some Eq => true | _ => false end.
Definition f_ne a b := negb (f_eq a b).

(* SizeT64I(double): truncation toward zero; UB outside [-2^63, 2^63) and for inf/NaN *)
Definition sf_trunc (f : spec_float) : option Z :=
  match f with
  | S754_zero _ => Some 0%Z
  | S754_finite s m e =>
    let a := (if 0 <=? e then Zpos m * 2 ^ e else Zpos m / 2 ^ (- e))%Z in
    Some (if s then (- a)%Z else a)
  | _ => None
  end.
Definition to_i64 (f : spec_float) : outcome N :=
  match sf_trunc f with
  | Some z => if ((- Z.of_N two63 <=? z) && (z <? Z.of_N two63))%Z then Ok (wrapZ z) else Err (EUB 1)
  | None => Err (EUB 1)
  end.

(* ------------------------------------------------------------------ *)
(* values held by a QExpression during evaluation *)

Inductive qval :=
| QNat (b : N)             (* ExpressionType::NaturalNumber, Value.Number.Natural *)
| QInt (b : N)             (* ExpressionType::IntegerNumber, the bits of Value.Number.Integer *)
| QReal (f : spec_float)   (* ExpressionType::RealNumber *)
| QText (s : list N)       (* ExpressionType::NotANumber: content_[Offset .. Offset+Length) *)
| QVar (name : list N).    (* ExpressionType::Variable: the tag, only as operand of == / != *)

Definition is_nan_type (v : qval) : bool := match v with QText _ | QVar _ => true | _ => false end.
Definition of_bool (b : bool) : qval := QNat (if b then 1 else 0).

(* QExpression::operator+= *)
Definition q_add (l r : qval) : outcome qval :=
  match l, r with
  | QNat a, QNat b => Ok (QNat (wrapN (a + b)))
  | QNat a, QInt b => Ok (QInt (wrapN (a + b)))
  | QNat a, QReal y => Ok (QReal (fadd (d_of_nat a) y))
  | QInt a, QNat b | QInt a, QInt b => Ok (QInt (wrapN (a + b)))
  | QInt a, QReal y => Ok (QReal (fadd (d_of_int a) y))
  | QReal x, QNat b => Ok (QReal (fadd x (d_of_nat b)))
  | QReal x, QInt b => Ok (QReal (fadd x (d_of_int b)))
  | QReal x, QReal y => Ok (QReal (fadd x y))
  | _, _ => Err (EUnsupported 1)
  end.

(* QExpression::operator-= *)
Definition sub64 (a b : N) : N := wrapN (a + two64 - b).
Definition q_sub (l r : qval) : outcome qval :=
  match l, r with
  | QNat a, QNat b => Ok (if a <? b then QInt (sub64 a b) else QNat (sub64 a b))
  | QNat a, QInt b => Ok (QInt (sub64 a b))
  | QNat a, QReal y => Ok (QReal (fsub (d_of_nat a) y))
  | QInt a, QNat b | QInt a, QInt b => Ok (QInt (sub64 a b))
  | QInt a, QReal y => Ok (QReal (fsub (d_of_int a) y))
  | QReal x, QNat b => Ok (QReal (fsub x (d_of_nat b)))
  | QReal x, QInt b => Ok (QReal (fsub x (d_of_int b)))
  | QReal x, QReal y => Ok (QReal (fsub x y))
  | _, _ => Err (EUnsupported 1)
  end.

(* QExpression::operator*= *)
Definition q_mul (l r : qval) : outcome qval :=
  match l, r with
  | QNat a, QNat b => Ok (QNat (wrapN (a * b)))
  | QNat a, QInt b => Ok (QInt (wrapN (a * b)))
  | QNat a, QReal y => Ok (QReal (fmul (d_of_nat a) y))
  | QInt a, QNat b | QInt a, QInt b => Ok (QInt (wrapN (a * b)))
  | QInt a, QReal y => Ok (QReal (fmul (d_of_int a) y))
  | QReal x, QNat b => Ok (QReal (fmul x (d_of_nat b)))
  | QReal x, QInt b => Ok (QReal (fmul x (d_of_int b)))
  | QReal x, QReal y => Ok (QReal (fmul x y))
  | _, _ => Err (EUnsupported 1)
  end.

(* QExpression::PowerOf (square and multiply, wrap mod 2^64); the exponent is >= 1 *)
Fixpoint powerof (x : N) (p : positive) : N :=
  match p with
  | xH => x
  | xO q => let y := powerof x q in wrapN (y * y)
  | xI q => let y := powerof x q in wrapN (wrapN (y * y) * x)
  end.

Definition neg64 (b : N) : N := wrapN (two64 - b).   (* -Value.Number.Integer on the bits *)

(* the first switch of operator^=: (left_negative, Value.Number.Natural) *)
Definition pow_left (l : qval) : outcome (bool * N) :=
  match l with
  | QNat a => Ok (false, a)
  | QInt a => if (signed a <? 0)%Z then Ok (true, neg64 a) else Ok (false, a)
  | QReal x =>
    let neg := f_lt x fzero in
    let x' := if neg then fneg x else x in
    if f_lt x' fone && f_gt x' fzero then NoValue          (* "No power of fraction at the moment." *)
    else bind (to_i64 x') (fun n => Ok (neg, n))
  | _ => Err (EUnsupported 1)
  end.
(* the second switch: (right_negative, num_right) *)
Definition pow_right (r : qval) : outcome (bool * N) :=
  match r with
  | QNat b => Ok (false, b)
  | QInt b => if (signed b <? 0)%Z then Ok (true, neg64 b) else Ok (false, b)
  | QReal y =>
    let neg := f_lt y fzero in
    let y' := if neg then fneg y else y in
    if f_lt y' fone && f_gt y' fzero then NoValue
    else bind (to_i64 y') (fun n => Ok (neg, n))
  | _ => Err (EUnsupported 1)
  end.
(* QExpression::operator^= *)
Definition q_pow (l r : qval) : outcome qval :=
  bind (pow_left l) (fun '(lneg, base) =>
  bind (pow_right r) (fun '(rneg, e) =>
    if base =? 0 then Ok (QNat 0)
    else match e with
         | N0 => Ok (QNat 1)
         | Npos p =>
           let pw := powerof base p in
           if rneg then
             let x := fdiv fone (d_of_nat pw) in
             Ok (QReal (if lneg then fneg x else x))   (* KF-C04-negpow: also for an even exponent (pinned by EvaluateTest) *)
           else if lneg && N.odd e then Ok (QInt (neg64 pw))
           else Ok (QNat pw)
         end)).

(* template operator!=(0ULL) as used by the division (and, after D14, the remainder) guard *)
Definition q_nonzero (r : qval) : outcome bool :=
  match r with
  | QNat b | QInt b => Ok (negb (b =? 0))
  | QReal y => Ok (f_ne y fzero)
  | _ => Err (EUnsupported 1)
  end.

Definition to_real (v : qval) : outcome spec_float :=
  match v with
  | QNat a => Ok (d_of_nat a)
  | QInt a => Ok (d_of_int a)
  | QReal x => Ok x
  | _ => Err (EUnsupported 1)
  end.

(* case Division of evaluateExpression + QExpression::operator/= *)
Definition q_div (l r : qval) : outcome qval :=
  bind (q_nonzero r) (fun nz =>
    if nz then bind (to_real l) (fun x => bind (to_real r) (fun y => Ok (QReal (fdiv x y))))
    else NoValue).

(* case Remainder of evaluateExpression (fix 8e23fd8 = findings/D14: a real divisor is
   truncated first, a zero divisor yields no value) and QExpression::operator% (fix
   3d5d94b: divisor -1 answers 0 without dividing, so INT64_MIN % -1 cannot trap) *)
Definition q_rem (l r : qval) : outcome qval :=
  bind (match r with
        | QNat b | QInt b => Ok b
        | QReal y => to_i64 y
        | _ => Err (EUnsupported 1)
        end) (fun d =>
    if d =? 0 then NoValue
    else if (signed d =? -1)%Z then
      match l with
      | QNat _ | QInt _ | QReal _ => Ok (QInt 0)      (* returned before the left operand is looked at *)
      | _ => Err (EUnsupported 1)
      end
    else bind (match l with
               | QNat a | QInt a => Ok a
               | QReal x => to_i64 x
               | _ => Err (EUnsupported 1)
               end) (fun a => Ok (QInt (wrapZ (Z.rem (signed a) (signed d)))))).

(* QExpression::operator&= and operator|= share their shape *)
Definition q_bit (f : N -> N -> N) (l r : qval) : outcome qval :=
  match l, r with
  | QNat a, QNat b => Ok (QNat (f a b))
  | QNat a, QInt b => Ok (QInt (f a b))
  | QNat a, QReal y => bind (to_i64 y) (fun b => Ok (QInt (f a b)))
  | QInt a, QNat b | QInt a, QInt b => Ok (QInt (f a b))
  | QInt a, QReal y => bind (to_i64 y) (fun b => Ok (QInt (f a b)))
  | QReal x, QNat b | QReal x, QInt b => bind (to_i64 x) (fun a => Ok (QInt (f a b)))
  | QReal x, QReal y => bind (to_i64 x) (fun a => bind (to_i64 y) (fun b => Ok (QInt (f a b))))
  | _, _ => Err (EUnsupported 1)
  end.

(* QExpression::compareWhole (fix findings/D90): -1, 0 or 1 -- a Natural or Integer against a
   Natural or Integer BY VALUE: a negative Integer is below every Natural, otherwise the 64 bits
   compare as unsigned (two negatives as signed) *)
Definition whole_negative (v : qval) : bool := match v with QInt a => (signed a <? 0)%Z | _ => false end.
Definition whole_bits (v : qval) : N := match v with QNat a | QInt a => a | _ => 0 end.
Definition compare_whole (l r : qval) : comparison :=
  let ln := whole_negative l in
  let rn := whole_negative r in
  if negb (Bool.eqb ln rn) then (if ln then Lt else Gt)
  else if ln then (signed (whole_bits l) ?= signed (whole_bits r))%Z
  else (whole_bits l ?= whole_bits r).
Definition cmp_int (c : comparison) : Z := match c with Lt => (-1)%Z | Eq => 0%Z | Gt => 1%Z end.
(* QExpression::wholeToReal *)
Definition whole_to_real (v : qval) : spec_float :=
  match v with QNat a => d_of_nat a | QInt a => d_of_int a | _ => fzero end.

(* QExpression::operator>=, >, <=, <, == :  compareWhole(right) OP 0 for two whole numbers,
   the doubles otherwise *)
Definition q_cmp (ci : Z -> Z -> bool) (cf : spec_float -> spec_float -> bool) (l r : qval) : outcome bool :=
  match l, r with
  | QNat a, QReal y => Ok (cf (d_of_nat a) y)
  | QInt a, QReal y => Ok (cf (d_of_int a) y)
  | QNat _, QNat _ | QNat _, QInt _ | QInt _, QNat _ | QInt _, QInt _ => Ok (ci (cmp_int (compare_whole l r)) 0%Z)
  | QReal x, QNat _ | QReal x, QInt _ => Ok (cf x (whole_to_real r))
  | QReal x, QReal y => Ok (cf x y)
  | _, _ => Err (EUnsupported 1)
  end.
Definition q_ge := q_cmp Z.geb f_ge.
Definition q_gt := q_cmp Z.gtb f_gt.
Definition q_le := q_cmp Z.leb f_le.
Definition q_lt := q_cmp Z.ltb f_lt.
Definition q_eq := q_cmp Z.eqb f_eq.

(* template operator>(0U): the truth test *)
Definition q_true (v : qval) : outcome bool :=
  match v with
  | QNat a => Ok (0 <? a)
  | QInt a => Ok (0 <? signed a)%Z
  | QReal x => Ok (f_gt x fzero)
  | _ => Err (EUnsupported 1)
  end.

(* ------------------------------------------------------------------ *)
(* numerals: the exact sub-language of Digit::StringToNumber the check uses
   (C09 owns the full scanner).  digits | -digits | [-]digits.digits |
   [-]digits[.digits](e|E)[+|-]digits, no leading zeros, at most 18 digits in
   the mantissa, decimal exponent magnitude at most 22. *)

Definition is_digit (c : N) : bool := (dg_Zero <=? c) && (c <=? dg_Nine).
Fixpoint take_digits (s : list N) (acc : N) (n : nat) : N * nat * list N :=
  match s with
  | c :: t => if is_digit c then take_digits t (acc * 10 + (c - dg_Zero)) (S n) else (acc, n, s)
  | [] => (acc, n, s)
  end.

(* Which strings are certainly NOT entirely a numeral.  StringToNumber only ever steps over
   digits, one leading sign, '.', 'e'/'E' with its sign, and -- after a 0x / 0X prefix -- hex
   digits; a text holding any other unit is therefore never consumed to its end and counts as
   text ("12abc", "3 apples", "7 ", " 7", "1.5x").  Shared by the model and the oracle. *)
Definition numeral_char (c : N) : bool :=
  is_digit c || (c =? dg_Negative) || (c =? dg_Positive) || (c =? dg_Dot) || (c =? dg_E) || (c =? dg_UE).
Definition hex_char (c : N) : bool :=
  is_digit c || ((dg_A <=? c) && (c <=? dg_F)) || ((dg_UA <=? c) && (c <=? dg_UF)).
Definition strip_sign (s : list N) : list N :=
  match s with c :: t => if (c =? dg_Negative) || (c =? dg_Positive) then t else s | [] => s end.
Definition hex_prefixed (s : list N) : bool :=
  match strip_sign s with
  | c0 :: c1 :: _ => (c0 =? dg_Zero) && ((c1 =? dg_X) || (c1 =? dg_UX))
  | _ => false
  end.
Definition plain_text (s : list N) : bool :=
  if hex_prefixed s then
    match strip_sign s with _ :: _ :: t => existsb (fun c => negb (hex_char c)) t | _ => false end
  else existsb (fun c => negb (numeral_char c)) s.

Inductive numres :=
| NumNat (n : N) | NumInt (b : N) | NumReal (f : spec_float)
| NotNum                   (* StringToNumber answers NotANumber, or does not consume the text *)
| NumUnsupported.

Definition pow10 (k : N) : Z := (10 ^ Z.of_N k)%Z.
(* value = (-1)^neg * m * 10^e10, computed by one correctly rounded operation
   on exactly representable operands *)
Definition real_of_dec (neg : bool) (m : N) (e10 : Z) : spec_float :=
  let x := if (0 <=? e10)%Z then d_of_Z (Z.of_N m * 10 ^ e10)
           else fdiv (d_of_Z (Z.of_N m)) (d_of_Z (10 ^ (- e10))) in
  if neg then fneg x else x.

Definition numeral (s : list N) : numres :=
  if plain_text s then NotNum else
  match s with
  | [] => NotNum
  | c0 :: t0 =>
    let neg := c0 =? dg_Negative in
    let body := if neg then t0 else s in
    match body with
    | [] => NumUnsupported
    | c1 :: _ =>
      if negb (is_digit c1) then
        (if neg || (c1 =? dg_Dot) || (c1 =? dg_Positive) then NumUnsupported else NotNum)
      else
        let '(ip, ni, r1) := take_digits body 0 0 in
        (* leading zero only for "0" itself: "00", "01" are not numbers ("Leading zero.") *)
        if (c1 =? dg_Zero) && negb (Nat.eqb ni 1) then NotNum
        else if Nat.ltb 18 ni then
          (* 19 or 20 digits: a Natural as long as it is below 2^64 (beyond that StringToNumber answers a real) *)
          (match r1 with
           | [] => if neg then (if Nat.eqb ni 19 && (ip <? two63) then NumInt (neg64 ip) else NumUnsupported)
                   else if Nat.leb ni 20 && (ip <? two64) then NumNat ip else NumUnsupported
           | _ => NumUnsupported
           end)
        else match r1 with
        | [] => if neg then (if ip =? 0 then NumUnsupported else NumInt (neg64 ip)) else NumNat ip
        | c2 :: r2 =>
          let '(m, nf, r3) :=
            if c2 =? dg_Dot then (let '(m, n, r) := take_digits r2 ip 0 in (m, n, r)) else (ip, O, r1) in
          if (c2 =? dg_Dot) && Nat.eqb nf 0 then
            (* "12." is the real 12; "12.e1" is outside the sub-language; "1..2", "1.-" are text *)
            match r3 with
            | [] => if neg && (ip =? 0) then NumUnsupported else NumReal (real_of_dec neg ip 0)
            | c3 :: _ => if (c3 =? dg_E) || (c3 =? dg_UE) then NumUnsupported else NotNum
            end
          else if Nat.ltb 18 (ni + nf) then NumUnsupported
          else match r3 with
          | [] => NumReal (real_of_dec neg m (- Z.of_nat nf))
          | c3 :: r4 =>
            if (c3 =? dg_E) || (c3 =? dg_UE) then
              let '(eneg, r5) := match r4 with
                                 | c4 :: r5 => if c4 =? dg_Negative then (true, r5)
                                               else if c4 =? dg_Positive then (false, r5) else (false, r4)
                                 | [] => (false, r4) end in
              let '(ex, ne, r6) := take_digits r5 0 0 in
              match r6 with
              | [] => if Nat.eqb ne 0 then NotNum          (* "5e", "5e+": no exponent digits *)
                      else if Nat.ltb 2 ne || (m =? 0) then NumUnsupported
                      else let e10 := ((if eneg then - Z.of_N ex else Z.of_N ex) - Z.of_nat nf)%Z in
                           if (e10 <? -22)%Z || (22 <? e10)%Z then NumUnsupported
                           else NumReal (real_of_dec neg m e10)
              | _ => NotNum                                (* "1e5e", "1e1.5": units left over *)
              end
            else NotNum                                    (* "1-2", "1.2.3": a sign or second dot is never consumed *)
          end
        end
    end
  end.

Definition qval_of_numres (r : numres) : outcome qval :=
  match r with
  | NumNat n => Ok (QNat n) | NumInt b => Ok (QInt b) | NumReal f => Ok (QReal f)
  | NotNum => NoValue | NumUnsupported => Err (EUnsupported 2)
  end.

(* ------------------------------------------------------------------ *)
(* the Value the template is rendered with: a flat object *)

Inductive vval :=
| EvNat (n : N) | EvInt (b : N) | EvReal (f : spec_float)
| EvStr (s : list N) | EvTrue | EvFalse | EvNull
| EvOther.                 (* array / object *)
Definition env := list (list N * vval).

Fixpoint list_eqb (a b : list N) : bool :=
  match a, b with
  | [], [] => true
  | x :: a', y :: b' => (x =? y) && list_eqb a' b'
  | _, _ => false
  end.
Fixpoint lookup (e : env) (name : list N) : option vval :=
  match e with
  | [] => None
  | (k, v) :: e' => if list_eqb k name then Some v else lookup e' name
  end.
(* getValue: names with [index] suffixes are outside the model *)
Definition get_value (e : env) (name : list N) : outcome (option vval) :=
  match rev name with
  | c :: _ => if c =? tp_VariableIndexSuffix then Err (EUnsupported 3) else Ok (lookup e name)
  | [] => Ok (lookup e name)
  end.

(* Value::SetNumber: NoValue stands for QNumberType::NotANumber *)
Definition set_number (v : vval) : outcome qval :=
  match v with
  | EvNat n => Ok (QNat n) | EvInt b => Ok (QInt b) | EvReal f => Ok (QReal f)
  | EvTrue => Ok (QNat 1) | EvFalse | EvNull => Ok (QNat 0)
  | EvStr s => qval_of_numres (numeral s)
  | EvOther => NoValue
  end.
(* Value::GetNumberType != NotANumber *)
Definition is_number_value (v : vval) : bool :=
  match v with EvNat _ | EvInt _ | EvReal _ => true | _ => false end.
(* Value::SetCharAndLength *)
Definition char_and_length (v : vval) : option (list N) :=
  match v with
  | EvStr s => Some s | EvTrue => Some jn_True | EvFalse => Some jn_False | EvNull => Some jn_Null
  | _ => None
  end.

(* one side of isEqual: a number, or a text with (for variables) the Value behind it *)
Inductive eq_side := SideNum (v : qval) | SideText (s : list N) (val : option vval).
Definition eq_classify (e : env) (x : qval) : outcome eq_side :=
  match x with
  | QNat _ | QInt _ | QReal _ => Ok (SideNum x)
  | QVar name =>
    bind (get_value e name) (fun ov =>
      match ov with
      | None => NoValue
      | Some v =>
        if is_number_value v then bind (set_number v) (fun n => Ok (SideNum n))
        else match char_and_length v with
             | Some s => Ok (SideText s (Some v))
             | None => NoValue
             end
      end)
  | QText s => Ok (SideText s None)
  end.
Definition eq_force_number (s : eq_side) : outcome qval :=
  match s with
  | SideNum v => Ok v
  | SideText _ (Some v) => set_number v
  | SideText _ None => NoValue
  end.
(* TemplateCore::isEqual; result: Natural 0/1 *)
Definition is_equal (e : env) (l r : qval) : outcome qval :=
  bind (eq_classify e l) (fun sl =>
  bind (eq_classify e r) (fun sr =>
    match sl, sr with
    | SideText a _, SideText b _ => Ok (of_bool (list_eqb a b))
    | _, _ =>
      bind (eq_force_number sl) (fun a =>
      bind (eq_force_number sr) (fun b =>
      bind (q_eq a b) (fun c => Ok (of_bool c))))
    end)).

(* TemplateCore::evaluateExpression *)
Definition apply_op (e : env) (op : N) (l r : qval) : outcome qval :=
  if op =? op_Exponent then q_pow l r
  else if op =? op_Remainder then q_rem l r
  else if op =? op_Multiplication then q_mul l r
  else if op =? op_Division then q_div l r
  else if op =? op_Addition then q_add l r
  else if op =? op_Subtraction then q_sub l r
  else if op =? op_BitwiseAnd then q_bit N.land l r
  else if op =? op_BitwiseOr then q_bit N.lor l r
  else if op =? op_Less then bind (q_lt l r) (fun b => Ok (of_bool b))
  else if op =? op_LessOrEqual then bind (q_le l r) (fun b => Ok (of_bool b))
  else if op =? op_Greater then bind (q_gt l r) (fun b => Ok (of_bool b))
  else if op =? op_GreaterOrEqual then bind (q_ge l r) (fun b => Ok (of_bool b))
  else if op =? op_And then bind (q_true l) (fun a => bind (q_true r) (fun b => Ok (of_bool (a && b))))
  else if op =? op_Or then bind (q_true l) (fun a => bind (q_true r) (fun b => Ok (of_bool (a || b))))
  else if op =? op_Equal then is_equal e l r
  else if op =? op_NotEqual then
    bind (is_equal e l r) (fun v => match v with QNat b => Ok (QNat (N.lxor b 1)) | _ => Ok v end)
  else Err (EUnsupported 4).   (* default: "It will not reach this." -- no such operator in a parsed list *)

(* ------------------------------------------------------------------ *)
(* the flat expression list: each item carries the operator that FOLLOWS it *)

Inductive operand :=
| ONum (v : qval)                       (* Natural / Integer / Real literal *)
| OText (s : list N)                    (* NotANumber: literal text *)
| OVar (name : list N)                  (* {var:name} *)
| OSub (l : list (operand * N)).        (* ( ... ) *)
Definition item : Type := operand * N.
Definition items := list item.

(* ---- TemplateCore::evaluate (with the D1 repair), generic in the value type
   so that the same text serves the model and the precedence proof ---- *)
Section Evaluate.
  Context {A : Type}.
  Variable leaf : N -> N -> operand -> outcome A.   (* GetExpressionValue: operation, item's own operator, operand *)
  Variable apply : N -> A -> A -> outcome A.        (* evaluateExpression *)
  Variable isnan : A -> bool.                       (* Type == NotANumber *)

  Fixpoint ev (fuel : nat) (l : items) (prev : N) {struct fuel} : outcome (A * items) :=
    match fuel with
    | O => Err EFuel
    | S f =>
      match l with
      | [] => Err EShape
      | (o, op) :: _ => bind (leaf op op o) (fun x => ev_loop f x l prev)
      end
    end
  with ev_loop (fuel : nat) (lhs : A) (cur : items) (prev : N) {struct fuel} : outcome (A * items) :=
    match fuel with
    | O => Err EFuel
    | S f =>
      match cur with
      | [] => Err EShape
      | (_, op) :: rest =>
        if op =? op_NoOp then (if isnan lhs then NoValue else Ok (lhs, cur))
        else match rest with
             | [] => Err EShape
             | (o2, op2) :: _ =>
               if op2 <=? op then
                 bind (leaf op op2 o2) (fun r =>
                 bind (apply op lhs r) (fun lhs' =>
                   if prev <? op2 then ev_loop f lhs' rest prev else Ok (lhs', rest)))
               else
                 bind (ev f rest op) (fun '(r, cur') =>
                 bind (apply op lhs r) (fun lhs' =>
                   match cur' with
                   | [] => Err EShape
                   | (_, opc) :: _ =>
                     (* findings/D1: re-test previous_oper after the recursive branch too *)
                     if prev <? opc then ev_loop f lhs' cur' prev else Ok (lhs', cur')
                   end))
             end
      end
    end.

  Definition ev_fuel (l : items) : nat := 2 * length l + 2.
  (* Evaluate(number, exprs, value): the value, or false *)
  Definition ev_top (l : items) : outcome A :=
    bind (ev (ev_fuel l) l op_NoOp) (fun '(v, _) => Ok v).
End Evaluate.

(* GetExpressionValue for everything but sub-expressions *)
Definition leaf_value (e : env) (sub : items -> outcome qval) (operation own : N) (o : operand) : outcome qval :=
  match o with
  | OSub l => sub l
  | OVar name =>
    if negb (operation =? op_Equal) && negb (operation =? op_NotEqual) then
      bind (get_value e name) (fun ov =>
        let lone := (operation =? op_NoOp) && (own =? op_NoOp) in
        let fallback (isstr : bool) : outcome qval := if lone then Ok (of_bool isstr) else NoValue in
        match ov with
        | Some v =>
          match set_number v with
          | Ok n => Ok n
          | NoValue => fallback (match v with EvStr (_ :: _) => true | _ => false end)
          | Err x => Err x
          end
        | None => fallback false
        end)
    else Ok (QVar name)
  | ONum v => Ok v
  | OText s => Ok (QText s)
  end.

(* the recursion through parentheses is on explicit depth fuel *)
Fixpoint eval_items (e : env) (depth : nat) (l : items) : outcome qval :=
  match depth with
  | O => Err EFuel
  | S d => ev_top (leaf_value e (eval_items e d)) (apply_op e) is_nan_type l
  end.

(* ------------------------------------------------------------------ *)
(* parser: getOperation / isExpression / parseValue / parseExpressions on a
   buffer of code units; offsets are N, reads outside the buffer are errors *)

Definition rd (c : list N) (i : N) : outcome N :=
  match nth_error c (N.to_nat i) with Some x => Ok x | None => Err (EOOB 1) end.
Definition slice (c : list N) (a b : N) : list N := firstn (N.to_nat (b - a)) (skipn (N.to_nat a) c).

(* isExpression: is the sign at [offset] a binary operator? *)
Fixpoint is_expression (c : list N) (offset : nat) : outcome bool :=
  match offset with
  | O => Ok false
  | S o' =>
    bind (rd c (N.of_nat o')) (fun ch =>
      if ch =? sym_Space then is_expression c o'
      else if (ch =? sym_ParenEnd) || (ch =? sym_BracketEnd) then Ok true
      else Ok (is_digit ch))
  end.

(* the two skipping loops of getOperation; they return the offset they stop at *)
Fixpoint skip_paren (fuel : nat) (c : list N) (offset e : N) (skip : N) : outcome N :=
  match fuel with
  | O => Err EFuel
  | S f =>
    if offset <? e then
      bind (rd c offset) (fun ch =>
        if ch =? sym_ParenEnd then (if skip =? 0 then Ok offset else skip_paren f c (offset + 1) e (skip - 1))
        else if ch =? sym_ParenStart then skip_paren f c (offset + 1) e (skip + 1)
        else skip_paren f c (offset + 1) e skip)
    else Ok offset
  end.
Fixpoint skip_brace (fuel : nat) (c : list N) (offset e : N) : outcome N :=
  match fuel with
  | O => Err EFuel
  | S f =>
    (* do { ++offset } while (offset < end && content[offset] != '}') *)
    let offset := offset + 1 in
    if offset <? e then bind (rd c offset) (fun ch => if ch =? sym_BracketEnd then Ok offset else skip_brace f c offset e)
    else Ok offset
  end.

(* getOperation: (operator, new offset) *)
Fixpoint get_operation (fuel : nat) (c : list N) (offset e : N) : outcome (N * N) :=
  match fuel with
  | O => Err EFuel
  | S f =>
    if offset <? e then
      bind (rd c offset) (fun ch =>
        (* fix 4703e54 (D80): the look-ahead stays inside the expression text *)
        let two (sym yes no : N) :=
          if offset + 1 <? e then bind (rd c (offset + 1)) (fun nx => Ok ((if nx =? sym then yes else no), offset))
          else Ok (no, offset) in
        if ch =? sym_Or then two sym_Or op_Or op_BitwiseOr
        else if ch =? sym_And then two sym_And op_And op_BitwiseAnd
        else if ch =? sym_Greater then two sym_Equal op_GreaterOrEqual op_Greater
        else if ch =? sym_Less then two sym_Equal op_LessOrEqual op_Less
        else if ch =? sym_Not then two sym_Equal op_NotEqual op_Error
        else if ch =? sym_Equal then two sym_Equal op_Equal op_Error
        else if ch =? sym_Subtract then
          bind (is_expression c (N.to_nat offset)) (fun b => if b then Ok (op_Subtraction, offset) else get_operation f c (offset + 1) e)
        else if ch =? sym_Add then
          bind (is_expression c (N.to_nat offset)) (fun b => if b then Ok (op_Addition, offset) else get_operation f c (offset + 1) e)
        else if ch =? sym_Divide then Ok (op_Division, offset)
        else if ch =? sym_Multiple then Ok (op_Multiplication, offset)
        else if ch =? sym_Remainder then Ok (op_Remainder, offset)
        else if ch =? sym_Exponent then Ok (op_Exponent, offset)
        else if ch =? sym_ParenStart then
          bind (skip_paren f c (offset + 1) e 0) (fun o2 =>
            if o2 <? e then get_operation f c o2 e else Ok (op_Error, o2))
        else if ch =? sym_BracketStart then
          bind (skip_brace f c offset e) (fun o2 =>
            if o2 <? e then get_operation f c o2 e else Ok (op_Error, e))
        else get_operation f c (offset + 1) e)
    else Ok (op_NoOp, offset)
  end.

Definition is_ws (ch : N) : bool := (ch =? ws_Space) || (ch =? ws_Line) || (ch =? ws_Tab) || (ch =? ws_Carriage).
Fixpoint trim_left (fuel : nat) (c : list N) (offset e : N) : outcome N :=
  match fuel with
  | O => Err EFuel
  | S f => if offset <? e then bind (rd c offset) (fun ch => if is_ws ch then trim_left f c (offset + 1) e else Ok offset)
           else Ok offset
  end.
Fixpoint trim_right (fuel : nat) (c : list N) (offset e : N) : outcome N :=
  match fuel with
  | O => Err EFuel
  | S f => if offset <? e then bind (rd c (e - 1)) (fun ch => if is_ws ch then trim_right f c offset (e - 1) else Ok e)
           else Ok e
  end.

(* parseExpressions / parseValue.  [pe_loop] is the while loop of
   parseExpressions; the list is kept reversed while it grows.  An empty result
   list is the C++'s "QExpressions{}" = failure. *)
Fixpoint parse_expressions (fuel : nat) (c : list N) (offset e : N) {struct fuel} : outcome items :=
  match fuel with
  | O => Err EFuel
  | S f => pe_loop f c offset e [] op_NoOp
  end
with pe_loop (fuel : nat) (c : list N) (offset e : N) (acc : items) (last_oper : N) {struct fuel} : outcome items :=
  match fuel with
  | O => Err EFuel
  | S f =>
    if offset <? e then
      bind (get_operation (S (length c)) c offset e) (fun '(oper, off2) =>
        if oper =? op_Error then Ok []      (* break with offset <= end_offset *)
        else
          bind (parse_value f c oper last_oper offset off2 acc) (fun res =>
            match res with
            | None => Ok []
            | Some acc' =>
              let off3 := off2 + 1 + (if oper <? op_Greater then 1 else 0) in
              pe_loop f c off3 e acc' oper
            end))
    else if e <? offset then Ok (rev acc) else Ok []
  end
with parse_value (fuel : nat) (c : list N) (oper last_oper : N) (offset e : N) (acc : items) {struct fuel}
  : outcome (option items) :=      (* None = parseValue returned false; Some acc' = true *)
  match fuel with
  | O => Err EFuel
  | S f =>
    bind (trim_left (S (length c)) c offset e) (fun offset =>
    bind (trim_right (S (length c)) c offset e) (fun e =>
      if offset <? e then
        bind (rd c offset) (fun ch =>
          if ch =? sym_ParenStart then
            let offset := offset + 1 in
            let e := e - 1 in
            bind (parse_expressions f c offset e) (fun sub =>
              if negb (last_oper =? oper) || negb (oper =? op_NoOp) then
                (match sub with [] => Ok None | _ => Ok (Some ((OSub sub, oper) :: acc)) end)
              else
                (* "The entire expression is inside (...)": exprs = parseExpressions(...) *)
                (match sub with [] => Ok None | _ => Ok (Some (rev sub)) end))
          else if ch =? sym_BracketStart then
            if tp_VariableFullLength <? (e - offset) then
              let e := e - tp_InLineSuffixLength in
              bind (rd c e) (fun lastc =>
                if lastc =? tp_InLineLastChar then
                  let offset := offset + tp_VariablePrefixLength in
                  let len := (e - offset) mod 65536 in      (* SizeT16 Length *)
                  Ok (Some ((OVar (slice c offset (offset + len)), oper) :: acc))
                else Ok None)
            else Ok None
          else
            match numeral (slice c offset e) with
            | NumNat n => Ok (Some ((ONum (QNat n), oper) :: acc))
            | NumInt b => Ok (Some ((ONum (QInt b), oper) :: acc))
            | NumReal x => Ok (Some ((ONum (QReal x), oper) :: acc))
            | NotNum =>
              if negb (last_oper =? op_Equal) && negb (last_oper =? op_NotEqual) &&
                 negb (oper =? op_Equal) && negb (oper =? op_NotEqual) then Ok None
              else Ok (Some ((OText (slice c offset e), oper) :: acc))
            | NumUnsupported => Err (EUnsupported 2)
            end)
      else Ok None))
  end.

Definition parse_fuel (c : list N) : nat := 3 * length c + 6.
(* TemplateCore::ParseExpressions(content, length) *)
Definition parse_top (c : list N) : outcome items :=
  parse_expressions (parse_fuel c) c 0 (N.of_nat (length c)).

(* ParseExpressions + Evaluate *)
Definition eval_depth (c : list N) : nat := S (length c).
Definition parse_eval (e : env) (c : list N) : outcome qval :=
  bind (parse_top c) (fun l =>
    match l with
    | [] => NoValue
    | _ => eval_items e (eval_depth c) l
    end).

(* ================================================================== *)
(* SPECIFICATION *)

(* expression trees over the operands of the flat list *)
Inductive tree :=
| Leaf (o : operand)
| Node (op : N) (l r : tree).

(* textbook precedence climbing, left associative, rank = operator value *)
Fixpoint std (fuel : nat) (l : items) (minp : N) {struct fuel} : option (tree * items) :=
  match fuel with
  | O => None
  | S f =>
    match l with
    | [] => None
    | (o, _) :: _ => climb f (Leaf o) l minp
    end
  end
with climb (fuel : nat) (lhs : tree) (cur : items) (minp : N) {struct fuel} : option (tree * items) :=
  match fuel with
  | O => None
  | S f =>
    match cur with
    | [] => None
    | (_, op) :: rest =>
      if (op =? op_NoOp) || (op <? minp) then Some (lhs, cur)
      else match std f rest (op + 1) with
           | None => None
           | Some (rhs, cur') => climb f (Node op lhs rhs) cur' minp
           end
    end
  end.
Definition std_tree (l : items) : option tree :=
  match std (ev_fuel l) l 1 with Some (t, _) => Some t | None => None end.

(* evaluation of a tree: an operand is read in the context of its parent's operator *)
Section TreeEval.
  Context {A : Type}.
  Variable sleaf : N -> operand -> outcome A.
  Variable apply : N -> A -> A -> outcome A.
  Variable isnan : A -> bool.
  Fixpoint tree_eval_ctx (ctx : N) (t : tree) : outcome A :=
    match t with
    | Leaf o => sleaf ctx o
    | Node op l r =>
      bind (tree_eval_ctx op l) (fun a => bind (tree_eval_ctx op r) (fun b => apply op a b))
    end.
  Definition tree_eval_top (t : tree) : outcome A :=
    bind (tree_eval_ctx op_NoOp t) (fun v => if isnan v then NoValue else Ok v).
End TreeEval.

(* the specification of Evaluate on a flat list: evaluate the precedence-climbing tree *)
Fixpoint spec_items (e : env) (depth : nat) (l : items) : outcome qval :=
  match depth with
  | O => Err EFuel
  | S d =>
    match std_tree l with
    | Some t => tree_eval_top (fun ctx o => leaf_value e (spec_items e d) ctx op_NoOp o) (apply_op e) is_nan_type t
    | None => Err EShape
    end
  end.

(* ------------------------------------------------------------------ *)
(* the documented precedence levels (Documentation/Template.md, "Evaluation Order") *)
Definition doc_level (op : N) : N :=
  if (op =? op_Exponent) || (op =? op_Remainder) then 6
  else if (op =? op_Multiplication) || (op =? op_Division) then 5
  else if (op =? op_Addition) || (op =? op_Subtraction) then 4
  else if (op =? op_BitwiseAnd) || (op =? op_BitwiseOr) then 3
  else if (op =? op_Equal) || (op =? op_NotEqual) || (op =? op_Less) || (op =? op_Greater)
          || (op =? op_LessOrEqual) || (op =? op_GreaterOrEqual) then 2
  else if (op =? op_And) || (op =? op_Or) then 1
  else 0.
Definition all_ops : list N :=
  [op_Or; op_And; op_Equal; op_NotEqual; op_GreaterOrEqual; op_LessOrEqual; op_Greater; op_Less;
   op_BitwiseOr; op_BitwiseAnd; op_Addition; op_Subtraction; op_Multiplication; op_Division;
   op_Remainder; op_Exponent].

(* ------------------------------------------------------------------ *)
(* ORACLE: exact evaluation of the GENERATED tree (independent of the flat
   list and of [std]).  Integers are Z, reals are exact fractions num/den. *)

Inductive sleafv :=
| SLNat (n : N) | SLInt (z : Z) | SLDec (num : Z) (den : positive)   (* literals *)
| SLText (s : list N) | SLVar (name : list N).
Inductive stree :=
| SLeaf (l : sleafv)
| SParen (t : stree)                   (* written parentheses (they force a lone variable to a number) *)
| SNode (op : N) (l r : stree).

Inductive sval :=
| SVInt (z : Z)
| SVReal (num : Z) (den : positive)
| SVText (s : list N) (val : option vval).     (* only as operand of == / != *)

Record sres := { sr_val : sval; sr_exact : bool }.   (* exact = every real intermediate is a binary64 value *)

Inductive souts := SOk (v : sval) (exact : bool) | SNoValue | SOutside (why : N).
(* SOutside: the property says nothing (1 = 64-bit overflow, 2 = text in arithmetic, 3 = numeral form,
   4 = non-integer operand of ^ with magnitude above 1 or zero to a negative power: see KNOWN_FINDINGS,
   5 = 0^0: the code answers 0; recorded, not judged) *)

Definition fits63 (z : Z) : bool := ((- Z.of_N two63 <? z) && (z <? Z.of_N two63))%Z.

Fixpoint pos_is_pow2 (p : positive) : bool := match p with xH => true | xO q => pos_is_pow2 q | xI _ => false end.
Definition zabs_bits (z : Z) : Z := Z.log2 (Z.abs z) + 1.
(* num/den (any representation) is a binary64 value of moderate exponent *)
Definition q_reduce (n : Z) (d : positive) : Z * positive :=
  let g := Z.gcd n (Zpos d) in
  match (Zpos d / g)%Z with Zpos d' => ((n / g)%Z, d') | _ => (n, d) end.
Definition strip2_fuel (n : Z) : nat := Z.to_nat (Z.log2 (Z.abs n) + 1).
Fixpoint strip2 (fuel : nat) (n : Z) : Z :=
  match fuel with O => n | S f => if Z.even n && negb (n =? 0)%Z then strip2 f (n / 2)%Z else n end.
Definition q_is_double (n : Z) (d : positive) : bool :=
  let '(n', d') := q_reduce n d in
  pos_is_pow2 d' && (zabs_bits (strip2 (strip2_fuel n') n') <=? 53)%Z && (Z.log2 (Zpos d') <? 1000)%Z
  && (zabs_bits n' <? 1000)%Z.

Definition mk_real (n : Z) (d : positive) (ex : bool) : souts :=
  let '(n', d') := q_reduce n d in SOk (SVReal n' d') (ex && q_is_double n' d').
Definition mk_int (z : Z) (ex : bool) : souts := if fits63 z then SOk (SVInt z) ex else SOutside 1.
(* a Natural operand (literal or Value): anywhere below 2^64.  Above 2^63 it is judged only as an
   operand of a comparison, of && / ||, of == / != or as the whole expression (see [s_arith]) *)
Definition mk_nat (n : N) : souts := if n <? two64 then SOk (SVInt (Z.of_N n)) true else SOutside 1.
Definition wide_int (v : sval) : bool := match v with SVInt z => negb (fits63 z) | _ => false end.

(* exact value of a binary64 *)
Definition q_of_sf (f : spec_float) : option (Z * positive) :=
  match f with
  | S754_zero _ => Some (0%Z, 1%positive)
  | S754_finite s m e =>
    let sm := if s then Zneg m else Zpos m in
    if (0 <=? e)%Z then Some ((sm * 2 ^ e)%Z, 1%positive)
    else match (2 ^ (- e))%Z with Zpos d => Some (sm, d) | _ => None end
  | _ => None
  end.

(* numeric value of a numeral text, exactly *)
Definition snumeral (s : list N) : option souts :=      (* None = not a numeral *)
  if plain_text s then None else
  match s with
  | [] => None
  | c0 :: t0 =>
    let neg := c0 =? dg_Negative in
    let body := if neg then t0 else s in
    match body with
    | [] => Some (SOutside 3)
    | c1 :: _ =>
      if negb (is_digit c1) then (if neg || (c1 =? dg_Dot) || (c1 =? dg_Positive) then Some (SOutside 3) else None)
      else
        let '(ip, ni, r1) := take_digits body 0 0 in
        let sg (z : Z) := if neg then (- z)%Z else z in
        if (c1 =? dg_Zero) && negb (Nat.eqb ni 1) then Some (SOutside 3) else
        match r1 with
        | [] => Some (if neg then mk_int (sg (Z.of_N ip)) true else mk_nat ip)
        | c2 :: r2 =>
          let '(m, nf, r3) := if c2 =? dg_Dot then (let '(m, n, r) := take_digits r2 ip 0 in (m, n, r)) else (ip, O, r1) in
          match r3 with
          | [] => match (10 ^ Z.of_nat nf)%Z with Zpos d => Some (mk_real (sg (Z.of_N m)) d true) | _ => Some (SOutside 3) end
          | c3 :: r4 =>
            if (c3 =? dg_E) || (c3 =? dg_UE) then
              let '(eneg, r5) := match r4 with
                                 | c4 :: r5 => if c4 =? dg_Negative then (true, r5)
                                               else if c4 =? dg_Positive then (false, r5) else (false, r4)
                                 | [] => (false, r4) end in
              let '(ex, ne, r6) := take_digits r5 0 0 in
              match r6 with
              | [] => let e10 := ((if eneg then - Z.of_N ex else Z.of_N ex) - Z.of_nat nf)%Z in
                      if Nat.eqb ne 0 then Some (SOutside 3) else
                      if (0 <=? e10)%Z then Some (mk_real (sg (Z.of_N m) * 10 ^ e10) 1 true)
                      else match (10 ^ (- e10))%Z with Zpos d => Some (mk_real (sg (Z.of_N m)) d true) | _ => Some (SOutside 3) end
              | _ => Some (SOutside 3)
              end
            else Some (SOutside 3)
          end
        end
    end
  end.

(* the numeric reading of a Value (numbers; true = 1, false = null = 0; numeric strings) *)
Definition snumber_of_value (v : vval) : souts :=
  match v with
  | EvNat n => mk_nat n
  | EvInt b => mk_int (signed b) true
  | EvReal f => match q_of_sf f with Some (n, d) => mk_real n d true | None => SOutside 1 end
  | EvTrue => SOk (SVInt 1) true
  | EvFalse | EvNull => SOk (SVInt 0) true
  | EvStr s => match snumeral s with Some r => r | None => SNoValue end
  | EvOther => SNoValue
  end.

Definition sbind (x : souts) (f : sval -> bool -> souts) : souts :=
  match x with SOk v ex => f v ex | SNoValue => SNoValue | SOutside w => SOutside w end.

(* a real as fraction; integers promote *)
Definition as_q (v : sval) : option (Z * positive) :=
  match v with SVInt z => Some (z, 1%positive) | SVReal n d => Some (n, d) | SVText _ _ => None end.
Definition is_real (v : sval) : bool := match v with SVReal _ _ => true | _ => false end.
Definition q_trunc (n : Z) (d : positive) : Z := Z.quot n (Zpos d).
Definition q_is_int (n : Z) (d : positive) : bool := (Z.rem n (Zpos d) =? 0)%Z.
Definition q_cmp_exact (a b : Z * positive) : comparison :=
  (fst a * Zpos (snd b) ?= fst b * Zpos (snd a))%Z.
Definition sbool (b : bool) (ex : bool) : souts := SOk (SVInt (if b then 1 else 0)%Z) ex.

(* integer view of a number for % & | : reals are truncated toward zero *)
Definition as_trunc (v : sval) : option Z :=
  match v with SVInt z => Some z | SVReal n d => Some (q_trunc n d) | SVText _ _ => None end.

Definition s_is_arith (op : N) : bool :=
  (op =? op_Addition) || (op =? op_Subtraction) || (op =? op_Multiplication) || (op =? op_Division) ||
  (op =? op_Remainder) || (op =? op_Exponent) || (op =? op_BitwiseAnd) || (op =? op_BitwiseOr).
Definition s_arith (op : N) (a b : sval) (ex : bool) : souts :=
  (* arithmetic on a Natural from 2^63 up is outside the property's no-overflow domain *)
  if s_is_arith op && (wide_int a || wide_int b) then SOutside 1 else
  match as_q a, as_q b with
  | Some (an, ad), Some (bn, bd) =>
    let real := is_real a || is_real b in
    if op =? op_Addition then
      (if real then mk_real (an * Zpos bd + bn * Zpos ad) (ad * bd) ex else mk_int (an + bn) ex)
    else if op =? op_Subtraction then
      (if real then mk_real (an * Zpos bd - bn * Zpos ad) (ad * bd) ex else mk_int (an - bn) ex)
    else if op =? op_Multiplication then
      (if real then mk_real (an * bn) (ad * bd) ex else mk_int (an * bn) ex)
    else if op =? op_Division then
      (match bn with
       | Z0 => SNoValue
       | Zpos p => mk_real (an * Zpos bd) (ad * p) ex
       | Zneg p => mk_real (- (an * Zpos bd)) (ad * p) ex
       end)
    else if op =? op_Remainder then
      (* the truncated operands may be any 64-bit integers, the minimum included: x % -1 = 0 also for
         a real that holds -2^63 (no trap) *)
      (let x := q_trunc an ad in let y := q_trunc bn bd in
       let fits64s (z : Z) := ((- Z.of_N two63 <=? z) && (z <? Z.of_N two63))%Z in
       if (y =? 0)%Z then SNoValue
       else if negb (fits64s x && fits64s y) then SOutside 1
       else mk_int (Z.rem x y) ex)
    else if op =? op_Exponent then
      (* both operands integer valued; a negative exponent gives the reciprocal *)
      (if negb (q_is_int bn bd) then
         (if (Z.abs bn <? Zpos bd)%Z then SNoValue else SOutside 4)
       else if negb (q_is_int an ad) then
         (if (Z.abs an <? Zpos ad)%Z then SNoValue else SOutside 4)
       else
         let x := q_trunc an ad in let n := q_trunc bn bd in
         if negb (fits63 x && fits63 n) then SOutside 1
         else if (x =? 0)%Z then (if (n <? 0)%Z then SOutside 4 else if (n =? 0)%Z then SOutside 5 else mk_int 0 ex)
         else if (Z.abs x =? 1)%Z then
           (let r := if (x =? 1)%Z || Z.even n then 1%Z else (-1)%Z in
            if (n <? 0)%Z then mk_real r 1 ex else mk_int r ex)
         else if (64 <? Z.abs n)%Z then SOutside 1
         else if (0 <=? n)%Z then mk_int (x ^ n) ex
         else (let p := (x ^ (- n))%Z in
               if negb (fits63 p) then SOutside 1
               else match p with
                    | Zpos d => mk_real 1 d ex
                    | Zneg d => mk_real (-1) d ex
                    | Z0 => SOutside 1
                    end))
    else if (op =? op_BitwiseAnd) || (op =? op_BitwiseOr) then
      (let x := q_trunc an ad in let y := q_trunc bn bd in
       if negb (fits63 x && fits63 y) then SOutside 1
       else mk_int (if op =? op_BitwiseAnd then Z.land x y else Z.lor x y) ex)
    else
      let c := q_cmp_exact (an, ad) (bn, bd) in
      if op =? op_Less then sbool (match c with Lt => true | _ => false end) ex
      else if op =? op_LessOrEqual then sbool (match c with Gt => false | _ => true end) ex
      else if op =? op_Greater then sbool (match c with Gt => true | _ => false end) ex
      else if op =? op_GreaterOrEqual then sbool (match c with Lt => false | _ => true end) ex
      else if op =? op_And then sbool ((0 <? an)%Z && (0 <? bn)%Z) ex
      else if op =? op_Or then sbool ((0 <? an)%Z || (0 <? bn)%Z) ex
      else SOutside 2
  | _, _ => SOutside 2
  end.

(* == / != : numeric when either side is a number, textual when neither is *)
Definition s_force (v : sval) (ex : bool) : souts :=
  match v with
  | SVText _ (Some val) => sbind (snumber_of_value val) (fun n e2 => SOk n (ex && e2))
  | SVText _ None => SNoValue
  | _ => SOk v ex
  end.
Definition s_equal (neq : bool) (a b : sval) (ex : bool) : souts :=
  match a, b with
  | SVText x _, SVText y _ => sbool (xorb neq (list_eqb x y)) ex
  | _, _ =>
    sbind (s_force a ex) (fun a' e1 => sbind (s_force b e1) (fun b' e2 =>
      match as_q a', as_q b' with
      | Some qa, Some qb => sbool (xorb neq (match q_cmp_exact qa qb with Eq => true | _ => false end)) e2
      | _, _ => SOutside 2
      end))
  end.

(* an operand in the context of its parent operator ([ctx] = NoOp: it is the whole (sub)expression) *)
Definition s_leaf (e : env) (ctx : N) (l : sleafv) : souts :=
  match l with
  | SLNat n => mk_nat n
  | SLInt z => mk_int z true
  | SLDec n d => mk_real n d true
  | SLText s => if (ctx =? op_Equal) || (ctx =? op_NotEqual) then SOk (SVText s None) true else SOutside 2
  | SLVar name =>
    match lookup e name with
    | Some v =>
      if (ctx =? op_Equal) || (ctx =? op_NotEqual) then
        (if is_number_value v then snumber_of_value v
         else match char_and_length v with
              | Some s => SOk (SVText s (Some v)) true
              | None => SNoValue
              end)
      else match snumber_of_value v with
           | SNoValue => if ctx =? op_NoOp then sbool (match v with EvStr (_ :: _) => true | _ => false end) true
                         else SNoValue
           | r => r
           end
    | None => if (ctx =? op_Equal) || (ctx =? op_NotEqual) then SNoValue
              else if ctx =? op_NoOp then sbool false true else SNoValue
    end
  end.

Fixpoint spec_ctx (e : env) (ctx : N) (t : stree) : souts :=
  match t with
  | SLeaf l => s_leaf e ctx l
  | SParen t' =>
    (* a parenthesised group is a complete expression: its value must be a number *)
    sbind (spec_ctx e op_NoOp t') (fun v ex => match v with SVText _ _ => SNoValue | _ => SOk v ex end)
  | SNode op l r =>
    sbind (spec_ctx e op l) (fun a e1 =>
    sbind (spec_ctx e op r) (fun b e2 =>
      if op =? op_Equal then s_equal false a b (e1 && e2)
      else if op =? op_NotEqual then s_equal true a b (e1 && e2)
      else s_arith op a b (e1 && e2)))
  end.
Definition spec_eval (e : env) (t : stree) : souts :=
  sbind (spec_ctx e op_NoOp t) (fun v ex => match v with SVText _ _ => SNoValue | _ => SOk v ex end).

(* the oracle's verdict on an implementation result.
   impl: 0 = no value; 1 = Natural n; 2 = Integer (signed z); 3 = Real m * 2^e (sign in m).
   Exact results must be met exactly; a real result with inexact intermediates
   within relative 2^-40; outside the property's domain anything is accepted. *)
Inductive iresult := INone | INat (n : N) | IInt (z : Z) | IReal (m : Z) (e : Z) | IRealSpecial.
Definition q_of_me (m e : Z) : Z * Z :=
  if (0 <=? e)%Z then ((m * 2 ^ e)%Z, 1%Z) else (m, (2 ^ (- e))%Z).
Definition c04_oracle (e : env) (t : stree) (i : iresult) : bool :=
  match spec_eval e t with
  | SOutside _ => true
  | SNoValue => match i with INone => true | _ => false end
  | SOk (SVInt z) _ =>
    match i with INat n => (Z.of_N n =? z)%Z | IInt z' => (z' =? z)%Z | _ => false end
  | SOk (SVReal n d) ex =>
    match i with
    | IReal m ex2 =>
      let '(a, b) := q_of_me m ex2 in        (* impl = a/b, spec = n/d *)
      if ex then (a * Zpos d =? n * b)%Z
      else (Z.abs (a * Zpos d - n * b) * 2 ^ 40 <=? Z.abs n * b)%Z
    | IRealSpecial => negb ex
    | _ => false
    end
  | SOk (SVText _ _) _ => false
  end.

(* truth ("greater than zero") of a specified value, for the rendered {if} / <if> observables *)
Definition spec_truth (v : sval) : bool :=
  match v with SVInt z => (0 <? z)%Z | SVReal n _ => (0 <? n)%Z | SVText _ _ => false end.

(* m * 2^e as a canonical binary64 (used by the drivers to build Value reals) *)
Definition sf_of_me (m e : Z) : spec_float := binary_normalize fprec femax m e false.
