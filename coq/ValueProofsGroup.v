(* ValueProofsGroup.v -- C18: the grouping loop computes the partition by key. *)
From Coq Require Import NArith ZArith List Bool Lia.
From Qv Require Import gen.Tables_value ValueModel.
Import ListNotations.

Lemma str_eqb_eq : forall a b, str_eqb a b = true <-> a = b.
Proof.
  induction a as [|x a IH]; intros [|y b]; cbn; split; intros H; try discriminate; try reflexivity.
  - apply andb_true_iff in H as [H1 H2]. apply N.eqb_eq in H1. apply IH in H2. subst. reflexivity.
  - injection H as H1 H2. subst. rewrite N.eqb_refl. apply IH. reflexivity.
Qed.
Lemma str_eqb_refl : forall a, str_eqb a a = true.
Proof. intros a. apply str_eqb_eq. reflexivity. Qed.
Lemma str_eqb_sym : forall a b, str_eqb a b = str_eqb b a.
Proof.
  intros a b. destruct (str_eqb a b) eqn:E.
  - apply str_eqb_eq in E. subst. symmetry. apply str_eqb_refl.
  - destruct (str_eqb b a) eqn:E2; [|reflexivity]. apply str_eqb_eq in E2. subst. rewrite str_eqb_refl in E. discriminate.
Qed.

Lemma mem_In : forall n l, existsb (str_eqb n) l = true <-> In n l.
Proof.
  intros n l. rewrite existsb_exists. split.
  - intros [x [Hx E]]. apply str_eqb_eq in E. subst. exact Hx.
  - intros H. exists n. split; [exact H|apply str_eqb_refl].
Qed.

Definition name_step (acc : list str) (n : str) : list str :=
  if existsb (str_eqb n) acc then acc else acc ++ [n].

Lemma names_snoc : forall l n, names_in_order (l ++ [n]) = name_step (names_in_order l) n.
Proof. intros l n. unfold names_in_order. rewrite fold_left_app. reflexivity. Qed.

Lemma names_mem : forall n l, existsb (str_eqb n) (names_in_order l) = existsb (str_eqb n) l.
Proof.
  intros n l. induction l as [|x l IH] using rev_ind; [reflexivity|].
  rewrite names_snoc, existsb_app. unfold name_step.
  destruct (existsb (str_eqb x) (names_in_order l)) eqn:E.
  - rewrite IH. cbn [existsb]. rewrite orb_false_r.
    destruct (str_eqb n x) eqn:Enx; [|rewrite orb_false_r; reflexivity].
    apply str_eqb_eq in Enx. subst. rewrite <- IH, E. reflexivity.
  - rewrite existsb_app, IH. reflexivity.
Qed.

Lemma nodup_snoc : forall (a : list str) n, NoDup a -> ~ In n a -> NoDup (a ++ [n]).
Proof.
  induction a as [|x a IH]; intros n Hnd Hn; [constructor; [intros []|constructor]|].
  inversion Hnd as [|? ? Hx Ha]; subst. cbn [app]. constructor.
  - intros H. apply in_app_or in H as [H|[H|[]]]; [contradiction|]. subst. apply Hn. left. reflexivity.
  - apply IH; [exact Ha|]. intros H. apply Hn. right. exact H.
Qed.

Lemma names_nodup : forall l, NoDup (names_in_order l).
Proof.
  induction l as [|x l IH] using rev_ind; [constructor|].
  rewrite names_snoc. unfold name_step. destruct (existsb (str_eqb x) (names_in_order l)) eqn:E; [exact IH|].
  apply nodup_snoc; [exact IH|]. intros H. apply mem_In in H. rewrite H in E. discriminate.
Qed.

Section Put.
  Variable n : str.
  Variable F : option doc -> doc.
  Variable G : str -> str * doc.
  Hypothesis HG : forall nm, fst (G nm) = nm.

  Lemma put_fresh : forall L, existsb (str_eqb n) L = false ->
      m_put n F (map G L) = map G L ++ [(n, F None)].
  Proof.
    induction L as [|x L IH]; intros H; [reflexivity|].
    cbn [existsb] in H. apply orb_false_iff in H as [H1 H2].
    cbn [map m_put]. destruct (G x) as [k d] eqn:E. pose proof (HG x) as Hk. rewrite E in Hk. cbn in Hk. subst k.
    rewrite H1, (IH H2). reflexivity.
  Qed.

  Lemma put_present : forall L, NoDup L -> existsb (str_eqb n) L = true ->
      m_put n F (map G L)
      = map (fun nm => if str_eqb n nm then (nm, F (Some (snd (G nm)))) else G nm) L.
  Proof.
    induction L as [|x L IH]; intros Hnd H; [discriminate|].
    inversion Hnd as [|? ? Hx HL]; subst.
    cbn [map m_put]. destruct (G x) as [k d] eqn:E. pose proof (HG x) as Hk. rewrite E in Hk. cbn in Hk. subst k.
    destruct (str_eqb n x) eqn:Enx.
    - cbn [snd]. f_equal. apply map_ext_in. intros y Hy.
      destruct (str_eqb n y) eqn:Eny; [|reflexivity].
      apply str_eqb_eq in Enx, Eny. subst. contradiction.
    - cbn [existsb] in H. rewrite Enx in H. cbn in H. rewrite (IH HL H). reflexivity.
  Qed.
End Put.

(* the loop on (name, record-without-key) pairs, and the partition *)
Definition mk (nr : str * members) : doc := DObj false (snd nr).
Definition gstep (a : members) (nr : str * members) : members :=
  m_put (fst nr) (fun old => d_append (match old with Some o => o | None => DUndef end) (mk nr)) a.
Definition part (t : list (str * members)) : members :=
  map (fun nm => (nm, DArr (map mk (filter (fun nr => str_eqb nm (fst nr)) t))))
      (names_in_order (map fst t)).

Lemma filter_none : forall n (t : list (str * members)),
    existsb (str_eqb n) (map fst t) = false -> filter (fun nr => str_eqb n (fst nr)) t = [].
Proof.
  induction t as [|x t IH]; intros H; [reflexivity|].
  cbn [map existsb] in H. apply orb_false_iff in H as [H1 H2]. cbn [filter]. rewrite H1. apply IH. exact H2.
Qed.

Theorem loop_is_partition : forall t, fold_left gstep t [] = part t.
Proof.
  induction t as [|[n s] t IH] using rev_ind; [reflexivity|].
  rewrite fold_left_app. cbn [fold_left]. rewrite IH. unfold gstep at 1. cbn [fst].
  unfold part. rewrite map_app. cbn [map fst]. rewrite names_snoc. unfold name_step.
  set (G := fun nm => (nm, DArr (map mk (filter (fun nr : str * members => str_eqb nm (fst nr)) t)))).
  set (F := fun old : option doc => d_append (match old with Some o => o | None => DUndef end) (mk (n, s))).
  assert (HG : forall nm, fst (G nm) = nm) by reflexivity.
  assert (Hsame : forall nm, str_eqb nm n = false ->
            (nm, DArr (map mk (filter (fun nr : str * members => str_eqb nm (fst nr)) (t ++ [(n, s)])))) = G nm).
  { intros nm E. unfold G. rewrite filter_app. cbn [filter fst]. rewrite E, app_nil_r. reflexivity. }
  destruct (existsb (str_eqb n) (names_in_order (map fst t))) eqn:E.
  - rewrite (put_present n F G HG _ (names_nodup _) E). apply map_ext. intros nm.
    destruct (str_eqb n nm) eqn:Enm.
    + apply str_eqb_eq in Enm. subst nm. unfold G, F. cbn [snd]. rewrite filter_app. cbn [filter fst].
      rewrite str_eqb_refl, map_app. reflexivity.
    + symmetry. apply Hsame. rewrite str_eqb_sym. exact Enm.
  - rewrite (put_fresh n F G HG _ E), map_app. cbn [map]. f_equal.
    + apply map_ext_in. intros nm Hin. symmetry. apply Hsame.
      destruct (str_eqb nm n) eqn:Enm; [|reflexivity]. apply str_eqb_eq in Enm. subst nm.
      apply mem_In in Hin. rewrite Hin in E. discriminate.
    + rewrite filter_app. cbn [filter fst]. rewrite str_eqb_refl.
      rewrite names_mem in E. rewrite (filter_none n t E). reflexivity.
Qed.

(* the record as the loop rebuilds it: every member except the (first) grouping
   key and the removed ones, copied *)
Definition rec_sub (k : str) (r : doc) : members := d_sub_object_first k (d_members r) [] false.

Lemma loop_fold : forall k recs names,
    all_some (map (record_name k) recs) = Some names ->
    forall acc, d_group_loop k recs acc
                = (true, fold_left gstep (combine names (map (rec_sub k) recs)) acc).
Proof.
  intros k recs. induction recs as [|e r IH]; intros names H acc.
  - cbn in H. injection H as H. subst. reflexivity.
  - cbn [map all_some] in H. destruct (record_name k e) as [nm|] eqn:En; [|discriminate].
    destruct (all_some (map (record_name k) r)) as [ns|] eqn:Er; [|discriminate].
    cbn [option_map] in H. injection H as H. subst names.
    cbn [d_group_loop map combine fold_left].
    destruct e as [| |s|l|b m]; try discriminate. cbn [record_name] in En. cbn [d_group_step].
    destruct (m_find k m) as [kv|]; [|discriminate]. rewrite En.
    rewrite (IH ns eq_refl). reflexivity.
Qed.

(* C18, main statement on documents: grouping a non-empty array of records that
   all carry the key with a textual value succeeds, and the result holds, for
   each distinct name in order of first appearance, the records with that name
   in input order (each rebuilt without the grouping key) *)
Theorem group_by_is_partition : forall k recs names,
    recs <> [] ->
    all_some (map (record_name k) recs) = Some names ->
    d_group_by (DArr recs) k
    = (true, Some (DObj false (part (combine names (map (rec_sub k) recs))))).
Proof.
  intros k recs names Hne H. unfold d_group_by. cbn [d_deref].
  destruct recs as [|e r]; [contradiction|].
  rewrite (loop_fold k (e :: r) names H []), loop_is_partition. reflexivity.
Qed.

(* every input record lands in exactly one group: the groups' sizes add up *)
Lemma all_some_length : forall A (l : list (option A)) r, all_some l = Some r -> length r = length l.
Proof.
  induction l as [|[x|] l IH]; intros r H; cbn in H; try discriminate.
  - injection H as H. subst. reflexivity.
  - destruct (all_some l) as [r'|]; [|discriminate]. cbn in H. injection H as H. subst. cbn. f_equal. apply IH. reflexivity.
Qed.

Local Open Scope N_scope.
Example group_example :
  d_group_by (DArr [DObj false [([121], DSc (SUInt 1)); ([109], DSc (SUInt 2))];
                    DObj true [([109], DSc (SUInt 5)); ([121], DSc (SStr [49]))]]) [121]
  = (true, Some (DObj false [([49], DArr [DObj false [([109], DSc (SUInt 2))]; DObj false [([109], DSc (SUInt 5))]])])).
Proof. reflexivity. Qed.

(* ---- with unique keys the rebuilt record is the record with the key erased ---- *)
Lemma m_put_fresh : forall k f acc, ~ In k (map fst acc) -> m_put k f acc = acc ++ [(k, f None)].
Proof.
  induction acc as [|[k' x] r IH]; intros H; [reflexivity|].
  cbn [m_put]. destruct (str_eqb k k') eqn:E.
  - apply str_eqb_eq in E. subst. exfalso. apply H. left. reflexivity.
  - cbn [app]. f_equal. apply IH. intros Hin. apply H. right. exact Hin.
Qed.

Definition keep_member (k : str) (kv : str * doc) : bool :=
  negb (str_eqb k (fst kv)) && d_not_undef (snd kv).

Lemma sub_first_spec : forall k m acc seen,
    NoDup (map fst m) ->
    (forall x, In x (map fst m) -> ~ In x (map fst acc)) ->
    (seen = true -> ~ In k (map fst m)) ->
    d_sub_object_first k m acc seen = acc ++ d_copy_members (filter (keep_member k) m).
Proof.
  intros k m. induction m as [|[k' x] r IH]; intros acc seen Hnd Hdis Hseen.
  - cbn. rewrite app_nil_r. reflexivity.
  - cbn [map fst] in Hnd. inversion Hnd as [|? ? Hk' Hr]; subst.
    cbn [d_sub_object_first filter]. unfold keep_member at 1. cbn [fst snd].
    destruct (negb seen && str_eqb k k') eqn:E.
    + apply andb_true_iff in E as [E1 E2]. rewrite E2. cbn [negb andb].
      apply str_eqb_eq in E2. subst k'. apply IH; [exact Hr| |intros _; exact Hk'].
      intros y Hy. apply Hdis. right. exact Hy.
    + assert (Ek : str_eqb k k' = false).
      { destruct (str_eqb k k') eqn:Ek; [|reflexivity]. destruct seen; [|discriminate].
        apply str_eqb_eq in Ek. subst. exfalso. apply (Hseen eq_refl). left. reflexivity. }
      rewrite Ek. cbn [negb andb]. unfold d_not_undef.
      assert (Hs : seen = true -> ~ In k (map fst r)).
      { intros Hst Hin. apply (Hseen Hst). right. exact Hin. }
      destruct (d_is_undef x) eqn:Eu; cbn [negb].
      * apply IH; [exact Hr| |exact Hs]. intros y Hy. apply Hdis. right. exact Hy.
      * rewrite m_put_fresh by (apply Hdis; left; reflexivity).
        rewrite IH; [| exact Hr | | exact Hs].
        -- unfold d_copy_members. cbn [map fst snd]. rewrite <- app_assoc. reflexivity.
        -- intros y Hy. rewrite map_app. cbn [map fst]. intros Hin. apply in_app_or in Hin as [Hin|[Hin|[]]].
           ++ apply (Hdis y); [right; exact Hy|exact Hin].
           ++ subst. contradiction.
Qed.

Theorem rec_sub_is_erase_key : forall k r,
    NoDup (map fst (d_members r)) -> rec_sub k r = erase_key k (d_members r).
Proof.
  intros k r Hnd. unfold rec_sub, erase_key.
  rewrite (sub_first_spec k (d_members r) [] false Hnd); [reflexivity| |discriminate].
  intros x _ [].
Qed.

(* C18 in its declarative form: with unique member keys in every record the
   result of GroupBy is partition_by_key *)
Lemma combine_map_r : forall A B C (f : B -> C) (l1 : list A) (l2 : list B),
    combine l1 (map f l2) = map (fun p => (fst p, f (snd p))) (combine l1 l2).
Proof.
  induction l1 as [|a l1 IH]; intros [|b l2]; try reflexivity. cbn. f_equal. apply IH.
Qed.

Lemma map_fst_combine : forall A B (l1 : list A) (l2 : list B),
    length l1 = length l2 -> map fst (combine l1 l2) = l1.
Proof.
  induction l1 as [|a l1 IH]; intros [|b l2] H; try discriminate; [reflexivity|].
  cbn. f_equal. apply IH. injection H as H. exact H.
Qed.

Theorem group_by_is_partition_by_key : forall k recs,
    Forall (fun r => NoDup (map fst (d_members r))) recs ->
    forall g, partition_by_key recs k = Some g ->
    d_group_by (DArr recs) k = (true, Some g).
Proof.
  intros k recs Hu g Hp. unfold partition_by_key in Hp.
  destruct recs as [|e r] eqn:Er; [discriminate|]. rewrite <- Er in *.
  destruct (all_some (map (record_name k) recs)) as [names|] eqn:Hn; [|discriminate].
  injection Hp as Hp. subst g.
  rewrite (group_by_is_partition k recs names); [|rewrite Er; discriminate|exact Hn].
  f_equal. f_equal. f_equal. unfold part.
  assert (Hlen : length names = length recs).
  { rewrite (all_some_length _ _ _ Hn), map_length. reflexivity. }
  rewrite map_fst_combine by (rewrite map_length; exact Hlen).
  apply map_ext. intros nm. f_equal. f_equal.
  rewrite combine_map_r.
  assert (Hall : Forall (fun p => rec_sub k (snd p) = erase_key k (d_members (snd p))) (combine names recs)).
  { apply Forall_forall. intros [n0 r0] Hin. apply in_combine_r in Hin.
    rewrite Forall_forall in Hu. apply rec_sub_is_erase_key. apply Hu. exact Hin. }
  clear Hlen Hn. induction (combine names recs) as [|[n0 r0] t IH]; [reflexivity|].
  inversion Hall as [|? ? H0 Ht]; subst. cbn [map filter fst snd].
  destruct (str_eqb nm n0); cbn [map]; [|apply IH; exact Ht].
  unfold mk at 1. cbn [snd fst] in *. rewrite H0. f_equal. apply IH. exact Ht.
Qed.

(* ---- every record lands in exactly one group ---- *)
Lemma list_sum_cons : forall a l, list_sum (a :: l) = (a + list_sum l)%nat.
Proof. reflexivity. Qed.
Lemma indicator_sum : forall (L : list str) n, NoDup L -> In n L ->
    list_sum (map (fun nm => if str_eqb nm n then 1 else 0)%nat L) = 1%nat.
Proof.
  induction L as [|x L IH]; intros n Hnd Hin; [contradiction|].
  inversion Hnd as [|? ? Hx HL]; subst. cbn [map]; rewrite ?list_sum_cons.
  destruct (str_eqb x n) eqn:E.
  - apply str_eqb_eq in E. subst x.
    assert (Hz : list_sum (map (fun nm => if str_eqb nm n then 1 else 0)%nat L) = 0%nat).
    { clear IH Hin HL Hnd. induction L as [|y L IHL]; [reflexivity|]. cbn [map]; rewrite ?list_sum_cons.
      destruct (str_eqb y n) eqn:Ey.
      - apply str_eqb_eq in Ey. subst. exfalso. apply Hx. left. reflexivity.
      - apply IHL. intros H. apply Hx. right. exact H. }
    rewrite Hz. reflexivity.
  - destruct Hin as [Hin|Hin]; [subst; rewrite str_eqb_refl in E; discriminate|].
    rewrite (IH n HL Hin). reflexivity.
Qed.

Lemma group_sizes_sum : forall (L : list str) (t : list (str * members)),
    NoDup L -> (forall nr, In nr t -> In (fst nr) L) ->
    list_sum (map (fun nm => length (filter (fun nr => str_eqb nm (fst nr)) t)) L) = length t.
Proof.
  intros L t Hnd. induction t as [|[n s] t IH]; intros Hcov.
  - cbn [filter length]. clear Hcov Hnd. induction L as [|x L IHL]; [reflexivity|]. cbn [map]. rewrite list_sum_cons, IHL. reflexivity.
  - assert (Hsplit : forall L0,
        list_sum (map (fun nm => length (filter (fun nr : str * members => str_eqb nm (fst nr)) ((n, s) :: t))) L0)
        = (list_sum (map (fun nm => if str_eqb nm n then 1 else 0)%nat L0)
           + list_sum (map (fun nm => length (filter (fun nr : str * members => str_eqb nm (fst nr)) t)) L0))%nat).
    { induction L0 as [|x L0 IHL0]; [reflexivity|]. cbn [map]. rewrite !list_sum_cons, IHL0. cbn [filter fst].
      destruct (str_eqb x n); cbn [length]; lia. }
    rewrite Hsplit, IH by (intros nr H; apply Hcov; right; exact H).
    rewrite (indicator_sum L n Hnd) by (apply (Hcov (n, s)); left; reflexivity). reflexivity.
Qed.

Theorem each_record_in_exactly_one_group : forall t,
    list_sum (map (fun g => length (d_items (snd g))) (part t)) = length t.
Proof.
  intros t. unfold part. rewrite map_map. cbn [snd d_items].
  rewrite <- (group_sizes_sum (names_in_order (map fst t)) t (names_nodup _)).
  - apply f_equal. apply map_ext. intros nm. rewrite map_length. reflexivity.
  - intros nr Hin. apply mem_In. rewrite names_mem. apply mem_In. apply in_map. exact Hin.
Qed.
