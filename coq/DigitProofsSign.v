(* DigitProofsSign.v -- C09: the bare "0" numeral, the sign on every path, and the
   syntactic class of numerals above the largest finite double that is rejected. *)
From Coq Require Import NArith ZArith List Bool Lia ZifyBool ZifyN ZifyNat.
From Qv Require Import gen.Tables_digit DigitModel DigitProofsInt DigitProofsParse.
Import ListNotations.
Local Open Scope N_scope.

(* ---- the bare zero ---- *)
Theorem stn_body_zero : forall is_neg off0 rest endo,
  delim rest -> match rest with c :: _ => c <> ch_x /\ c <> ch_ux | [] => True end ->
  endo = off0 + 1 + len rest ->
  stn_body is_neg off0 (ch_zero :: rest) endo = Ok (int_result is_neg 0 (off0 + 1)).
Proof.
  intros is_neg off0 rest endo Hr Hx He. unfold stn_body.
  change (is_nz_digit ch_zero) with false. cbn [orb]. rewrite N.eqb_refl. cbn [orb andb].
  destruct rest as [|c r].
  - cbn [length] in He. change (N.of_nat 0) with 0 in He. rewrite N.add_0_r in He. subst endo.
    rewrite N.ltb_irrefl. cbv iota. change (ch_zero =? ch_dot) with false. cbv iota. cbn [bind].
    replace (off0 + 1 - off0) with 1 by lia. change (1 <? 19) with true. cbv iota.
    destruct (N.to_nat (off0 + 1)) as [|f] eqn:Ef; [lia|].
    cbn [main_loop s_rest s_off s_num s_digit s_hasdot s_dot s_isreal scan_window].
    assert (E : (off0 <? off0 + 1) = true) by (apply N.ltb_lt; lia). rewrite E.
    change (is_digit ch_zero) with true. cbv iota.
    change (ch_zero =? ch_dot) with false. cbv iota.
    change (m64 (0 * 10 + ch_zero - ch_zero)) with 0.
    apply stn_after_int; [exact I|vm_compute; reflexivity|intros _; vm_compute; discriminate].
  - destruct Hr as [Hc [Hdot [Hee Hue]]]. destruct Hx as [Hx Hux].
    assert (E : (off0 + 1 <? endo) = true) by (apply N.ltb_lt; cbn [length] in He; lia). rewrite E.
    apply N.eqb_neq in Hx. apply N.eqb_neq in Hux. rewrite Hx, Hux, Hc. cbn [orb]. cbv iota.
    assert (Ed : (c =? ch_dot) = false) by (apply N.eqb_neq; exact Hdot). rewrite Ed. cbn [bind].
    destruct (N.to_nat endo) as [|f] eqn:Ef; [cbn [length] in He; lia|].
    cbn [main_loop s_rest s_off s_num s_digit s_hasdot s_dot s_isreal scan_window].
    rewrite Hc.
    match goal with |- context [if ?b then (c :: r, ?o, ?n, c) else (c :: r, ?o, ?n, c)] =>
      replace (if b then (c :: r, o, n, c) else (c :: r, o, n, c)) with (c :: r, o, n, c) by (destruct b; reflexivity) end.
    rewrite Ed.
    apply stn_after_int; [cbn; auto|vm_compute; reflexivity|intros _; vm_compute; discriminate].
Qed.

Theorem stn_zero : forall rest,
  delim rest -> match rest with c :: _ => c <> ch_x /\ c <> ch_ux | [] => True end ->
  string_to_number (ch_zero :: rest) = Ok (mkPres qn_natural 0 1)
  /\ string_to_number (ch_pos :: ch_zero :: rest) = Ok (mkPres qn_natural 0 2)
  /\ string_to_number (ch_neg :: ch_zero :: rest) = Ok (mkPres qn_real sign_bit 2).
Proof.
  intros rest Hr Hx. repeat split; unfold string_to_number.
  - change (ch_zero =? ch_neg) with false. change (ch_zero =? ch_pos) with false. cbv iota.
    rewrite (stn_body_zero false 0 rest _ Hr Hx); [reflexivity|cbn [length]; lia].
  - change (ch_pos =? ch_neg) with false. rewrite N.eqb_refl. cbv iota.
    rewrite (stn_body_zero false 1 rest _ Hr Hx); [reflexivity|cbn [length]; lia].
  - rewrite N.eqb_refl.
    rewrite (stn_body_zero true 1 rest _ Hr Hx); [reflexivity|cbn [length]; lia].
Qed.

(* ---- the sign on every path ---- *)
Ltac kind_contra Hk := exfalso; vm_compute in Hk; inversion Hk.

Lemma stn_body_neg_sign : forall off0 rest0 endo p,
  stn_body true off0 rest0 endo = Ok p -> p_kind p = qn_real -> N.testbit (p_bits p) 63 = true.
Proof.
  intros off0 rest0 endo p H Hk. unfold stn_body in H.
  destruct rest0 as [|d r1]; [inversion H; subst p; kind_contra Hk|].
  match type of H with bind ?X _ = _ => destruct X as [[p0|[[[s0 maxend] start] fo]]|e] eqn:EF end; cbn [bind] in H;
    [| |discriminate].
  - inversion H; subst p0. clear H.
    repeat match type of EF with
           | context [hex_scan ?a ?b ?c] => destruct (hex_scan a b c) as [? ?]
           | context [skipz ?a ?b ?c] => destruct (skipz a b c) as [[? ?] ?]
           | context [match ?l with [] => _ | _ :: _ => _ end] => is_var l; destruct l
           | context [if ?c then _ else _] =>
             lazymatch c with
             | context [if _ then _ else _] => fail
             | _ => destruct c
             end
           end;
    try discriminate; inversion EF; subst p; kind_contra Hk.
  - destruct (main_loop (S (N.to_nat endo)) maxend s0) as [| |s]; [inversion H; subst p; kind_contra Hk|discriminate|].
    eapply stn_after_neg_sign; eauto.
Qed.

(* whatever follows a leading '-': if the result is a Real, its sign bit is set *)
Theorem stn_negative_sign_all_paths : forall r p,
  string_to_number (ch_neg :: r) = Ok p -> p_kind p = qn_real -> N.testbit (p_bits p) 63 = true.
Proof.
  intros r p H Hk. unfold string_to_number in H. rewrite N.eqb_refl in H. eapply stn_body_neg_sign; eauto.
Qed.
