(* TfullSem.v -- C02 on the faithful models, semantic half: the renderer model (TrenderModel.v) instantiated
   with the value model of TmplModel.v, run on the tag tree [build] of a well-formed AST over its printed text,
   writes exactly what the reference interpreter [expand] produces.  The loop items indexed by Level are related
   to the binding list of the interpreter by [R]; getValue's scan of the printed path recovers (name, indices). *)
From Coq Require Import NArith ZArith List Bool Arith Lia ZifyBool ZifyNat ZifyN.
From Qv Require Import gen.Tables gen.Tables_expr gen.Tables_digit gen.Tables_tparse EscapeModel TmplModel TmplRender TmplProofs TparseModel TrenderModel TrenderProofs TrenderInst TfullModel.
Import ListNotations.
Ltac Zify.zify_post_hook ::= Z.div_mod_to_equations.

(* ---- reading the text ---- *)
Lemma nth_mid : forall (pre s post : list N) k, k < length s -> nth_error (pre ++ s ++ post) (length pre + k) = nth_error s k.
Proof.
  intros pre s post k Hk. rewrite nth_error_app2 by lia. replace (length pre + k - length pre) with k by lia.
  apply nth_error_app1. exact Hk.
Qed.

Lemma slice_mid : forall (pre s post : list N), slice (pre ++ s ++ post) (length pre) (length pre + length s) = s.
Proof. intros. apply (sub_mid _ pre s post); reflexivity. Qed.

Lemma is_pfx_app : forall a b, is_pfx a (a ++ b) = true.
Proof. intros a b; induction a as [|x a IH]; [reflexivity|]. cbn. rewrite N.eqb_refl. exact IH. Qed.

Lemma forallb_app_iff : forall A (f : A -> bool) a b, forallb f (a ++ b) = forallb f a && forallb f b.
Proof. intros. apply forallb_app. Qed.

(* characters of names *)
Lemma namec_not : forall c, namec c = true -> c <> 91%N /\ c <> 93%N /\ c <> 125%N /\ c <> 123%N /\ c <> 60%N /\ c <> 34%N /\ c <> 62%N.
Proof.
  intros c H. unfold namec, tagc in H.
  repeat (apply andb_prop in H; destruct H as [H ?]).
  apply negb_true_iff in H. apply orb_false_iff in H. destruct H as [H H']. apply orb_false_iff in H. destruct H as [H H''].
  repeat match goal with X : negb _ = true |- _ => apply negb_true_iff in X end.
  repeat match goal with X : N.eqb _ _ = false |- _ => apply N.eqb_neq in X end.
  repeat split; assumption.
Qed.

Ltac assoc := repeat (rewrite <- app_assoc || rewrite <- app_comm_cons); cbn [app]; reflexivity.

Lemma rsub_eq : forall site a b, b <= a -> rsub site a b = ROk (a - b).
Proof. intros site a b H. unfold rsub. destruct (Nat.leb_spec b a); [reflexivity|lia]. Qed.

(* unfolding equations for the if tag *)
Lemma wf_TIf : forall names depth c body more, wf_node1 names depth (TIf c body more) =
  wf_expr names c && forallb (wf_node1 names (S depth)) body && wf_more names depth more.
Proof. reflexivity. Qed.
Lemma wf_more_some : forall names depth e b r, wf_more names depth ((Some e, b) :: r) =
  wf_expr names e && forallb (wf_node1 names (S depth)) b && wf_more names depth r.
Proof. reflexivity. Qed.
Lemma wf_more_none : forall names depth b r, wf_more names depth ((None, b) :: r) =
  forallb (wf_node1 names (S depth)) b && match r with [] => true | _ => false end.
Proof. reflexivity. Qed.
Lemma build_TIf : forall env depth off c body more, build env depth off (TIf c body more) =
  let co := off + 10 + length (print_expr c) + 2 in
  let ce := co + length (print_nodes body) in
  [PIf off (off + length (print_node (TIf c body more)))
       (PCase co ce (qexpr_of env (off + 10) c) (build_list env (S depth) co body) :: build_more env depth ce more)].
Proof. reflexivity. Qed.
Lemma build_more_some : forall env depth o e b r, build_more env depth o ((Some e, b) :: r) =
  let bo := o + 15 + length (print_expr e) + 2 in
  PCase bo (bo + length (print_nodes b)) (qexpr_of env (o + 15) e) (build_list env (S depth) bo b) ::
  build_more env depth (bo + length (print_nodes b)) r.
Proof. reflexivity. Qed.
Lemma build_more_none : forall env depth o b r, build_more env depth o ((None, b) :: r) =
  let bo := o + 6 in
  PCase bo (bo + length (print_nodes b)) [] (build_list env (S depth) bo b) :: build_more env depth (bo + length (print_nodes b)) r.
Proof. reflexivity. Qed.

(* unfolding equations for the inline if *)
Lemma wf_TIIf : forall names depth c t f, wf_node1 names depth (TIIf c t f) =
  wf_expr names c && forallb inl_ok t && forallb (wf_node1 names (S depth)) t &&
  match f with Some fl => forallb inl_ok fl && forallb (wf_node1 names (S depth)) fl | None => true end &&
  N.leb (N.of_nat (length (print_node (TIIf c t f)))) 65535 && (ntags t + match f with Some fl => ntags fl | None => 0 end <=? 255).
Proof. reflexivity. Qed.
Lemma build_TIIf_some : forall env depth off c t fl, build env depth off (TIIf c t (Some fl)) =
  let ts := off + 10 + length (print_expr c) + 8 in
  let tl := length (print_nodes t) in
  let fs := ts + tl + 9 in
  [PIIf (mkI off (N.of_nat (length (print_node (TIIf c t (Some fl))))) (N.of_nat (ts - off)) (N.of_nat tl) (N.of_nat (fs - off))
             (N.of_nat (length (print_nodes fl))) 0 (N.of_nat (ntags t)))
        (qexpr_of env (off + 10) c) (build_list env (S depth) ts t ++ build_list env (S depth) fs fl)].
Proof. reflexivity. Qed.
Lemma build_TIIf_none : forall env depth off c t, build env depth off (TIIf c t None) =
  let ts := off + 10 + length (print_expr c) + 8 in
  let tl := length (print_nodes t) in
  [PIIf (mkI off (N.of_nat (length (print_node (TIIf c t None)))) (N.of_nat (ts - off)) (N.of_nat tl) 0 0 0 0)
        (qexpr_of env (off + 10) c) (build_list env (S depth) ts t)].
Proof. reflexivity. Qed.

(* unfolding equations for the super variable *)
Lemma wf_TSVar : forall names depth p subs, wf_node1 names depth (TSVar p subs) =
  wf_path p && no44 (print_path p) && fresh names p && negb (match subs with [] => true | _ => false end) &&
  forallb sub_ok subs && forallb (wf_node1 names (S depth)) subs.
Proof. reflexivity. Qed.
Lemma build_TSVar : forall env depth off p subs, build env depth off (TSVar p subs) =
  [PSVar off (off + length (print_node (TSVar p subs))) (mkV (off + 6) (N.of_nat (length (print_path p))) 0 0)
         (build_subs env (S depth) (off + 6 + length (print_path p)) subs)].
Proof. reflexivity. Qed.
Lemma build_subs_cons : forall env d o x r, build_subs env d o (x :: r) = build env d (o + 2) x ++ build_subs env d (o + 2 + length (print_node x)) r.
Proof. reflexivity. Qed.

Section Sem.
  Variable auto : bool.
  Variable w : N.
  Variable root : jv.
  Variable content : list N.
  Notation len := (length content).
  Notation gv := (get_value jv get_key content root).
  Notation rtag := (render_tag jv get_key jv_members (jv_text auto w) char_and_length (fun v k => group_by k v) sort_set
                               (var_text_cfg auto w) (jv_math content root) (jv_cond content root) content root).
  Notation rlist := (render_list jv get_key jv_members (jv_text auto w) char_and_length (fun v k => group_by k v) sort_set
                                 (var_text_cfg auto w) (jv_math content root) (jv_cond content root) content root).

  (* ---- the scan loops of getValue on a printed piece ---- *)
  Lemma scan_to_find : forall site c s fuel base off lim (rest : list N),
    (forall k, k < length s -> nth_error content (base + off + k) = nth_error s k) ->
    nth_error content (base + off + length s) = Some c ->
    ~ In c s -> off + length s < lim -> length s < fuel ->
    scan_to content site c fuel base off lim = ROk (off + length s).
  Proof.
    intros site c s; induction s as [|x s IH]; intros fuel base off lim rest Hs Hc Hn Hl Hf.
    - cbn [length] in *. rewrite Nat.add_0_r in *. destruct fuel as [|f]; [lia|]. cbn [scan_to].
      destruct (Nat.ltb_spec off lim); [|lia]. unfold rdc. rewrite Hc. cbn [rbind]. rewrite N.eqb_refl. reflexivity.
    - cbn [length] in *. destruct fuel as [|f]; [lia|]. cbn [scan_to].
      destruct (Nat.ltb_spec off lim); [|lia]. unfold rdc.
      pose proof (Hs 0 ltac:(lia)) as H0. rewrite Nat.add_0_r in H0. cbn [nth_error] in H0. rewrite H0. cbn [rbind].
      destruct (N.eqb_spec x c) as [E|E]; [exfalso; apply Hn; left; exact E|].
      replace (off + S (length s)) with (S off + length s) by lia.
      apply (IH f base (S off) lim rest).
      + intros k Hk. specialize (Hs (S k) ltac:(lia)). cbn [nth_error] in Hs. rewrite <- Hs. f_equal. lia.
      + rewrite <- Hc. f_equal. lia.
      + intros Hin. apply Hn. right. exact Hin.
      + lia.
      + lia.
  Qed.

  Lemma tm_walk_none : forall idx, TmplModel.walk None idx = None.
  Proof. intros idx; destruct idx; reflexivity. Qed.

  Lemma slice_in : forall (pre u s v post : list N),
    content = pre ++ (u ++ s ++ v) ++ post -> slice content (length pre + length u) (length pre + length u + length s) = s.
  Proof.
    intros pre u s v post Hc. apply (sub_mid content (pre ++ u) s (v ++ post)).
    - rewrite Hc. repeat rewrite <- app_assoc. reflexivity.
    - rewrite app_length. reflexivity.
    - reflexivity.
  Qed.

  Lemma nth_in : forall (pre u s v post : list N) k,
    content = pre ++ (u ++ s ++ v) ++ post -> k < length s -> nth_error content (length pre + length u + k) = nth_error s k.
  Proof.
    intros pre u s v post k Hc Hk. rewrite Hc.
    replace (pre ++ (u ++ s ++ v) ++ post) with ((pre ++ u) ++ s ++ (v ++ post)) by (repeat rewrite <- app_assoc; reflexivity).
    replace (length pre + length u + k) with (length (pre ++ u) + k) by (rewrite app_length; lia).
    apply nth_mid. exact Hk.
  Qed.

  (* the index walk of getValue on "i1][i2]...]" (the cursor stands after a '[') *)
  Lemma walk_printed : forall r i fuel pre u post x,
    content = pre ++ (u ++ (i ++ 93%N :: print_idx r)) ++ post ->
    wf_name i = true -> forallb wf_name r = true ->
    length (i ++ 93%N :: print_idx r) < fuel ->
    TrenderModel.walk jv get_key content fuel (length pre) (length (u ++ i ++ 93%N :: print_idx r)) (length u) (Some x)
    = ROk (TmplModel.walk (Some x) (i :: r)).
  Proof.
    intros r; induction r as [|i2 r2 IH]; intros i fuel pre u post x Hc Hi Hr Hf.
    - cbn [print_idx] in *. destruct fuel as [|f]; [cbn in Hf; lia|]. cbn [TrenderModel.walk].
      rewrite app_length in *. cbn [length] in *. rewrite app_length in *. cbn [length] in *.
      rewrite (scan_to_find 201 93%N i _ (length pre) (length u) _ []); [|intros k Hk|..].
      + cbn [rbind]. rewrite rsub_eq by lia. cbn [rbind]. replace (length u + length i - length u) with (length i) by lia.
        assert (Hk : kslice content 203 (length pre + length u) (length i) = ROk i).
        { unfold kslice. destruct (Nat.eqb_spec (length i) 0) as [E|E]; [destruct i; [reflexivity|discriminate E]|].
          assert (Hs := slice_in pre u i [93%N] post Hc).
          assert (Hl : length pre + length u + length i <= length content) by (rewrite Hc; repeat rewrite app_length; cbn; lia).
          destruct (Nat.leb_spec (length pre + length u + length i) (length content)); [|lia]. rewrite Hs. reflexivity. }
        rewrite Hk. cbn [rbind]. destruct (Nat.leb_spec (length u + (length i + 1)) (S (length u + length i))); [|lia]. reflexivity.
      + apply (nth_in pre u i [93%N] post k Hc Hk).
      + replace (length pre + length u + length i) with (length pre + length (u ++ i) + 0) by (rewrite app_length; lia).
        rewrite (nth_in pre (u ++ i) [93%N] [] post 0); [reflexivity|rewrite Hc; repeat rewrite <- app_assoc; reflexivity|cbn; lia].
      + intros Hin. unfold wf_name in Hi. rewrite forallb_forall in Hi. destruct (namec_not _ (Hi _ Hin)) as (_ & X & _). contradiction X; reflexivity.
      + lia.
      + lia.
    - cbn [print_idx forallb] in *. unfold ch_lbr, ch_rbr in *. apply andb_prop in Hr. destruct Hr as [Hi2 Hr2].
      destruct fuel as [|f]; [cbn in Hf; lia|]. cbn [TrenderModel.walk].
      set (tail := i2 ++ 93%N :: print_idx r2) in *.
      assert (Hlen : length (u ++ i ++ 93%N :: 91%N :: tail) = length u + length i + 2 + length tail)
        by (repeat (rewrite app_length; cbn [length]); lia).
      rewrite Hlen.
      rewrite (scan_to_find 201 93%N i _ (length pre) (length u) _ []); [|intros k Hk|..].
      + cbn [rbind]. rewrite rsub_eq by lia. cbn [rbind]. replace (length u + length i - length u) with (length i) by lia.
        assert (Hk : kslice content 203 (length pre + length u) (length i) = ROk i).
        { unfold kslice. destruct (Nat.eqb_spec (length i) 0) as [E|E]; [destruct i; [reflexivity|discriminate E]|].
          assert (Hs := slice_in pre u i (93%N :: 91%N :: tail) post Hc).
          assert (Hl : length pre + length u + length i <= length content) by (rewrite Hc; repeat rewrite app_length; cbn; lia).
          destruct (Nat.leb_spec (length pre + length u + length i) (length content)); [|lia]. rewrite Hs. reflexivity. }
        rewrite Hk. cbn [rbind]. destruct (Nat.leb_spec (length u + length i + 2 + length tail) (S (length u + length i))); [lia|].
        assert (H91 : rdc content 204 (length pre + S (length u + length i)) = ROk 91%N).
        { unfold rdc. replace (length pre + S (length u + length i)) with (length pre + length (u ++ i ++ [93%N]) + 0)
            by (repeat rewrite app_length; cbn; lia).
          rewrite (nth_in pre (u ++ i ++ [93%N]) (91%N :: tail) [] post 0); [reflexivity| |cbn; lia].
          rewrite Hc. repeat rewrite <- app_assoc. cbn [app]. rewrite ?app_nil_r. reflexivity. }
        rewrite H91. cbn [rbind]. change (N.eqb 91 91) with true. cbv iota.
        cbn [TmplModel.walk]. destruct (get_key x i) as [x'|].
        * replace (S (S (length u + length i))) with (length (u ++ i ++ [93%N; 91%N])) by (repeat rewrite app_length; cbn; lia).
          replace (length u + length i + 2 + length tail) with (length ((u ++ i ++ [93%N; 91%N]) ++ tail))
            by (repeat rewrite app_length; cbn; lia).
          apply (IH i2 f pre (u ++ i ++ [93%N; 91%N]) post x'); [|exact Hi2|exact Hr2|].
          -- rewrite Hc. unfold tail. assoc.
          -- clear - Hf. fold tail. repeat (rewrite app_length in Hf; cbn [length] in Hf). lia.
        * destruct f; reflexivity.
      + apply (nth_in pre u i (93%N :: 91%N :: tail) post k Hc Hk).
      + replace (length pre + length u + length i) with (length pre + length (u ++ i) + 0) by (rewrite app_length; lia).
        rewrite (nth_in pre (u ++ i) [93%N] (91%N :: tail) post 0); [reflexivity|rewrite Hc; repeat rewrite <- app_assoc; reflexivity|cbn; lia].
      + intros Hin. unfold wf_name in Hi. rewrite forallb_forall in Hi. destruct (namec_not _ (Hi _ Hin)) as (_ & X & _). contradiction X; reflexivity.
      + lia.
      + lia.
  Qed.

  (* ---- loop items by Level  vs  bindings by name ---- *)
  Inductive R (items : list (item jv)) : list (list N * loopinfo) -> list binding -> Prop :=
  | R_nil : R items [] []
  | R_cons : forall nm li env b ctx,
      b_name b = nm -> nth_error items (N.to_nat (li_level li)) = Some (Some (b_item b), b_key b) ->
      R items env ctx -> R items ((nm, li) :: env) (b :: ctx).

  Lemma annot_find : forall env ctx items text, R items env ctx ->
    match find_binding ctx text with
    | Some b => fst (annot env text) = N.of_nat (length (b_name b)) /\ b_name b <> [] /\
                nth_error items (N.to_nat (snd (annot env text))) = Some (Some (b_item b), b_key b) /\
                is_pfx (b_name b) text = true /\ In (b_name b) (map fst env)
    | None => fst (annot env text) = 0%N
    end.
  Proof.
    intros env ctx items text H. induction H as [|nm li env b ctx Hn Hi HR IH]; [reflexivity|].
    cbn [find_binding annot]. rewrite Hn. destruct nm as [|c nm'].
    - destruct (find_binding ctx text) as [b'|]; [|exact IH].
      destruct IH as (A & B & C & D & E). repeat split; try assumption. right. exact E.
    - destruct (is_pfx (c :: nm') text) eqn:Ep.
      + cbn [fst snd]. rewrite Hn. repeat split; try assumption; [discriminate|left; reflexivity].
      + destruct (find_binding ctx text) as [b'|]; [|exact IH].
        destruct IH as (A & B & C & D & E). repeat split; try assumption. right. exact E.
  Qed.

  Lemma list_eqb_eq : forall a b, list_eqb a b = true -> a = b.
  Proof.
    intros a; induction a as [|x a IH]; intros [|y b] H; try discriminate H; [reflexivity|].
    cbn in H. apply andb_prop in H. destruct H as [H1 H2]. apply N.eqb_eq in H1. subst y. f_equal. apply IH. exact H2.
  Qed.
  Lemma list_eqb_refl : forall a, list_eqb a a = true.
  Proof. intros a; induction a as [|x a IH]; [reflexivity|]. cbn. rewrite N.eqb_refl. exact IH. Qed.

  Lemma last_namec : forall s d, s <> [] -> wf_name s = true -> last s d <> 93%N.
  Proof.
    intros s d Hne Hw. assert (Hin : In (last s d) s).
    { destruct s as [|x s]; [contradiction|]. clear Hne Hw. revert x. induction s as [|y s IH]; intros x; [left; reflexivity|].
      right. apply (IH y). }
    unfold wf_name in Hw. rewrite forallb_forall in Hw. destruct (namec_not _ (Hw _ Hin)) as (_ & X & _). exact X.
  Qed.

  Lemma nth_last : forall (s : list N) d, s <> [] -> nth_error s (length s - 1) = Some (last s d).
  Proof.
    intros s d Hne. destruct s as [|x s]; [contradiction|]. clear Hne. revert x. induction s as [|y s IH]; intros x; [reflexivity|].
    cbn [length]. replace (S (S (length s)) - 1) with (S (length s)) by lia. cbn [nth_error].
    specialize (IH y). cbn [length] in IH. replace (S (length s) - 1) with (length s) in IH by lia. rewrite IH. reflexivity.
  Qed.

  (* getValue on a printed path = resolve *)
  Lemma lookup : forall env ctx items p pre post,
    content = pre ++ print_path p ++ post -> wf_path p = true -> uniq (map fst env) p = true -> R items env ctx ->
    gv (vt_of env (length pre) p) items = ROk (fst (resolve root ctx p)).
  Proof.
    intros env ctx items [nm idx] pre post Hc Hw Hu HR.
    unfold wf_path in Hw. cbn [fst snd] in Hw.
    apply andb_prop in Hw. destruct Hw as [Hw H255]. apply andb_prop in Hw. destruct Hw as [Hw Hidx].
    apply andb_prop in Hw. destruct Hw as [Hnm Hne]. apply Nat.leb_le in H255.
    assert (Hnm0 : nm <> []) by (destruct nm; [discriminate Hne|discriminate]).
    set (pp := print_path (nm, idx)) in *.
    assert (Hpp : pp = nm ++ print_idx idx) by reflexivity.
    assert (Hpl : 1 <= length pp) by (rewrite Hpp, app_length; destruct nm; [contradiction|cbn; lia]).
    assert (Hrd : forall k, k < length pp -> nth_error content (length pre + k) = nth_error pp k).
    { intros k Hk. rewrite Hc. apply nth_mid. exact Hk. }
    pose proof (annot_find env ctx items pp HR) as Haf.
    unfold get_value, vt_of. cbn [v_off v_len v_idlen v_level].
    rewrite Nat2N.id. fold pp.
    destruct (Nat.eqb_spec (length pp) 0) as [E0|_]; [lia|].
    (* has_index *)
    assert (Hhas : rdc content 205 (length pre + (length pp - 1)) = ROk (last pp 0%N)).
    { unfold rdc. rewrite Hrd by lia. rewrite (nth_last pp 0%N); [reflexivity|]. intros E. rewrite E in Hpl. cbn in Hpl. lia. }
    rewrite Hhas. cbn [rbind].
    unfold resolve. cbn [fst snd]. fold pp.
    destruct idx as [|i r].
    - (* no index *)
      assert (Epp : pp = nm) by (rewrite Hpp; cbn [print_idx]; apply app_nil_r).
      assert (Hnl : N.eqb (last pp 0%N) 93 = false) by (apply N.eqb_neq; rewrite Epp; apply last_namec; assumption).
      rewrite Hnl. cbn [negb].
      destruct (find_binding ctx pp) as [b|].
      + destruct Haf as (A & B & C & D & E). destruct (N.eqb_spec (fst (annot env pp)) 0) as [Z|_].
        { rewrite Z in A. destruct (b_name b); [contradiction|discriminate A]. }
        unfold item_at. rewrite C. reflexivity.
      + rewrite Haf. cbn [N.eqb].
        assert (Hk : kslice content 206 (length pre) (length pp) = ROk pp).
        { unfold kslice. destruct (Nat.eqb_spec (length pp) 0); [lia|].
          assert (Hl : length pre + length pp <= length content) by (rewrite Hc; repeat rewrite app_length; lia).
          destruct (Nat.leb_spec (length pre + length pp) (length content)); [|lia]. rewrite Hc. rewrite slice_mid. reflexivity. }
        rewrite Hk. cbn [rbind]. rewrite Epp. reflexivity.
    - (* indices *)
      cbn [forallb] in Hidx. apply andb_prop in Hidx. destruct Hidx as [Hi Hr].
      assert (Epp : pp = (nm ++ [91%N]) ++ (i ++ 93%N :: print_idx r)).
      { rewrite Hpp. cbn [print_idx]. unfold ch_lbr, ch_rbr. rewrite <- app_assoc. reflexivity. }
      assert (Hl93 : N.eqb (last pp 0%N) 93 = true).
      { apply N.eqb_eq. rewrite Epp. clear. generalize (nm ++ [91%N]). intros u.
        assert (G : forall (a : list N) b, b <> [] -> last (a ++ b) 0%N = last b 0%N).
        { intros a; induction a as [|x a IH]; intros b Hb; [reflexivity|]. cbn [app]. rewrite <- (IH b Hb).
          destruct (a ++ b) eqn:E; [destruct a; [cbn in E; contradiction|discriminate E]|reflexivity]. }
        rewrite G by (destruct i; discriminate).
        assert (G2 : forall r : list (list N), forall i : list N, last (i ++ 93%N :: print_idx r) 0%N = 93%N).
        { intros r0; induction r0 as [|i2 r2 IH2]; intros i0.
          - cbn [print_idx]. rewrite G by discriminate. reflexivity.
          - cbn [print_idx]. unfold ch_lbr, ch_rbr.
            replace (i0 ++ 93%N :: 91%N :: i2 ++ 93%N :: print_idx r2) with ((i0 ++ [93%N; 91%N]) ++ (i2 ++ 93%N :: print_idx r2))
              by (rewrite <- app_assoc; reflexivity).
            rewrite G by (destruct i2; discriminate). apply IH2. }
        apply G2. }
      rewrite Hl93. cbn [negb].
      assert (Hc2 : content = pre ++ ((nm ++ [91%N]) ++ (i ++ 93%N :: print_idx r)) ++ post) by (rewrite Hc; fold pp; rewrite Epp; reflexivity).
      assert (Hwalk : forall x, TrenderModel.walk jv get_key content (S (length pp)) (length pre) (length pp) (S (length nm)) (Some x)
                                = ROk (TmplModel.walk (Some x) (i :: r))).
      { intros x. rewrite Epp. replace (S (length nm)) with (length (nm ++ [91%N])) by (rewrite app_length; cbn; lia).
        apply (walk_printed r i _ pre (nm ++ [91%N]) post x Hc2 Hi Hr).
        repeat rewrite app_length. cbn [length]. lia. }
      destruct (find_binding ctx pp) as [b|].
      + destruct Haf as (A & B & C & D & E). destruct (N.eqb_spec (fst (annot env pp)) 0) as [Z|_].
        { rewrite Z in A. destruct (b_name b); [contradiction|discriminate A]. }
        unfold item_at. rewrite C. cbn [rbind fst].
        (* the unique-name rule: the matching value name is the variable's name *)
        assert (Hnb : nm = b_name b).
        { unfold uniq in Hu. cbn [snd] in Hu. rewrite forallb_forall in Hu. specialize (Hu _ E). fold pp in Hu.
          destruct (b_name b) as [|c nb] eqn:Eb; [contradiction|]. rewrite <- Eb in *. rewrite D in Hu. cbn [negb orb fst] in Hu.
          rewrite Eb in Hu. apply list_eqb_eq in Hu. rewrite Eb. exact Hu. }
        rewrite A, Nat2N.id, <- Hnb. rewrite list_eqb_refl. apply Hwalk.
      + rewrite Haf. cbn [N.eqb].
        rewrite (scan_to_find 207 91%N nm _ (length pre) 0 _ []); [|intros k Hk|..].
        * cbn [rbind]. destruct (Nat.eqb_spec (0 + length nm) 0) as [Z|_]; [destruct nm; [contradiction|cbn in Z; lia]|].
          assert (Hk : kslice content 208 (length pre) (0 + length nm) = ROk nm).
          { unfold kslice. destruct (Nat.eqb_spec (0 + length nm) 0); [destruct nm; [contradiction|cbn in *; lia]|].
            assert (Hl : length pre + (0 + length nm) <= length content) by (rewrite Hc; fold pp; rewrite Epp; repeat rewrite app_length; lia).
            destruct (Nat.leb_spec (length pre + (0 + length nm)) (length content)); [|lia].
            replace (length pre + (0 + length nm)) with (length pre + length (@nil N) + length nm) by (cbn; lia).
            replace (length pre) with (length pre + length (@nil N)) at 1 by (cbn; lia).
            rewrite (slice_in pre [] nm (91%N :: i ++ 93%N :: print_idx r) post); [reflexivity|].
            rewrite Hc. fold pp. rewrite Epp. assoc. }
          rewrite Hk. cbn [rbind]. destruct nm as [|c0 nm0]; [contradiction|].
          destruct (get_key root (c0 :: nm0)) as [x|]; [apply Hwalk|reflexivity].
        * rewrite Nat.add_0_r. rewrite Hrd by (rewrite Epp; repeat rewrite app_length; lia).
          rewrite Epp. rewrite <- app_assoc. rewrite nth_error_app1 by exact Hk. reflexivity.
        * rewrite Nat.add_0_r. rewrite Hrd by (rewrite Epp; repeat rewrite app_length; cbn; lia).
          rewrite Epp. rewrite <- app_assoc. rewrite nth_error_app2 by lia. rewrite Nat.sub_diag. reflexivity.
        * intros Hin. unfold wf_name in Hnm. rewrite forallb_forall in Hnm. destruct (namec_not _ (Hnm _ Hin)) as (X & _). contradiction X; reflexivity.
        * rewrite Epp. repeat rewrite app_length. cbn [length]. lia.
        * rewrite Epp. repeat rewrite app_length. cbn [length]. lia.
  Qed.

  Notation ENode := (expand_node auto w root).
  Notation ENodes := (expand_nodes auto w root).

  Definition env_ok (depth : nat) (env : list (list N * loopinfo)) : Prop :=
    forall nm li, In (nm, li) env -> N.to_nat (li_level li) < depth.
  Definition agree (depth : nat) (items items' : list (item jv)) : Prop :=
    forall k it, k < depth -> nth_error items k = Some it -> nth_error items' k = Some it.

  Lemma agree_refl : forall d items, agree d items items.
  Proof. intros d items k it _ H. exact H. Qed.
  Lemma agree_trans : forall d a b c, agree d a b -> agree d b c -> agree d a c.
  Proof. intros d a b c H1 H2 k it Hk H. apply (H2 k it Hk). apply (H1 k it Hk). exact H. Qed.
  Lemma agree_le : forall d d' a b, d <= d' -> agree d' a b -> agree d a b.
  Proof. intros d d' a b H H1 k it Hk. apply H1. lia. Qed.

  Lemma R_agree : forall depth env ctx items items', env_ok depth env -> agree depth items items' -> R items env ctx -> R items' env ctx.
  Proof.
    intros depth env ctx items items' He Ha H. induction H as [|nm li env b ctx Hn Hi HR IH]; [constructor|].
    apply R_cons.
    - exact Hn.
    - apply (Ha _ _ (He nm li (or_introl eq_refl))). exact Hi.
    - apply IH. intros n l Hin. apply (He n l). right. exact Hin.
  Qed.

  Lemma wslice_eq : forall site a b, a <= b -> b <= len -> wslice content site a b = ROk (slice content a b).
  Proof.
    intros site a b H1 H2. unfold wslice. destruct (Nat.leb_spec a b); [|lia]. destruct (Nat.leb_spec b (length content)); [|lia]. reflexivity.
  Qed.

  (* ---- {var:path} / {raw:path} ---- *)
  Lemma var_node : forall env ctx items p pre lit post,
    content = pre ++ lit ++ print_node (TVar p) ++ post ->
    wf_path p = true -> uniq (map fst env) p = true -> R items env ctx ->
    rtag (PVar (vt_of env (length pre + length lit + 5) p)) (length pre) items =
    ROk (lit ++ ENode ctx (TVar p), length pre + length lit + length (print_node (TVar p)), items).
  Proof.
    intros env ctx items p pre lit post Hc Hw Hu HR.
    rewrite print_node_TVar in *.
    assert (Hlen : length content = length pre + length lit + (5 + length (print_path p) + 1) + length post)
      by (rewrite Hc; repeat rewrite app_length; cbn [length s_var_open s_close]; lia).
    assert (Hlook := lookup env ctx items p (pre ++ lit ++ s_var_open) (s_close ++ post)).
    rewrite !app_length in Hlook. cbn [length s_var_open] in Hlook.
    replace (length pre + (length lit + 5)) with (length pre + length lit + 5) in Hlook by lia.
    specialize (Hlook ltac:(rewrite Hc; assoc) Hw Hu HR).
    cbn [render_tag]. unfold render_var. cbn [v_off vt_of v_len v_idlen v_level].
    unfold tpp_VariablePrefixLength, tpp_VariableFullLength.
    rewrite rsub_eq by lia. cbn [rbind].
    replace (length pre + length lit + 5 - 5) with (length pre + length lit) by lia.
    rewrite wslice_eq by lia. cbn [rbind].
    rewrite (sub_lit content pre lit (s_var_open ++ print_path p ++ s_close ++ post)) by (try rewrite Hc; try assoc; reflexivity).
    rewrite Hlook. cbn [rbind]. rewrite Nat2N.id.
    replace (length pre + length lit + (length (print_path p) + 6)) with (length pre + length lit + length (s_var_open ++ print_path p ++ s_close))
      by (repeat rewrite app_length; cbn [length s_var_open s_close]; lia).
    cbn [expand_node leaf_out]. unfold var_out.
    pose proof (annot_find env ctx items (print_path p) HR) as Haf.
    assert (Hsnd : snd (resolve root ctx p) = find_binding ctx (print_path p)) by (unfold resolve; destruct (find_binding ctx (print_path p)); reflexivity).
    destruct (resolve root ctx p) as [rv rb]. cbn [fst snd] in *. subst rb. unfold jv_text.
    destruct (match rv with Some x => value_text (var_text_cfg auto w) x | None => None end) as [txt|]; [reflexivity|].
    assert (Hecho : wslice content 213 (length pre + length lit) (length pre + length lit + length (s_var_open ++ print_path p ++ s_close))
                    = ROk (print_node (TVar p))).
    { rewrite wslice_eq by (repeat rewrite app_length; cbn [length s_var_open s_close]; lia).
      rewrite (sub_node content pre lit (s_var_open ++ print_path p ++ s_close) post) by (try rewrite Hc; try assoc; reflexivity).
      rewrite print_node_TVar. reflexivity. }
    destruct (find_binding ctx (print_path p)) as [b|].
    - destruct Haf as (A & B & C & D & E).
      destruct (N.eqb_spec (fst (annot env (print_path p))) 0) as [Z|_].
      { rewrite Z in A. destruct (b_name b); [contradiction|discriminate A]. }
      unfold item_at. rewrite C. cbn [rbind snd].
      destruct (b_key b); [|reflexivity]. rewrite Hecho. reflexivity.
    - rewrite Haf. cbn [N.eqb rbind]. rewrite Hecho. reflexivity.
  Qed.
  Lemma raw_node : forall env ctx items p pre lit post,
    content = pre ++ lit ++ print_node (TRaw p) ++ post ->
    wf_path p = true -> uniq (map fst env) p = true -> R items env ctx ->
    rtag (PRaw (vt_of env (length pre + length lit + 5) p)) (length pre) items =
    ROk (lit ++ ENode ctx (TRaw p), length pre + length lit + length (print_node (TRaw p)), items).
  Proof.
    intros env ctx items p pre lit post Hc Hw Hu HR.
    rewrite print_node_TRaw in *.
    assert (Hlen : length content = length pre + length lit + (5 + length (print_path p) + 1) + length post)
      by (rewrite Hc; repeat rewrite app_length; cbn [length s_raw_open s_close]; lia).
    assert (Hlook := lookup env ctx items p (pre ++ lit ++ s_raw_open) (s_close ++ post)).
    rewrite !app_length in Hlook. cbn [length s_raw_open] in Hlook.
    replace (length pre + (length lit + 5)) with (length pre + length lit + 5) in Hlook by lia.
    specialize (Hlook ltac:(rewrite Hc; assoc) Hw Hu HR).
    cbn [render_tag]. unfold render_raw. cbn [v_off vt_of v_len v_idlen v_level].
    unfold tpp_RawVariablePrefixLength, tpp_VariableFullLength.
    rewrite rsub_eq by lia. cbn [rbind].
    replace (length pre + length lit + 5 - 5) with (length pre + length lit) by lia.
    rewrite wslice_eq by lia. cbn [rbind].
    rewrite (sub_lit content pre lit (s_raw_open ++ print_path p ++ s_close ++ post)) by (try rewrite Hc; try assoc; reflexivity).
    rewrite Hlook. cbn [rbind]. rewrite Nat2N.id.
    replace (length pre + length lit + (length (print_path p) + 6)) with (length pre + length lit + length (s_raw_open ++ print_path p ++ s_close))
      by (repeat rewrite app_length; cbn [length s_raw_open s_close]; lia).
    cbn [expand_node leaf_out]. unfold raw_out, jv_text.
    destruct (match fst (resolve root ctx p) with Some x => value_text (fun s => s) x | None => None end) as [txt|]; [reflexivity|].
    rewrite wslice_eq by (repeat rewrite app_length; cbn [length s_raw_open s_close]; lia). cbn [rbind].
    rewrite (sub_node content pre lit (s_raw_open ++ print_path p ++ s_close) post) by (try rewrite Hc; try assoc; reflexivity).
    rewrite print_node_TRaw. reflexivity.
  Qed.
  (* ---- the printed loop head and the LoopTag fields ---- *)
  Definition hp_set (set : option path) : list N := match set with Some p => s_set_attr ++ print_path p ++ s_quote | None => [] end.
  Definition hp_val (val : list N) : list N := match val with [] => [] | _ => s_value_attr ++ val ++ s_quote end.
  Definition hp_grp (group : list N) : list N := match group with [] => [] | _ => s_group_attr ++ group ++ s_quote end.
  Definition hp_sort (sort : N) : list N := match sort with 0%N => [] | 1%N => s_sort_asc | _ => s_sort_desc end.
  Lemma loop_head_parts : forall set val group sort,
    loop_head set val group sort = s_loop_open ++ hp_set set ++ hp_val val ++ hp_grp group ++ hp_sort sort ++ s_gt.
  Proof. reflexivity. Qed.

  Lemma loop_rec_fields : forall env depth off set val group sort bl,
    let l := loop_rec env depth off set val group sort bl in
    let hl := length (loop_head set val group sort) in
    l_off l = off /\ l_end l = off + hl + bl /\ N.to_nat (l_coff l) = hl /\ l_level l = N.of_nat depth /\
    l_glen l = N.of_nat (length group) /\
    (group <> [] -> N.to_nat (l_goff l) = length (s_loop_open ++ hp_set set ++ hp_val val ++ s_group_attr)) /\
    l_set l = match set with Some p => vt_of env (off + 5 + 6) p | None => mkV 0 0 0 0 end /\
    l_opts l = match sort with 0%N => 0%N | 1%N => 2%N | _ => 4%N end.
  Proof.
    intros env depth off set val group sort bl l hl. subst l hl.
    unfold loop_rec. cbn [l_off l_end l_coff l_level l_glen l_goff l_set l_opts].
    rewrite loop_head_parts.
    destruct set as [p|], val as [|v0 val], group as [|g0 group], sort as [|[q|q|]];
      unfold hp_set, hp_val, hp_grp, hp_sort, tpp_SortAscend, tpp_SortDescend;
      rewrite ?Nat2N.id; repeat rewrite app_length;
      cbn [length s_loop_open s_set_attr s_quote s_value_attr s_group_attr s_sort_asc s_sort_desc s_gt];
      (split; [reflexivity|]); (split; [lia|]); (split; [lia|]); (split; [reflexivity|]); (split; [reflexivity|]);
      (split; [intros Hg; try (exfalso; apply Hg; reflexivity); lia|]); split; reflexivity.
  Qed.

  Lemma set_nth_same : forall (its : list (item jv)) k m, k < length its -> nth_error (set_nth jv its k m) k = Some m.
  Proof. intros its; induction its as [|x r IH]; intros [|k] m H; cbn in *; try lia; [reflexivity|apply IH; lia]. Qed.
  Lemma set_nth_other : forall (its : list (item jv)) k m j, j <> k -> nth_error (set_nth jv its k m) j = nth_error its j.
  Proof.
    intros its; induction its as [|x r IH]; intros [|k] m [|j] H; cbn; try reflexivity; try lia. apply IH. lia.
  Qed.
  Lemma grow_agree : forall d (its : list (item jv)) lv, agree d its (grow jv its lv).
  Proof.
    intros d its lv k it _ H. unfold grow. rewrite nth_error_app1; [exact H|]. apply nth_error_Some. rewrite H. discriminate.
  Qed.
  Lemma grow_lt : forall (its : list (item jv)) lv, N.to_nat lv < length (grow jv its lv).
  Proof. intros its lv. unfold grow. rewrite app_length, repeat_length. lia. Qed.


  (* ---- expressions: the evaluator over the QExpression arrays = TmplModel.eval_expr ---- *)
  Notation QV := (q_val content root).
  Lemma q_var_eq : forall env ctx items p pre post,
    content = pre ++ (s_var_open ++ print_path p ++ s_close) ++ post ->
    wf_path p = true -> uniq (map fst env) p = true -> R items env ctx ->
    q_var content root items (vt_of env (length pre + 5) p) = fst (resolve root ctx p).
  Proof.
    intros env ctx items p pre post Hc Hw Hu HR. unfold q_var.
    assert (Hlook := lookup env ctx items p (pre ++ s_var_open) (s_close ++ post)).
    rewrite app_length in Hlook. cbn [length s_var_open] in Hlook.
    rewrite Hlook; [reflexivity| |exact Hw|exact Hu|exact HR]. rewrite Hc. assoc.
  Qed.

  Lemma wf_epath_wf : forall p, wf_epath p = true -> wf_path p = true.
  Proof. intros p H. unfold wf_epath in H. apply andb_prop in H. exact (proj1 H). Qed.

  Lemma q_op_operand : forall env oper o a, q_op (q_operand env oper o a) = oper.
  Proof. intros env oper o a. destruct a; reflexivity. Qed.

  Lemma q_arith_eq : forall op x y, (op <= 10)%N -> N.eqb op op_eq || N.eqb op op_ne = false ->
    q_arith (opq op) x y = Some (arith op x y).
  Proof.
    intros op x y H Hne. destruct op as [|p]; [reflexivity|].
    do 4 (try destruct p as [p|p|]); cbn in H; try lia; try discriminate Hne; reflexivity.
  Qed.
  Lemma opq_eq : forall op, (op <= 10)%N ->
    N.eqb (opq op) op_Equal = N.eqb op op_eq /\ N.eqb (opq op) op_NotEqual = N.eqb op op_ne.
  Proof.
    intros op H. destruct op as [|p]; [split; reflexivity|].
    do 4 (try destruct p as [p|p|]); cbn in H; try lia; split; reflexivity.
  Qed.

  Lemma q_val_operand : forall env ctx items a oper pre post,
    content = pre ++ print_operand a ++ post -> wf_expr (map fst env) a = true -> R items env ctx ->
    QV items (q_operand env oper (length pre) a) = eval_operand root ctx a.
  Proof.
    intros env ctx items a; induction a as [n|p|op a IHa b IHb]; intros oper pre post Hc Hwf HR; cbn [wf_expr print_operand] in *.
    - reflexivity.
    - apply andb_prop in Hwf. destruct Hwf as [Hw Hu]. cbn [q_operand q_val eval_operand].
      rewrite (q_var_eq env ctx items p pre post Hc (wf_epath_wf p Hw) Hu HR). reflexivity.
    - apply andb_prop in Hwf. destruct Hwf as [Hwf Hwb]. apply andb_prop in Hwf. destruct Hwf as [Hop Hwa]. apply N.leb_le in Hop.
      assert (Hca : content = (pre ++ [40%N]) ++ print_operand a ++ ([32%N] ++ op_text op ++ [32%N] ++ print_operand b ++ [41%N] ++ post))
        by (rewrite Hc; assoc).
      assert (Hcb : content = (pre ++ [40%N] ++ print_operand a ++ [32%N] ++ op_text op ++ [32%N]) ++ print_operand b ++ ([41%N] ++ post))
        by (rewrite Hc; assoc).
      assert (Hla : length (pre ++ [40%N]) = length pre + 1) by (rewrite app_length; reflexivity).
      assert (Hlb : length (pre ++ [40%N] ++ print_operand a ++ [32%N] ++ op_text op ++ [32%N])
                    = length pre + 1 + length (print_operand a) + 1 + length (op_text op) + 1)
        by (repeat rewrite app_length; cbn [length]; lia).
      pose proof (fun o' => IHa o' _ _ Hca Hwa HR) as Ea. rewrite Hla in Ea.
      pose proof (fun o' => IHb o' _ _ Hcb Hwb HR) as Eb. rewrite Hlb in Eb.
      cbn [q_operand]. cbn [q_val]. rewrite q_op_operand. rewrite Ea, Eb.
      destruct (opq_eq op Hop) as [E1 E2]. rewrite E1, E2. cbn [eval_operand].
      destruct (N.eqb op op_eq || N.eqb op op_ne) eqn:Eq.
      + (* == / != *)
        assert (Hsa : (match q_operand env (opq op) (length pre + 1) a with
                       | QVar _ v => match q_var content root items v with Some y => SVal y | None => SNone end
                       | _ => num_side (eval_operand root ctx a) end)
                      = match a with EVar p => var_side root ctx p | _ => num_side (eval_operand root ctx a) end).
        { destruct a as [na|pa|oa a1 a2]; cbn [q_operand]; try reflexivity.
          cbn [wf_expr] in Hwa. apply andb_prop in Hwa. destruct Hwa as [Hw Hu]. cbn [print_operand] in Hca.
          rewrite <- Hla. rewrite (q_var_eq env ctx items pa _ _ Hca (wf_epath_wf pa Hw) Hu HR). reflexivity. }
        assert (Hsb : (match q_operand env op_NoOp (length pre + 1 + length (print_operand a) + 1 + length (op_text op) + 1) b with
                       | QVar _ v => match q_var content root items v with Some y => SVal y | None => SNone end
                       | _ => num_side (eval_operand root ctx b) end)
                      = match b with EVar p => var_side root ctx p | _ => num_side (eval_operand root ctx b) end).
        { destruct b as [nb|pb|ob b1 b2]; cbn [q_operand]; try reflexivity.
          cbn [wf_expr] in Hwb. apply andb_prop in Hwb. destruct Hwb as [Hw Hu]. cbn [print_operand] in Hcb.
          rewrite <- Hlb. rewrite (q_var_eq env ctx items pb _ _ Hcb (wf_epath_wf pb Hw) Hu HR). reflexivity. }
        rewrite Hsa, Hsb. reflexivity.
      + destruct (eval_operand root ctx a) as [x|]; [|reflexivity]. destruct (eval_operand root ctx b) as [y|]; [|reflexivity].
        apply q_arith_eq; assumption.
  Qed.

  Lemma jv_cond_eq : forall k ex items, jv_cond content root k ex items =
    match q_top content root items ex with Some z => Some (z >? 0)%Z | None => None end.
  Proof. reflexivity. Qed.

  Lemma q_top_two : forall items a b, q_top content root items [a; b] = QV items (QSub op_NoOp [a; b]).
  Proof. intros items a b. destruct a; reflexivity. Qed.

  Lemma q_top_expr : forall env ctx items e pre post,
    content = pre ++ print_expr e ++ post -> wf_expr (map fst env) e = true -> R items env ctx ->
    q_top content root items (qexpr_of env (length pre) e) = eval_expr root ctx e.
  Proof.
    intros env ctx items e pre post Hc Hwf HR. destruct e as [n|p|op a b]; cbn [print_expr qexpr_of] in *.
    - reflexivity.
    - cbn [wf_expr] in Hwf. apply andb_prop in Hwf. destruct Hwf as [Hw Hu]. cbn [q_operand q_top eval_expr].
      cbn [print_operand] in Hc. rewrite (q_var_eq env ctx items p pre post Hc (wf_epath_wf p Hw) Hu HR). reflexivity.
    - (* the same computation as a parenthesised operand, without the parentheses *)
      cbn [wf_expr] in Hwf. pose proof Hwf as Hwf0.
      apply andb_prop in Hwf. destruct Hwf as [Hwf Hwb]. apply andb_prop in Hwf. destruct Hwf as [Hop Hwa]. apply N.leb_le in Hop.
      assert (Hca : content = pre ++ print_operand a ++ ([32%N] ++ op_text op ++ [32%N] ++ print_operand b ++ post)) by (rewrite Hc; assoc).
      assert (Hcb : content = (pre ++ print_operand a ++ [32%N] ++ op_text op ++ [32%N]) ++ print_operand b ++ post) by (rewrite Hc; assoc).
      assert (Hlb : length (pre ++ print_operand a ++ [32%N] ++ op_text op ++ [32%N])
                    = length pre + length (print_operand a) + 1 + length (op_text op) + 1)
        by (repeat rewrite app_length; cbn [length]; lia).
      pose proof (fun o' => q_val_operand env ctx items a o' _ _ Hca Hwa HR) as Ea.
      pose proof (fun o' => q_val_operand env ctx items b o' _ _ Hcb Hwb HR) as Eb. rewrite Hlb in Eb.
      rewrite q_top_two. cbn [q_val]. rewrite q_op_operand. rewrite Ea, Eb.
      destruct (opq_eq op Hop) as [E1 E2]. rewrite E1, E2. cbn [eval_expr eval_operand].
      destruct (N.eqb op op_eq || N.eqb op op_ne) eqn:Eq.
      + assert (Hsa : (match q_operand env (opq op) (length pre) a with
                       | QVar _ v => match q_var content root items v with Some y => SVal y | None => SNone end
                       | _ => num_side (eval_operand root ctx a) end)
                      = match a with EVar p => var_side root ctx p | _ => num_side (eval_operand root ctx a) end).
        { destruct a as [na|pa|oa a1 a2]; cbn [q_operand]; try reflexivity.
          cbn [wf_expr] in Hwa. apply andb_prop in Hwa. destruct Hwa as [Hw Hu]. cbn [print_operand] in Hca.
          rewrite (q_var_eq env ctx items pa _ _ Hca (wf_epath_wf pa Hw) Hu HR). reflexivity. }
        assert (Hsb : (match q_operand env op_NoOp (length pre + length (print_operand a) + 1 + length (op_text op) + 1) b with
                       | QVar _ v => match q_var content root items v with Some y => SVal y | None => SNone end
                       | _ => num_side (eval_operand root ctx b) end)
                      = match b with EVar p => var_side root ctx p | _ => num_side (eval_operand root ctx b) end).
        { destruct b as [nb|pb|ob b1 b2]; cbn [q_operand]; try reflexivity.
          cbn [wf_expr] in Hwb. apply andb_prop in Hwb. destruct Hwb as [Hw Hu]. cbn [print_operand] in Hcb.
          rewrite <- Hlb. rewrite (q_var_eq env ctx items pb _ _ Hcb (wf_epath_wf pb Hw) Hu HR). reflexivity. }
        rewrite Hsa, Hsb. reflexivity.
      + destruct (eval_operand root ctx a) as [x|]; [|reflexivity]. destruct (eval_operand root ctx b) as [y|]; [|reflexivity].
        apply q_arith_eq; assumption.
  Qed.


  Lemma env_ok_S : forall d env, env_ok d env -> env_ok (S d) env.
  Proof. intros d env H nm li Hin. specialize (H nm li Hin). lia. Qed.

  Lemma qexpr_of_match : forall A env o e (x : A) (f : list qexpr -> A),
    match qexpr_of env o e with [] => x | _ :: _ => f (qexpr_of env o e) end = f (qexpr_of env o e).
  Proof. intros A env o e x f. destruct e; reflexivity. Qed.

  (* {math:expr} *)
  Lemma math_node : forall env ctx items e pre lit post,
    content = pre ++ lit ++ print_node (TMath e) ++ post ->
    wf_expr (map fst env) e = true -> R items env ctx ->
    rtag (PMath (length pre + length lit) (length pre + length lit + length (print_node (TMath e)))
                (qexpr_of env (length pre + length lit + 6) e)) (length pre) items =
    ROk (lit ++ ENode ctx (TMath e), length pre + length lit + length (print_node (TMath e)), items).
  Proof.
    intros env ctx items e pre lit post Hc Hwf HR.
    assert (Hlen : length content = length pre + length lit + length (print_node (TMath e)) + length post)
      by (rewrite Hc; repeat rewrite app_length; lia).
    cbn [render_tag]. unfold render_math.
    rewrite wslice_eq by lia. cbn [rbind].
    rewrite (sub_lit content pre lit (print_node (TMath e) ++ post)) by (try exact Hc; reflexivity).
    rewrite (qexpr_of_match _ env (length pre + length lit + 6) e None
               (fun ex => jv_math content root (length pre + length lit) ex items)).
    unfold jv_math.
    assert (Hq := q_top_expr env ctx items e (pre ++ lit ++ s_math_open) (s_close ++ post)).
    repeat rewrite app_length in Hq. cbn [length s_math_open] in Hq.
    replace (length pre + (length lit + 6)) with (length pre + length lit + 6) in Hq by lia.
    rewrite Hq; [| |exact Hwf|exact HR].
    2:{ rewrite Hc, print_node_TMath. assoc. }
    cbn [expand_node leaf_out]. unfold math_out.
    destruct (eval_expr root ctx e) as [z|]; [reflexivity|].
    rewrite wslice_eq by lia. cbn [rbind].
    rewrite (sub_node content pre lit (print_node (TMath e)) post) by (try exact Hc; reflexivity). reflexivity.
  Qed.

  Notation rpick := (render_pick jv get_key jv_members (jv_text auto w) char_and_length (fun v k => group_by k v) sort_set
                                 (var_text_cfg auto w) (jv_math content root) (jv_cond content root) content root).

  Definition node_sem (x : tnode) : Prop :=
    forall depth env ctx items pre lit post,
      wf_node1 (map fst env) depth x = true -> is_text x = false ->
      content = pre ++ lit ++ print_node x ++ post ->
      R items env ctx -> env_ok depth env ->
      exists t items', build env depth (length pre + length lit) x = [t] /\
        rtag t (length pre) items = ROk (lit ++ ENode ctx x, length pre + length lit + length (print_node x), items') /\
        agree depth items items'.


  (* ---- the phrase scan of a super variable = EscapeModel.svar_go ---- *)
  Notation pscan := (phrase_scan jv get_key (jv_text auto w) (var_text_cfg auto w) (jv_math content root) content root).
  Notation rsubf := (render_sub jv get_key (jv_text auto w) (var_text_cfg auto w) (jv_math content root) content root).
  Notation vt := (var_text_cfg auto w).

  Lemma svar_skip : forall outs k s pend, svar_go auto w outs s pend k = svar_go auto w outs (skipn k s) (rev (firstn k s) ++ pend) 0.
  Proof.
    intros outs k; induction k as [|k IH]; intros s pend; [reflexivity|].
    destruct s as [|c t]; [reflexivity|]. cbn [svar_go skipn firstn rev]. rewrite IH. rewrite <- app_assoc. reflexivity.
  Qed.

  Lemma skipn_add : forall (l : list N) a b, skipn a (skipn b l) = skipn (b + a) l.
  Proof.
    intros l a b; revert l; induction b as [|b IH]; intros l; [reflexivity|]. destruct l as [|x l]; [rewrite skipn_nil; reflexivity|].
    cbn [skipn Nat.add]. apply IH.
  Qed.
  Lemma skipn_nth : forall (l : list N) i, i < length l -> skipn i l = nth i l 0%N :: skipn (S i) l.
  Proof.
    intros l; induction l as [|x l IH]; intros i H; [cbn in H; lia|]. destruct i as [|i]; [reflexivity|].
    cbn [skipn nth]. apply IH. cbn in H. lia.
  Qed.
  Lemma slice_snoc : forall (l : list N) a i, a <= i -> i < length l -> slice l a (S i) = slice l a i ++ [nth i l 0%N].
  Proof.
    intros l a i Ha Hi. unfold slice. replace (S i - a) with (S (i - a)) by lia.
    assert (G : forall (m : list N) k, k < length m -> firstn (S k) m = firstn k m ++ [nth k m 0%N]).
    { intros m; induction m as [|y m IHm]; intros k Hk; [cbn in Hk; lia|]. destruct k as [|k]; [reflexivity|].
      cbn [firstn nth app]. f_equal. apply IHm. cbn in Hk. lia. }
    rewrite G by (rewrite skipn_length; lia). f_equal. f_equal.
    clear G. revert a i Ha Hi. induction l as [|y l IHl]; intros a i Ha Hi; [cbn in Hi; lia|].
    destruct a as [|a]; [rewrite Nat.sub_0_r; reflexivity|]. destruct i as [|i]; [lia|]. cbn [skipn nth]. replace (S i - S a) with (i - a) by lia. apply IHl; cbn in Hi; lia.
  Qed.
  Lemma slice_past : forall (l : list N) a i, length l <= i -> slice l a i = slice l a (length l).
  Proof.
    intros l a i H. unfold slice. destruct (Nat.le_gt_cases (length l) a) as [Ha|Ha].
    - rewrite skipn_all2 by lia. rewrite !firstn_nil. reflexivity.
    - rewrite !firstn_all2; [reflexivity|rewrite skipn_length; lia|rewrite skipn_length; lia].
  Qed.
  Lemma slice_self : forall (l : list N) a, slice l a a = [].
  Proof. intros. unfold slice. rewrite Nat.sub_diag. reflexivity. Qed.

  Section Phrase.
    Variable phrase : list N.
    Variable tags : list tag.
    Variable items : list (item jv).
    Variable outs : list (list N).
    Hypothesis Hlen : length outs = length tags.
    Hypothesis Hsub : forall k t, nth_error tags k = Some t -> rsubf t items = ROk (nth k outs []).
    Notation plen := (length phrase).
    Notation SG := (svar_go auto w outs).

    Lemma sg_end : forall j li, plen <= j -> SG (skipn j phrase) (rev (slice phrase li j)) 0 = vt (slice phrase li plen).
    Proof. intros j li H. rewrite skipn_all2 by lia. cbn [svar_go]. rewrite rev_involutive. rewrite (slice_past phrase li j H). reflexivity. Qed.

    Lemma pscan_eq : forall n index last acc fuel, plen - index <= n -> n < fuel -> last <= index ->
      pscan fuel phrase tags items index last acc = ROk (acc ++ SG (skipn index phrase) (rev (slice phrase last index)) 0).
    Proof.
      intros n; induction n as [n IH] using lt_wf_ind; intros index last acc fuel Hn Hf Hl.
      destruct fuel as [|f]; [lia|]. cbn [phrase_scan].
      destruct (Nat.ltb_spec index plen) as [Hi|Hi].
      2:{ rewrite sg_end by lia. reflexivity. }
      rewrite (skipn_nth phrase index Hi). set (c := nth index phrase 0%N).
      assert (Hstep : forall j, index < j -> forall last' acc', last' <= j ->
                pscan f phrase tags items j last' acc' = ROk (acc' ++ SG (skipn j phrase) (rev (slice phrase last' j)) 0)).
      { intros j Hj last' acc' Hl'. apply (IH (plen - j)); lia. }
      destruct (N.eqb_spec c 123) as [Ec|Ec].
      - (* an opening brace *)
        cbn [svar_go]. unfold ch_lbrace. rewrite Ec. cbn [N.eqb Pos.eqb]. rewrite rev_involutive.
        set (acc1 := acc ++ vt (slice phrase last index)).
        assert (Hsk : forall k, SG (skipn (S index) phrase) [123%N] k = SG (skipn (S index + k) phrase) (rev (slice phrase index (S index + k))) 0).
        { intros k. rewrite svar_skip. rewrite skipn_add. f_equal.
          unfold slice. replace (S index + k - index) with (S k) by lia. rewrite (skipn_nth phrase index Hi). fold c. rewrite Ec.
          cbn [firstn rev]. reflexivity. }
        destruct (Nat.ltb_spec (S index) plen) as [H1|H1].
        + rewrite (skipn_nth phrase (S index) H1). set (d := nth (S index) phrase 0%N).
          destruct (Nat.ltb_spec (S (S index)) plen) as [H2|H2].
          * rewrite (skipn_nth phrase (S (S index)) H2). set (c2 := nth (S (S index)) phrase 0%N). cbn [andb].
            unfold ch_rbrace, ch_zero. destruct (N.eqb_spec c2 125) as [E2|E2].
            -- destruct (N.leb_spec 48 d) as [Hd|Hd]; cbn [andb].
               ++ destruct (Nat.ltb_spec (N.to_nat (d - 48)) (length tags)) as [Hk|Hk].
                  ** destruct (N.ltb_spec (d - 48) (N.of_nat (length outs))) as [_|X]; [|lia].
                     destruct (nth_error tags (N.to_nat (d - 48))) as [t|] eqn:Et; [|apply nth_error_None in Et; lia].
                     rewrite (Hsub _ _ Et). cbn [rbind].
                     rewrite (Hstep (S (S (S index))) ltac:(lia) (S (S (S index)))) by lia.
                     rewrite slice_self. cbn [rev]. unfold acc1. repeat rewrite <- app_assoc. reflexivity.
                  ** destruct (N.ltb_spec (d - 48) (N.of_nat (length outs))) as [X|_]; [lia|].
                     rewrite (Hstep (S (S (S (S index)))) ltac:(lia) index) by lia.
                     fold d c2 in Hsk. pose proof (Hsk 3) as E3. rewrite (skipn_nth phrase (S index) H1), (skipn_nth phrase (S (S index)) H2) in E3.
                     fold d c2 in E3. rewrite E3. unfold acc1. rewrite <- app_assoc.
                     replace (S index + 3) with (S (S (S (S index)))) by lia. reflexivity.
               ++ rewrite (Hstep (S (S (S (S index)))) ltac:(lia) index) by lia.
                  pose proof (Hsk 3) as E3. rewrite (skipn_nth phrase (S index) H1), (skipn_nth phrase (S (S index)) H2) in E3.
                  fold d c2 in E3. rewrite E3. unfold acc1. rewrite <- app_assoc.
                  replace (S index + 3) with (S (S (S (S index)))) by lia. reflexivity.
            -- rewrite (Hstep (S (S (S index))) ltac:(lia) index) by lia.
               pose proof (Hsk 2) as E3. rewrite (skipn_nth phrase (S index) H1), (skipn_nth phrase (S (S index)) H2) in E3.
               fold d c2 in E3. rewrite E3. unfold acc1. rewrite <- app_assoc.
               replace (S index + 2) with (S (S (S index))) by lia. reflexivity.
          * cbn [andb]. rewrite (skipn_all2 phrase (n:=S (S index))) by lia.
            rewrite (Hstep (S (S (S index))) ltac:(lia) index) by lia.
            pose proof (Hsk 2) as E3. rewrite (skipn_nth phrase (S index) H1) in E3. fold d in E3. rewrite (skipn_all2 phrase (n:=S (S index))) in E3 by lia.
            rewrite E3. unfold acc1. rewrite <- app_assoc. replace (S index + 2) with (S (S (S index))) by lia. reflexivity.
        + rewrite (skipn_all2 phrase (n:=S index)) by lia.
          rewrite (Hstep (S (S index)) ltac:(lia) index) by lia.
          pose proof (Hsk 2) as E3. rewrite (skipn_all2 phrase (n:=S index)) in E3 by lia.
          rewrite E3. unfold acc1. rewrite <- app_assoc.
          rewrite (sg_end (S (S index)) index) by lia. rewrite (sg_end (S index + 2) index) by lia. reflexivity.
      - (* any other unit *)
        cbn [svar_go]. unfold ch_lbrace. destruct (N.eqb_spec c 123) as [X|_]; [contradiction|].
        rewrite (Hstep (S index) ltac:(lia) last) by lia.
        rewrite (slice_snoc phrase last index Hl Hi). fold c. rewrite rev_app_distr. reflexivity.
    Qed.
  End Phrase.

  (* ---- {svar:path, tag, ...} ---- *)
  Lemma fresh_none : forall env ctx items p, fresh (map fst env) p = true -> R items env ctx -> find_binding ctx (print_path p) = None.
  Proof.
    intros env ctx items p Hf HR. induction HR as [|nm li env b ctx Hn Hi HR IH]; [reflexivity|].
    cbn [map fst fresh forallb] in Hf. apply andb_prop in Hf. destruct Hf as [H1 H2].
    cbn [find_binding]. rewrite Hn. destruct nm as [|c nm']; [apply IH; exact H2|].
    apply negb_true_iff in H1. rewrite H1. apply IH. exact H2.
  Qed.
  Lemma resolve_fresh : forall ctx p, find_binding ctx (print_path p) = None -> fst (resolve root ctx p) = fst (resolve root [] p).
  Proof. intros ctx p H. unfold resolve. rewrite H. reflexivity. Qed.

  Lemma rtag_var_inv : forall v o items x y, rtag (PVar v) o items = ROk (x, y, items) ->
    render_var jv get_key (jv_text auto w) (var_text_cfg auto w) content root v o items = ROk (x, y).
  Proof.
    intros v o items x y H. cbn [render_tag] in H.
    destruct (render_var jv get_key (jv_text auto w) (var_text_cfg auto w) content root v o items) as [[a b]|e]; [|discriminate H].
    cbn [rbind fst snd] in H. injection H as -> ->. reflexivity.
  Qed.
  Lemma rtag_raw_inv : forall v o items x y, rtag (PRaw v) o items = ROk (x, y, items) ->
    render_raw jv get_key (jv_text auto w) content root v o items = ROk (x, y).
  Proof.
    intros v o items x y H. cbn [render_tag] in H.
    destruct (render_raw jv get_key (jv_text auto w) content root v o items) as [[a b]|e]; [|discriminate H].
    cbn [rbind fst snd] in H. injection H as -> ->. reflexivity.
  Qed.
  Lemma rtag_math_inv : forall o e ex off items x y, rtag (PMath o e ex) off items = ROk (x, y, items) ->
    render_math jv (jv_math content root) content o e ex off items = ROk (x, y).
  Proof.
    intros o e ex off items x y H. cbn [render_tag] in H.
    destruct (render_math jv (jv_math content root) content o e ex off items) as [[a b]|er]; [|discriminate H].
    cbn [rbind fst snd] in H. injection H as -> ->. reflexivity.
  Qed.

  Lemma subs_render : forall env ctx items d subs prs post',
    content = prs ++ print_subs subs ++ post' -> forallb sub_ok subs = true ->
    forallb (wf_node1 (map fst env) d) subs = true -> R items env ctx ->
    length (build_subs env d (length prs) subs) = length subs /\
    forall k t, nth_error (build_subs env d (length prs) subs) k = Some t ->
      rsubf t items = ROk (nth k (map (leaf_out auto w root ctx) subs) []).
  Proof.
    intros env ctx items d subs; induction subs as [|x r IH]; intros prs post' Hc Hs Hw HR.
    - split; [reflexivity|]. intros k t H. destruct k; discriminate H.
    - cbn [forallb] in Hs, Hw. apply andb_prop in Hs. destruct Hs as [Hsx Hsr]. apply andb_prop in Hw. destruct Hw as [Hwx Hwr].
      cbn [print_subs] in Hc. rewrite build_subs_cons.
      assert (Hc' : content = (prs ++ s_comma_sp ++ print_node x) ++ print_subs r ++ post') by (rewrite Hc; assoc).
      assert (Hl' : length (prs ++ s_comma_sp ++ print_node x) = length prs + 2 + length (print_node x))
        by (repeat rewrite app_length; cbn [length s_comma_sp]; lia).
      destruct (IH (prs ++ s_comma_sp ++ print_node x) post' Hc' Hsr Hwr HR) as [IHl IHk]. rewrite Hl' in IHl, IHk.
      assert (Hcx : content = (prs ++ s_comma_sp) ++ [] ++ print_node x ++ (print_subs r ++ post')) by (rewrite Hc; assoc).
      assert (Hlx : length (prs ++ s_comma_sp) = length prs + 2) by (rewrite app_length; reflexivity).
      assert (Hx : exists tx, build env d (length prs + 2) x = [tx] /\ rsubf tx items = ROk (leaf_out auto w root ctx x)).
      { destruct x as [s|p|p|e|p sb|c t f|c b m|st v g so b]; try discriminate Hsx.
        - cbn [wf_node1] in Hwx. apply andb_prop in Hwx. destruct Hwx as [Hwp Hu].
          eexists. split; [reflexivity|]. cbn [render_sub]. unfold vt_of at 1. cbn [v_off]. unfold tpp_VariablePrefixLength.
          rewrite rsub_eq by lia. cbn [rbind]. replace (length prs + 2 + 5 - 5) with (length prs + 2) by lia.
          pose proof (var_node env ctx items p (prs ++ s_comma_sp) [] _ Hcx Hwp Hu HR) as Hv.
          rewrite Hlx in Hv. cbn [length app] in Hv. rewrite Nat.add_0_r in Hv.
          rewrite (rtag_var_inv _ _ _ _ _ Hv). reflexivity.
        - cbn [wf_node1] in Hwx. apply andb_prop in Hwx. destruct Hwx as [Hwp Hu].
          eexists. split; [reflexivity|]. cbn [render_sub]. unfold vt_of at 1. cbn [v_off]. unfold tpp_RawVariablePrefixLength.
          rewrite rsub_eq by lia. cbn [rbind]. replace (length prs + 2 + 5 - 5) with (length prs + 2) by lia.
          pose proof (raw_node env ctx items p (prs ++ s_comma_sp) [] _ Hcx Hwp Hu HR) as Hv.
          rewrite Hlx in Hv. cbn [length app] in Hv. rewrite Nat.add_0_r in Hv.
          rewrite (rtag_raw_inv _ _ _ _ _ Hv). reflexivity.
        - cbn [wf_node1] in Hwx.
          eexists. split; [reflexivity|]. cbn [render_sub].
          pose proof (math_node env ctx items e (prs ++ s_comma_sp) [] _ Hcx Hwx HR) as Hv.
          rewrite Hlx in Hv. cbn [length app] in Hv. rewrite Nat.add_0_r in Hv.
          rewrite (rtag_math_inv _ _ _ _ _ _ _ Hv). reflexivity. }
      destruct Hx as (tx & Hb & Hr). rewrite Hb. cbn [app length map]. split; [rewrite IHl; reflexivity|].
      intros k t Hk. destruct k as [|k]; [cbn in Hk; injection Hk as <-; exact Hr|].
      cbn [nth_error nth] in *. apply IHk. exact Hk.
  Qed.

  Lemma svar_node : forall depth env ctx items p subs pre lit post,
    content = pre ++ lit ++ print_node (TSVar p subs) ++ post ->
    wf_node1 (map fst env) depth (TSVar p subs) = true -> R items env ctx ->
    rtag (PSVar (length pre + length lit) (length pre + length lit + length (print_node (TSVar p subs)))
                (mkV (length pre + length lit + 6) (N.of_nat (length (print_path p))) 0 0)
                (build_subs env (S depth) (length pre + length lit + 6 + length (print_path p)) subs)) (length pre) items =
    ROk (lit ++ ENode ctx (TSVar p subs), length pre + length lit + length (print_node (TSVar p subs)), items).
  Proof.
    intros depth env ctx items p subs pre lit post Hc Hwf HR.
    rewrite wf_TSVar in Hwf. apply andb_prop in Hwf. destruct Hwf as [Hwf Hws]. apply andb_prop in Hwf. destruct Hwf as [Hwf Hso].
    apply andb_prop in Hwf. destruct Hwf as [Hwf Hne]. apply andb_prop in Hwf. destruct Hwf as [Hwf Hfr]. apply andb_prop in Hwf. destruct Hwf as [Hwp H44].
    assert (Hlen : length content = length pre + length lit + length (print_node (TSVar p subs)) + length post)
      by (rewrite Hc; repeat rewrite app_length; lia).
    set (tot := length (print_node (TSVar p subs))) in *.
    pose proof Hc as Hc0. rewrite print_node_TSVar in Hc.
    cbn [render_tag].
    (* the value *)
    assert (Hlook := lookup [] [] items p (pre ++ lit ++ s_svar_open) (print_subs subs ++ s_close ++ post)).
    repeat rewrite app_length in Hlook. cbn [length s_svar_open] in Hlook.
    replace (length pre + (length lit + 6)) with (length pre + length lit + 6) in Hlook by lia.
    change (vt_of [] (length pre + length lit + 6) p) with (mkV (length pre + length lit + 6) (N.of_nat (length (print_path p))) 0 0) in Hlook.
    rewrite Hlook; [| |exact Hwp|unfold uniq; destruct (snd p); reflexivity|constructor].
    2:{ rewrite Hc. assoc. }
    cbn [rbind]. rewrite wslice_eq by lia. cbn [rbind].
    rewrite (sub_lit content pre lit (print_node (TSVar p subs) ++ post)) by (try exact Hc0; reflexivity).
    rewrite <- (resolve_fresh ctx p (fresh_none env ctx items p Hfr HR)).
    rewrite expand_node_TSVar.
    destruct subs as [|x0 r0]; [discriminate Hne|]. cbv iota. set (subs := x0 :: r0) in *.
    destruct (match fst (resolve root ctx p) with Some v => char_and_length v | None => None end) as [phrase|].
    - assert (Hcs : content = (pre ++ lit ++ s_svar_open ++ print_path p) ++ print_subs subs ++ (s_close ++ post)) by (rewrite Hc; assoc).
      destruct (subs_render env ctx items (S depth) subs _ _ Hcs Hso Hws HR) as [Hl Hk].
      replace (length (pre ++ lit ++ s_svar_open ++ print_path p)) with (length pre + length lit + 6 + length (print_path p)) in Hl, Hk
        by (repeat rewrite app_length; cbn [length s_svar_open]; lia).
      rewrite (pscan_eq phrase _ items (map (leaf_out auto w root ctx) subs)) with (n := length phrase); [| |exact Hk|lia|lia|lia].
      + cbn [rbind app skipn]. rewrite slice_self. cbn [rev]. reflexivity.
      + rewrite map_length. symmetry. exact Hl.
    - rewrite wslice_eq by lia. cbn [rbind].
      rewrite (sub_node content pre lit (print_node (TSVar p subs)) post) by (try exact Hc0; reflexivity). reflexivity.
  Qed.

  (* ---- nodes and lists ---- *)
  Lemma list_sem : forall l, Forall node_sem l ->
    forall depth env ctx items pre lit post,
      forallb (wf_node1 (map fst env) depth) l = true ->
      content = pre ++ lit ++ print_nodes l ++ post ->
      R items env ctx -> env_ok depth env ->
      exists items', rlist (build_list env depth (length pre + length lit) l) (length pre)
                           (length pre + length lit + length (print_nodes l)) items = ROk (lit ++ ENodes ctx l, items') /\
                     agree depth items items'.
  Proof.
    intros l Hl. induction Hl as [|x r Hx Hr IH]; intros depth env ctx items pre lit post Hwf Hc HR He.
    - cbn [build_list render_list print_nodes expand_nodes length]. rewrite app_nil_r.
      exists items. split; [|apply agree_refl].
      rewrite wslice_eq by (try rewrite Hc; repeat rewrite app_length; cbn [print_nodes length]; lia). cbn [rbind].
      rewrite (sub_lit content pre lit post); [reflexivity|exact Hc|reflexivity|lia].
    - cbn [forallb] in Hwf. apply andb_prop in Hwf. destruct Hwf as [Hwx Hwr].
      destruct (is_text x) eqn:Ht.
      + destruct x as [s| | | | | | | ]; try discriminate Ht.
        assert (Hc1 : content = pre ++ (lit ++ s) ++ print_nodes r ++ post) by (capp Hc).
        destruct (IH depth env ctx items pre (lit ++ s) post Hwr Hc1 HR He) as (items' & E & Ha).
        exists items'. split; [|exact Ha].
        change (ENodes ctx (TText s :: r)) with (s ++ ENodes ctx r).
        rewrite (app_assoc lit s). rewrite <- E.
        change (build_list env depth (length pre + length lit) (TText s :: r))
          with (build_list env depth (length pre + length lit + length (print_node (TText s))) r).
        change (print_nodes (TText s :: r)) with (s ++ print_nodes r).
        change (print_node (TText s)) with s.
        f_equal; [f_equal; len|len].
      + assert (Hc1 : content = pre ++ lit ++ print_node x ++ print_nodes r ++ post) by (capp Hc).
        assert (Hc2 : content = (pre ++ lit ++ print_node x) ++ [] ++ print_nodes r ++ post) by (capp Hc).
        destruct (Hx depth env ctx items pre lit (print_nodes r ++ post) Hwx Ht Hc1 HR He) as (t & items1 & Hb & Hren & Ha1).
        cbn [build_list]. rewrite Hb. cbn [app render_list]. rewrite Hren. cbn [rbind].
        destruct (IH depth env ctx items1 (pre ++ lit ++ print_node x) [] post Hwr Hc2
                     (R_agree depth env ctx items items1 He Ha1 HR) He) as (items2 & E & Ha2).
        exists items2. split; [|exact (agree_trans _ _ _ _ Ha1 Ha2)].
        cbn [app] in E. cbn [expand_nodes print_nodes].
        replace (length pre + length lit + length (print_node x)) with (length (pre ++ lit ++ print_node x) + length (@nil N)) by len.
        replace (length pre + length lit + length (print_node x ++ print_nodes r))
          with (length (pre ++ lit ++ print_node x) + length (@nil N) + length (print_nodes r)) by len.
        replace (length (pre ++ lit ++ print_node x) + length (@nil N)) with (length (pre ++ lit ++ print_node x)) at 2 by len.
        rewrite E. cbn [rbind fst snd]. rewrite <- app_assoc. reflexivity.
  Qed.

  (* the else cases *)
  Lemma pick_sem : forall more, Forall (fun cb : option expr * list tnode => Forall node_sem (snd cb)) more ->
    forall depth env ctx items prc post,
      wf_more (map fst env) depth more = true -> content = prc ++ print_more more ++ post ->
      R items env ctx -> env_ok depth env ->
      exists items', rpick items (build_more env depth (length prc) more) = ROk (pick_e auto w root ctx more, items') /\
                     agree depth items items'.
  Proof.
    intros more Hm. induction Hm as [|[oe b] r Hb Hr IH]; intros depth env ctx items prc post Hwf Hc HR He.
    - exists items. split; [reflexivity|apply agree_refl].
    - cbn [snd] in Hb. destruct oe as [e|].
      + rewrite wf_more_some in Hwf. apply andb_prop in Hwf. destruct Hwf as [Hwf Hwr]. apply andb_prop in Hwf. destruct Hwf as [Hwe Hwb].
        cbn [print_more] in Hc. rewrite build_more_some. cbv zeta. rewrite render_pick_cons.
        rewrite (qexpr_of_match _ env (length prc + 15) e true
                   (fun ex => match jv_cond content root (length prc + 15 + length (print_expr e) + 2) ex items with Some true => true | _ => false end)).
        unfold jv_cond.
        assert (Hq := q_top_expr env ctx items e (prc ++ s_elseif_open) (s_tag_close ++ print_nodes b ++ print_more r ++ post)).
        rewrite app_length in Hq. cbn [length s_elseif_open] in Hq. rewrite Hq; [| |exact Hwe|exact HR].
        2:{ rewrite Hc. assoc. }
        rewrite pick_e_some. unfold truth.
        set (prc' := prc ++ s_elseif_open ++ print_expr e ++ s_tag_close).
        assert (Hl' : length prc' = length prc + 15 + length (print_expr e) + 2)
          by (unfold prc'; repeat rewrite app_length; cbn [length s_elseif_open s_tag_close]; lia).
        assert (Hbody : exists items', rlist (build_list env (S depth) (length prc + 15 + length (print_expr e) + 2) b)
                                 (length prc + 15 + length (print_expr e) + 2)
                                 (length prc + 15 + length (print_expr e) + 2 + length (print_nodes b)) items
                               = ROk (ENodes ctx b, items') /\ agree depth items items').
        { assert (Hcb : content = prc' ++ [] ++ print_nodes b ++ (print_more r ++ post)) by (rewrite Hc; unfold prc'; assoc).
          destruct (list_sem b Hb (S depth) env ctx items prc' [] (print_more r ++ post) Hwb Hcb HR (env_ok_S _ _ He)) as (i' & E & Ha).
          cbn [length app] in E. rewrite Nat.add_0_r in E. rewrite Hl' in E. exists i'. split; [exact E|apply (agree_le depth (S depth)); [lia|exact Ha]]. }
        destruct (eval_expr root ctx e) as [z|].
        * destruct (z >? 0)%Z; [exact Hbody|].
          replace (length prc + 15 + length (print_expr e) + 2 + length (print_nodes b)) with (length (prc' ++ print_nodes b))
            by (rewrite app_length, Hl'; reflexivity).
          apply (IH depth env ctx items (prc' ++ print_nodes b) post Hwr); [rewrite Hc; unfold prc'; assoc|exact HR|exact He].
        * replace (length prc + 15 + length (print_expr e) + 2 + length (print_nodes b)) with (length (prc' ++ print_nodes b))
            by (rewrite app_length, Hl'; reflexivity).
          apply (IH depth env ctx items (prc' ++ print_nodes b) post Hwr); [rewrite Hc; unfold prc'; assoc|exact HR|exact He].
      + rewrite wf_more_none in Hwf. apply andb_prop in Hwf. destruct Hwf as [Hwb _].
        cbn [print_more] in Hc. rewrite build_more_none. cbv zeta. rewrite render_pick_cons. rewrite pick_e_none.
        set (prc' := prc ++ s_else).
        assert (Hl' : length prc' = length prc + 6) by (unfold prc'; rewrite app_length; cbn [length s_else]; lia).
        assert (Hcb : content = prc' ++ [] ++ print_nodes b ++ (print_more r ++ post)) by (rewrite Hc; unfold prc'; assoc).
        destruct (list_sem b Hb (S depth) env ctx items prc' [] (print_more r ++ post) Hwb Hcb HR (env_ok_S _ _ He)) as (i' & E & Ha).
        cbn [length app] in E. rewrite Nat.add_0_r in E. rewrite Hl' in E. exists i'. split; [exact E|apply (agree_le depth (S depth)); [lia|exact Ha]].
  Qed.


  (* ---- render(first, last) on a part of the sub tags of an inline if ---- *)
  Notation rrange := (render_range jv get_key jv_members (jv_text auto w) char_and_length (fun v k => group_by k v) sort_set
                                   (var_text_cfg auto w) (jv_math content root) (jv_cond content root) content root).
  Lemma rr_take_all : forall A B o e items, rrange (A ++ B) 0 (length A) o e items = rlist A o e items.
  Proof.
    intros A; induction A as [|x A IH]; intros B o e items.
    - destruct B; reflexivity.
    - cbn [app length render_range render_list]. destruct (rtag x o items) as [[[o1 off1] it1]|err]; [|reflexivity].
      cbn [rbind]. rewrite IH. reflexivity.
  Qed.
  Lemma rr_skip : forall A B t o e items, rrange (A ++ B) (length A) t o e items = rrange B 0 t o e items.
  Proof. intros A; induction A as [|x A IH]; intros B t o e items; [reflexivity|]. cbn [app length render_range]. apply IH. Qed.
  Lemma rr_all : forall B t o e items, length B <= t -> rrange B 0 t o e items = rlist B o e items.
  Proof.
    intros B; induction B as [|x B IH]; intros t o e items H; [reflexivity|].
    cbn [length] in H. destruct t as [|t]; [lia|]. cbn [render_range render_list].
    destruct (rtag x o items) as [[[o1 off1] it1]|err]; [|reflexivity]. cbn [rbind]. rewrite IH by lia. reflexivity.
  Qed.

  Lemma ntags_build : forall env depth o l, forallb inl_ok l = true -> length (build_list env depth o l) = ntags l.
  Proof.
    intros env depth o l; revert o; induction l as [|x r IH]; intros o H; [reflexivity|].
    cbn [forallb] in H. apply andb_prop in H. destruct H as [Hx Hr].
    cbn [build_list]. rewrite app_length, (IH _ Hr). unfold ntags. cbn [filter].
    destruct x; try discriminate Hx; reflexivity.
  Qed.



  Lemma wf_path_len : forall p, wf_path p = true -> 1 <= length (print_path p) <= 255.
  Proof.
    intros [nm idx] H. unfold wf_path in H. cbn [fst snd] in H.
    apply andb_prop in H. destruct H as [H H255]. apply andb_prop in H. destruct H as [H _].
    apply andb_prop in H. destruct H as [_ Hne]. apply Nat.leb_le in H255. split; [|exact H255].
    change (print_path (nm, idx)) with (nm ++ print_idx idx). rewrite app_length. destruct nm; [discriminate Hne|cbn; lia].
  Qed.

  Notation reach := (render_each jv get_key jv_members (jv_text auto w) char_and_length (fun v k => group_by k v) sort_set
                                 (var_text_cfg auto w) (jv_math content root) (jv_cond content root) content root).

  Lemma node_sem_all : forall x, node_sem x.
  Proof.
    apply tnode_ind2; unfold node_sem.
    - intros s depth env ctx items pre lit post _ Ht. discriminate Ht.
    - intros p depth env ctx items pre lit post Hwf _ Hc HR He. cbn [wf_node1] in Hwf. apply andb_prop in Hwf. destruct Hwf as [Hw Hu].
      exists (PVar (vt_of env (length pre + length lit + 5) p)), items. split; [reflexivity|]. split; [|apply agree_refl].
      apply (var_node env ctx items p pre lit post Hc Hw Hu HR).
    - intros p depth env ctx items pre lit post Hwf _ Hc HR He. cbn [wf_node1] in Hwf. apply andb_prop in Hwf. destruct Hwf as [Hw Hu].
      exists (PRaw (vt_of env (length pre + length lit + 5) p)), items. split; [reflexivity|]. split; [|apply agree_refl].
      apply (raw_node env ctx items p pre lit post Hc Hw Hu HR).
    - (* math *)
      intros e depth env ctx items pre lit post Hwf _ Hc HR He. cbn [wf_node1] in Hwf.
      eexists _, items. split; [reflexivity|]. split; [|apply agree_refl].
      replace (length pre + length lit + length (print_node (TMath e))) with (length pre + length lit + length (print_node (TMath e))) by reflexivity.
      apply (math_node env ctx items e pre lit post Hc Hwf HR).
    - (* super variable *)
      intros p subs depth env ctx items pre lit post Hwf _ Hc HR He.
      rewrite build_TSVar. eexists _, items. split; [reflexivity|]. split; [|apply agree_refl].
      apply (svar_node depth env ctx items p subs pre lit post Hc Hwf HR).
    - (* inline if with a false value *)
      intros c t fl Ht Hfl depth env ctx items pre lit post Hwf _ Hc HR He.
      rewrite wf_TIIf in Hwf. apply andb_prop in Hwf. destruct Hwf as [Hwf Hnt]. apply andb_prop in Hwf. destruct Hwf as [Hwf H16].
      apply andb_prop in Hwf. destruct Hwf as [Hwf Hf]. apply andb_prop in Hf. destruct Hf as [Hifl Hwfl].
      apply andb_prop in Hwf. destruct Hwf as [Hwf Hwt]. apply andb_prop in Hwf. destruct Hwf as [Hwc Hit].
      rewrite build_TIIf_some. cbv zeta. eexists _.
      set (off := length pre + length lit). set (pe := print_expr c). set (pt := print_nodes t). set (pf := print_nodes fl).
      set (ts := off + 10 + length pe + 8). set (fs := ts + length pt + 9).
      set (A := build_list env (S depth) ts t). set (B := build_list env (S depth) fs fl).
      set (tot := length (print_node (TIIf c t (Some fl)))).
      assert (Htot : tot = 10 + length pe + 8 + length pt + 9 + length pf + 2)
        by (unfold tot; rewrite print_node_TIIf; repeat rewrite app_length; cbn [length s_iif_open s_true_attr s_false_attr s_iif_close]; fold pe pt pf; lia).
      rewrite print_node_TIIf in Hc. fold pe pt pf in Hc.
      assert (Hlen : length content = off + tot + length post)
        by (rewrite Hc, Htot; unfold off; repeat rewrite app_length; cbn [length s_iif_open s_true_attr s_false_attr s_iif_close]; lia).
      set (ir := mkI off (N.of_nat tot) (N.of_nat (ts - off)) (N.of_nat (length pt)) (N.of_nat (fs - off)) (N.of_nat (length pf)) 0 (N.of_nat (ntags t))).
      cut (exists items', rtag (PIIf ir (qexpr_of env (off + 10) c) (A ++ B)) (length pre) items
             = ROk (lit ++ ENode ctx (TIIf c t (Some fl)), off + tot, items') /\ agree depth items items').
      { intros (i & E & Ha). exists i. split; [reflexivity|]. split; assumption. }
      rewrite rtag_iif. unfold ir. cbn [i_off i_len i_toff i_tlen i_foff i_flen i_tid i_fid]. rewrite !Nat2N.id.
      rewrite wslice_eq by (unfold off in *; lia). cbn [rbind].
      rewrite (sub_lit content pre lit ((s_iif_open ++ pe ++ s_true_attr ++ pt ++ (s_false_attr ++ pf) ++ s_iif_close) ++ post)) by (try exact Hc; reflexivity).
      cbv zeta.
      rewrite (qexpr_of_match _ env (off + 10) c None (fun ex => jv_cond content root off ex items)).
      rewrite jv_cond_eq.
      assert (Hq := q_top_expr env ctx items c (pre ++ lit ++ s_iif_open) (s_true_attr ++ pt ++ (s_false_attr ++ pf) ++ s_iif_close ++ post)).
      repeat rewrite app_length in Hq. cbn [length s_iif_open] in Hq.
      replace (length pre + (length lit + 10)) with (off + 10) in Hq by (unfold off; lia).
      rewrite Hq; [| |exact Hwc|exact HR].
      2:{ rewrite Hc. fold pe. assoc. }
      rewrite expand_node_TIIf. unfold truth.
      assert (HlA : length A = ntags t) by (apply ntags_build; exact Hit).
      assert (HlB : length B = ntags fl) by (apply ntags_build; exact Hifl).
      set (prt := pre ++ lit ++ s_iif_open ++ pe ++ s_true_attr).
      assert (Hlt : length prt = ts) by (unfold prt, ts, off; repeat rewrite app_length; cbn [length s_iif_open s_true_attr]; lia).
      set (prf := prt ++ pt ++ s_false_attr).
      assert (Hlf : length prf = fs) by (unfold prf, fs; repeat rewrite app_length; rewrite Hlt; cbn [length s_false_attr]; lia).
      destruct (eval_expr root ctx c) as [z|]; [|exists items; split; [rewrite app_nil_r; reflexivity|apply agree_refl]].
      destruct (z >? 0)%Z.
      + destruct (N.ltb_spec (N.of_nat (ts - off)) (N.of_nat (fs - off))) as [_|X]; [|unfold fs in X; lia].
        unfold check_id. rewrite Nat2N.id. rewrite app_length, HlA. destruct (Nat.leb_spec (ntags t) (ntags t + length B)) as [_|X]; [|lia].
        cbn [rbind]. rewrite <- HlA. rewrite rr_take_all.
        assert (Hcb : content = prt ++ [] ++ pt ++ ((s_false_attr ++ pf) ++ s_iif_close ++ post)) by (rewrite Hc; unfold prt; assoc).
        destruct (list_sem t Ht (S depth) env ctx items prt [] _ Hwt Hcb HR (env_ok_S _ _ He)) as (i' & E & Ha).
        cbn [length app] in E. rewrite Nat.add_0_r in E. rewrite Hlt in E. fold pt in E. fold A in E.
        replace (off + (ts - off)) with ts by (unfold ts; lia). rewrite E. cbn [rbind fst snd].
        exists i'. split; [reflexivity|apply (agree_le depth (S depth)); [lia|exact Ha]].
      + destruct (N.ltb_spec (N.of_nat (fs - off)) (N.of_nat (ts - off))) as [X|_]; [unfold fs in X; lia|].
        unfold check_id. rewrite Nat2N.id. rewrite app_length, HlA. destruct (Nat.leb_spec (ntags t) (ntags t + length B)) as [_|X]; [|lia].
        cbn [rbind]. pose proof (rr_skip A B (ntags t + length B) (off + (fs - off)) (off + (fs - off) + length pf) items) as Hsk.
        rewrite HlA in Hsk. rewrite Hsk. clear Hsk. rewrite rr_all by lia.
        assert (Hcb : content = prf ++ [] ++ pf ++ (s_iif_close ++ post)) by (rewrite Hc; unfold prf, prt; assoc).
        destruct (list_sem fl Hfl (S depth) env ctx items prf [] _ Hwfl Hcb HR (env_ok_S _ _ He)) as (i' & E & Ha).
        cbn [length app] in E. rewrite Nat.add_0_r in E. rewrite Hlf in E. fold pf in E. fold B in E.
        replace (off + (fs - off)) with fs by (unfold fs, ts; lia). rewrite E. cbn [rbind fst snd].
        exists i'. split; [reflexivity|apply (agree_le depth (S depth)); [lia|exact Ha]].
    - (* inline if without a false value *)
      intros c t Ht depth env ctx items pre lit post Hwf _ Hc HR He.
      rewrite wf_TIIf in Hwf. apply andb_prop in Hwf. destruct Hwf as [Hwf Hnt]. apply andb_prop in Hwf. destruct Hwf as [Hwf H16].
      apply andb_prop in Hwf. destruct Hwf as [Hwf _].
      apply andb_prop in Hwf. destruct Hwf as [Hwf Hwt]. apply andb_prop in Hwf. destruct Hwf as [Hwc Hit].
      rewrite build_TIIf_none. cbv zeta. eexists _.
      set (off := length pre + length lit). set (pe := print_expr c). set (pt := print_nodes t).
      set (ts := off + 10 + length pe + 8).
      set (A := build_list env (S depth) ts t).
      set (tot := length (print_node (TIIf c t None))).
      assert (Htot : tot = 10 + length pe + 8 + length pt + 2)
        by (unfold tot; rewrite print_node_TIIf; repeat rewrite app_length; cbn [length s_iif_open s_true_attr s_iif_close]; fold pe pt; lia).
      rewrite print_node_TIIf in Hc. fold pe pt in Hc.
      assert (Hlen : length content = off + tot + length post)
        by (rewrite Hc, Htot; unfold off; repeat rewrite app_length; cbn [length s_iif_open s_true_attr s_iif_close]; lia).
      set (ir := mkI off (N.of_nat tot) (N.of_nat (ts - off)) (N.of_nat (length pt)) 0 0 0 0).
      cut (exists items', rtag (PIIf ir (qexpr_of env (off + 10) c) A) (length pre) items
             = ROk (lit ++ ENode ctx (TIIf c t None), off + tot, items') /\ agree depth items items').
      { intros (i & E & Ha). exists i. split; [reflexivity|]. split; assumption. }
      rewrite rtag_iif. unfold ir. cbn [i_off i_len i_toff i_tlen i_foff i_flen i_tid i_fid]. rewrite !Nat2N.id.
      rewrite wslice_eq by (unfold off in *; lia). cbn [rbind].
      rewrite (sub_lit content pre lit ((s_iif_open ++ pe ++ s_true_attr ++ pt ++ [] ++ s_iif_close) ++ post)) by (try exact Hc; reflexivity).
      cbv zeta.
      rewrite (qexpr_of_match _ env (off + 10) c None (fun ex => jv_cond content root off ex items)).
      rewrite jv_cond_eq.
      assert (Hq := q_top_expr env ctx items c (pre ++ lit ++ s_iif_open) (s_true_attr ++ pt ++ [] ++ s_iif_close ++ post)).
      repeat rewrite app_length in Hq. cbn [length s_iif_open] in Hq.
      replace (length pre + (length lit + 10)) with (off + 10) in Hq by (unfold off; lia).
      rewrite Hq; [| |exact Hwc|exact HR].
      2:{ rewrite Hc. fold pe. assoc. }
      rewrite expand_node_TIIf. unfold truth.
      set (prt := pre ++ lit ++ s_iif_open ++ pe ++ s_true_attr).
      assert (Hlt : length prt = ts) by (unfold prt, ts, off; repeat rewrite app_length; cbn [length s_iif_open s_true_attr]; lia).
      destruct (eval_expr root ctx c) as [z|]; [|exists items; split; [rewrite app_nil_r; reflexivity|apply agree_refl]].
      destruct (z >? 0)%Z.
      + destruct (N.ltb_spec (N.of_nat (ts - off)) 0) as [X|_]; [lia|].
        unfold check_id. cbn [N.to_nat]. cbn [Nat.leb rbind]. rewrite rr_all by lia.
        assert (Hcb : content = prt ++ [] ++ pt ++ ([] ++ s_iif_close ++ post)) by (rewrite Hc; unfold prt; assoc).
        destruct (list_sem t Ht (S depth) env ctx items prt [] _ Hwt Hcb HR (env_ok_S _ _ He)) as (i' & E & Ha).
        cbn [length app] in E. rewrite Nat.add_0_r in E. rewrite Hlt in E. fold pt in E. fold A in E.
        replace (off + (ts - off)) with ts by (unfold ts; lia). cbn [app] in E. rewrite E. cbn [rbind fst snd].
        exists i'. split; [reflexivity|apply (agree_le depth (S depth)); [lia|exact Ha]].
      + destruct (N.ltb_spec 0 (N.of_nat (ts - off))) as [_|X]; [|unfold ts in X; lia].
        unfold check_id. cbn [N.to_nat]. cbn [Nat.leb rbind].
        assert (Hr0 : rrange A 0 0 (off + 0) (off + 0 + 0) items = ROk ([], items)).
        { destruct A; cbn [render_range]; rewrite wslice_eq by (unfold off in *; lia); cbn [rbind];
            rewrite !Nat.add_0_r; unfold slice; rewrite Nat.sub_diag; reflexivity. }
        rewrite Hr0. cbn [rbind fst snd]. exists items. split; [reflexivity|apply agree_refl].
    - (* if *)
      intros c body more Hb Hm depth env ctx items pre lit post Hwf _ Hc HR He.
      rewrite wf_TIf in Hwf. apply andb_prop in Hwf. destruct Hwf as [Hwf Hwm]. apply andb_prop in Hwf. destruct Hwf as [Hwc Hwb].
      rewrite build_TIf. cbv zeta. eexists _.
      cut (exists items', rtag (PIf (length pre + length lit) (length pre + length lit + length (print_node (TIf c body more)))
               (PCase (length pre + length lit + 10 + length (print_expr c) + 2)
                      (length pre + length lit + 10 + length (print_expr c) + 2 + length (print_nodes body))
                      (qexpr_of env (length pre + length lit + 10) c)
                      (build_list env (S depth) (length pre + length lit + 10 + length (print_expr c) + 2) body)
                :: build_more env depth (length pre + length lit + 10 + length (print_expr c) + 2 + length (print_nodes body)) more))
             (length pre) items
             = ROk (lit ++ ENode ctx (TIf c body more), length pre + length lit + length (print_node (TIf c body more)), items')
             /\ agree depth items items').
      { intros (i & A & B). exists i. split; [reflexivity|]. split; assumption. }
      assert (Hlen : length content = length pre + length lit + length (print_node (TIf c body more)) + length post)
        by (rewrite Hc; repeat rewrite app_length; lia).
      rewrite rtag_if. rewrite wslice_eq by lia. cbn [rbind].
      rewrite (sub_lit content pre lit (print_node (TIf c body more) ++ post)) by (try exact Hc; reflexivity).
      rewrite print_node_TIf in Hc.
      set (prc := pre ++ lit ++ s_if_open ++ print_expr c ++ s_tag_close).
      assert (Hl : length prc = length pre + length lit + 10 + length (print_expr c) + 2)
        by (unfold prc; repeat rewrite app_length; cbn [length s_if_open s_tag_close]; lia).
      assert (Hpk : exists items', rpick items
               (PCase (length pre + length lit + 10 + length (print_expr c) + 2)
                      (length pre + length lit + 10 + length (print_expr c) + 2 + length (print_nodes body))
                      (qexpr_of env (length pre + length lit + 10) c)
                      (build_list env (S depth) (length pre + length lit + 10 + length (print_expr c) + 2) body)
                :: build_more env depth (length pre + length lit + 10 + length (print_expr c) + 2 + length (print_nodes body)) more)
               = ROk (ENode ctx (TIf c body more), items') /\ agree depth items items').
      { rewrite render_pick_cons.
        rewrite (qexpr_of_match _ env (length pre + length lit + 10) c true
                   (fun ex => match jv_cond content root (length pre + length lit + 10 + length (print_expr c) + 2) ex items with Some true => true | _ => false end)).
        unfold jv_cond.
        assert (Hq := q_top_expr env ctx items c (pre ++ lit ++ s_if_open) (s_tag_close ++ print_nodes body ++ print_more more ++ s_if_end ++ post)).
        repeat rewrite app_length in Hq. cbn [length s_if_open] in Hq.
        replace (length pre + (length lit + 10)) with (length pre + length lit + 10) in Hq by lia.
        rewrite Hq; [| |exact Hwc|exact HR].
        2:{ rewrite Hc. assoc. }
        rewrite expand_node_TIf. unfold truth.
        assert (Hbody : exists items', rlist (build_list env (S depth) (length pre + length lit + 10 + length (print_expr c) + 2) body)
                                 (length pre + length lit + 10 + length (print_expr c) + 2)
                                 (length pre + length lit + 10 + length (print_expr c) + 2 + length (print_nodes body)) items
                               = ROk (ENodes ctx body, items') /\ agree depth items items').
        { assert (Hcb : content = prc ++ [] ++ print_nodes body ++ (print_more more ++ s_if_end ++ post)) by (rewrite Hc; unfold prc; assoc).
          destruct (list_sem body Hb (S depth) env ctx items prc [] _ Hwb Hcb HR (env_ok_S _ _ He)) as (i' & E & Ha).
          cbn [length app] in E. rewrite Nat.add_0_r in E. rewrite Hl in E. exists i'. split; [exact E|apply (agree_le depth (S depth)); [lia|exact Ha]]. }
        assert (Hmore : exists items', rpick items (build_more env depth (length pre + length lit + 10 + length (print_expr c) + 2 + length (print_nodes body)) more)
                               = ROk (pick_e auto w root ctx more, items') /\ agree depth items items').
        { replace (length pre + length lit + 10 + length (print_expr c) + 2 + length (print_nodes body)) with (length (prc ++ print_nodes body))
            by (rewrite app_length, Hl; reflexivity).
          apply (pick_sem more Hm depth env ctx items (prc ++ print_nodes body) (s_if_end ++ post) Hwm); [rewrite Hc; unfold prc; assoc|exact HR|exact He]. }
        destruct (eval_expr root ctx c) as [z|]; [destruct (z >? 0)%Z; [exact Hbody|exact Hmore]|exact Hmore]. }
      destruct Hpk as (items' & Epk & Ha).
      rewrite (qexpr_of_match _ env (length pre + length lit + 10) c (ROk (lit, length pre + length lit + length (print_node (TIf c body more)), items))
                 (fun ex => rbind (rpick items (PCase (length pre + length lit + 10 + length (print_expr c) + 2)
                      (length pre + length lit + 10 + length (print_expr c) + 2 + length (print_nodes body)) ex
                      (build_list env (S depth) (length pre + length lit + 10 + length (print_expr c) + 2) body)
                   :: build_more env depth (length pre + length lit + 10 + length (print_expr c) + 2 + length (print_nodes body)) more))
                   (fun res => ROk (lit ++ fst res, length pre + length lit + length (print_node (TIf c body more)), snd res)))).
      rewrite Epk. cbn [rbind fst snd]. exists items'. split; [reflexivity|exact Ha].
    - intros set val group sort body Hb depth env ctx items pre lit post Hwf _ Hc HR He.
      cbn [wf_node1] in Hwf.
      apply andb_prop in Hwf. destruct Hwf as [Hwf Hbody]. apply andb_prop in Hwf. destruct Hwf as [Hwf Hhl].
      apply andb_prop in Hwf. destruct Hwf as [Hwf Hsort]. apply andb_prop in Hwf. destruct Hwf as [Hwf Hgrp].
      apply andb_prop in Hwf. destruct Hwf as [Hwf Hval]. apply andb_prop in Hwf. destruct Hwf as [Hd Hset].
      apply Nat.leb_le in Hd.
      set (off := length pre + length lit).
      set (l := loop_rec env depth off set val group sort (length (print_nodes body))).
      set (head := loop_head set val group sort).
      pose proof (loop_rec_fields env depth off set val group sort (length (print_nodes body))) as F.
      cbv zeta in F. fold l head in F. destruct F as (F1 & F2 & F3 & F4 & F5 & F6 & F7 & F8).
      set (subs := build_list ((val, info_of l) :: env) (S depth) (off + N.to_nat (l_coff l)) body).
      exists (PLoop l subs).
      cut (exists items', rtag (PLoop l subs) (length pre) items =
             ROk (lit ++ ENode ctx (TLoop set val group sort body), length pre + length lit + length (print_node (TLoop set val group sort body)), items')
             /\ agree depth items items').
      { intros (i & A & B). exists i. split; [reflexivity|]. split; assumption. }
      rewrite print_node_TLoop in *. fold head in Hc |- *.
      assert (Hlen : length content = off + length head + length (print_nodes body) + 7 + length post)
        by (rewrite Hc; unfold off; repeat rewrite app_length; cbn [length s_loop_end]; lia).
      rewrite rtag_loop. rewrite F1.
      rewrite wslice_eq by (unfold off in *; lia). cbn [rbind].
      rewrite (sub_lit content pre lit ((head ++ print_nodes body ++ s_loop_end) ++ post)) by (try exact Hc; reflexivity).
      cbv zeta. cbv beta.
      assert (Hoff' : l_end l + tpp_LoopSuffixLength = length pre + length lit + length (head ++ print_nodes body ++ s_loop_end)).
      { rewrite F2. unfold off, tpp_LoopSuffixLength. repeat rewrite app_length. cbn [length s_loop_end]. lia. }
      rewrite Hoff'.
      rewrite expand_node_TLoop. unfold loop_out.
      (* set *)
      assert (Hs0 : (if N.eqb (v_len (l_set l)) 0 then ROk (Some root) else gv (l_set l) items)
                    = ROk (match set with Some p => fst (resolve root ctx p) | None => Some root end)).
      { rewrite F7. destruct set as [p|]; [|reflexivity].
        apply andb_prop in Hset. destruct Hset as [Hw Hu]. pose proof (wf_path_len p Hw) as Hpl.
        cbn [vt_of v_len]. destruct (N.eqb_spec (N.of_nat (length (print_path p))) 0) as [Z|_]; [lia|].
        replace (off + 5 + 6) with (length (pre ++ lit ++ s_loop_open ++ s_set_attr))
          by (unfold off; repeat rewrite app_length; cbn [length s_loop_open s_set_attr]; lia).
        apply (lookup env ctx items p (pre ++ lit ++ s_loop_open ++ s_set_attr)
                 (s_quote ++ hp_val val ++ hp_grp group ++ hp_sort sort ++ s_gt ++ print_nodes body ++ s_loop_end ++ post));
          [|exact Hw|exact Hu|exact HR].
        rewrite Hc. unfold head. rewrite loop_head_parts. unfold hp_set. assoc. }
      rewrite Hs0. cbn [rbind].
      destruct (match set with Some p => fst (resolve root ctx p) | None => Some root end) as [s0|];
        [|exists items; split; [rewrite app_nil_r; reflexivity|apply agree_refl]].
      (* group *)
      assert (Hs1 : (if N.eqb (l_glen l) 0 then ROk (Some s0)
                     else rbind (kslice content 239 (off + N.to_nat (l_goff l)) (N.to_nat (l_glen l))) (fun k => ROk (group_by k s0)))
                    = ROk (match group with [] => Some s0 | _ => group_by group s0 end)).
      { rewrite F5. destruct group as [|g0 gr]; [reflexivity|].
        destruct (N.eqb_spec (N.of_nat (length (g0 :: gr))) 0) as [Z|_]; [cbn [length] in Z; lia|].
        rewrite F6 by discriminate. rewrite Nat2N.id.
        set (u := s_loop_open ++ hp_set set ++ hp_val val ++ s_group_attr).
        assert (Hcg : content = (pre ++ lit ++ u) ++ (g0 :: gr) ++ (s_quote ++ hp_sort sort ++ s_gt ++ print_nodes body ++ s_loop_end ++ post)).
        { rewrite Hc. unfold head, u. rewrite loop_head_parts. unfold hp_grp. assoc. }
        unfold kslice. destruct (Nat.eqb_spec (length (g0 :: gr)) 0) as [Z|_]; [cbn [length] in Z; lia|].
        assert (Hle : off + length u + length (g0 :: gr) <= length content).
        { rewrite Hcg. unfold off. repeat rewrite app_length. lia. }
        destruct (Nat.leb_spec (off + length u + length (g0 :: gr)) (length content)); [|lia]. cbn [rbind].
        rewrite (sub_mid content (pre ++ lit ++ u) (g0 :: gr) _ _ _ Hcg); [reflexivity| |reflexivity].
        unfold off. repeat rewrite app_length. lia. }
      rewrite Hs1. cbn [rbind].
      destruct (match group with [] => Some s0 | _ => group_by group s0 end) as [s1|];
        [|exists items; split; [rewrite app_nil_r; reflexivity|apply agree_refl]].
      (* sort *)
      set (s2 := match sort with 0%N => s1 | 1%N => sort_set true s1 | _ => sort_set false s1 end).
      assert (Hs2 : (if N.ltb 1 (l_opts l) then sort_set (N.eqb (N.land (l_opts l) tpp_SortAscend) tpp_SortAscend) s1 else s1) = s2).
      { rewrite F8. unfold s2. destruct sort as [|[q|q|]]; reflexivity. }
      rewrite Hs2.
      (* the members *)
      assert (Heach : forall ms its, depth < length its -> agree depth items its ->
                exists its', reach l subs (map (fun m => (Some (fst m), snd m)) ms) its
                             = ROk (each_of (fun c => ENodes c body) val ctx ms, its') /\ agree depth items its').
      { intros ms; induction ms as [|[item key] r IHm]; intros its Hlt Hag.
        - exists its. split; [reflexivity|exact Hag].
        - cbn [map fst snd]. rewrite render_each_cons. rewrite F4, F1, F2, F3. cbn [fst snd].
          unfold item_set. rewrite Nat2N.id. destruct (Nat.ltb_spec depth (length its)) as [_|X]; [|lia]. cbn [rbind].
          set (its1 := set_nth jv its depth (Some item, key)).
          assert (Ha1 : agree depth items its1).
          { intros k it Hk Hn. unfold its1. rewrite set_nth_other by lia. apply (Hag k it Hk Hn). }
          set (b := {| b_name := val; b_item := item; b_key := key |}).
          assert (HR1 : R its1 ((val, info_of l) :: env) (b :: ctx)).
          { apply R_cons; [reflexivity| |exact (R_agree depth env ctx items its1 He Ha1 HR)].
            unfold info_of. cbn [li_level]. rewrite F4, Nat2N.id. unfold its1. apply set_nth_same. exact Hlt. }
          assert (He1 : env_ok (S depth) ((val, info_of l) :: env)).
          { intros nm li [E|Hin]; [injection E as _ <-; unfold info_of; cbn [li_level]; rewrite F4, Nat2N.id; lia|].
            specialize (He nm li Hin). lia. }
          assert (Hcb : content = (pre ++ lit ++ head) ++ [] ++ print_nodes body ++ (s_loop_end ++ post)) by (rewrite Hc; assoc).
          destruct (list_sem body Hb (S depth) ((val, info_of l) :: env) (b :: ctx) its1 (pre ++ lit ++ head) [] (s_loop_end ++ post)
                      Hbody Hcb HR1 He1) as (its2 & E2 & Ha2).
          replace (length (pre ++ lit ++ head) + length (@nil N)) with (off + length head) in E2
            by (unfold off; repeat rewrite app_length; cbn [length]; lia).
          replace (length (pre ++ lit ++ head)) with (off + length head) in E2
            by (unfold off; repeat rewrite app_length; cbn [length]; lia).
          rewrite <- F3 in E2. fold subs in E2. rewrite F3 in E2. rewrite E2. cbn [rbind fst snd app].
          assert (Hlt2 : depth < length its2).
          { apply nth_error_Some. rewrite (Ha2 depth (Some item, key) ltac:(lia)); [discriminate|]. unfold its1. apply set_nth_same. exact Hlt. }
          destruct (IHm its2 Hlt2 (agree_trans _ _ _ _ Ha1 (agree_le depth (S depth) _ _ ltac:(lia) Ha2))) as (its3 & E3 & Ha3).
          rewrite E3. cbn [rbind fst snd]. exists its3. split; [reflexivity|exact Ha3]. }
      destruct (Heach (members s2) (grow jv items (l_level l))) as (its' & E & Ha).
      { rewrite F4. pose proof (grow_lt items (N.of_nat depth)) as G. rewrite Nat2N.id in G. exact G. }
      { apply grow_agree. }
      change (jv_members s2) with (map (fun m : jv * list N => (Some (fst m), snd m)) (members s2)). rewrite E. cbn [rbind fst snd]. exists its'. split; [reflexivity|exact Ha].
  Qed.
End Sem.

(* The renderer model, instantiated with the value model of TmplModel.v, run on the tree [tree_of_full ast] over the
   printed text of a well-formed AST writes the expansion of the AST. *)
Theorem render_tree_expand : forall auto w root ast, wf_template ast = true ->
  render_tree_jv auto w (print_nodes ast) root (tree_of_full ast) = ROk (expand auto w root ast).
Proof.
  intros auto w root ast Hwf. unfold render_tree_jv, render_model, tree_of_full, expand.
  assert (Hall : Forall (node_sem auto w root (print_nodes ast)) ast)
    by (apply Forall_forall; intros x _; apply node_sem_all).
  destruct (list_sem auto w root (print_nodes ast) ast Hall 0 [] [] [] [] [] [] Hwf) as (items' & E & _).
  - cbn [app]. rewrite app_nil_r. reflexivity.
  - constructor.
  - intros nm li [].
  - cbn [length app Nat.add] in E. rewrite E. reflexivity.
Qed.
