(* BigIntMove.v -- C19 lemmas, part 11: copy / move construction, move assignment (the
   moved-from object), operator/=, and Storage()[i] = x; SetIndex(k). *)
From Coq Require Import Arith NArith ZArith List Bool Lia Psatz.
From Coq Require Import ZifyBool ZifyNat ZifyN.
From Qv Require Import BigIntModel BigIntProofs BigIntProofs2 BigIntShift BigIntBits.
Import ListNotations.
Local Open Scope N_scope.

Section W.
  Variable w : N.
  Notation B := (Bw w).
  Notation val := (value w).
  Notation pw := (pw w).
  Notation bval := (bval w).

  Lemma val_zero_all : forall l, val l = 0 -> forallb (fun x => x =? 0) l = true.
  Proof.
    induction l as [|a t IH]; intros H; [reflexivity|]. cbn [value] in H. pose proof (B_pos w).
    assert (a = 0 /\ val t = 0) as (-> & Ht) by nia. cbn. apply IH, Ht.
  Qed.

  (* a well-formed zero is observed as 0 (Index() = 0, no non-zero word) *)
  Lemma obs_code_zero : forall s, WF w s -> bval s = 0 -> obs_code s = 0.
  Proof.
    intros s HWF Hz. unfold obs_code. rewrite (val_zero_all _ Hz).
    destruct (proj1 (WF_zero_iff w s HWF) Hz) as (-> & _). reflexivity.
  Qed.

  (* BigInt(const BigInt &) *)
  Theorem construct_copy_correct : forall src, WF w src ->
    exists t, construct_copy src = Ok t /\ WF w t /\ bval t = bval src /\
              length (words t) = length (words src).
  Proof.
    intros src ((Hw & Hi & Ha) & Ht). unfold construct_copy.
    destruct (copy_loop_spec w (S (index src)) (repeat 0 (length (words src))) (words src) 0)
      as (l & Hrun & Hl & Hwl & Hc & Hs); try (rewrite ?repeat_length; lia); auto using wordsok_repeat.
    rewrite Hrun. cbn [bind]. rewrite repeat_length in Hl.
    assert (Hnth : forall j, nth j l 0 = nth j (words src) 0).
    { intros j. destruct (Nat.le_gt_cases j (index src)) as [Hj|Hj]; [apply Hc; lia|].
      rewrite Hs by lia. rewrite nth_repeat. symmetry. apply Ha, Hj. }
    exists (mkBig l (index src)). split; [reflexivity|]. split; [|split; [|exact Hl]].
    - split; [split; [exact Hwl|split; [cbn; lia|]]|].
      + intros j Hj. cbn [words index] in *. rewrite Hnth. apply Ha, Hj.
      + unfold top_nonzero. cbn [words index]. rewrite Hnth. exact Ht.
    - unfold BigIntProofs.bval. cbn [words]. apply val_ext, Hnth.
  Qed.

  (* BigInt(BigInt &&): the new object holds the value, the source is the well-formed zero *)
  Theorem move_construct_correct : forall src, WF w src ->
    exists t src', move_construct src = Ok (t, src') /\ WF w t /\ bval t = bval src /\
      WF w src' /\ bval src' = 0 /\ obs_code src' = 0 /\
      length (words t) = length (words src) /\ length (words src') = length (words src).
  Proof.
    intros src HWF. unfold move_construct.
    destruct (construct_copy_correct src HWF) as (t & Hrun & HWFt & Hvt & Hlt). rewrite Hrun. cbn [bind].
    destruct (clear_correct w src (proj1 HWF)) as (s' & Hrun' & HWF' & Hv' & Hl'). rewrite Hrun'. cbn [bind].
    exists t, s'. repeat split; auto; try apply HWFt; try apply HWF'. apply obs_code_zero; assumption.
  Qed.

  (* operator=(BigInt &&), this != &src *)
  Theorem move_assign_correct : forall s src, WF w s -> WF w src -> length (words src) = length (words s) ->
    exists s' src', move_assign s src = Ok (s', src') /\ WF w s' /\ bval s' = bval src /\
      WF w src' /\ bval src' = 0 /\ obs_code src' = 0 /\
      length (words s') = length (words s) /\ length (words src') = length (words src).
  Proof.
    intros s src HWF HWFs Hlen. unfold move_assign.
    destruct (copy_assign_correct w s src HWF HWFs Hlen) as (s1 & Hrun & HWF1 & Hv1 & Hl1). rewrite Hrun. cbn [bind].
    destruct (clear_correct w src (proj1 HWFs)) as (s' & Hrun' & HWF' & Hv' & Hl'). rewrite Hrun'. cbn [bind].
    exists s1, s'. repeat split; auto; try apply HWF1; try apply HWF'. apply obs_code_zero; assumption.
  Qed.

  (* operator/= is Divide without the remainder *)
  Theorem div_assign_correct : div2_ok w -> forall s d, WF w s -> 0 < d < B ->
    exists s', (do '(s', _) <- divide w s d; Ok (s', 0)) = Ok (s', 0) /\ WF w s' /\ bval s' = bval s / d /\
               length (words s') = length (words s).
  Proof.
    intros Hdiv s d HWF Hd. destruct (divide_correct w Hdiv s d HWF Hd) as (s' & r & Hrun & HWF' & Hv & _ & Hl).
    rewrite Hrun. cbn [bind]. exists s'. auto.
  Qed.

  (* word i of a value *)
  Lemma word_of_value : forall l i, wordsok w l -> (i < length l)%nat -> (val l / pw i) mod B = nth i l 0.
  Proof.
    intros l i Hw Hi. pose proof (value_split w i l) as Hsp.
    pose proof (value_firstn_bound w l i Hw ltac:(lia)) as Hlow. pose proof (pw_pos w i) as Hp.
    assert (E : skipn i l = nth i l 0 :: skipn (S i) l).
    { clear - Hi. revert i Hi. induction l as [|a t IH]; intros i Hi; [cbn in Hi; lia|].
      destruct i as [|i]; [reflexivity|]. cbn [skipn nth]. apply IH. cbn in Hi. lia. }
    assert (Hd : val l / pw i = val (skipn i l)).
    { symmetry. apply (N.div_unique _ _ _ (val (firstn i l))); [exact Hlow|lia]. }
    rewrite Hd, E. cbn [value]. pose proof (wordsok_nth w l i Hw Hi) as Hx. pose proof (B_pos w).
    symmetry. apply (N.mod_unique _ _ (val (skipn (S i) l))); [exact Hx|lia].
  Qed.

  Hypothesis w_pos : 0 < w.

  (* the invariant is determined by the words: index_ must be the top word of the value *)
  Lemma WF_of_top_index : forall l k, wordsok w l -> (0 < length l)%nat -> k = top_index w (val l) ->
    WF w (mkBig l k).
  Proof.
    intros l k Hw Hl Hk.
    assert (H0 : WF0 w (mkBig l (length l - 1))).
    { split; [exact Hw|]. split; [cbn; lia|]. intros j Hj. cbn [words index] in *. apply nth_overflow. lia. }
    destruct (scan_down_WF w _ H0) as (k' & _ & HWF' & _). cbn [words] in HWF'.
    pose proof (WF_index_top_aux := I).
    assert (Hk' : k' = top_index w (val l)).
    { (* re-prove index = top word of the value for (l, k') *)
      pose proof HWF' as ((_ & Hi' & _) & _). cbn [words index] in Hi'.
      unfold top_index. destruct (N.eqb_spec (val l) 0) as [Hz|Hnz].
      - apply (WF_zero_iff w _ HWF') in Hz. apply Hz.
      - pose proof (WF0_bound w _ (proj1 HWF')) as Hub. unfold BigIntProofs.bval in Hub. cbn [words index] in Hub.
        rewrite pw_bits in Hub.
        assert (Hlb : 2 ^ (w * N.of_nat k') <= val l).
        { destruct (Nat.eq_dec k' 0) as [E|E].
          - rewrite E. cbn. rewrite N.mul_0_r. cbn. lia.
          - rewrite <- pw_bits. apply (WF_lower w _ HWF'). exact E. }
        assert (Hl1 : w * N.of_nat k' <= N.log2 (val l)) by (apply N.log2_le_pow2; [lia|assumption]).
        assert (Hl2 : N.log2 (val l) < w * N.of_nat (S k')) by (apply N.log2_lt_pow2; [lia|assumption]).
        assert (Hq : N.log2 (val l) / w = N.of_nat k').
        { symmetry. apply (N.div_unique _ _ _ (N.log2 (val l) - w * N.of_nat k')); lia. }
        rewrite Hq. lia. }
    rewrite Hk, <- Hk'. exact HWF'.
  Qed.

  (* Storage()[i] = x; SetIndex(k): well formed again exactly when k is the top word of the new contents *)
  Theorem poke_correct : forall s i x k, WF w s -> (i < length (words s))%nat -> x < B ->
    let p := pw i in
    let v' := bval s - ((bval s / p) mod B) * p + x * p in
    k = top_index w v' ->
    exists s', poke s i x k = Ok s' /\ WF w s' /\ bval s' = v' /\ length (words s') = length (words s).
  Proof.
    intros s i x k HWF Hi Hx p v' Hk. pose proof HWF as ((Hw & _ & _) & _).
    unfold poke. rewrite wr_ok by assumption. cbn [bind]. unfold set_index. cbn [words].
    assert (Hv : val (upd (words s) i x) = v').
    { unfold v', p, BigIntProofs.bval. rewrite (word_of_value (words s) i Hw Hi).
      pose proof (value_upd w (words s) i x Hi). pose proof (value_upd w (words s) i 0 Hi). lia. }
    exists (mkBig (upd (words s) i x) k). split; [reflexivity|]. split; [|split; [exact Hv|cbn; apply length_upd]].
    apply WF_of_top_index; [apply wordsok_upd; assumption|rewrite length_upd; lia|rewrite Hv; exact Hk].
  Qed.
End W.
