(* SeqProofsTop.v -- C14: the history theorems in their final form (from the empty pool),
   corollaries (appends keep the prefix, capacity changes keep the content, self-append)
   and non-vacuity examples. *)
From Coq Require Import NArith List Arith Bool Lia.
From Qv Require Import SeqModel SeqLists SeqProofs SeqProofsArray SeqProofsUnits SeqProofsStream SeqProofsString SeqProofsView SeqProofsMem.
Import ListNotations.

(* Swap: the specification's double splice is the exchange of two positions *)
Section SwapMeaning.
Context {T : Type}.
Lemma splice_middle_g : forall (pre : list T) y post x, splice (pre ++ y :: post) (length pre) [x] = pre ++ x :: post.
Proof.
  intros pre y post x. unfold splice. cbn [length].
  rewrite firstn_app, Nat.sub_diag, firstn_O, app_nil_r, firstn_all.
  rewrite skipn_app. replace (length pre + 1 - length pre) with 1 by lia.
  rewrite skipn_all2 by lia. reflexivity.
Qed.
Lemma nth_splice1 : forall (c : list T) off x d k, off < length c ->
  nth k (splice c off [x]) d = if k =? off then x else nth k c d.
Proof.
  intros c off x d k Hoff. destruct (nth_split c d Hoff) as (pre & post & Hc & Hpre).
  remember (nth off c d) as y eqn:Ey. clear Ey. subst c off. rewrite splice_middle_g.
  destruct (Nat.eqb_spec k (length pre)) as [->|Hne].
  - apply nth_middle.
  - destruct (Nat.lt_ge_cases k (length pre)) as [Hlt|Hge].
    + now rewrite !app_nth1 by assumption.
    + rewrite !app_nth2 by assumption. destruct (k - length pre) as [|m] eqn:E; [lia|reflexivity].
Qed.
Lemma splice1_length : forall (c : list T) off x, off < length c -> length (splice c off [x]) = length c.
Proof. intros c off x H. apply splice_length. cbn [length]. lia. Qed.

Theorem swap_spec_meaning : forall (l : list T) k1 k2 d, k1 < length l -> k2 < length l ->
  let l' := splice (splice l k1 [nth k2 l d]) k2 [nth k1 l d] in
  length l' = length l /\
  forall k, nth k l' d = if k =? k2 then nth k1 l d else if k =? k1 then nth k2 l d else nth k l d.
Proof.
  intros l k1 k2 d H1 H2 l'. subst l'.
  assert (Hl1 : length (splice l k1 [nth k2 l d]) = length l) by now apply splice1_length.
  split; [rewrite splice1_length; lia|].
  intros k. rewrite nth_splice1 by lia. destruct (k =? k2); [reflexivity|]. now rewrite nth_splice1.
Qed.
End SwapMeaning.

Section ArrayTop.
Context {A : Type} (junk d : A).

Theorem array_history : forall ops : list (@aop A), Forall aop_ok ops ->
  exists w, run (astep junk d) ops world0 = Ok (w, snd (spec_run (aspec d) ops spec0)) /\
    forall k, dump w k = Ok (fst (spec_run (aspec d) ops spec0) k) /\ size (ob w k) <= cap (ob w k).
Proof.
  intros ops Hok. destruct (arun_refines junk d ops world0 spec0 (ainv0 (A := A)) Hok) as (w & Hr & Hinv).
  exists w. split; [exact Hr|]. intros k. exact (ainv_dump w _ k Hinv).
Qed.

Theorem array_no_error : forall (ops : list (@aop A)) e, Forall aop_ok ops -> run (astep junk d) ops world0 <> Error e.
Proof. intros ops e Hok. destruct (array_history ops Hok) as (w & Hr & _). rewrite Hr. discriminate. Qed.

(* appends never disturb earlier elements nor other objects *)
Theorem array_append_keeps_prefix : forall (w : @world A) s op i, ainv w s -> aop_ok op ->
  (exists x, op = AAppendItem i x) \/ (exists j, op = AAppendCopy i j) \/ (exists k, op = AAppendOwn i k) ->
  exists w' tail, astep junk d w op = Ok (w', ONone) /\ dump w' i = Ok (s i ++ tail) /\
    forall k, k <> i -> dump w' k = Ok (s k).
Proof.
  intros w s op i Hinv Hok Hop. destruct (astep_refines junk d w s op Hinv Hok) as (w' & Hs & Hinv').
  assert (Hd : forall k, dump w' k = Ok (fst (aspec d s op) k)) by (intros k; exact (proj1 (ainv_dump w' _ k Hinv'))).
  destruct Hop as [(x & ->)|[(j & ->)|(k & ->)]]; cbn [aspec fst snd] in *.
  - exists w', [x]. split; [exact Hs|]. split; [now rewrite Hd, upd_same|]. intros k Hk. now rewrite Hd, upd_other.
  - exists w', (s j). split; [exact Hs|]. split; [now rewrite Hd, upd_same|]. intros k Hk. now rewrite Hd, upd_other.
  - destruct (k <? length (s i)).
    + exists w', [nth k (s i) d]. split; [exact Hs|]. split; [now rewrite Hd, upd_same|]. intros k' Hk. now rewrite Hd, upd_other.
    + exists w', []. split; [exact Hs|]. split; [now rewrite Hd, app_nil_r|]. intros k' Hk. now rewrite Hd.
Qed.

(* capacity changes never lose or duplicate elements *)
Theorem array_capacity_keeps_content : forall (w : @world A) s op, ainv w s ->
  (exists i n, op = AExpect i n) \/ (exists i, op = ACompress i) \/ (exists i n, op = AResize i n /\ length (s i) <= n) ->
  exists w', astep junk d w op = Ok (w', ONone) /\ forall k, dump w' k = Ok (s k).
Proof.
  intros w s op Hinv Hop.
  assert (Hok : aop_ok op) by (destruct Hop as [(i & n & ->)|[(i & ->)|(i & n & -> & _)]]; exact I).
  destruct (astep_refines junk d w s op Hinv Hok) as (w' & Hs & Hinv').
  assert (Hd : forall k, dump w' k = Ok (fst (aspec d s op) k)) by (intros k; exact (proj1 (ainv_dump w' _ k Hinv'))).
  destruct Hop as [(i & n & ->)|[(i & ->)|(i & n & -> & Hn)]]; cbn [aspec fst snd] in *.
  - exists w'. split; [exact Hs|]. exact Hd.
  - exists w'. split; [exact Hs|]. exact Hd.
  - exists w'. split; [exact Hs|]. intros k. rewrite Hd. destruct (Nat.eq_dec k i) as [->|Hk].
    + rewrite upd_same. now rewrite firstn_all2.
    + now rewrite upd_other.
Qed.
End ArrayTop.

Theorem string_history : forall ops : list sop, Forall sop_ok ops ->
  exists w, run sstep ops world0 = Ok (w, snd (spec_run sspec ops spec0)) /\
    forall k, dump w k = Ok (fst (spec_run sspec ops spec0) k) /\ term_ok w k = Ok true.
Proof.
  intros ops Hok. destruct (srun_refines ops world0 spec0 sinv0 Hok) as (w & Hr & Hinv).
  exists w. split; [exact Hr|]. intros k. exact (sinv_dump w _ k Hinv).
Qed.

Theorem string_no_error : forall (ops : list sop) e, Forall sop_ok ops -> run sstep ops world0 <> Error e.
Proof. intros ops e Hok. destruct (string_history ops Hok) as (w & Hr & _). rewrite Hr. discriminate. Qed.

Theorem stream_history : forall ops : list top, Forall top_ok ops ->
  exists w, run tstep ops world0 = Ok (w, snd (spec_run tspec ops spec0)) /\
    forall k, dump w k = Ok (fst (spec_run tspec ops spec0) k) /\ size (ob w k) <= cap (ob w k).
Proof.
  intros ops Hok. destruct (trun_refines ops world0 spec0 (ainv0 (A := N)) Hok) as (w & Hr & Hinv).
  exists w. split; [exact Hr|]. intros k. exact (ainv_dump w _ k Hinv).
Qed.

Theorem stream_no_error : forall (ops : list top) e, Forall top_ok ops -> run tstep ops world0 <> Error e.
Proof. intros ops e Hok. destruct (stream_history ops Hok) as (w & Hr & _). rewrite Hr. discriminate. Qed.

(* D19: appending a stream to itself, whether or not it has to grow *)
Theorem stream_self_append : forall (w : wN) s i, ainvN w s ->
  exists w', tstep w (TAppendObj i i) = Ok (w', ONone) /\ dump w' i = Ok (s i ++ s i) /\
    forall k, k <> i -> dump w' k = Ok (s k).
Proof.
  intros w s i Hinv. destruct (tstep_refines w s (TAppendObj i i) Hinv I) as (w' & Hs & Hinv').
  cbn [tspec fst snd] in *. exists w'. split; [exact Hs|].
  split; [rewrite (proj1 (ainv_dump w' _ i Hinv')); now rewrite upd_same|].
  intros k Hk. rewrite (proj1 (ainv_dump w' _ k Hinv')). now rewrite upd_other.
Qed.

Theorem view_history : forall ops : list vop,
  exists w, run vstep ops world0 = Ok (w, snd (spec_run vspec ops spec0)) /\
    forall k, dump w k = Ok (fst (spec_run vspec ops spec0) k).
Proof.
  intros ops. destruct (vrun_refines ops world0 spec0 vinv0) as (w & Hr & Hinv).
  exists w. split; [exact Hr|]. intros k. exact (vinv_dump w _ k Hinv).
Qed.

(* ---------- non-vacuity ---------- *)
Local Open Scope N_scope.
Definition dump_after {Op} (step : wN -> Op -> res (wN * @out N)) (ops : list Op) (k : nat) : res (list N) :=
  match run step ops world0 with Ok (w, _) => dumpN w k | Error e => Error e end.

Example array_example :
  dump_after astepN [AAppendItem 0%nat 1; AAppendItem 0%nat 2; AAppendItem 1%nat 7; AAppendCopy 0%nat 1%nat;
                     AAppendCopy 0%nat 0%nat; AAppendOwn 0%nat 2%nat; ADrop 0%nat 1%nat; AMoveAssign 2%nat 0%nat] 2%nat
  = Ok [1; 2; 7; 1; 2; 7].
Proof. vm_compute. reflexivity. Qed.

Example stream_example :
  dump_after tstep [TAppendCstr 0%nat [97; 98; 99]; TAppendObj 0%nat 0%nat; TAppendObj 0%nat 0%nat;
                    TInsertAt 0%nat 81 1%nat; TReverse 0%nat 10%nat; TStepBack 0%nat 9%nat] 0%nat
  = Ok [97; 81; 98; 99].
Proof. vm_compute. reflexivity. Qed.

Example string_example :
  dump_after sstep [SNewCstr 0%nat [32; 104; 105; 9]; STrim 1%nat 0%nat; SAppendObj 1%nat 1%nat; SAssignOwn 1%nat 1%nat;
                    SReverse 1%nat 0%nat; SInsertAt 1%nat 33 0%nat] 1%nat
  = Ok [33; 105; 104; 105].
Proof. vm_compute. reflexivity. Qed.

(* the ordering the fixes repair is observable in the model: freeing the old stream storage before
   the copy (the code before D19) is a use-after-free *)
Definition t_write_before_D19 (w : wN) (i : nat) (s : @src N) (len : nat) : res wN :=
  let new_length := (size (ob w i) + len)%nat in
  w1 <- (if (cap (ob w i) <? new_length)%nat then t_expand w i new_length else Ok w) ;;
  let o1 := ob w1 i in
  h2 <- copy_in (hp w1) (blk o1) (size o1) s len ;;
  Ok (mkW h2 (upd (ob w1) i (mkObj (blk o1) new_length (cap o1)))).

Example before_D19_self_append_is_uaf :
  (r <- tstep world0 (TAppendCstr 0%nat [97; 98; 99]) ;;
   let w := fst r in t_write_before_D19 w 0%nat (SPtr (blk (ob w 0%nat)) 0) (size (ob w 0%nat)))
  = Error UAF.
Proof. vm_compute. reflexivity. Qed.
