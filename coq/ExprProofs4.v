(* ExprProofs4.v -- C04, part 4: inside a documented level the code's extra
   tie-break (Subtraction above Addition, Division above Multiplication)
   changes no value in exact arithmetic. *)
From Coq Require Import ZArith QArith Lia.

(* a + b - c is read a + (b - c);  the documented left-to-right reading is (a + b) - c *)
Lemma tiebreak_add_sub_Z : forall a b c : Z, (a + (b - c) = (a + b) - c)%Z.
Proof. intros. lia. Qed.
Lemma tiebreak_add_sub_Q : forall a b c : Q, a + (b - c) == (a + b) - c.
Proof. intros. ring. Qed.
(* a - b + c is read (a - b) + c: already left to right.  a * b / c is read a * (b / c) *)
Lemma tiebreak_mul_div_Q : forall a b c : Q, ~ c == 0 -> a * (b / c) == (a * b) / c.
Proof. intros. field. assumption. Qed.
(* ... and both readings have no value when c = 0 (division by zero), see c04_no_trap *)
