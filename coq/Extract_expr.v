(* Extract_expr.v -- extraction of the C04 model and oracle to OCaml.
   ExtrOcamlBasic only; nat, positive, N, Z stay the extracted inductive types. *)
From Coq Require Import Extraction ExtrOcamlBasic NArith ZArith.
From Qv Require Import gen.Tables_expr ExprModel.
Extraction Language OCaml.
Set Extraction Optimize.
Extraction "model_expr.ml"
  N.add N.mul N.sub N.div_eucl N.compare Z.add Z.mul Z.sub Z.div_eucl Z.compare Z.of_N Z.to_N Z.opp
  ExprModel.parse_eval ExprModel.parse_top ExprModel.q_true ExprModel.signed
  ExprModel.spec_eval ExprModel.spec_truth ExprModel.c04_oracle ExprModel.sf_of_me
  op_Or op_And op_Equal op_NotEqual op_GreaterOrEqual op_LessOrEqual op_Greater op_Less op_BitwiseOr op_BitwiseAnd
  op_Addition op_Subtraction op_Multiplication op_Division op_Remainder op_Exponent.
