(* BigIntProofs.v -- C19 lemmas, part 1: lists of words, values, the well-formedness
   invariant, Add / Subtract carry chains, index scans, Multiply, Divide by a word. *)
From Coq Require Import Arith NArith ZArith List Bool Lia Psatz.
From Coq Require Import ZifyBool ZifyNat ZifyN.
From Qv Require Import BigIntModel.
Import ListNotations.
Local Open Scope N_scope.

(* ------------------------------------------------------------------------- *)
(* lists *)

Lemma length_upd : forall l i x, length (upd l i x) = length l.
Proof. induction l as [|a t IH]; intros [|j] x; cbn; auto. Qed.

Lemma nth_upd_same : forall l i x, (i < length l)%nat -> nth i (upd l i x) 0 = x.
Proof. induction l as [|a t IH]; intros [|j] x H; cbn in *; try lia; auto. apply IH; lia. Qed.

Lemma nth_upd_other : forall l i k x, i <> k -> nth k (upd l i x) 0 = nth k l 0.
Proof.
  induction l as [|a t IH]; intros [|j] [|k] x H; cbn; auto; try congruence.
Qed.

Lemma rd_ok : forall l i, (i < length l)%nat -> rd l i = Ok (nth i l 0).
Proof.
  intros l i H. unfold rd. destruct (nth_error l i) eqn:E.
  - rewrite (nth_error_nth _ _ 0 E). reflexivity.
  - apply nth_error_None in E. lia.
Qed.

Lemma wr_ok : forall l i x, (i < length l)%nat -> wr l i x = Ok (upd l i x).
Proof. intros l i x H. unfold wr. destruct (Nat.ltb_spec i (length l)); [reflexivity|lia]. Qed.

Lemma firstn_upd_ge : forall l i k x, (k <= i)%nat -> firstn k (upd l i x) = firstn k l.
Proof.
  induction l as [|a t IH]; intros [|j] [|k] x H; cbn; auto; try lia. f_equal. apply IH. lia.
Qed.

Lemma firstn_ext_nth : forall k (l l' : list N), length l' = length l ->
  (forall j, (j < k)%nat -> nth j l' 0 = nth j l 0) -> firstn k l' = firstn k l.
Proof.
  induction k as [|k IH]; intros l l' HL H; [reflexivity|].
  destruct l as [|a t], l' as [|a' t']; cbn in *; try discriminate; auto.
  f_equal.
  - exact (H O ltac:(lia)).
  - apply IH; [lia|]. intros j Hj. exact (H (S j) ltac:(lia)).
Qed.

(* ------------------------------------------------------------------------- *)
Section W.
  Variable w : N.
  Notation B := (Bw w).
  Notation val := (value w).

  Lemma B_pos : 0 < B.
  Proof. unfold Bw. apply N.neq_0_lt_0, N.pow_nonzero. lia. Qed.

  Definition pw (i : nat) : N := B ^ N.of_nat i.

  Lemma pw_0 : pw 0 = 1.
  Proof. reflexivity. Qed.
  Lemma pw_S : forall i, pw (S i) = B * pw i.
  Proof. intros i. unfold pw. rewrite Nat2N.inj_succ, N.pow_succ_r'. reflexivity. Qed.
  Lemma pw_pos : forall i, 0 < pw i.
  Proof. intros i. unfold pw. apply N.neq_0_lt_0, N.pow_nonzero. pose proof B_pos. lia. Qed.
  Lemma pw_add : forall i j, pw (i + j) = pw i * pw j.
  Proof. intros i j. unfold pw. rewrite Nat2N.inj_add, N.pow_add_r. reflexivity. Qed.
  Lemma pw_bits : forall i, pw i = 2 ^ (w * N.of_nat i).
  Proof. intros i. unfold pw, Bw. rewrite N.pow_mul_r. reflexivity. Qed.
  Opaque pw.

  Definition wordsok (l : list N) : Prop := Forall (fun x => x < B) l.

  Lemma wordsok_nth : forall l i, wordsok l -> (i < length l)%nat -> nth i l 0 < B.
  Proof.
    intros l i H Hi. unfold wordsok in H. rewrite Forall_forall in H. apply H, nth_In, Hi.
  Qed.

  Lemma wordsok_upd : forall l i x, wordsok l -> x < B -> wordsok (upd l i x).
  Proof.
    induction l as [|a t IH]; intros [|j] x H Hx; cbn; auto; inversion H; subst; constructor; auto.
    apply IH; auto.
  Qed.

  Lemma wordsok_repeat : forall n, wordsok (repeat 0 n).
  Proof. intros n. apply Forall_forall. intros x Hx. apply repeat_spec in Hx. subst. apply B_pos. Qed.

  Lemma value_bound : forall l, wordsok l -> val l < pw (length l).
  Proof.
    induction l as [|a t IH]; intros H.
    - cbn [value length]. apply pw_pos.
    - inversion H as [|? ? Ha Ht]; subst. specialize (IH Ht).
      cbn [value length]. rewrite pw_S. nia.
  Qed.

  Lemma value_upd : forall l i x, (i < length l)%nat ->
    val (upd l i x) + nth i l 0 * pw i = val l + x * pw i.
  Proof.
    induction l as [|a t IH]; intros [|j] x H; cbn [length] in *; try lia.
    - cbn. rewrite pw_0. lia.
    - cbn [upd value nth]. rewrite pw_S. specialize (IH j x ltac:(lia)). nia.
  Qed.

  Lemma value_firstn_S : forall l i, (i < length l)%nat ->
    val (firstn (S i) l) = val (firstn i l) + nth i l 0 * pw i.
  Proof.
    induction l as [|a t IH]; intros [|j] H; cbn [length] in *; try lia.
    - cbn. rewrite pw_0. lia.
    - change (firstn (S (S j)) (a :: t)) with (a :: firstn (S j) t).
      change (firstn (S j) (a :: t)) with (a :: firstn j t).
      cbn [value nth]. rewrite IH by lia. rewrite pw_S. nia.
  Qed.

  Lemma value_firstn_all : forall l, val (firstn (length l) l) = val l.
  Proof. intros l. rewrite firstn_all. reflexivity. Qed.

  Lemma wordsok_firstn : forall k l, wordsok l -> wordsok (firstn k l).
  Proof.
    induction k as [|k IH]; intros [|a t] H; cbn [firstn]; try constructor.
    - inversion H; assumption.
    - apply IH. inversion H; assumption.
  Qed.

  Lemma value_firstn_bound : forall l i, wordsok l -> (i <= length l)%nat -> val (firstn i l) < pw i.
  Proof.
    intros l i H Hi. pose proof (value_bound (firstn i l) (wordsok_firstn i l H)) as HB.
    rewrite firstn_length_le in HB by lia. exact HB.
  Qed.

  (* words above k all zero -> the value is the value of the first k+1 words *)
  Lemma value_firstn_zero_above : forall l k, (forall i, (k <= i)%nat -> nth i l 0 = 0) ->
    val (firstn k l) = val l.
  Proof.
    induction l as [|a t IH]; intros k H.
    - destruct k; reflexivity.
    - destruct k as [|k].
      + cbn [firstn value].
        assert (Ha : a = 0) by exact (H O ltac:(lia)).
        assert (Ht : val (firstn 0 t) = val t) by (apply IH; intros i Hi; exact (H (S i) ltac:(lia))).
        cbn in Ht. rewrite <- Ht, Ha. lia.
      + cbn [firstn value]. rewrite IH; [reflexivity|]. intros i Hi. exact (H (S i) ltac:(lia)).
  Qed.

  Lemma value_repeat0 : forall n, val (repeat 0 n) = 0.
  Proof. induction n as [|n IH]; cbn; [reflexivity|]. rewrite IH. lia. Qed.

  (* ----------------------------------------------------------------------- *)
  (* the invariant *)
  Definition above_zero (s : bigint) : Prop := forall i, (index s < i)%nat -> nth i (words s) 0 = 0.
  Definition top_nonzero (s : bigint) : Prop := index s = O \/ nth (index s) (words s) 0 <> 0.
  (* weak form: index_ is an upper bound of the used words *)
  Definition WF0 (s : bigint) : Prop :=
    wordsok (words s) /\ (index s < length (words s))%nat /\ above_zero s.
  (* the class invariant: index_ is exactly the highest non-zero word (0 for zero) *)
  Definition WF (s : bigint) : Prop := WF0 s /\ top_nonzero s.

  Definition bval (s : bigint) : N := val (words s).

  Lemma WF0_value_firstn : forall s, WF0 s -> val (firstn (S (index s)) (words s)) = bval s.
  Proof.
    intros s (_ & _ & Ha). apply value_firstn_zero_above. intros i Hi. apply Ha. lia.
  Qed.

  Lemma WF0_bound : forall s, WF0 s -> bval s < pw (S (index s)).
  Proof.
    intros s H. rewrite <- (WF0_value_firstn s H). destruct H as (Hw & Hi & _).
    apply value_firstn_bound; [assumption|lia].
  Qed.

  Lemma WF_lower : forall s, WF s -> index s <> O -> pw (index s) <= bval s.
  Proof.
    intros s ((Hw & Hi & Ha) & Ht) Hne. destruct Ht as [Ht|Ht]; [congruence|].
    rewrite <- (WF0_value_firstn s (conj Hw (conj Hi Ha))).
    rewrite value_firstn_S by assumption.
    pose proof (pw_pos (index s)). nia.
  Qed.

  Lemma WF_zero_iff : forall s, WF s -> (bval s = 0 <-> (index s = O /\ nth 0 (words s) 0 = 0)).
  Proof.
    intros s H. split.
    - intros Hz. destruct (Nat.eq_dec (index s) O) as [E|E].
      + split; [assumption|]. destruct H as (H0 & _).
        pose proof (WF0_value_firstn s H0) as Hv. rewrite E in Hv.
        destruct H0 as (_ & Hi & _).
        rewrite value_firstn_S in Hv by lia. cbn in Hv. rewrite pw_0 in Hv. lia.
      + pose proof (WF_lower s H E). pose proof (pw_pos (index s)). lia.
    - intros (E & Hz). destruct H as (H0 & _).
      pose proof (WF0_value_firstn s H0) as Hv. rewrite E in Hv. destruct H0 as (_ & Hi & _).
      rewrite value_firstn_S in Hv by lia. cbn in Hv. rewrite pw_0 in Hv. lia.
  Qed.

  (* ----------------------------------------------------------------------- *)
  (* scan_down: from a weak to the strong invariant *)
  Lemma scan_down_spec : forall l idx, (idx < length l)%nat ->
    (forall i, (idx < i)%nat -> nth i l 0 = 0) ->
    exists k, scan_down l idx = Ok k /\ (k <= idx)%nat /\
              (forall i, (k < i)%nat -> nth i l 0 = 0) /\ (k = O \/ nth k l 0 <> 0).
  Proof.
    intros l idx. induction idx as [|j IH]; intros Hi Hz.
    - exists O. cbn. repeat split; auto.
    - cbn [scan_down]. rewrite rd_ok by assumption. cbn [bind].
      destruct (N.eqb_spec (nth (S j) l 0) 0) as [E|E].
      + destruct IH as (k & Hk & Hle & Hz' & Ht); [lia| |].
        * intros i Hi'. destruct (Nat.eq_dec i (S j)) as [->|Hne]; [assumption|apply Hz; lia].
        * exists k. repeat split; auto.
      + exists (S j). repeat split; auto.
  Qed.

  Lemma scan_down_WF : forall s, WF0 s ->
    exists k, scan_down (words s) (index s) = Ok k /\ WF (mkBig (words s) k) /\ (k <= index s)%nat.
  Proof.
    intros s (Hw & Hi & Ha).
    destruct (scan_down_spec (words s) (index s) Hi Ha) as (k & Hk & Hle & Hz & Ht).
    exists k. split; [assumption|]. split; [|assumption].
    split; [split; [assumption|split; [cbn; lia|exact Hz]]|exact Ht].
  Qed.

  (* ----------------------------------------------------------------------- *)
  (* Add *)
  Lemma add_loop_spec : forall fuel l c i,
    wordsok l -> 0 < c < B -> (i <= length l)%nat -> (length l - i < fuel)%nat ->
    val l + c * pw i < pw (length l) ->
    exists l' j, add_loop w fuel l c i = Ok (l', j) /\ length l' = length l /\ wordsok l' /\
      (i <= j < length l)%nat /\ val l' = val l + c * pw i /\
      (forall k, (k < i \/ j < k)%nat -> nth k l' 0 = nth k l 0) /\ nth j l' 0 <> 0.
  Proof.
    induction fuel as [|f IH]; intros l c i Hw Hc Hi Hf Hfit; [lia|].
    cbn [add_loop].
    destruct (Nat.leb_spec (length l) i) as [Hge|Hlt].
    - assert (i = length l) by lia. subst i. pose proof (pw_pos (length l)). nia.
    - rewrite rd_ok by assumption. cbn [bind]. rewrite wr_ok by assumption. cbn [bind].
      set (tmp := nth i l 0). pose proof (wordsok_nth l i Hw Hlt) as Htmp. fold tmp in Htmp.
      pose proof (value_upd l i ((tmp + c) mod B) Hlt) as Hv. fold tmp in Hv.
      pose proof B_pos as HB. pose proof (pw_pos i) as Hp.
      destruct (N.lt_ge_cases (tmp + c) B) as [Hno|Hov].
      + rewrite N.mod_small in * by assumption.
        destruct (N.ltb_spec tmp (tmp + c)); [|lia].
        exists (upd l i (tmp + c)), i. rewrite length_upd.
        repeat split; auto; try lia;
          first [ apply wordsok_upd; assumption | nia
                | intros k Hk; apply nth_upd_other; lia
                | rewrite nth_upd_same by assumption; lia ].
      + assert (Hm : (tmp + c) mod B = tmp + c - B).
        { symmetry. apply (N.mod_unique _ _ 1); lia. }
        rewrite Hm in *.
        destruct (N.ltb_spec tmp (tmp + c - B)); [lia|].
        assert (Hw' : wordsok (upd l i (tmp + c - B))) by (apply wordsok_upd; [assumption|lia]).
        destruct (IH (upd l i (tmp + c - B)) 1 (S i) Hw' ltac:(lia)) as (l' & j & Hrun & Hlen & Hw'' & Hj & Hval & Hsame & Hnz).
        * rewrite length_upd. lia.
        * rewrite length_upd. lia.
        * rewrite length_upd, pw_S. nia.
        * exists l', j. rewrite length_upd in *. rewrite pw_S in Hval.
          repeat split; auto; try lia;
            first [ nia | intros k Hk; rewrite Hsame by lia; apply nth_upd_other; lia ].
  Qed.

  Lemma add_spec0 : forall s c i, WF0 s -> c < B -> bval s + c * pw i < pw (length (words s)) ->
    exists s', add w s c i = Ok s' /\ WF0 s' /\ bval s' = bval s + c * pw i /\
      length (words s') = length (words s) /\ (index s <= index s')%nat /\
      (forall k, (k < i)%nat -> nth k (words s') 0 = nth k (words s) 0) /\
      (top_nonzero s -> top_nonzero s').
  Proof.
    intros s c i (Hw & Hi & Ha) Hc Hfit. unfold add.
    destruct (N.eqb_spec c 0) as [->|Hc0].
    - exists s. repeat split; auto. unfold bval. lia.
    - assert (Hil : (i <= length (words s))%nat).
      { destruct (Nat.le_gt_cases i (length (words s))) as [|Hgt]; [assumption|].
        exfalso. unfold bval in Hfit.
        assert (pw (length (words s)) <= pw i).
        { replace i with (length (words s) + (i - length (words s)))%nat by lia. rewrite pw_add.
          pose proof (pw_pos (i - length (words s))). pose proof (pw_pos (length (words s))). nia. }
        nia. }
      destruct (add_loop_spec (S (length (words s))) (words s) c i Hw ltac:(lia) Hil ltac:(lia) Hfit)
        as (l' & j & Hrun & Hlen & Hw' & Hj & Hval & Hsame & Hnz).
      rewrite Hrun. cbn [bind].
      destruct (Nat.leb_spec (length l') j) as [|_]; [lia|].
      destruct (Nat.ltb_spec (index s) j) as [Hlt|Hge].
      + exists (mkBig l' j). cbn [words index].
        split; [reflexivity|]. split; [split; [exact Hw'|split; [cbn; lia|]]|].
        { intros k Hk. cbn [words index] in *. rewrite Hsame by lia. apply Ha. lia. }
        split; [exact Hval|]. split; [exact Hlen|]. split; [lia|]. split.
        { intros k Hk. apply Hsame. lia. }
        intros _. right. exact Hnz.
      + exists (mkBig l' (index s)). cbn [words index].
        split; [reflexivity|]. split; [split; [exact Hw'|split; [cbn; lia|]]|].
        { intros k Hk. cbn [words index] in *. rewrite Hsame by lia. apply Ha. lia. }
        split; [exact Hval|]. split; [exact Hlen|]. split; [lia|]. split.
        { intros k Hk. apply Hsame. lia. }
        intros [Ht|Ht]; [left; exact Ht|]. right. cbn [words index].
        destruct (Nat.eq_dec j (index s)) as [<-|Hne]; [exact Hnz|].
        rewrite Hsame by lia. exact Ht.
  Qed.

  Theorem add_correct : forall s c i, WF s -> c < B -> bval s + c * pw i < pw (length (words s)) ->
    exists s', add w s c i = Ok s' /\ WF s' /\ bval s' = bval s + c * pw i /\
               length (words s') = length (words s).
  Proof.
    intros s c i (H0 & Ht) Hc Hfit.
    destruct (add_spec0 s c i H0 Hc Hfit) as (s' & Hrun & H0' & Hv & Hl & _ & _ & Ht').
    exists s'. split; [exact Hrun|]. split; [split; [exact H0'|exact (Ht' Ht)]|]. split; assumption.
  Qed.

  (* ----------------------------------------------------------------------- *)
  (* Subtract *)
  Lemma sub_loop_spec : forall fuel l c i,
    wordsok l -> 0 < c < B -> (i <= length l)%nat -> (length l - i < fuel)%nat ->
    c * pw i <= val l ->
    exists l' j, sub_loop w fuel l c i = Ok (l', j) /\ length l' = length l /\ wordsok l' /\
      (i <= j < length l)%nat /\ val l' + c * pw i = val l /\
      (forall k, (k < i \/ j < k)%nat -> nth k l' 0 = nth k l 0) /\ nth j l 0 <> 0.
  Proof.
    induction fuel as [|f IH]; intros l c i Hw Hc Hi Hf Hfit; [lia|].
    cbn [sub_loop].
    destruct (Nat.leb_spec (length l) i) as [Hge|Hlt].
    - assert (i = length l) by lia. subst i. pose proof (value_bound l Hw).
      pose proof (pw_pos (length l)). nia.
    - rewrite rd_ok by assumption. cbn [bind]. rewrite wr_ok by assumption. cbn [bind].
      set (tmp := nth i l 0). pose proof (wordsok_nth l i Hw Hlt) as Htmp. fold tmp in Htmp.
      pose proof (value_upd l i ((tmp + B - c) mod B) Hlt) as Hv. fold tmp in Hv.
      pose proof B_pos as HB. pose proof (pw_pos i) as Hp.
      destruct (N.le_gt_cases c tmp) as [Hno|Hbor].
      + assert (Hm : (tmp + B - c) mod B = tmp - c).
        { symmetry. apply (N.mod_unique _ _ 1); lia. }
        rewrite Hm in *.
        destruct (N.ltb_spec (tmp - c) tmp); [|lia].
        exists (upd l i (tmp - c)), i. rewrite length_upd.
        repeat split; auto; try lia;
          first [ apply wordsok_upd; [assumption|lia] | nia
                | intros k Hk; apply nth_upd_other; lia
                | fold tmp; lia ].
      + rewrite N.mod_small in * by lia.
        destruct (N.ltb_spec (tmp + B - c) tmp); [lia|].
        assert (Hw' : wordsok (upd l i (tmp + B - c))) by (apply wordsok_upd; [assumption|lia]).
        destruct (IH (upd l i (tmp + B - c)) 1 (S i) Hw' ltac:(lia)) as (l' & j & Hrun & Hlen & Hw'' & Hj & Hval & Hsame & Hnz).
        * rewrite length_upd. lia.
        * rewrite length_upd. lia.
        * rewrite pw_S. nia.
        * exists l', j. rewrite length_upd in *. rewrite pw_S in Hval.
          repeat split; auto; try lia;
            first [ nia | intros k Hk; rewrite Hsame by lia; apply nth_upd_other; lia
                  | rewrite nth_upd_other in Hnz by lia; exact Hnz ].
  Qed.

  Theorem sub_correct : forall s c i, WF s -> c < B -> c * pw i <= bval s ->
    exists s', sub w s c i = Ok s' /\ WF s' /\ bval s' + c * pw i = bval s /\
               length (words s') = length (words s).
  Proof.
    intros s c i ((Hw & Hi & Ha) & Ht) Hc Hfit. unfold sub.
    destruct (N.eqb_spec c 0) as [->|Hc0].
    - exists s. repeat split; auto. lia.
    - assert (Hil : (i <= length (words s))%nat).
      { destruct (Nat.le_gt_cases i (length (words s))) as [|Hgt]; [assumption|].
        exfalso. unfold bval in Hfit. pose proof (value_bound _ Hw).
        assert (pw (length (words s)) <= pw i).
        { replace i with (length (words s) + (i - length (words s)))%nat by lia. rewrite pw_add.
          pose proof (pw_pos (i - length (words s))). pose proof (pw_pos (length (words s))). nia. }
        nia. }
      destruct (sub_loop_spec (S (length (words s))) (words s) c i Hw ltac:(lia) Hil ltac:(lia) Hfit)
        as (l' & j & Hrun & Hlen & Hw' & Hj & Hval & Hsame & Hnz).
      rewrite Hrun. cbn [bind].
      destruct (Nat.leb_spec (length l') j) as [|_]; [lia|].
      assert (Hji : (j <= index s)%nat).
      { destruct (Nat.le_gt_cases j (index s)) as [|Hgt]; [assumption|]. exfalso. apply Hnz, Ha, Hgt. }
      assert (H0' : WF0 (mkBig l' (index s))).
      { split; [exact Hw'|]. split; [cbn; lia|]. intros k Hk. cbn [words index] in *.
        rewrite Hsame by lia. apply Ha, Hk. }
      destruct (Nat.leb_spec (index s) j) as [Hle|Hgt].
      + destruct (scan_down_WF _ H0') as (k & Hk & HWF & _). cbn [words index] in Hk.
        rewrite Hk. cbn [bind]. exists (mkBig l' k). repeat split; auto; apply HWF.
      + exists (mkBig l' (index s)). split; [reflexivity|]. split; [split; [exact H0'|]|split; auto].
        destruct Ht as [Ht|Ht]; [left; exact Ht|]. right. cbn [words index].
        rewrite Hsame by lia. exact Ht.
  Qed.
End W.
