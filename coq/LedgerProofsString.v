(* LedgerProofsString.v -- C16: every String operation keeps the ownership ledger. *)
From Coq Require Import NArith List Arith Bool Lia.
From Qv Require Import SeqModel SeqProofs SeqProofsString SeqProofsTop LedgerModel LedgerProofs LedgerProofsTactics.
Import ListNotations.

Notation hN := (@heap N).

Lemma fresh_not_liveN : forall (w : wN), ledger_inv w -> al (hp w) (next (hp w)) = false.
Proof. intros w Hl. apply (li_fresh w Hl). lia. Qed.

(* copyString: one fresh block *)
Lemma s_copy_string_shape : forall (h : hN) s len r, s_copy_string h s len = Ok r ->
  blk (snd r) = Some (next h) /\ next (fst r) = S (next h) /\ forall x, al (fst r) x = (x =? next h) || al h x.
Proof.
  intros h s len r H. unfold s_copy_string in H. rewrite alloc_eq in H. prim_inv. cbn [fst snd blk].
  split; [reflexivity|]. split; [next_rw; reflexivity|]. intros x. al_rw. reflexivity.
Qed.

(* merge: nothing, or one fresh block *)
Lemma s_merge_shape : forall (h : hN) s1 l1 s2 l2 r, s_merge h s1 l1 s2 l2 = Ok r ->
  r = (h, null_obj) \/
  (blk (snd r) = Some (next h) /\ next (fst r) = S (next h) /\ forall x, al (fst r) x = (x =? next h) || al h x).
Proof.
  intros h s1 l1 s2 l2 r H. unfold s_merge in H. destruct (l1 + l2) as [|n] eqn:El.
  - injection H as <-. now left.
  - rewrite alloc_eq in H. apply bind_ok in H as (h2 & E2 & H). apply bind_ok in H as (h3 & E3 & H). apply bind_ok in H as (h4 & E4 & H).
    injection H as <-. right. cbn [fst snd blk]. apply wr1_inv in E2 as (Hn2 & Ha2).
    assert (H3 : next h3 = next h2 /\ forall x, al h3 x = al h2 x).
    { destruct (l1 =? 0); [injection E3 as <-; auto|now apply copy_in_inv in E3]. }
    assert (H4 : next h4 = next h3 /\ forall x, al h4 x = al h3 x).
    { destruct (l2 =? 0); [injection E4 as <-; auto|now apply copy_in_inv in E4]. }
    destruct H3 as (Hn3 & Ha3), H4 as (Hn4 & Ha4).
    split; [reflexivity|]. split; [next_rw; reflexivity|]. intros x. al_rw. reflexivity.
Qed.

(* String::Write: the storage of i is replaced by a fresh one (or nothing happens) *)
Lemma s_write_ledger : forall (w w' : wN) i s len, ledger_inv w -> s_write w i s len = Ok w' ->
  ledger_inv w' /\ forall k, k <> i -> ob w' k = ob w k.
Proof.
  intros w w' i s len Hl H. unfold s_write in H. destruct (src_null s || (len =? 0)).
  - injection H as <-. split; [assumption|reflexivity].
  - rewrite alloc_eq in H. apply bind_ok in H as (h2 & E2 & H). apply bind_ok in H as (h3 & E3 & H). apply bind_ok in H as (h5 & E5 & H).
    injection H as <-. apply copy_in_inv in E2 as (Hn2 & Ha2). apply wr1_inv in E3 as (Hn3 & Ha3).
    assert (H5 : next h5 = next h3 /\ forall x, al h5 x = al h3 x && negb (pis (blk (ob w i)) x)).
    { destruct (blk (ob w i)) as [b|] eqn:Eb.
      - prim_inv. split; [next_rw; reflexivity|]. intros x. al_rw. reflexivity.
      - injection E5 as <-. split; [reflexivity|]. intros x. cbn [pis negb]. now rewrite andb_true_r. }
    destruct H5 as (Hn5 & Ha5). split; [|intros k Hk; cbn [ob]; now apply upd_other].
    apply ledger_set; [assumption|next_rw; lia|al_solve Hl|].
    fresh_new Hl.
Qed.

(* operator=(String&&) from a temporary t held in a fresh block (or the empty state) *)
Lemma s_take_ledger : forall (w w' : wN) (h : hN) i t, ledger_inv w -> s_take h (ob w) i t = Ok w' ->
  (t = null_obj /\ h = hp w) \/ (blk t = Some (next (hp w)) /\ next h = S (next (hp w)) /\ forall x, al h x = (x =? next (hp w)) || al (hp w) x) ->
  ledger_inv w' /\ forall k, k <> i -> ob w' k = ob w k.
Proof.
  intros w w' h i t Hl H Ht. unfold s_take in H. prim_inv. split; [|intros k Hk; cbn [ob]; now apply upd_other].
  destruct Ht as [(-> & ->)|(Hb & Hnh & Hah)].
  - apply ledger_set; [assumption|next_rw; lia|al_solve Hl|fresh_new Hl].
  - apply ledger_set; [assumption|next_rw; lia|rewrite Hb; al_solve Hl|]. rewrite Hb, Hn, Hnh. fresh_new Hl.
Qed.

Ltac same_world H Hl := injection H as <- <-; split; [exact Hl|reflexivity].

Theorem sstep_ledger : forall (w w' : wN) op o, ledger_inv w -> sop_ok op -> sstep w op = Ok (w', o) ->
  ledger_inv w' /\ forall k, ~ In k (sidx op) -> ob w' k = ob w k.
Proof.
  intros w w' op o Hl Hok H.
  destruct op as [i|i l|i l|i l|i l|i j|i j|i j|i j|i l|i off|i j|i j|i l|i c|i l|i j k0 mv|i j l|i j|i j|i l|i|i l|i|i|i n|i idx|i c idx|i|i|i|i];
    cbn [sstep sop_ok] in *.
  - (* SDefault *)
    prim_inv. split; [|frame_tac]. apply ledger_set; [assumption|next_rw; lia|al_solve Hl|fresh_new Hl].
  - (* SNewLen *)
    apply bind_ok in H as (h1 & E1 & H). apply free_inv in E1 as (Hn1 & Ha1 & _). destruct (length l) as [|n].
    + injection H as <- <-. split; [|frame_tac]. apply ledger_set; [assumption|next_rw; lia|al_solve Hl|fresh_new Hl].
    + rewrite alloc_eq in H. prim_inv. split; [|frame_tac].
      apply ledger_set; [assumption|next_rw; lia|al_solve Hl|]. fresh_new Hl.
  - (* SNewCopy *)
    apply bind_ok in H as (h1 & E1 & H). apply free_inv in E1 as (Hn1 & Ha1 & _). apply bind_ok in H as (r & E2 & H). injection H as <- <-.
    apply s_copy_string_shape in E2 as (Hb & Hn2 & Ha2). split; [|frame_tac].
    apply ledger_set; [assumption|next_rw; lia|rewrite Hb; al_solve Hl|]. rewrite Hb. fresh_new Hl.
  - (* SNewCstr *)
    apply bind_ok in H as (h1 & E1 & H). apply free_inv in E1 as (Hn1 & Ha1 & _). apply bind_ok in H as (r & E2 & H). injection H as <- <-.
    apply s_copy_string_shape in E2 as (Hb & Hn2 & Ha2). split; [|frame_tac].
    apply ledger_set; [assumption|next_rw; lia|rewrite Hb; al_solve Hl|]. rewrite Hb. fresh_new Hl.
  - (* SNewAdopt *)
    apply bind_ok in H as (h1 & E1 & H). apply free_inv in E1 as (Hn1 & Ha1 & _). rewrite alloc_eq in H. prim_inv. split; [|frame_tac].
    apply ledger_set; [assumption|next_rw; lia|al_solve Hl|]. fresh_new Hl.
  - (* SCopyCtor *)
    apply bind_ok in H as (h1 & E1 & H). apply free_inv in E1 as (Hn1 & Ha1 & _). apply bind_ok in H as (r & E2 & H). injection H as <- <-.
    apply s_copy_string_shape in E2 as (Hb & Hn2 & Ha2). split; [|frame_tac].
    apply ledger_set; [assumption|next_rw; lia|rewrite Hb; al_solve Hl|]. rewrite Hb. fresh_new Hl.
  - (* SMoveCtor *)
    apply bind_ok in H as (h1 & E1 & H). injection H as <- <-. apply free_inv in E1 as (Hn1 & Ha1 & _). split; [|frame_tac].
    apply ledger_set2; [assumption|assumption|next_rw; lia|al_solve Hl|].
    intros b Hb. split; [|right; right; assumption]. rewrite Hn1. apply (li_lt w b Hl). now apply (li_owned_live w Hl j).
  - (* SMoveAssign *)
    destruct (Nat.eqb_spec i j) as [->|Hij]; [same_world H Hl|].
    apply bind_ok in H as (h1 & E1 & H). injection H as <- <-. apply free_inv in E1 as (Hn1 & Ha1 & _). split; [|frame_tac].
    apply ledger_set2; [assumption|assumption|next_rw; lia|al_solve Hl|].
    intros b Hb. split; [|right; right; assumption]. rewrite Hn1. apply (li_lt w b Hl). now apply (li_owned_live w Hl j).
  - (* SCopyAssign *)
    destruct (Nat.eqb_spec i j) as [->|Hij]; [same_world H Hl|].
    apply bind_ok in H as (h1 & E1 & H). apply free_inv in E1 as (Hn1 & Ha1 & _). apply bind_ok in H as (r & E2 & H). injection H as <- <-.
    apply s_copy_string_shape in E2 as (Hb & Hn2 & Ha2). split; [|frame_tac].
    apply ledger_set; [assumption|next_rw; lia|rewrite Hb; al_solve Hl|]. rewrite Hb. fresh_new Hl.
  - (* SAssignCstr *)
    apply bind_ok in H as (r & E2 & H). apply bind_ok in H as (h2 & E1 & H). injection H as <- <-.
    apply free_inv in E1 as (Hn1 & Ha1 & _). apply s_copy_string_shape in E2 as (Hb & Hn2 & Ha2). split; [|frame_tac].
    apply ledger_set; [assumption|next_rw; lia|rewrite Hb; al_solve Hl|]. rewrite Hb. fresh_new Hl.
  - (* SAssignOwn *)
    destruct (blk (ob w i)) as [b0|] eqn:Eb; [|same_world H Hl].
    destruct (off <=? size (ob w i)); [|same_world H Hl].
    apply bind_ok in H as (c & _ & H). apply bind_ok in H as (r & E2 & H). apply bind_ok in H as (h2 & E1 & H). injection H as <- <-.
    apply free_inv in E1 as (Hn1 & Ha1 & _). apply s_copy_string_shape in E2 as (Hb & Hn2 & Ha2). split; [|frame_tac].
    apply ledger_set; [assumption|next_rw; lia|rewrite Hb, Eb; al_solve Hl|]. rewrite Hb. fresh_new Hl.
  - (* SAppendMove *)
    apply bind_ok in H as (w1 & E1 & H). apply bind_ok in H as (h2 & E2 & H). injection H as <- <-.
    destruct (s_write_ledger w w1 i _ _ Hl E1) as (Hl1 & Hf1). apply free_inv in E2 as (Hn2 & Ha2 & _). split; [|frame_tac].
    apply ledger_set; [assumption|next_rw; lia|al_solve Hl1|fresh_new Hl1].
  - (* SAppendObj *)
    apply bind_ok in H as (w1 & E1 & H). injection H as <- <-.
    destruct (s_write_ledger w w1 i _ _ Hl E1) as (Hl1 & Hf1). split; [assumption|frame_tac].
  - (* SAppendCstr *)
    apply bind_ok in H as (w1 & E1 & H). injection H as <- <-.
    destruct (s_write_ledger w w1 i _ _ Hl E1) as (Hl1 & Hf1). split; [assumption|frame_tac].
  - (* SAppendChar *)
    apply bind_ok in H as (w1 & E1 & H). injection H as <- <-.
    destruct (s_write_ledger w w1 i _ _ Hl E1) as (Hl1 & Hf1). split; [assumption|frame_tac].
  - (* SWrite *)
    apply bind_ok in H as (w1 & E1 & H). injection H as <- <-.
    destruct (s_write_ledger w w1 i _ _ Hl E1) as (Hl1 & Hf1). split; [assumption|frame_tac].
  - (* SPlus *)
    apply bind_ok in H as (r & E1 & H). apply s_merge_shape in E1.
    destruct mv.
    + apply bind_ok in H as (h2 & E2 & H). apply bind_ok in H as (w3 & E3 & H). injection H as <- <-.
      apply free_inv in E2 as (Hn2 & Ha2 & _). unfold s_take in E3. apply bind_ok in E3 as (h3 & E3 & E4). injection E4 as <-.
      apply free_inv in E3 as (Hn3 & Ha3 & _).
      destruct (Nat.eq_dec i k0) as [->|Hik].
      * (* i = k: i = j + Move(i) *)
        split; [|frame_tac].
        apply (ledger_inv_ext (mkW h3 (upd (ob w) k0 (snd r)))); cbn [hp ob]; try reflexivity.
        { intros k. unfold upd. destruct (k =? k0); reflexivity. }
        rewrite upd_same in Ha3. cbn [blk null_obj pis negb] in Ha3.
        destruct E1 as [->|(Hb & Hn1 & Ha1)]; cbn [fst snd] in *.
        -- apply ledger_set; [assumption|next_rw; lia|al_solve Hl|fresh_new Hl].
        -- apply ledger_set; [assumption|next_rw; lia|rewrite Hb; al_solve Hl|]. rewrite Hb. fresh_new Hl.
      * split; [|frame_tac].
        apply (ledger_inv_ext (mkW h3 (upd (upd (ob w) i (snd r)) k0 null_obj))); cbn [hp ob]; try reflexivity.
        { intros k. unfold upd. destruct (Nat.eqb_spec k i) as [Hki|Hki]; destruct (Nat.eqb_spec k k0) as [Hkk|Hkk]; try reflexivity. subst. contradiction. }
        rewrite upd_other in Ha3 by assumption.
        destruct E1 as [->|(Hb & Hn1 & Ha1)]; cbn [fst snd] in *.
        -- apply ledger_set2; [assumption|assumption|next_rw; lia|al_solve Hl|fresh_new Hl].
        -- apply ledger_set2; [assumption|assumption|next_rw; lia|rewrite Hb; al_solve Hl|].
           rewrite Hb. intros b [= <-]. split; [lia|left]. now apply fresh_not_liveN.
    + apply bind_ok in H as (w3 & E3 & H). injection H as <- <-.
      destruct (s_take_ledger w w3 (fst r) i (snd r) Hl E3) as (Hl3 & Hf3); [|split; [assumption|frame_tac]].
      destruct E1 as [->|(Hb & Hn1 & Ha1)]; [left; auto|right; auto].
  - (* SPlusCstr *)
    apply bind_ok in H as (r & E1 & H). apply s_merge_shape in E1. apply bind_ok in H as (w3 & E3 & H). injection H as <- <-.
    destruct (s_take_ledger w w3 (fst r) i (snd r) Hl E3) as (Hl3 & Hf3); [|split; [assumption|frame_tac]].
    destruct E1 as [->|(Hb & Hn1 & Ha1)]; [left; auto|right; auto].
  - (* STrim *)
    apply bind_ok in H as (c & _ & H). destruct (trim_bounds c) as (off, len).
    apply bind_ok in H as (r & E1 & H). apply s_copy_string_shape in E1 as (Hb & Hn1 & Ha1).
    apply bind_ok in H as (w3 & E3 & H). injection H as <- <-.
    destruct (s_take_ledger w w3 (fst r) i (snd r) Hl E3) as (Hl3 & Hf3); [right; auto|split; [assumption|frame_tac]].
  - (* SEqObj *)
    destruct (size (ob w i) =? size (ob w j)); [|same_world H Hl].
    apply bind_ok in H as (a & _ & H). apply bind_ok in H as (b & _ & H). same_world H Hl.
  - (* SEqCstr *)
    apply bind_ok in H as (b & _ & H). same_world H Hl.
  - (* SEqNull *)
    same_world H Hl.
  - (* SIsEqual *)
    apply bind_ok in H as (b & _ & H). same_world H Hl.
  - (* SReset *)
    prim_inv. split; [|frame_tac]. apply ledger_set; [assumption|next_rw; lia|al_solve Hl|fresh_new Hl].
  - (* SDetach *)
    prim_inv. split; [|frame_tac]. apply ledger_set; [assumption|next_rw; lia|al_solve Hl|fresh_new Hl].
  - (* SStepBack *)
    destruct (n <=? size (ob w i)); [|same_world H Hl].
    apply bind_ok in H as (h1 & E1 & H). injection H as <- <-.
    assert (H1 : next h1 = next (hp w) /\ forall x, al h1 x = al (hp w) x).
    { destruct (blk (ob w i)); [now apply wr1_inv in E1|injection E1 as <-; auto]. }
    destruct H1 as (Hn1 & Ha1). split; [|frame_tac]. apply ledger_inplace; auto.
  - (* SReverse *)
    apply bind_ok in H as (c & _ & H). apply bind_ok in H as (h1 & E1 & H). injection H as <- <-.
    apply wr_range_inv in E1 as (Hn1 & Ha1). split; [|reflexivity].
    apply (ledger_inv_ext w); cbn [hp ob]; auto.
  - (* SInsertAt *)
    destruct (idx <? size (ob w i)); [|same_world H Hl].
    apply bind_ok in H as (c0 & _ & H). destruct (insert_shift c0 c idx) as (c', tmp).
    apply bind_ok in H as (h1 & E1 & H). apply bind_ok in H as (w2 & E2 & H). injection H as <- <-.
    apply wr_range_inv in E1 as (Hn1 & Ha1).
    assert (Hl1 : ledger_inv (mkW h1 (ob w))) by (apply (ledger_inv_ext w); cbn [hp ob]; auto).
    destruct (s_write_ledger _ w2 i _ _ Hl1 E2) as (Hl2 & Hf2). split; [assumption|]. cbn [ob] in Hf2. frame_tac.
  - (* SIter: read only *)
    apply bind_ok in H as (c0 & _ & H). same_world H Hl.
  - (* SLast: read only *)
    apply bind_ok in H as (c0 & _ & H). same_world H Hl.
  - (* SIsEmpty *)
    same_world H Hl.
  - (* SStreamOut: read only *)
    destruct (blk (ob w i)); [|same_world H Hl].
    apply bind_ok in H as (c0 & _ & H). same_world H Hl.
Qed.
