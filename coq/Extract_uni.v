(* Extract_uni.v -- extraction of the C20 model, specification and oracles to OCaml.
   ExtrOcamlBasic only: bool, option, unit, list, prod map to the OCaml types;
   nat, positive, N, Z stay the extracted inductive types. *)
From Coq Require Import Extraction ExtrOcamlBasic NArith ZArith.
From Qv Require Import UniModel.
Extraction Language OCaml.
Set Extraction Optimize.
Extraction "model_uni.ml"
  N.add N.mul N.sub N.div_eucl N.compare Z.add Z.mul Z.sub Z.div_eucl Z.compare Z.of_N Z.to_N Z.opp
  UniModel.c20_width UniModel.c20_model_encode UniModel.c20_model_json UniModel.c20_model_raw
  UniModel.c20_oracle_encode UniModel.c20_oracle_json UniModel.scalarb UniModel.plainb
  UniModel.std_utf UniModel.json_escape UniModel.all_lower UniModel.all_upper.
