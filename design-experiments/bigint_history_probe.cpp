#include <new>
#include <cstdlib>
#include "BigInt.hpp"
#include <cstdio>
#include <cstring>
#include <vector>
#include <string>
using namespace Qentem;
static unsigned long long s;
static unsigned long long rnd(){ s^=s<<13; s^=s>>7; s^=s<<17; return s; }
// reference: little-endian vector of bits-limited big number using base 2^8 digits
struct Big { std::vector<unsigned> d; // bytes
  explicit Big(size_t n):d(n,0){}
  bool zero()const{ for(auto x:d) if(x) return false; return true; }
  bool addw(unsigned long long v){ unsigned long long c=0; size_t i=0; for(;i<d.size();i++){ unsigned long long t=d[i]+(v&0xff)+c; d[i]=t&0xff; c=t>>8; v>>=8; } return (c!=0)||(v!=0); }
  bool subw(unsigned long long v){ long long b=0; for(size_t i=0;i<d.size();i++){ long long t=(long long)d[i]-(long long)(v&0xff)-b; if(t<0){t+=256;b=1;} else b=0; d[i]=(unsigned)t; v>>=8; } return b!=0||v!=0; }
  bool mulw(unsigned long long v){ std::vector<unsigned> r(d.size()+8,0); for(size_t i=0;i<d.size();i++){ unsigned long long c=0; unsigned long long vv=v; for(size_t j=0;j<8;j++){ unsigned long long t=r[i+j]+ (unsigned long long)d[i]*(vv&0xff)+c; r[i+j]=t&0xff; c=t>>8; vv>>=8; } size_t k=i+8; while(c&&k<r.size()){ unsigned long long t=r[k]+c; r[k]=t&0xff; c=t>>8; k++; } } bool of=false; for(size_t i=d.size();i<r.size();i++) if(r[i]) of=true; for(size_t i=0;i<d.size();i++) d[i]=r[i]; return of; }
  unsigned long long divw(unsigned long long v){ unsigned __int128 rem=0; for(size_t i=d.size();i-->0;){ unsigned __int128 cur=(rem<<8)|d[i]; d[i]=(unsigned)(cur/v); rem=cur%v; } return (unsigned long long)rem; }
  bool shl(unsigned n){ bool of=false; for(unsigned k=0;k<n;k++){ unsigned c=0; for(size_t i=0;i<d.size();i++){ unsigned t=(d[i]<<1)|c; d[i]=t&0xff; c=t>>8; } if(c) of=true; } return of; }
  void shr(unsigned n){ for(unsigned k=0;k<n;k++){ unsigned c=0; for(size_t i=d.size();i-->0;){ unsigned t=d[i]|(c<<8); d[i]=t>>1; c=t&1; } } }
  int lastbit()const{ for(size_t i=d.size();i-->0;) if(d[i]){ int b=7; while(!((d[i]>>b)&1)) b--; return (int)i*8+b; } return -1; }
  int firstbit()const{ for(size_t i=0;i<d.size();i++) if(d[i]){ int b=0; while(!((d[i]>>b)&1)) b++; return (int)i*8+b; } return -1; }
};
template<typename W, unsigned BITS> static int run(int iters){
  using BI=BigInt<W,BITS>; const unsigned wb=sizeof(W)*8; const unsigned long long wmask = (wb==64)?~0ULL:((1ULL<<wb)-1);
  for(int it=0;it<iters;it++){ BI x; Big r(BI::TotalBits()/8); std::string log; int nops=rnd()%40;
    for(int o=0;o<nops;o++){ unsigned k=rnd()%9; unsigned long long v; unsigned m=rnd()%6; if(m==0) v=0; else if(m==1) v=1; else if(m==2) v=wmask; else if(m==3) v=1ULL<<(rnd()%wb); else if(m==4) v=(rnd()&wmask)|(1ULL<<(wb-1)); else v=rnd()&wmask; v&=wmask;
      char buf[64]; Big save=r; bool skip=false;
      if(k==0){ snprintf(buf,64,"add %llu;",v); if(r.addw(v)){ r=save; skip=true;} else x+=W(v); }
      else if(k==1){ snprintf(buf,64,"sub %llu;",v); if(r.subw(v)){ r=save; skip=true;} else x-=W(v); }
      else if(k==2){ snprintf(buf,64,"mul %llu;",v); if(r.mulw(v)){ r=save; skip=true;} else x*=W(v); }
      else if(k==3){ if(v==0) v=3; snprintf(buf,64,"div %llu;",v); unsigned long long rr=r.divw(v); W got=x.Divide(W(v)); if((unsigned long long)got!=rr){ printf("FAIL w%u bits%u remainder got %llu want %llu log %s%s\n",wb,BITS,(unsigned long long)got,rr,log.c_str(),buf); return 1; } }
      else if(k==4){ unsigned n=rnd()%(BITS+10); if(rnd()%3==0) n=(n/wb)*wb; snprintf(buf,64,"shl %u;",n); if(r.shl(n)){ r=save; skip=true; } else x<<=n; }
      else if(k==5){ unsigned n=rnd()%(BITS+10); if(rnd()%3==0) n=(n/wb)*wb; snprintf(buf,64,"shr %u;",n); r.shr(n); x>>=n; }
      else if(k==6){ snprintf(buf,64,"or %llu;",v); for(unsigned i=0;i<wb/8;i++) r.d[i]|=(v>>(8*i))&0xff; x|=W(v); }
      else if(k==7){ snprintf(buf,64,"and %llu;",v); for(size_t i=0;i<r.d.size();i++) r.d[i]&= (i<wb/8)?((v>>(8*i))&0xff):0; x&=W(v); }
      else { snprintf(buf,64,"set %llu;",v); for(size_t i=0;i<r.d.size();i++) r.d[i]= (i<wb/8)?((v>>(8*i))&0xff):0; x=W(v); }
      if(skip) continue; log+=buf;
      // compare storage
      for(unsigned i=0;i<=BI::MaxIndex();i++){ unsigned long long w=0; for(unsigned b=0;b<wb/8;b++) w|=(unsigned long long)r.d[i*(wb/8)+b]<<(8*b); if((unsigned long long)x.Storage()[i]!=w){ printf("FAIL w%u bits%u word %u got %llu want %llu log %s\n",wb,BITS,i,(unsigned long long)x.Storage()[i],w,log.c_str()); return 1; } }
      int lb=r.lastbit(); unsigned wantidx = lb<0?0:(unsigned)lb/wb; if(x.Index()!=wantidx){ printf("FAIL w%u bits%u index got %u want %u log %s\n",wb,BITS,x.Index(),wantidx,log.c_str()); return 1; }
      if(x.IsZero()!=r.zero()){ printf("FAIL iszero log %s\n",log.c_str()); return 1; }
      if(!r.zero()){ if((int)x.FindLastBit()!=lb){ printf("FAIL w%u lastbit got %u want %d log %s\n",wb,x.FindLastBit(),lb,log.c_str()); return 1;} if((int)x.FindFirstBit()!=r.firstbit()){ printf("FAIL w%u firstbit got %u want %d log %s\n",wb,x.FindFirstBit(),r.firstbit(),log.c_str()); return 1;} }
    } }
  return 0; }
int main(int argc,char**argv){ s=strtoull(argv[1],0,10)*2654435761ULL+88172645463325252ULL; int n=atoi(argv[2]); int which=atoi(argv[3]);
  int rc=0; if(which==8) rc=run<SizeT8,64>(n); if(which==16) rc=run<SizeT16,128>(n); if(which==32) rc=run<SizeT32,256>(n); if(which==64) rc=run<SizeT64,256>(n); if(!rc) puts("ok"); return rc; }
