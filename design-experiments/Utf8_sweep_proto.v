From Coq Require Import NArith List Lia.
Import ListNotations.
Local Open Scope N_scope.
Definition utf8 (u:N) : list N :=
  if u <? 0x80 then [u] else
  if u <? 0x800 then [N.lor 0xC0 (N.shiftr u 6); N.lor 0x80 (N.land u 0x3F)] else
  if u <? 0x10000 then [N.lor 0xE0 (N.shiftr u 12); N.lor 0x80 (N.land (N.shiftr u 6) 0x3F); N.lor 0x80 (N.land u 0x3F)] else
  [N.lor 0xF0 (N.shiftr u 18); N.lor 0x80 (N.land (N.shiftr u 12) 0x3F); N.lor 0x80 (N.land (N.shiftr u 6) 0x3F); N.lor 0x80 (N.land u 0x3F)].
Definition spec8 (u:N) : list N :=
  if u <? 0x80 then [u] else
  if u <? 0x800 then [0xC0 + u / 64; 0x80 + u mod 64] else
  if u <? 0x10000 then [0xE0 + u / 4096; 0x80 + (u / 64) mod 64; 0x80 + u mod 64] else
  [0xF0 + u / 262144; 0x80 + (u / 4096) mod 64; 0x80 + (u/64) mod 64; 0x80 + u mod 64].
Fixpoint range (n:nat) (start:N) : list N := match n with O => [] | S k => start :: range k (start+1) end.
Definition eqb_list (a b:list N) := if list_eq_dec N.eq_dec a b then true else false.
Definition all := forallb (fun u => eqb_list (utf8 u) (spec8 u)) (range (N.to_nat 0x110000) 0).
Time Lemma all_ok : all = true. Proof. vm_compute. reflexivity. Time Qed.
