#include <new>
#include "JSON.hpp"
#include "Template.hpp"
#include "BigInt.hpp"
#include <cstdio>
#include <cstring>
using namespace Qentem;
typedef unsigned __int128 u128;
int main(){
  { BigInt<SizeT64,256> x; x = SizeT64(1); x <<= 64; x *= 0; printf("2^64*0: IsZero=%d index=%u\n", x.IsZero(), x.Index()); }
  { BigInt<SizeT64,256> x; x = SizeT64(3); BigInt<SizeT64,256> y; y=SizeT64(1); y <<= 64; x += SizeT64(0); 
    BigInt<SizeT64,256> z; z = SizeT64(1); z <<= 64; z += SizeT64(3); z &= SizeT64(1); printf("(2^64+3)&1: w0=%llu w1=%llu idx=%u\n", z.Storage()[0], z.Storage()[1], z.Index());
    z += ~SizeT64(0); printf(" then += 2^64-1: w0=%llu w1=%llu idx=%u\n", z.Storage()[0], z.Storage()[1], z.Index()); }
  { BigInt<SizeT64,256> x; x = SizeT64(5); x <<= 128; x += SizeT64(0); printf("FindFirstBit(5<<128)=%u (want 128)\n", x.FindFirstBit()); }
  { // divide: (hi*2^64+lo) / d with d odd >= 2^63
    SizeT64 d = 0x8000000000000001ULL; BigInt<SizeT64,256> x; x = SizeT64(0x7fffffffffffffffULL); x <<= 64; x |= SizeT64(0xfffffffffffffffeULL);
    u128 v = ((u128)0x7fffffffffffffffULL<<64) | 0xfffffffffffffffeULL; SizeT64 r = x.Divide(d);
    printf("div: rem=%llu want=%llu q0=%llu want=%llu\n", r, (SizeT64)(v % d), x.Storage()[0], (SizeT64)(v/d)); }
  { Value<char> a{SizeT64I(5)}, seven{SizeT64I(7)}, nine{SizeT64I(9)}; Value<char> p7, p9; p7.SetPointerToValue(&seven); p9.SetPointerToValue(&nine);
    printf("p7>5:%d 5>p9:%d p7>p9:%d\n", p7>a, a>p9, p7>p9); }
  { Value<char> g = JSON::Parse("[{\"y\":1,\"m\":2,\"z\":3},{\"y\":2,\"m\":5,\"z\":4}]"); g[0].Remove("z"); Value<char> out; bool ok=g.GroupBy(out,"y"); StringStream<char> ss; out.Stringify(ss); ss.InsertNull(); printf("group w/ removed member ok=%d %s\n",ok,ss.First()); }
  { const char*s="{\"a\":[1 2}"; Value<char> v=JSON::Parse(s,(SizeT)strlen(s)); StringStream<char> ss; v.Stringify(ss); ss.InsertNull(); printf("parse(%s) undef=%d %s\n",s,v.IsUndefined(),ss.First()); }
  return 0;
}
