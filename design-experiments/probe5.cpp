#include <cstdlib>
#include <new>
#include "JSON.hpp"
#include "Template.hpp"
#include "BigInt.hpp"
#include <cstdio>
#include <cstring>
using namespace Qentem;
typedef unsigned __int128 u128;
int main(int argc,char**argv){ int k=atoi(argv[1]);
 if(k==6){ BigInt<SizeT64,256> x; x = SizeT64(1); x <<= 128; x |= SizeT64(4); printf("FindFirstBit((1<<128)|4)=%u want 2\n", x.FindFirstBit()); }
 if(k==7){ BigInt<SizeT64,256> x; x <<= 64; printf("zero<<=64 ok idx=%u\n", x.Index()); }
 if(k==8){ SizeT64 d=0x8000000000000001ULL; SizeT64 hi=0x4000000000000001ULL, lo=0x8000000000000000ULL; BigInt<SizeT64,256> x; x=hi; x<<=64; x|=lo; u128 v=((u128)hi<<64)|lo; SizeT64 r=x.Divide(d); printf("div rem=%llu want=%llu q=%llu want=%llu\n",r,(SizeT64)(v%d),x.Storage()[0],(SizeT64)(v/d)); }
 if(k==19){ StringStream<char> s; s += "abc"; for(int i=0;i<6;i++) s += s; printf("self-append len=%u\n", s.Length()); }
 if(k==20){ String<char> e; printf("empty==\"x\": %d\n", (int)(e=="x")); }
 if(k==25){ String<char> e; e.StepBack(0); printf("stepback ok\n"); }
 if(k==21){ const char*t="<if case=\"1\"><if case=\"1\"><loop value=\"v\">{var:v}</loop></if></if>"; Value<char> v; v+=1; v+=2; StringStream<char> ss; Template::Render(t,(SizeT)strlen(t),v,ss); ss.InsertNull(); printf("%s\n",ss.First()); }
 return 0; }
