#include <new>
#include <cstdlib>
#include "JSON.hpp"
#include <cstdio>
#include <cstring>
#include <string>
#include <vector>
using namespace Qentem;
typedef Value<char> V;
static unsigned long long s;
static unsigned rnd(){ s^=s<<13; s^=s>>7; s^=s<<17; return (unsigned)(s>>11); }
struct R { enum K{Undef,Obj,Arr,Str,UInt,Int,Dbl,True,False,Null} k=Undef; std::vector<std::pair<std::string,R>> obj; std::vector<R> arr; std::string str; unsigned long long u=0; long long i=0; double d=0;
  int find(const std::string&key)const{ for(size_t j=0;j<obj.size();j++) if(obj[j].first==key) return (int)j; return -1; }
  void reset(){ *this=R(); } };
static void rstr(const R&r,std::string&o){ char b[64]; switch(r.k){
  case R::Obj:{ o+="{"; bool first=true; for(auto&kv:r.obj){ if(kv.second.k==R::Undef) continue; if(!first)o+=","; first=false; o+="\""+kv.first+"\":"; rstr(kv.second,o);} o+="}"; break; }
  case R::Arr:{ o+="["; bool first=true; for(auto&e:r.arr){ if(e.k==R::Undef) continue; if(!first)o+=","; first=false; rstr(e,o);} o+="]"; break; }
  case R::Str: o+="\""+r.str+"\""; break; case R::UInt: snprintf(b,64,"%llu",r.u); o+=b; break; case R::Int: snprintf(b,64,"%lld",r.i); o+=b; break;
  case R::Dbl: snprintf(b,64,"%g",r.d); o+=b; break; case R::True:o+="true";break; case R::False:o+="false";break; case R::Null:o+="null";break; default: break; } }
static std::string istr(const V&v){ StringStream<char> ss; if(v.IsObject()||v.IsArray()){ v.Stringify(ss); } else { ss+='~'; StringStream<char> t; V w; w+=v; w.Stringify(t); ss+=t; } return std::string(ss.First()?ss.First():"",ss.Length()); }
static std::string rtop(const R&r){ std::string o; if(r.k==R::Obj||r.k==R::Arr) rstr(r,o); else { o="~["; rstr(r,o); o+="]"; } return o; }
static void setscalar(V&v,R&r,unsigned k){ r.reset(); switch(k%7){ case 0: v=SizeT64(7+k); r.k=R::UInt; r.u=7+k; break; case 1: v=SizeT64I(-3-(int)k); r.k=R::Int; r.i=-3-(int)k; break; case 2: v=2.5; r.k=R::Dbl; r.d=2.5; break; case 3: v=true; r.k=R::True; break; case 4: v=false; r.k=R::False; break; case 5: v=nullptr; r.k=R::Null; break; default: v="str"; r.k=R::Str; r.str="str"; } }
static const char* KEYS[]={"a","b","","key","k2"};
static bool hastomb(const V&v){ const auto*o=v.GetObject(); return o && o->ActualSize()!=o->Size(); }
static void remslotfix(R&r){ /* ref keeps only live members (removed members erased) */ }
#define CHK(c,msg) do{ if(!(c)){ printf("FAIL %s | %s\n",msg,log.c_str()); return 1; } }while(0)
int main(int argc,char**argv){ s=strtoull(argv[1],0,10)*2654435761ULL+88172645463325252ULL; int iters=atoi(argv[2]);
 for(int it=0;it<iters;it++){ V v[3]; R r[3]; std::string log; int n=rnd()%30;
  for(int o=0;o<n;o++){ unsigned a=rnd()%3,b2=rnd()%3,k=rnd()%16; char lb[64]; const char*key=KEYS[rnd()%5]; unsigned idx=rnd()%5;
   // optionally descend one level into a[key] if object member exists
   V*tv=&v[a]; R*tr=&r[a];
   if(rnd()%3==0 && tr->k==R::Obj){ int f=tr->find(key); if(f>=0){ V*c=tv->GetValue(key,(SizeT)strlen(key)); CHK(c!=nullptr || tr->obj[f].second.k==R::Undef,"child lookup"); if(c){ tv=c; tr=&tr->obj[f].second; } } }
   else if(rnd()%4==0 && tr->k==R::Arr && !tr->arr.empty()){ unsigned j=rnd()%tr->arr.size(); if(tr->arr[j].k!=R::Undef){ V*c=tv->GetValue(j); CHK(c!=nullptr,"child idx"); tv=c; tr=&tr->arr[j]; } }
   if(k==0){ snprintf(lb,64,"set%u;",a); setscalar(*tv,*tr,rnd()); }
   else if(k<4){ snprintf(lb,64,"[%s]=;",key); if(tr->k!=R::Obj){ tr->reset(); tr->k=R::Obj; } int f=tr->find(key); if(f<0){ tr->obj.push_back({key,R()}); f=(int)tr->obj.size()-1; } unsigned sc=rnd(); V&c=(*tv)[key]; setscalar(c,tr->obj[f].second,sc); }
   else if(k<6){ snprintf(lb,64,"[%u]=;",idx); bool skip=false; if(tr->k==R::Obj){ if(hastomb(*tv)) skip=true; else if(idx<tr->obj.size()){ unsigned sc=rnd(); V&c=(*tv)[idx]; setscalar(c,tr->obj[idx].second,sc); skip=true; strcat(lb,"(objslot)"); } }
        if(!skip){ if(tr->k!=R::Arr){ tr->reset(); tr->k=R::Arr; } if(idx>=tr->arr.size()) tr->arr.resize(idx+1); unsigned sc=rnd(); V&c=(*tv)[idx]; setscalar(c,tr->arr[idx],sc); } }
   else if(k<8){ snprintf(lb,64,"+=sc;"); if(tr->k!=R::Arr){ tr->reset(); tr->k=R::Arr; } unsigned sc=rnd()%7; R e; V tmp; setscalar(tmp,e,sc); if(sc%7==0) (*tv)+=SizeT64(7+sc); else if(sc%7==1) (*tv)+=SizeT64I(-3-(int)sc); else if(sc%7==2) (*tv)+=2.5; else if(sc%7==3) (*tv)+=true; else if(sc%7==4) (*tv)+=false; else if(sc%7==5) (*tv)+=nullptr; else (*tv)+="str"; tr->arr.push_back(e); }
   else if(k==8 && tv==&v[a] && a!=b2){ snprintf(lb,64,"%u+=v%u;",a,b2); if(tr->k==R::Obj && r[b2].k==R::Obj){ for(auto&kv:r[b2].obj){ int f=tr->find(kv.first); if(f>=0) tr->obj[f].second=kv.second; else tr->obj.push_back(kv);} } else { if(tr->k!=R::Arr){ tr->reset(); tr->k=R::Arr; } tr->arr.push_back(r[b2]); } v[a]+=v[b2]; }
   else if(k==9 && tv==&v[a] && a!=b2){ snprintf(lb,64,"%u.merge(v%u);",a,b2); if(tr->k==R::Undef){ tr->k=R::Arr; } if(tr->k==R::Arr && r[b2].k==R::Arr){ for(auto&e:r[b2].arr) if(e.k!=R::Undef) tr->arr.push_back(e); } else if(tr->k==R::Obj && r[b2].k==R::Obj){ for(auto&kv:r[b2].obj){ int f=tr->find(kv.first); if(f>=0) tr->obj[f].second=kv.second; else tr->obj.push_back(kv);} } v[a].Merge(v[b2]); }
   else if(k==10){ snprintf(lb,64,"rm(%s);",key); if(rnd()%2) tv->Remove(key); else tv->Remove(String<char>(key)); if(tr->k==R::Obj){ int f=tr->find(key); if(f>=0) tr->obj.erase(tr->obj.begin()+f); } }
   else if(k==11){ snprintf(lb,64,"rmidx(%u);",idx); if(tr->k==R::Arr){ tv->RemoveIndex(idx); if(idx<tr->arr.size()) tr->arr[idx].reset(); } else if(tr->k==R::Obj && !hastomb(*tv)){ tv->RemoveIndex(idx); if(idx<tr->obj.size()) tr->obj.erase(tr->obj.begin()+idx); } }
   else if(k==12){ snprintf(lb,64,"compress;"); tv->Compress(); struct C{ static void go(R&x){ if(x.k==R::Arr){ std::vector<R> n2; for(auto&e:x.arr) if(e.k!=R::Undef) n2.push_back(e); x.arr=n2; for(auto&e:x.arr) go(e);} else if(x.k==R::Obj){ for(auto&kv:x.obj) go(kv.second);} } }; C::go(*tr); }
   else if(k==13 && tv==&v[a]){ snprintf(lb,64,"%u=copy%u;",a,b2); v[a]=v[b2]; if(a!=b2) r[a]=r[b2]; }
   else if(k==14 && tv==&v[a]){ snprintf(lb,64,"%u=move%u;",a,b2); v[a]=Memory::Move(v[b2]); if(a!=b2){ r[a]=r[b2]; r[b2].reset(); } }
   else { snprintf(lb,64,"reset;"); if(rnd()%3==0){ tv->Reset(); tr->reset(); } }
   log+=lb; if(getenv("TRACE")) { fprintf(stderr,"%s\n",lb); }
   for(int q=0;q<3;q++){ std::string is=istr(v[q]), rs2=rtop(r[q]); if(is!=rs2){ printf("FAIL stringify v%d impl %s ref %s | %s\n",q,is.c_str(),rs2.c_str(),log.c_str()); return 1; }
     if(r[q].k==R::Arr){ CHK(v[q].Size()==r[q].arr.size(),"array size"); for(size_t j=0;j<r[q].arr.size();j++) CHK((v[q].GetValue(j)==nullptr)==(r[q].arr[j].k==R::Undef),"hole"); }
     if(r[q].k==R::Obj){ for(auto&kv:r[q].obj){ V*c=v[q].GetValue(kv.first.c_str(),(SizeT)kv.first.size()); CHK((c==nullptr)==(kv.second.k==R::Undef),"member"); } CHK(v[q].GetObject()->ActualSize()==r[q].obj.size(),"obj live count"); }
     CHK((v[q].IsUndefined())==(r[q].k==R::Undef),"undef"); }
  } }
 puts("ok"); return 0; }
