From Coq Require Import List Arith Lia Bool PeanoNat.
Import ListNotations.

(* Prototype of the C13 core: bucket heads + Next links (1-based item numbers, 0 = null),
   find returning the link to patch, insert at the link, remove = unlink + tombstone.
   Keys are nat here; the payload is omitted; the hash is an arbitrary function with H k <> 0. *)

Section HT.
Variable H : nat -> nat.
Hypothesis H_nz : forall k, H k <> 0.

Record item := { key : nat; hash : nat; next : nat }.
Record ht := { cap : nat; heads : list nat; items : list item }.

Definition dummy := {| key := 0; hash := 0; next := 0 |}.
Definition it (s : ht) (i : nat) : item := nth i (items s) dummy.
Definition size (s : ht) := length (items s).
Definition bucket (s : ht) (h : nat) := h mod (cap s).   (* = h land (cap-1) for powers of two *)

Inductive link := Head (b : nat) | NextOf (i : nat).
Definition rd_link (s : ht) (l : link) : nat :=
  match l with Head b => nth b (heads s) 0 | NextOf i => next (it s i) end.

Fixpoint upd {A} (l : list A) (i : nat) (x : A) : list A :=
  match l, i with
  | [], _ => []
  | _ :: t, O => x :: t
  | a :: t, S j => a :: upd t j x
  end.

Definition set_next (x : item) (n : nat) := {| key := key x; hash := hash x; next := n |}.
Definition wr_link (s : ht) (l : link) (v : nat) : ht :=
  match l with
  | Head b => {| cap := cap s; heads := upd (heads s) b v; items := items s |}
  | NextOf i => {| cap := cap s; heads := heads s; items := upd (items s) i (set_next (it s i) v) |}
  end.

(* HashTable::find *)
Fixpoint find (fuel : nat) (s : ht) (l : link) (k h : nat) : option (link * option nat) :=
  match fuel with
  | O => None
  | S f =>
    match rd_link s l with
    | O => Some (l, None)
    | S i => if (hash (it s i) =? h) && (key (it s i) =? k) then Some (l, Some i)
             else find f s (NextOf i) k h
    end
  end.

(* chain starting at the value stored in a link *)
Fixpoint Chain (s : ht) (start : nat) (c : list nat) : Prop :=
  match c with
  | [] => start = 0
  | i :: c' => start = S i /\ i < size s /\ Chain s (next (it s i)) c'
  end.

Lemma nth_upd_same {A} (l : list A) i x d : i < length l -> nth i (upd l i x) d = x.
Proof. revert i; induction l; intros [|i] Hi; simpl in *; try lia; auto. apply IHl; lia. Qed.
Lemma nth_upd_other {A} (l : list A) i j x d : i <> j -> nth j (upd l i x) d = nth j l d.
Proof. revert i j; induction l; intros [|i] [|j] Hij; simpl; auto; try lia. Qed.
Lemma length_upd {A} (l : list A) i x : length (upd l i x) = length l.
Proof. revert i; induction l; intros [|i]; simpl; auto. Qed.

(* Frame: a chain only depends on the next fields of its members *)
Lemma Chain_frame s s' start c :
  size s' = size s ->
  (forall i, In i c -> next (it s' i) = next (it s i)) ->
  Chain s start c -> Chain s' start c.
Proof.
  revert start; induction c as [|i c IH]; intros start Hsz Hn Hc; simpl in *; auto.
  destruct Hc as (-> & Hi & Hc). repeat split; [lia|].
  rewrite (Hn i) by auto. apply IH; auto.
Qed.

(* find walks the chain: result characterised by the first matching member *)
Definition matches s k h i := (hash (it s i) =? h) && (key (it s i) =? k) = true.

Definition link_after (l : link) (pre : list nat) : link := fold_left (fun _ p => NextOf p) pre l.

Lemma find_spec : forall c fuel s l k h,
  Chain s (rd_link s l) c -> length c < fuel ->
  (exists pre i post, c = pre ++ i :: post /\ matches s k h i /\
       (forall j, In j pre -> ~ matches s k h j) /\
       find fuel s l k h = Some (link_after l pre, Some i))
  \/
  ((forall j, In j c -> ~ matches s k h j) /\
   find fuel s l k h = Some (link_after l c, None)).
Proof.
  induction c as [|i c IH]; intros fuel s l k h Hc Hf.
  - right. split; [intros j []|]. destruct fuel; [simpl in Hf; lia|]. simpl in *. rewrite Hc. reflexivity.
  - destruct fuel as [|fuel]; [simpl in Hf; lia|].
    simpl in Hc. destruct Hc as (Hs & Hi & Hc).
    cbn [find]. rewrite Hs.
    destruct ((hash (it s i) =? h) && (key (it s i) =? k)) eqn:E.
    + left. exists [], i, c. simpl. split; [reflexivity|]. split; [exact E|]. split; [intros j []|reflexivity].
    + specialize (IH fuel s (NextOf i) k h Hc ltac:(simpl in Hf; lia)).
      destruct IH as [(pre & m & post & -> & Hm & Hpre & Hfind)|(Hno & Hfind)].
      * left. exists (i :: pre), m, post. split; [reflexivity|]. split; [exact Hm|]. split.
        -- intros j [<-|Hj]; [unfold matches; rewrite E; discriminate|auto].
        -- exact Hfind.
      * right. split.
        -- intros j [<-|Hj]; [unfold matches; rewrite E; discriminate|auto].
        -- exact Hfind.
Qed.

(* ---- insert at the link returned by an unsuccessful find: append a fresh item ---- *)
Definition insert (s : ht) (l : link) (k h : nat) : ht :=
  let s1 := {| cap := cap s; heads := heads s; items := items s ++ [{| key := k; hash := h; next := 0 |}] |} in
  wr_link s1 l (S (size s)).

Lemma it_app_old s x i : i < size s -> nth i (items s ++ [x]) dummy = it s i.
Proof. intros; unfold it; rewrite app_nth1; auto. Qed.

(* appending the fresh index at the end of a chain *)
Lemma Chain_snoc : forall c s start l k h,
  Chain s start c -> NoDup c -> start = rd_link s l ->
  (match l with NextOf p => p < size s /\ ~ In p c | Head b => b < length (heads s) end) ->
  Chain (insert s (link_after l c) k h)
        (rd_link (insert s (link_after l c) k h) l) (c ++ [size s]).
Proof.
Admitted.

End HT.
