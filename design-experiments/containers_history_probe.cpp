#include <new>
#include <cstdlib>
#include "StringStream.hpp"
#include "Array.hpp"
#include <cstdio>
#include <cstring>
#include <vector>
#include <string>
using namespace Qentem;
static unsigned long long s;
static unsigned rnd(){ s^=s<<13; s^=s>>7; s^=s<<17; return (unsigned)(s>>11); }
static std::string rs(){ int n=rnd()%6; std::string r; for(int i=0;i<n;i++) r.push_back("ab \t\nxyz"[rnd()%8]); return r; }
#define CHK(c,msg) do{ if(!(c)){ printf("FAIL %s | log: %s\n",msg,log.c_str()); return 1; } }while(0)
static int arr(int iters){ for(int it=0;it<iters;it++){ Array<String<char>> a; std::vector<std::string> r; std::string log; int n=rnd()%40;
  for(int o=0;o<n;o++){ unsigned k=rnd()%14; std::string v=rs(); char b[48];
   if(k<3){ a+=String<char>(v.c_str()); r.push_back(v); snprintf(b,48,"push;"); }
   else if(k==3){ String<char> t(v.c_str()); a+=t; r.push_back(v); snprintf(b,48,"pushc;"); }
   else if(k==4){ Array<String<char>> o2; std::vector<std::string> r2; int m=rnd()%4; for(int j=0;j<m;j++){ std::string w=rs(); o2+=String<char>(w.c_str()); r2.push_back(w);} a+=o2; r.insert(r.end(),r2.begin(),r2.end()); snprintf(b,48,"appendcopy%d;",m); }
   else if(k==5){ Array<String<char>> o2; std::vector<std::string> r2; int m=rnd()%4; for(int j=0;j<m;j++){ std::string w=rs(); o2+=String<char>(w.c_str()); r2.push_back(w);} a+=Memory::Move(o2); r.insert(r.end(),r2.begin(),r2.end()); snprintf(b,48,"appendmove%d;",m); CHK(o2.Size()==0&&o2.Storage()==nullptr,"moved-from array not empty"); }
   else if(k==6){ SizeT d=rnd()%4; a.Drop(d); if(d<=r.size()) r.resize(r.size()-d); snprintf(b,48,"drop%u;",d); }
   else if(k==7){ SizeT m=rnd()%8; a.Resize(m); if(r.size()>m) r.resize(m); snprintf(b,48,"resize%u;",m); }
   else if(k==8){ SizeT m=rnd()%8; a.ResizeAndInitialize(m); r.resize(m); snprintf(b,48,"resizeinit%u;",m); }
   else if(k==9){ a.Expect(rnd()%5); snprintf(b,48,"expect;"); }
   else if(k==10){ a.Compress(); snprintf(b,48,"compress;"); }
   else if(k==11){ Array<String<char>> c(a); a=c; snprintf(b,48,"copy;"); }
   else if(k==12){ Array<String<char>> c(Memory::Move(a)); CHK(a.Size()==0,"moved"); a=Memory::Move(c); snprintf(b,48,"move;"); }
   else { if(rnd()%3==0){ a.Clear(); r.clear(); snprintf(b,48,"clear;"); } else { a.Reserve(rnd()%4); r.clear(); snprintf(b,48,"reserve;"); } }
   log+=b; CHK(a.Size()==r.size(),"size"); CHK(a.Size()<=a.Capacity(),"cap"); for(size_t i=0;i<r.size();i++){ const String<char>&e=a.Storage()[i]; CHK(std::string(e.First()?e.First():"",e.Length())==r[i],"content"); }
  } } return 0; }
static int str(int iters){ for(int it=0;it<iters;it++){ String<char> a; std::string r; StringStream<char> ss; std::string rr; std::string log; int n=rnd()%40;
  for(int o=0;o<n;o++){ unsigned k=rnd()%16; std::string v=rs(); char b[48];
   if(k<2){ a+=v.c_str(); r+=v; snprintf(b,48,"s+=;"); }
   else if(k==2){ a+=String<char>(v.c_str()); r+=v; snprintf(b,48,"s+=S;"); }
   else if(k==3){ char c="abz"[rnd()%3]; a+=c; r.push_back(c); snprintf(b,48,"s+=c;"); }
   else if(k==4){ SizeT d=rnd()%4; if(a.Length()||d) { if(!(a.Length()==0&&d==0)) a.StepBack(d);} if(d<=r.size()) r.resize(r.size()-d); snprintf(b,48,"sstep%u;",d); }
   else if(k==5){ if(a.Length()){ a.Reverse(); std::string t(r.rbegin(),r.rend()); r=t;} snprintf(b,48,"srev;"); }
   else if(k==6){ if(a.Length()){ SizeT i=rnd()%(a.Length()+2); a.InsertAt('Q',i); if(i<r.size()) r.insert(r.begin()+i,'Q'); } snprintf(b,48,"sins;"); }
   else if(k==7){ String<char> t=String<char>::Trim(a); std::string tr=r; size_t p=tr.find_first_not_of(" \t\n\r"); if(p==std::string::npos) tr=""; else { tr=tr.substr(p); tr=tr.substr(0,tr.find_last_not_of(" \t\n\r")+1);} CHK(std::string(t.First()?t.First():"",t.Length())==tr,"trim"); snprintf(b,48,"strim;"); }
   else if(k==8){ ss+=v.c_str(); rr+=v; snprintf(b,48,"ss+=;"); }
   else if(k==9){ char c="abz"[rnd()%3]; ss+=c; rr.push_back(c); snprintf(b,48,"ss+=c;"); }
   else if(k==10){ SizeT d=rnd()%4; ss.StepBack(d); if(d<=rr.size()) rr.resize(rr.size()-d); snprintf(b,48,"ssstep;"); }
   else if(k==11){ if(ss.Length()){ SizeT i=rnd()%(ss.Length()+2); ss.InsertAt('Q',i); if(i<rr.size()) rr.insert(rr.begin()+i,'Q'); } snprintf(b,48,"ssins;"); }
   else if(k==12){ SizeT l=rnd()%4; char*p=ss.Buffer(l); for(SizeT i=0;i<l;i++) p[i]='B'; rr+=std::string(l,'B'); snprintf(b,48,"ssbuf;"); }
   else if(k==13){ String<char> g=ss.GetString(); CHK(std::string(g.First()?g.First():"",g.Length())==rr,"getstring"); CHK(g.First()==nullptr || g.First()[g.Length()]==0,"getstring nul"); CHK(ss.Length()==0,"ss after getstring"); rr.clear(); snprintf(b,48,"ssget;"); }
   else if(k==14){ StringStream<char> c(ss); ss=c; a=String<char>(a); snprintf(b,48,"copy;"); }
   else { if(ss.Length()){ ss.Reverse(); std::string t(rr.rbegin(),rr.rend()); rr=t; } ss.Expect(rnd()%5); snprintf(b,48,"ssrev;"); }
   log+=b; CHK(a.Length()==r.size(),"slen"); CHK(std::string(a.First()?a.First():"",a.Length())==r,"scontent"); CHK(a.First()==nullptr||a.First()[a.Length()]==0,"snul");
   CHK(ss.Length()==rr.size(),"sslen"); CHK(std::string(ss.First()?ss.First():"",ss.Length())==rr,"sscontent"); CHK(ss.Length()<=ss.Capacity(),"sscap");
   CHK((a==r.c_str())==true || r.find('\0')!=std::string::npos || a.Length()==0,"s==cstr");
  } } return 0; }
int main(int argc,char**argv){ s=strtoull(argv[1],0,10)*2654435761ULL+88172645463325252ULL; int n=atoi(argv[2]); int rc= argv[3][0]=='a'?arr(n):str(n); if(!rc) puts("ok"); return rc; }
