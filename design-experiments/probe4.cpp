#include <new>
#include "JSON.hpp"
#include "Template.hpp"
#include <cstdio>
#include <cstring>
#include <csignal>
#include <csetjmp>
using namespace Qentem;
static sigjmp_buf jb; static void h(int){ siglongjmp(jb,1); }
static void t(const char*s){ Value<char> v; v+= 1; StringStream<char> ss; if(!sigsetjmp(jb,1)){ Template::Render(s,(SizeT)strlen(s),v,ss); ss.InsertNull(); printf("%s => %s\n",s,ss.First()); } else printf("%s => SIGFPE\n",s); }
int main(){ signal(SIGFPE,h);
 t("{math:5 % 0}"); t("{math:5 % 0.5}"); t("{math:5 / 0}");
 { Value<char> v; v["key1"]=1; v["k2"]=2; String<char> k("key1"); v.Remove(k); StringStream<char> ss; v.Stringify(ss); ss.InsertNull(); printf("remove(String key1) from {key1,k2}: %s\n", ss.First()); }
 { Array<int> a; a+=1; a+=2; Array<int> b; b+=7; b+=8; a+=b; printf("a+=b: size=%u [", a.Size()); for(SizeT i=0;i<a.Size();i++) printf("%d ", a.Storage()[i]); printf("]\n"); }
 return 0; }
