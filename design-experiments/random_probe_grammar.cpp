#include <new>
#include "JSON.hpp"
#include "Template.hpp"
#include <cstdio>
#include <cstring>
#include <cstdlib>
#include <string>
#include <vector>
using namespace Qentem;
static unsigned long long s;
static unsigned rnd(){ s^=s<<13; s^=s>>7; s^=s<<17; return (unsigned)(s>>11); }
static const char* names[]={"a","b","1","s","n","t","g","a[0]","a[2][x]","b[k1]","zz","a[9]","v","v[x]","v[y]","w","w[m]","k"};
static std::string nm(){ if(rnd()%40==0){ return std::string(250+rnd()%20,'q'); } return names[rnd()%(sizeof(names)/sizeof(*names))]; }
static const char* opsl[]={"+","-","*","/","%","^","==","!=","<","<=",">",">=","&&","||","&","|"};
static std::string expr(int d){ std::string e; int n=1+rnd()%4; for(int i=0;i<n;i++){ if(i) { e+=(rnd()%2?" ":""); e+=opsl[rnd()%16]; e+=(rnd()%2?" ":""); }
   unsigned k=rnd()%10; if(k<4) e+=std::to_string(rnd()%7); else if(k<5) e+="0.5"; else if(k<8) e+="{var:"+nm()+"}"; else if(d>0) e+="("+expr(d-1)+")"; else e+="x"; } return e; }
static std::string tpl(int d){ std::string t; int n=rnd()%5; for(int i=0;i<n;i++){ unsigned k=rnd()%12; 
   if(k==0) t+="text <b> & '"; else if(k==1) t+="{var:"+nm()+"}"; else if(k==2) t+="{raw:"+nm()+"}"; else if(k==3) t+="{math:"+expr(2)+"}";
   else if(k==4) t+="{svar:s, {var:"+nm()+"}, {math:"+expr(1)+"}}";
   else if(k==5) t+="{if case=\""+expr(1)+"\" true=\"T{var:"+nm()+"}\" false=\"F{raw:"+nm()+"}\"}";
   else if(k<9 && d>0){ t+="<loop"; if(rnd()%2) t+=" set=\""+nm()+"\""; t+=" value=\""+std::string(rnd()%2?"v":"w")+"\""; if(rnd()%5==0) t+=" group=\"y\""; if(rnd()%4==0) t+=(rnd()%2?" sort=\"ascend\"":" sort=\"descend\""); t+=">"+tpl(d-1)+"</loop>"; }
   else if(k<11 && d>0){ t+="<if case=\""+expr(1)+"\">"+tpl(d-1); if(rnd()%2) t+="<else if case=\""+expr(1)+"\">"+tpl(d-1); if(rnd()%2) t+="<else>"+tpl(d-1); t+="</if>"; }
   else t+="}{<"; }
   return t; }
int main(int argc,char**argv){ s=strtoull(argv[1],0,10)*2654435761ULL+88172645463325252ULL; int count=atoi(argv[2]);
  Value<char> value = JSON::Parse(R"({"a":[1,2,{"x":"<&>","y":5}],"b":{"k1":"v1","k2":2.5},"1":"one","s":"w {0} {1} {2}","n":0,"t":true,"g":[{"y":1,"m":2},{"y":2,"m":3}],"k":-3})");
  for(int it=0;it<count;it++){ std::string in=tpl(3);
    unsigned m=rnd()%6; if(in.size()){ if(m==0) in.resize(rnd()%in.size()); else if(m==1) in.erase(rnd()%in.size(),1+rnd()%3); else if(m==2) in.insert(rnd()%in.size(), std::string(1,"{}<>\"'/ =[]"[rnd()%12])); else if(m==3){ size_t p=rnd()%in.size(); in+=in.substr(p, rnd()%20);} }
    FILE*f=fopen("last_input.txt","w"); fwrite(in.data(),1,in.size(),f); fclose(f);
    char*buf=(char*)malloc(in.size()?in.size():1); memcpy(buf,in.data(),in.size());
    StringStream<char> ss; Template::Render(buf,(SizeT)in.size(),value,ss); free(buf); }
  puts("done"); return 0; }
