def div(hi, lo, d, h, fix=False):
    W=2*h; M=(1<<W)-1; sh=h; mask=M>>sh
    ishift=(W-1)-(d.bit_length()-1)
    carry=lo % d; lo//=d
    ds=(d<<ishift)&M
    dl=ds>>sh; dh=ds&mask
    hi=(hi<<ishift)&M
    q=hi//dl; hi%=dl; r=(q*dh)&M
    hi=(hi<<sh)&M
    if hi<r:
        q=(q-1)&M
        if ((r-hi)&M)>ds:
            q=(q-1)&M; r=(r-ds)&M
        r=(r-ds)&M
    hi=(hi-r)&M
    q=(q<<sh)&M; lo=(lo+q)&M
    q=hi//dl; hi%=dl; r=(q*dh)&M
    hi=(hi<<sh)&M
    if hi<r:
        q=(q-1)&M
        if ((r-hi)&M)>ds:
            q=(q-1)&M; r=(r-ds)&M
        r=(r-ds)&M
    hi=(hi-r)&M
    lo=(lo+q)&M
    hi>>=ishift
    o=hi; hi=(hi+carry)&M
    if o>hi:
        if fix:
            hi=(hi-d)&M; lo=(lo+1)&M
            return hi,lo
        ov=1<<(W-1)
        hi=(hi+((ov%(d>>1))<<1))&M; lo=(lo+1)&M
    if hi>=d:
        hi=(hi-d)&M; lo=(lo+1)&M
    return hi,lo
for h in (2,3,4):
  W=2*h
  for fix in (False,True):
    bad=0; ex=None; tot=0
    for d in range(1,1<<W):
        for hi in range(0,d):
            for lo in range(0,1<<W):
                tot+=1
                v=(hi<<W)|lo
                r,q=div(hi,lo,d,h,fix)
                if r!=v%d or q!=(v//d)&((1<<W)-1):
                    bad+=1
                    if ex is None: ex=(hi,lo,d,r,q,v%d,v//d)
    print("h",h,"fix",fix,"total",tot,"bad",bad,ex)
