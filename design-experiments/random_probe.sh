#!/bin/bash
# runs seeds, collects first frame in Include/ for each crash
mode=$1; n=$2
for seed in $(seq 1 $n); do
  mkdir -p w$mode$seed; ( cd w$mode$seed; ASAN_OPTIONS=detect_leaks=0 timeout 60 ../fz $mode $seed 3000 > out.txt 2> err.txt; rc=$?
  if ! grep -q done out.txt; then
     site=$(grep -m1 -o "/tmp/probe/inc/[A-Za-z]*.hpp:[0-9]*" err.txt); kind=$(grep -m1 -o "ERROR: AddressSanitizer: [a-zA-Z-]*\|runtime error: [a-z ]*\|DEADLYSIGNAL\|FPE" err.txt | head -1); [ $rc -eq 124 ] && kind=TIMEOUT
     echo "$kind | $site | $(cat last_input.txt | tr '\n' ' ')"
  fi ) 
done
