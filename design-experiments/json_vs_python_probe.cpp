#include <new>
#include <cstdlib>
#include "JSON.hpp"
#include <cstdio>
#include <cstring>
#include <string>
#include <iostream>
using namespace Qentem;
// reads lines: hex-encoded document; prints canonical dump: types + strings hex + numbers as kind:bits
static bool NUMVAL=false;
static void dump(const Value<char>&v, std::string&o){ char b[64];
  if(NUMVAL && v.IsNumber()){ double d=v.GetDouble(); unsigned long long bits; memcpy(&bits,&d,8); if(d==0) bits&=0x7fffffffffffffffULL; snprintf(b,64,"n%016llx",bits); o+=b; return; }
  switch(v.Type()){ case ValueType::Object:{ o+="{"; const auto*ob=v.GetObject(); for(SizeT i=0;i<ob->Size();i++){ const auto*it=ob->GetItem(i); if(!it||it->Value.IsUndefined()) continue; o+="K"; for(SizeT j=0;j<it->Key.Length();j++){ snprintf(b,64,"%02x",(unsigned char)it->Key.First()[j]); o+=b;} o+=":"; dump(it->Value,o); o+=","; } o+="}"; break; }
   case ValueType::Array:{ o+="["; for(SizeT i=0;i<v.Size();i++){ const Value<char>*e=v.GetValue(i); if(!e){ o+="U,"; continue;} dump(*e,o); o+=","; } o+="]"; break; }
   case ValueType::String:{ o+="S"; for(SizeT j=0;j<v.Length();j++){ snprintf(b,64,"%02x",(unsigned char)v.StringStorage()[j]); o+=b;} break; }
   case ValueType::UIntLong: snprintf(b,64,"u%llu",(unsigned long long)v.GetUInt64()); o+=b; break;
   case ValueType::IntLong: snprintf(b,64,"i%lld",(long long)v.GetInt64()); o+=b; break;
   case ValueType::Double:{ double d=v.GetDouble(); unsigned long long bits; memcpy(&bits,&d,8); snprintf(b,64,"d%016llx",bits); o+=b; break; }
   case ValueType::True: o+="T"; break; case ValueType::False: o+="F"; break; case ValueType::Null: o+="N"; break; default: o+="?"; } }
int main(){ std::string line; while(std::getline(std::cin,line)){ std::string raw; for(size_t i=0;i+1<line.size();i+=2) raw.push_back((char)strtol(line.substr(i,2).c_str(),0,16));
   char*buf=(char*)malloc(raw.size()?raw.size():1); memcpy(buf,raw.data(),raw.size()); Value<char> v=JSON::Parse(buf,(SizeT)raw.size()); free(buf);
   std::string o; if(v.IsUndefined()) o="UNDEF"; else dump(v,o); std::string o1; NUMVAL=true; if(!v.IsUndefined()) dump(v,o1); StringStream<char> ss; v.Stringify(ss,17); Value<char> v2=JSON::Parse(ss.First(),ss.Length()); std::string o2; if(v2.IsUndefined()) o2="UNDEF"; else dump(v2,o2); NUMVAL=false;
   printf("%s\t%s\n",o.c_str(), (o1==o2||v.IsUndefined())?"RT_OK":"RT_DIFF"); } }
