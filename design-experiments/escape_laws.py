import itertools
ENT={'&':'&amp;','<':'&lt;','>':'&gt;','"':'&quot;',"'":'&apos;'}
def esc(s):
    out=[];off=0;i=0;n=len(s)
    while i<n:
        c=s[i]
        if c=='&':
            rem=n-i
            if rem>5 and s[i+5]==';' and (s[i:i+5]=='&quot' or s[i:i+5]=='&apos'): i+=6; continue
            if rem>4 and s[i+4]==';' and s[i:i+4]=='&amp': i+=5; continue
            if rem>3 and s[i+3]==';' and (s[i:i+3]=='&lt' or s[i:i+3]=='&gt'): i+=4; continue
            out.append(s[off:i]); out.append('&amp;'); i+=1; off=i
        elif c in '<>"\'':
            out.append(s[off:i]); out.append(ENT[c]); i+=1; off=i
        else: i+=1
    out.append(s[off:n]); return ''.join(out)
def dec(s):
    out=[];i=0
    inv={v:k for k,v in ENT.items()}
    while i<len(s):
        for e,k in inv.items():
            if s.startswith(e,i): out.append(k); i+=len(e); break
        else: out.append(s[i]); i+=1
    return ''.join(out)
def ok_amp(t):
    for i,c in enumerate(t):
        if c=='&' and not any(t.startswith(e,i) for e in ENT.values()): return False
    return True
alpha="&;ampltgquos<>\"'x"
cnt=0
import random
for L in range(0,6):
    for tup in itertools.product("&;amplt<'x",repeat=L):
        s=''.join(tup); t=esc(s); cnt+=1
        assert not any(c in t for c in '<>"\''),(s,t)
        assert ok_amp(t),(s,t)
        assert dec(t)==dec(s),(s,t)
        assert esc(t)==t,(s,t)
random.seed(1)
for _ in range(300000):
    s=''.join(random.choice(alpha) for _ in range(random.randint(0,14)))
    if random.random()<0.5:
        s=s[:random.randint(0,len(s))]+random.choice(list(ENT.values()))+s
    t=esc(s); cnt+=1
    assert not any(c in t for c in '<>"\''),(s,t)
    assert ok_amp(t),(s,t); assert dec(t)==dec(s),(s,t); assert esc(t)==t,(s,t)
print("ok",cnt)
