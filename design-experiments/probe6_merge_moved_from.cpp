#include <new>
#include "JSON.hpp"
#include <cstdio>
using namespace Qentem;
int main(){ Value<char> a{SizeT64(7)}; Value<char> b = Memory::Move(a); printf("moved-from undefined=%d\n",(int)a.IsUndefined()); Value<char> arr; arr+=1; a.Merge(arr); printf("merged size=%u\n",a.Size()); return 0; }
