#include <new>
#include <cstdlib>
#include "Digit.hpp"
#include <cstdio>
#include <cstring>
#include <cmath>
#include <string>
#include <map>
using namespace Qentem;
static unsigned long long s=88172645463325252ULL; static unsigned long long rnd(){ s^=s<<13; s^=s>>7; s^=s<<17; return s; }
static std::map<std::string,std::map<std::string,long>> stats; static std::map<std::string,std::string> ex;
static void test(const char*cls,const std::string&t){ QNumber64 q; SizeT off=0; QNumberType ty=Digit::StringToNumber(q,t.c_str(),off,(SizeT)t.size()); char*end; double ref=strtod(t.c_str(),&end); std::string k;
  if(ty==QNumberType::NotANumber) k= std::isinf(ref)?"NaN(ref inf)":"NaN(ref finite)";
  else { double got = ty==QNumberType::Real?q.Real: ty==QNumberType::Natural?(double)q.Natural:(double)q.Integer; if(off!=t.size()) k="partial-consume"; else if(std::isinf(ref)) k= std::isinf(got)?"inf ok":"finite but ref inf"; else { unsigned long long a,b; memcpy(&a,&got,8); memcpy(&b,&ref,8); long long d=(long long)(a&0x7fffffffffffffffULL)-(long long)(b&0x7fffffffffffffffULL); if(d<0)d=-d; if((a>>63)!=(b>>63)) k="sign"; else if(d==0) k="exact"; else if(d==1) k="1ulp"; else if(d<=4) k="2-4ulp"; else k=">4ulp"; } }
  stats[cls][k]++; if(k!="exact"&&k!="1ulp"&&k!="inf ok"&&k!="NaN(ref inf)"&&!ex.count(std::string(cls)+k)) ex[std::string(cls)+k]=t; }
int main(){ char b[512];
  for(int i=0;i<200000;i++){ // short: up to 17 sig digits with exponent
    int nd=1+rnd()%17; std::string m; for(int j=0;j<nd;j++) m.push_back('0'+ (j==0? 1+rnd()%9 : rnd()%10)); int e=(int)(rnd()%600)-300; snprintf(b,512,"%s%c%se%d", (rnd()%2?"-":""), m[0], (std::string(".")+m.substr(1)).c_str(), e); std::string t=b; if(nd==1) t=std::string(rnd()%2?"-":"")+m+"e"+std::to_string(e); test("short<=17",t); }
  for(int i=0;i<100000;i++){ int nd=18+rnd()%30; std::string m; for(int j=0;j<nd;j++) m.push_back('0'+ (j==0? 1+rnd()%9 : rnd()%10)); int e=(int)(rnd()%600)-320; std::string t=m.substr(0,1)+"."+m.substr(1)+"e"+std::to_string(e); test("long18-47",t); }
  for(int i=0;i<100000;i++){ // ties: exact halfway between doubles: take random double d>0 with even/odd, compute midpoint exactly as decimal via long double? use %.*Le of (d+next)/2 in 80-bit is exact for 53+1 bits
    unsigned long long bits=(rnd()%0x7fe0000000000000ULL); double d; memcpy(&d,&bits,8); if(!(d>1e-290&&d<1e290)) continue; unsigned long long b2=bits+1; double d2; memcpy(&d2,&b2,8); long double mid=((long double)d+(long double)d2)/2; snprintf(b,512,"%.70Le",mid); test("ties",b); }
  for(int i=0;i<20000;i++){ double m=1.0+ (rnd()%1000000)/1000000.0*8; int e=307+rnd()%5; snprintf(b,512,"%.6fe%d",m,e); test("near-overflow",b); }
  for(int i=0;i<20000;i++){ double m=1.0+ (rnd()%1000000)/1000000.0*8; int e=-(305+rnd()%22); snprintf(b,512,"%.6fe%d",m,e); test("subnormal-range",b); }
  for(int i=0;i<20000;i++){ int nd=1+rnd()%40; std::string m; for(int j=0;j<nd;j++) m.push_back('0'+ (j==0? 1+rnd()%9 : rnd()%10)); test("integers",m); }
  for(int i=0;i<20000;i++){ int nz=rnd()%30; int nd=1+rnd()%25; std::string m="0."+std::string(nz,'0'); for(int j=0;j<nd;j++) m.push_back('0'+rnd()%10); test("0.000ddd",m); }
  for(int i=0;i<20000;i++){ int a=1+rnd()%25,c=1+rnd()%25; std::string m; for(int j=0;j<a;j++) m.push_back('0'+(j==0?1+rnd()%9:rnd()%10)); m.push_back('.'); for(int j=0;j<c;j++) m.push_back('0'+rnd()%10); test("ddd.ddd",m); }
  for(auto&c:stats){ printf("%-16s",c.first.c_str()); for(auto&k:c.second) printf(" %s=%ld",k.first.c_str(),k.second); printf("\n"); }
  for(auto&e:ex) printf("EX %s : %s\n",e.first.c_str(),e.second.c_str());
}
