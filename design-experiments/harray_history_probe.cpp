#include <new>
#include <cstdlib>
#include "HArray.hpp"
#include "String.hpp"
#include <cstdio>
#include <cstring>
#include <string>
#include <vector>
#include <algorithm>
using namespace Qentem;
static unsigned long long s;
static unsigned rnd(){ s^=s<<13; s^=s>>7; s^=s<<17; return (unsigned)(s>>11); }
struct Ref { std::vector<std::pair<std::string,int>> slots; std::vector<bool> live; // slot list with tombstones
  int find(const std::string&k){ for(size_t i=0;i<slots.size();i++) if(live[i]&&slots[i].first==k) return (int)i; return -1; }
  void compact(){ std::vector<std::pair<std::string,int>> s2; for(size_t i=0;i<slots.size();i++) if(live[i]) s2.push_back(slots[i]); slots=s2; live.assign(slots.size(),true); }
};
using HA=HArray<String<char>,int>;
static std::string keyname(int alpha){ int n=rnd()%3; std::string k; for(int i=0;i<n;i++) k.push_back("ab\0"[rnd()%alpha]); if(rnd()%10==0) k="key"+std::to_string(rnd()%50); return k; }
static bool lessstr(const std::string&a,const std::string&b){ return a<b; }
static int check(HA&h, Ref&r, const char*op, bool slots_exact){
  // live sequence must match in order
  std::vector<std::pair<std::string,int>> a,b;
  for(SizeT i=0;i<h.Size();i++){ const String<char>*k=h.GetKey(i); int*v=h.GetValue(i); if((k==nullptr)!=(v==nullptr)){ printf("FAIL %s key/value null mismatch\n",op); return 1;} if(k) a.push_back({std::string(k->First(),k->Length()),*v}); }
  for(size_t i=0;i<r.slots.size();i++) if(r.live[i]) b.push_back(r.slots[i]);
  if(a!=b){ printf("FAIL %s: order/content mismatch (impl %zu live, ref %zu)\n",op,a.size(),b.size()); return 1; }
  if(h.ActualSize()!=b.size()){ printf("FAIL %s ActualSize\n",op); return 1; }
  for(auto&kv:b){ int*v=h.GetValue(kv.first.data(),(SizeT)kv.first.size()); if(!v||*v!=kv.second){ printf("FAIL %s lookup %s\n",op,kv.first.c_str()); return 1;} SizeT idx; if(!h.GetKeyIndex(idx,kv.first.data(),(SizeT)kv.first.size())){ printf("FAIL %s keyindex\n",op); return 1;} const String<char>*k=h.GetKey(idx); if(!k||std::string(k->First(),k->Length())!=kv.first){ printf("FAIL %s index->key\n",op); return 1; } if(!h.Has(kv.first.data(),(SizeT)kv.first.size())){ printf("FAIL %s Has\n",op); return 1; } }
  if(slots_exact && h.Size()!=r.slots.size()){ printf("FAIL %s Size %u vs %zu\n",op,h.Size(),r.slots.size()); return 1; }
  return 0; }
int main(int argc,char**argv){ s=strtoull(argv[1],0,10)*2654435761ULL+88172645463325252ULL; int iters=atoi(argv[2]);
 for(int it=0;it<iters;it++){ HA h; Ref r; int alpha=2+rnd()%2; int nops=rnd()%80; std::string log;
  for(int o=0;o<nops;o++){ unsigned k=rnd()%20; std::string key=keyname(alpha); char buf[64]; const char*op="";
    if(k<6){ op="insert"; if(h.Size()==h.Capacity()) r.compact(); int v=rnd()%100; h.Insert(String<char>(key.c_str(),(SizeT)key.size()),int(v)); int f=r.find(key); if(f>=0) r.slots[f].second=v; else { r.slots.push_back({key,v}); r.live.push_back(true);} }
    else if(k<8){ op="get"; if(h.Size()==h.Capacity()) r.compact(); int&v=h.Get(key.data(),(SizeT)key.size()); int f=r.find(key); if(f<0){ if(v!=0){printf("FAIL get fresh nonzero\n");return 1;} r.slots.push_back({key,0}); r.live.push_back(true); f=(int)r.slots.size()-1;} v=v+1; r.slots[f].second+=1; }
    else if(k<11){ op="remove"; h.Remove(key.data(),(SizeT)key.size()); int f=r.find(key); if(f>=0){ r.live[f]=false; } }
    else if(k==11){ op="removeindex"; if(h.Size()){ SizeT i=rnd()%h.Size(); const String<char>*kk=h.GetKey(i); if(kk){ std::string ks(kk->First(),kk->Length()); int f=r.find(ks); if(f<0){printf("FAIL removeindex: impl has key ref lacks\n"); return 1;} r.live[f]=false; } h.RemoveIndex(i); } }
    else if(k==12){ op="rename"; std::string to=keyname(alpha); bool ok=h.Rename(String<char>(key.c_str(),(SizeT)key.size()),String<char>(to.c_str(),(SizeT)to.size())); int f=r.find(key); int g=r.find(to); bool rok=(f>=0&&g<0); if(ok!=rok){ printf("FAIL rename result %d vs %d\n",ok,rok); return 1;} if(rok) r.slots[f].first=to; }
    else if(k==13){ op="resize"; h.Compress(); r.compact(); SizeT n=rnd()%20; h.Resize(n); if(n==0){ r.slots.clear(); r.live.clear(); } else { if(r.slots.size()>n){ r.slots.resize(n); r.live.resize(n);} r.compact(); } }
    else if(k==14){ op="compress"; h.Compress(); r.compact(); }
    else if(k==15){ op="expect"; h.Expect(rnd()%10); /* may compact if it resizes */ SizeT before=h.Size(); (void)before; if(h.Size()!=r.slots.size()) r.compact(); }
    else if(k==16){ op="sort"; bool asc=rnd()%2; h.Sort(asc); // ref: sort all slots (tombstones have empty key)
        std::vector<std::pair<std::string,int>> lv; for(size_t i=0;i<r.slots.size();i++) if(r.live[i]) lv.push_back(r.slots[i]); std::sort(lv.begin(),lv.end(),[&](auto&a,auto&b){return asc? a.first<b.first : a.first>b.first;}); size_t dead=r.slots.size()-lv.size(); r.slots.clear(); r.live.clear(); // tombstones position unknown: keep dead count separately
        // we cannot know where tombstones are; compare only live order; emulate by placing dead first for ascending (empty keys) 
        if(asc){ for(size_t i=0;i<dead;i++){ r.slots.push_back({"",0}); r.live.push_back(false);} for(auto&x:lv){ r.slots.push_back(x); r.live.push_back(true);} } else { for(auto&x:lv){ r.slots.push_back(x); r.live.push_back(true);} for(size_t i=0;i<dead;i++){ r.slots.push_back({"",0}); r.live.push_back(false);} } }
    else if(k==17){ op="copy"; HA c(h); h=c; r.compact(); }
    else if(k==18){ op="merge"; HA o; Ref ro; int m=rnd()%5; for(int j=0;j<m;j++){ std::string k2=keyname(alpha); int v=rnd()%100; o.Insert(String<char>(k2.c_str(),(SizeT)k2.size()),int(v)); int f=ro.find(k2); if(f>=0) ro.slots[f].second=v; else {ro.slots.push_back({k2,v}); ro.live.push_back(true);} }
        bool willresize = (h.Size()+o.Size())>h.Capacity(); if(rnd()%2){ h+=o; } else { h+=Memory::Move(o); } if(willresize) r.compact(); for(auto&kv:ro.slots){ int f=r.find(kv.first); if(f>=0) r.slots[f].second=kv.second; else { r.slots.push_back(kv); r.live.push_back(true);} } }
    else { op="clear"; if(rnd()%4==0){ h.Clear(); r.slots.clear(); r.live.clear(); } }
    bool slots_exact = strcmp(op,"expect")!=0;
    snprintf(buf,sizeof buf,"%s(%s) ",op,key.c_str()); log+=buf;
    if(check(h,r,op,slots_exact)){ printf("seed %s iter %d op#%d log: %s\n",argv[1],it,o,log.c_str()); return 1; }
  } }
 puts("ok"); return 0; }
