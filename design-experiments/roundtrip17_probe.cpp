#include <new>
#include "Digit.hpp"
#include "StringStream.hpp"
#include <cstdio>
#include <cstring>
#include <cstdlib>
#include <cstdint>
#include <cmath>
using namespace Qentem;
static uint64_t s=88172645463325252ULL; static uint64_t rnd(){ s^=s<<13; s^=s>>7; s^=s<<17; return s; }
int main(int argc,char**argv){ long n=atol(argv[1]); s+=atol(argv[2]);
  long bad_rt=0,bad_fmt=0,bad_parse=0, nanret=0; int shown=0;
  StringStream<char> ss;
  for(long i=0;i<n;i++){ uint64_t b=rnd(); if(((b>>52)&0x7ff)==0x7ff) continue; double d; memcpy(&d,&b,8);
    ss.Clear(); Digit::NumberToString(ss,d,{17U,Digit::RealFormatType::Default}); 
    char ref[64]; snprintf(ref,sizeof ref,"%.17g",d);
    bool fm = (ss.Length()==strlen(ref) && memcmp(ss.First(),ref,ss.Length())==0);
    if(!fm){ bad_fmt++; if(shown<5){ ss.InsertNull(); printf("FMT %a: got %s want %s\n",d,ss.First(),ref); shown++; } }
    QNumber64 q; SizeT off=0; QNumberType t=Digit::StringToNumber(q,ss.First(),off,ss.Length());
    double back; if(t==QNumberType::Real) back=q.Real; else if(t==QNumberType::Natural) back=(double)q.Natural; else if(t==QNumberType::Integer) back=(double)q.Integer; else { nanret++; back=NAN; }
    uint64_t bb; memcpy(&bb,&back,8);
    if(bb!=b){ bad_rt++; if(shown<12){ ss.InsertNull(); printf("RT %a (%s): back %a type %d\n",d,ss.First(),back,(int)t); shown++; } }
    // parse of the correct 17-digit string vs strtod
    q.Natural=0; off=0; t=Digit::StringToNumber(q,ref,off,(SizeT)strlen(ref)); double p = (t==QNumberType::Real)?q.Real:(t==QNumberType::Natural)?(double)q.Natural:(t==QNumberType::Integer)?(double)q.Integer:NAN;
    if(p!=d && !(p!=p)) bad_parse++; else if(p!=p) bad_parse++;
  }
  printf("n=%ld bad_roundtrip=%ld bad_format17=%ld bad_parse_of_exact17=%ld notanumber=%ld\n",n,bad_rt,bad_fmt,bad_parse,nanret); }
