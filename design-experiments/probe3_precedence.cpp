#include <new>
#include "JSON.hpp"
#include "Template.hpp"
#include <cstdio>
#include <cstring>
using namespace Qentem;
static void t(const char*s){ Value<char> v; v+= 1; StringStream<char> ss; Template::Render(s,(SizeT)strlen(s),v,ss); ss.InsertNull(); printf("%s => %s\n",s,ss.First()); }
int main(){
 t("{math:10 - 2 * 3 ^ 2 + 5}");
 t("{math:10 - 2 * 3 + 5}");
 t("{math:10 - 2 * 9 + 5}");
 t("{math:1 + 2 * 3 ^ 2 - 4}");
 t("{math:100 / 2 * 5 ^ 2 / 5}");
 t("{math:8 - 1 * 2 ^ 2 - 1}");
 t("{math:0 && 1 == 1 + 0 || 1}");
 return 0; }
