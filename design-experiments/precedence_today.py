import random, itertools
# items: list of (name, op) op=0 for last. ranks are ints 1..16 distinct per operator
def ev(items, i, prev):
    # returns (tree, index)
    left = items[i][0]
    while items[i][1] != 0:
        op = items[i][1]; nxt = i+1; opn = items[nxt][1]
        if op >= opn:
            left = ('op',op,left,items[nxt][0]); i = nxt
            if prev < items[i][1]: continue
            return left, i
        else:
            right, j = ev(items, nxt, op)
            left = ('op',op,left,right); i = j; continue
    return left, i
def std(items):
    # precedence climbing, left assoc, rank=op value
    pos=[0]
    def parse(minp):
        left = items[pos[0]][0]
        while True:
            op = items[pos[0]][1]
            if op==0 or op < minp: return left
            pos[0]+=1
            right = parse(op+1)
            left=('op',op,left,right)
    return parse(1)
bad=0
for n in range(1,7):
    for ops in itertools.product(range(1,5), repeat=n-1):
        items=[(chr(97+k), ops[k] if k<n-1 else 0) for k in range(n)]
        a,_=ev(items,0,0); b=std(items)
        if a!=b:
            bad+=1
            if bad<6: print("DIFF",items,a,b)
print("bad",bad)
