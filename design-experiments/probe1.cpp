#include "JSON.hpp"
#include "Template.hpp"
#include <cstdio>
#include <cstring>
#include <string>
using namespace Qentem;
static void js(const char*s){ size_t n=strlen(s); char*b=(char*)malloc(n); memcpy(b,s,n); Value<char> v=JSON::Parse(b,(SizeT)n); StringStream<char> ss; v.Stringify(ss); ss.InsertNull(); printf("parse(%s) -> undef=%d type=%d str=%s\n",s,(int)v.IsUndefined(),(int)v.Type(),ss.First()?ss.First():""); free(b);}
int main(){
  js("[[1 2]"); js("[1,]"); js("{\"a\":1,}"); js("[1,2]x"); js("{\"a\":[1 2]}"); js("[{\"a\" 1}]"); js("[{\"a\":1 \"b\":2}]");
  js("[\"\\ud83d\\ude00\"]"); js("[\"\\ud950\\udc00\"]"); js("[0x1F]"); js("[+5]"); js("[.5]"); js("[1.]"); js("[-0]"); js("[1e5]"); js("[\"\\u0001\"]");
  String<char> a("a"), ab("ab");
  printf("a<ab %d a>ab %d a==ab %d ab<a %d ab>a %d a<=ab %d\n", a<ab, a>ab, a==ab, ab<a, ab>a, a<=ab);
  StringStream<char> ss; Digit::NumberToString(ss, 11150.001, {2U, Digit::RealFormatType::SemiFixed}); ss.InsertNull(); printf("11150.001 -> %s\n", ss.First());
  ss.Clear(); Digit::NumberToString(ss, 1521525.3, {6U, Digit::RealFormatType::Default}); ss.InsertNull(); printf("1521525.3 p6 -> %s\n", ss.First());
  ss.Clear(); Digit::NumberToString(ss, 0.5, {0U, Digit::RealFormatType::Fixed}); ss.InsertNull(); printf("0.5 p0 fixed -> %s\n", ss.First());
  Value<char> v1{SizeT64(5)}, v2{"x",1};
  printf("5==\"x\": %d  \"x\"==5: %d\n", v1==v2, v2==v1);
  Value<char> g = JSON::Parse("[{\"y\":1,\"m\":2},{\"m\":5,\"y\":1}]"); Value<char> out; bool ok=g.GroupBy(out,"y"); ss.Clear(); out.Stringify(ss); ss.InsertNull(); printf("group ok=%d %s\n",ok,ss.First());
  return 0;
}
