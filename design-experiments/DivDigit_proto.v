From Coq Require Import ZArith Lia Psatz.
Local Open Scope Z_scope.

(* One quotient digit of the 128/64 helper, generic in the half-word base B:
   x < ds (two digits), ds normalised (top bit set), estimate q = x / dl with dl the top digit of ds.
   t = r*B - q*dh is (x*B - q*ds); the code adds ds back at most twice. *)
Lemma digit_estimate :
  forall B ds dl dh x q r,
    2 <= B -> 0 <= dh < B -> 0 < dl -> ds = dl * B + dh -> B <= 2 * dl -> dl < B ->
    0 <= x < ds -> x = q * dl + r -> 0 <= r < dl -> 0 <= q ->
    let t := r * B - q * dh in
    t < ds /\ - 2 * ds <= t.
Proof.
  intros B ds dl dh x q r HB Hdh Hdl Hds Hn Hdl2 Hx Hq Hr Hq0 t. subst t.
  split.
  - nia.
  - (* q*dh - r*B <= 2*ds *)
    assert (q <= B + 1) by nia.
    nia.
Qed.
