From Coq Require Import List Arith Lia Bool.
Import ListNotations.

Section Prec.
Variable A : Type.
Variable apply : nat -> A -> A -> A.

Record item := { val : A; op : nat }.   (* op = 0 : NoOp, i.e. last item *)

(* Transliteration of TemplateCore::evaluate (with the D1 repair): the list
   is "expr" (a pointer into the flat array); the result carries the new expr. *)
Fixpoint ev (fuel : nat) (l : list item) (prev : nat) {struct fuel} : option (A * list item) :=
  match fuel with
  | O => None
  | S f =>
    match l with
    | [] => None
    | it :: _ => loop f (val it) l prev
    end
  end
with loop (fuel : nat) (lhs : A) (cur : list item) (prev : nat) {struct fuel} : option (A * list item) :=
  match fuel with
  | O => None
  | S f =>
    match cur with
    | [] => None
    | it :: rest =>
      if op it =? 0 then Some (lhs, cur)
      else match rest with
           | [] => None
           | nx :: _ =>
             if op nx <=? op it
             then let lhs' := apply (op it) lhs (val nx) in
                  if prev <? op nx then loop f lhs' rest prev else Some (lhs', rest)
             else match ev f rest (op it) with
                  | None => None
                  | Some (rhs, cur') =>
                    let lhs' := apply (op it) lhs rhs in
                    match cur' with
                    | [] => None
                    | c :: _ => if prev <? op c then loop f lhs' cur' prev else Some (lhs', cur')
                    end
                  end
           end
    end
  end.

(* Textbook precedence climbing, left associative, rank = operator number. *)
Fixpoint std (fuel : nat) (l : list item) (minp : nat) {struct fuel} : option (A * list item) :=
  match fuel with
  | O => None
  | S f =>
    match l with
    | [] => None
    | it :: _ => climb f (val it) l minp
    end
  end
with climb (fuel : nat) (lhs : A) (cur : list item) (minp : nat) {struct fuel} : option (A * list item) :=
  match fuel with
  | O => None
  | S f =>
    match cur with
    | [] => None
    | it :: rest =>
      if (op it =? 0) || (op it <? minp) then Some (lhs, cur)
      else match std f rest (S (op it)) with
           | None => None
           | Some (rhs, cur') => climb f (apply (op it) lhs rhs) cur' minp
           end
    end
  end.

(* well-formed flat list: non-empty, exactly the last item has op = 0 *)
Fixpoint wf (l : list item) : Prop :=
  match l with
  | [] => False
  | it :: rest => match rest with [] => op it = 0 | _ :: _ => op it <> 0 /\ wf rest end
  end.

Definition entry (l : list item) (p : nat) : Prop :=
  match l with it :: _ => op it = 0 \/ p < op it | [] => True end.

Lemma mono :
  forall f, (forall l m r, std f l m = Some r -> forall f', f <= f' -> std f' l m = Some r) /\
            (forall x l m r, climb f x l m = Some r -> forall f', f <= f' -> climb f' x l m = Some r).
Proof.
  induction f as [|f [IHs IHc]]; split; intros; try discriminate.
  - destruct f' as [|f']; [lia|]. simpl in *. destruct l as [|it ?]; [discriminate|].
    eapply IHc; eauto; lia.
  - destruct f' as [|f']; [lia|]. simpl in *. destruct l as [|it rest]; [discriminate|].
    destruct ((op it =? 0) || (op it <? m)); [assumption|].
    destruct (std f rest (S (op it))) as [[rhs cur']|] eqn:E; [|discriminate].
    erewrite IHs by (eauto; lia). eapply IHc; eauto; lia.
Qed.

Lemma std_mono f f' l m r : std f l m = Some r -> f <= f' -> std f' l m = Some r.
Proof. intros; eapply (proj1 (mono f)); eauto. Qed.
Lemma climb_mono f f' x l m r : climb f x l m = Some r -> f <= f' -> climb f' x l m = Some r.
Proof. intros; eapply (proj2 (mono f)); eauto. Qed.

(* what ev/loop return is wf again *)
Lemma ev_shape :
  forall f, (forall l p v r, wf l -> ev f l p = Some (v, r) -> wf r) /\
            (forall x l p v r, wf l -> loop f x l p = Some (v, r) -> wf r).
Proof.
  induction f as [|f [IHe IHl]]; split; intros; try discriminate.
  - simpl in *. destruct l as [|it ?]; [discriminate|]. eapply IHl; eauto.
  - simpl in H0. destruct l as [|it rest]; [discriminate|].
    destruct (op it =? 0) eqn:E0. { inversion H0; subst; assumption. }
    destruct rest as [|nx rest']; [discriminate|].
    assert (Hw : wf (nx :: rest')) by (simpl in H; tauto).
    destruct (op nx <=? op it).
    + destruct (p <? op nx); [eapply IHl; eauto|inversion H0; subst; assumption].
    + destruct (ev f (nx :: rest') (op it)) as [[rhs cur']|] eqn:E2; [|discriminate].
      pose proof (IHe _ _ _ _ Hw E2) as Hw'.
      destruct cur' as [|c cs]; [discriminate|].
      destruct (p <? op c); [eapply IHl; eauto|inversion H0; subst; assumption].
Qed.

(* Main simulation: ev with previous operator p  =  std with minimum rank p+1 *)
Lemma sim :
  forall f,
    (forall l p r, wf l -> entry l p -> ev f l p = Some r -> exists f', std f' l (S p) = Some r) /\
    (forall x l p r, wf l -> entry l p -> loop f x l p = Some r -> exists f', climb f' x l (S p) = Some r).
Proof.
  induction f as [|f [IHe IHl]]; split; intros; try discriminate.
  - simpl in H1. destruct l as [|it rest]; [discriminate|].
    destruct (IHl _ _ _ _ H H0 H1) as [f' Hf']. exists (S f'). exact Hf'.
  - simpl in H1. destruct l as [|it rest]; [discriminate|].
    destruct (op it =? 0) eqn:E0.
    { inversion H1; subst. exists 1. simpl. rewrite E0. reflexivity. }
    apply Nat.eqb_neq in E0.
    assert (Hp : p < op it) by (simpl in H0; lia).
    destruct rest as [|nx rest']; [discriminate|].
    assert (Hw : wf (nx :: rest')) by (simpl in H; tauto).
    destruct (op nx <=? op it) eqn:Ele.
    + apply Nat.leb_le in Ele.
      (* std on (nx::rest') with min rank op it + 1 stops immediately *)
      assert (Hstd : std 2 (nx :: rest') (S (op it)) = Some (val nx, nx :: rest')).
      { simpl. replace (op nx <? S (op it)) with true by (symmetry; apply Nat.ltb_lt; lia).
        rewrite orb_true_r. reflexivity. }
      destruct (p <? op nx) eqn:Ep.
      * apply Nat.ltb_lt in Ep.
        destruct (IHl _ _ _ _ Hw (or_intror Ep) H1) as [f' Hf'].
        remember (Nat.max 2 f') as m eqn:Hm.
        exists (S m). cbn [climb].
        replace ((op it =? 0) || (op it <? S p)) with false.
        2:{ symmetry. apply orb_false_iff. split; [apply Nat.eqb_neq; lia|apply Nat.ltb_ge; lia]. }
        rewrite (std_mono _ m _ _ _ Hstd) by lia.
        eapply climb_mono; eauto; lia.
      * apply Nat.ltb_ge in Ep. inversion H1; subst.
        exists 3. cbn [climb].
        replace ((op it =? 0) || (op it <? S p)) with false.
        2:{ symmetry. apply orb_false_iff. split; [apply Nat.eqb_neq; lia|apply Nat.ltb_ge; lia]. }
        rewrite Hstd. cbn [climb].
        replace ((op nx =? 0) || (op nx <? S p)) with true; [reflexivity|].
        symmetry. apply orb_true_iff. right. apply Nat.ltb_lt. lia.
    + apply Nat.leb_gt in Ele.
      destruct (ev f (nx :: rest') (op it)) as [[rhs cur']|] eqn:E2; [|discriminate].
      destruct (IHe _ _ _ Hw (or_intror Ele) E2) as [f1 Hf1].
      pose proof (proj1 (ev_shape f) _ _ _ _ Hw E2) as Hw'.
      destruct cur' as [|c cs]; [discriminate|].
      destruct (p <? op c) eqn:Ep.
      * apply Nat.ltb_lt in Ep.
        destruct (IHl _ _ _ _ Hw' (or_intror Ep) H1) as [f2 Hf2].
        remember (Nat.max f1 f2) as m eqn:Hm.
        exists (S m). cbn [climb].
        replace ((op it =? 0) || (op it <? S p)) with false.
        2:{ symmetry. apply orb_false_iff. split; [apply Nat.eqb_neq; lia|apply Nat.ltb_ge; lia]. }
        rewrite (std_mono _ m _ _ _ Hf1) by lia.
        eapply climb_mono; eauto; lia.
      * apply Nat.ltb_ge in Ep. inversion H1; subst.
        remember (Nat.max f1 1) as m eqn:Hm.
        exists (S m). cbn [climb].
        replace ((op it =? 0) || (op it <? S p)) with false.
        2:{ symmetry. apply orb_false_iff. split; [apply Nat.eqb_neq; lia|apply Nat.ltb_ge; lia]. }
        rewrite (std_mono _ m _ _ _ Hf1) by lia.
        destruct m as [|m']; [lia|]. cbn [climb].
        replace ((op c =? 0) || (op c <? S p)) with true; [reflexivity|].
        symmetry. apply orb_true_iff. right. apply Nat.ltb_lt. lia.
Qed.

Theorem c04_precedence_proto :
  forall f l r, wf l -> ev f l 0 = Some r -> exists f', std f' l 1 = Some r.
Proof.
  intros f l r Hw H. eapply (proj1 (sim f)); eauto.
  destruct l as [|it ?]; simpl; [exact I|]. destruct (op it); [left; reflexivity|right; lia].
Qed.
End Prec.
Print Assumptions c04_precedence_proto.
