#include <new>
#include "JSON.hpp"
#include "Template.hpp"
#include <cstdio>
#include <cstring>
using namespace Qentem;
static void t(const Value<char>&v,const char*s){ StringStream<char> ss; Template::Render(s,(SizeT)strlen(s),v,ss); ss.InsertNull(); printf("%s\n   => %s\n",s,ss.First()); }
int main(){ Value<char> v=JSON::Parse(R"({"item_count":3,"items":["x","y"],"o":{"k1":{"a":1},"k2":[2]},"d":3.0,"e":2.50,"f":0.125,"n":null,"t":true,"s":"<b>"})");
 t(v,"<loop set=\"items\" value=\"item\">[{var:item}|{var:item_count}]</loop>");
 t(v,"<loop set=\"o\" value=\"m\">[{var:m}|{raw:m}]</loop>");
 t(v,"{var:d} {var:e} {var:f} {var:n} {var:t} {var:s} {raw:s} {var:o} {var:zz} {math:1/0} {math:<b>+1}");
 t(v,"{if case=\"{var:zz} > 1\" true=\"T\" false=\"F\"}|{if case=\"0\" true=\"T\"}|<if case=\"{var:zz}>1\">A<else>B</if>");
 t(v,"{svar:s2, {var:s}}|{var:items[1]}|{var:items[7]}|{var:items[abc]}|{var:o[k1][a]}");
 return 0; }
