import json, random, struct, subprocess, sys
random.seed(int(sys.argv[1]))
def rstr():
    n=random.randint(0,6); out=[]
    for _ in range(n):
        k=random.random()
        if k<0.5: out.append(chr(random.choice([0x20,0x21,0x41,0x7e,0x61,0x2f,0x22,0x5c,0x7f])))
        elif k<0.6: out.append(chr(random.choice([8,9,10,12,13,0,1,0x1f])))
        elif k<0.8: out.append(chr(random.choice([0x80,0x7ff,0x800,0xffff,0xd7ff,0xe000,0x10000,0x4ffff,0x50000,0x10ffff,0x1f600])))
        else: out.append(chr(random.randint(0x20,0x10ffff) if random.random()<0.5 else random.randint(0x20,0x2ff)))
    s=''.join(out)
    return ''.join(c for c in s if not (0xd800<=ord(c)<=0xdfff))
def enc_str(s):
    o='"'
    for c in s:
        cp=ord(c); k=random.random()
        if c in '"\\': o+='\\'+c
        elif cp<0x20:
            short={8:'\\b',9:'\\t',10:'\\n',12:'\\f',13:'\\r'}
            if cp in short and k<0.6: o+=short[cp]
            else: o+=('\\u%04x' if k<0.8 else '\\u%04X')%cp
        elif c=='/' and k<0.3: o+='\\/'
        elif k<0.25:
            if cp<0x10000: o+=('\\u%04x' if random.random()<0.5 else '\\u%04X')%cp
            else:
                v=cp-0x10000; hi=0xd800+(v>>10); lo=0xdc00+(v&0x3ff); f='\\u%04x\\u%04x' if random.random()<0.5 else '\\u%04X\\u%04X'; o+=f%(hi,lo)
        else: o+=c
    return o+'"'
def ws(): return ''.join(random.choice(' \t\n\r') for _ in range(random.choice([0,0,0,1,2])))
def num():
    k=random.random()
    if k<0.4: 
        v=random.choice([0,1,9,10,2**31,2**32,2**53,2**63-1,2**63,2**64-1,random.randint(0,10**19)]); 
        if random.random()<0.4: v=-v if v<=2**63 else v
        return str(v)
    if k<0.7: return random.choice(['','-'])+str(random.randint(0,999))+'.'+random.choice(['0','5','25','125','75','50'])
    if k<0.85: return random.choice(['','-'])+str(random.randint(1,9))+random.choice(['e','E'])+random.choice(['','+','-'])+str(random.randint(0,20))
    return random.choice(['','-'])+str(random.randint(0,99))+'.'+str(random.randint(0,999))+random.choice(['e','E'])+random.choice(['','+','-'])+str(random.randint(0,30))
def val(d):
    k=random.random()
    if d>0 and k<0.25:
        n=random.randint(0,4); return '['+ws()+(','+ws()).join(val(d-1)+ws() for _ in range(n))+']'
    if d>0 and k<0.5:
        n=random.randint(0,4); keys=[rstr() if random.random()<0.7 else random.choice(['a','b','']) for _ in range(n)]
        return '{'+ws()+(','+ws()).join(enc_str(kk)+ws()+':'+ws()+val(d-1)+ws() for kk in keys)+'}'
    if k<0.65: return enc_str(rstr())
    if k<0.9: return num()
    return random.choice(['true','false','null'])
docs=[]
for _ in range(int(sys.argv[2])):
    d=ws()+(val(3) if random.random()<0.9 else val(0))+ws()
    if d.strip()[0] not in '[{': d='['+d+']'
    docs.append(d)
inp='\n'.join(d.encode('utf-8').hex() for d in docs)+'\n'
out=subprocess.run(['./jd'],input=inp.encode(),capture_output=True)
if out.returncode!=0: print("CRASH", out.stderr.decode()[:2000]); sys.exit(1)
lines=out.stdout.decode().split('\n')
def canon(v):
    if isinstance(v,dict): 
        # python keeps last duplicate at first position (dict semantics) 
        return '{'+''.join('K'+k.encode('utf-8').hex()+':'+canon(x)+',' for k,x in v.items())+'}'
    if isinstance(v,list): return '['+''.join(canon(x)+',' for x in v)+']'
    if isinstance(v,str): return 'S'+v.encode('utf-8').hex()
    if v is True: return 'T'
    if v is False: return 'F'
    if v is None: return 'N'
    if isinstance(v,int):
        if 0<=v<2**64: return 'u%d'%v
        if -2**63<=v<0: return 'i%d'%v
        return 'd%016x'%struct.unpack('<Q',struct.pack('<d',float(v)))[0]
    return 'd%016x'%struct.unpack('<Q',struct.pack('<d',v))[0]
bad=0; kinds={}
for d,l in zip(docs,lines):
    got,rt=l.split('\t')
    want=canon(json.loads(d))
    if got!=want:
        # classify: number-only difference?
        import re
        g2=re.sub(r'[dui]-?[0-9a-f]+','#',got); w2=re.sub(r'[dui]-?[0-9a-f]+','#',want)
        kind='number' if g2==w2 else ('undef' if got=='UNDEF' else 'structure/string')
        kinds[kind]=kinds.get(kind,0)+1; bad+=1
        if kinds[kind]<=3: print(kind, repr(d)[:200], '\n   got ',got[:160],'\n   want',want[:160])
    if rt!='RT_OK':
        kinds['roundtrip']=kinds.get('roundtrip',0)+1
        if kinds['roundtrip']<=3: print('roundtrip', repr(d)[:200])
print("docs",len(docs),"bad",bad,kinds)
# ulp distance statistics for number-only diffs
import re
dist={}
for d,l in zip(docs,lines):
    got=l.split('\t')[0]; want=canon(json.loads(d))
    if got!=want:
        g=re.findall(r'[dui]-?[0-9a-f]+',got); w=re.findall(r'[dui]-?[0-9a-f]+',want)
        if len(g)==len(w):
            for a,b in zip(g,w):
                if a!=b:
                    if a[0]=='d' and b[0]=='d':
                        x=int(a[1:],16); y=int(b[1:],16); k='ulp%d'%abs(x-y)
                    else: k=a[0]+'->'+b[0]+' '+b[:24]
                    dist[k]=dist.get(k,0)+1
print(dist)
