#include <new>
#include "JSON.hpp"
#include "Template.hpp"
#include <cstdio>
#include <cstring>
#include <cstdlib>
#include <string>
#include <vector>
using namespace Qentem;
// usage: fz mode seed count   mode: t=template j=json ; prints each input (hex) before running so the crashing one is the last line of log
static unsigned long long s;
static unsigned rnd(){ s^=s<<13; s^=s>>7; s^=s<<17; return (unsigned)(s>>11); }
static const char* TT[]={"{var:","{raw:","{math:","{svar:","{if ","<loop","</loop>","<if","</if>","<else","<else if","}",">"," case=\"","\""," true=\""," false=\""," set=\""," value=\""," group=\""," sort=\"","a","b","1","0","[","]","+","%","^","(",")","==","&&"," ","x","ascend","'","{","<","/", ",", "{0}"};
static const char* JT[]={"[","]","{","}","\"",":",",","\\","u","d800","dc00","1","0","-",".","e","true","false","null"," ","a","\\u","+","x","E","\t","\n"};
int main(int argc,char**argv){
  char mode=argv[1][0]; s=strtoull(argv[2],0,10)*2654435761ULL+88172645463325252ULL; int count=atoi(argv[3]);
  Value<char> value = JSON::Parse(R"({"a":[1,2,{"x":"<&>","y":5}],"b":{"k1":"v1","k2":2.5},"1":"one","s":"w {0} {1}","n":0,"t":true,"g":[{"y":1,"m":2},{"y":2,"m":3}]})");
  for(int it=0;it<count;it++){
    std::string in; int n=rnd()%14;
    for(int i=0;i<n;i++){ if(mode=='t') in+=TT[rnd()%(sizeof(TT)/sizeof(*TT))]; else in+=JT[rnd()%(sizeof(JT)/sizeof(*JT))]; }
    if(rnd()%3==0 && in.size()) in.resize(rnd()%in.size());
    FILE*f=fopen("last_input.txt","w"); fwrite(in.data(),1,in.size(),f); fclose(f);
    char*buf=(char*)malloc(in.size()?in.size():1); memcpy(buf,in.data(),in.size());
    if(mode=='t'){ StringStream<char> ss; Template::Render(buf,(SizeT)in.size(),value,ss); }
    else { Value<char> v=JSON::Parse(buf,(SizeT)in.size()); }
    free(buf);
  }
  puts("done"); return 0; }
