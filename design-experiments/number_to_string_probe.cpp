#include <new>
#include <cstdlib>
#include "Digit.hpp"
#include "StringStream.hpp"
#include <cstdio>
#include <cstring>
#include <cmath>
#include <string>
#include <map>
using namespace Qentem;
static unsigned long long s=88172645463325252ULL; static unsigned long long rnd(){ s^=s<<13; s^=s>>7; s^=s<<17; return s; }
int main(int argc,char**argv){ long n=atol(argv[1]); std::map<std::string,long> bad,tot; std::map<std::string,std::string> ex; StringStream<char> ss; char ref[512];
  for(long i=0;i<n;i++){ double d; int cls=rnd()%4; 
    if(cls==0){ unsigned long long b=rnd(); if(((b>>52)&0x7ff)==0x7ff) continue; memcpy(&d,&b,8);} 
    else if(cls==1){ d=(double)(long long)(rnd()%2000000000)/ (double)(1+rnd()%1000); if(rnd()%2) d=-d; }
    else if(cls==2){ d=(double)(rnd()%100000000)/1000.0; }
    else { d=std::ldexp(1.0+(double)(rnd()%1000)/1000.0,(int)(rnd()%80)-40); }
    unsigned p=rnd()%21; int f=rnd()%3; const char*fn[]={"default","fixed","semifixed"}; const char*cn[]={"uniformbits","ratio","millis","smallexp"};
    ss.Clear(); Digit::NumberToString(ss,d,{p,(Digit::RealFormatType)f});
    if(f==0) snprintf(ref,sizeof ref,"%.*g",(int)(p?p:1),d); else { snprintf(ref,sizeof ref,"%.*f",(int)p,d); if(f==2){ char*dot=strchr(ref,'.'); if(dot){ size_t l=strlen(ref); while(l&&ref[l-1]=='0') ref[--l]=0; if(l&&ref[l-1]=='.') ref[--l]=0; } } }
    if(f==0&&p==0) continue; // %.0g==%.1g; treat separately
    std::string key=std::string(cn[cls])+"/"+fn[f]; tot[key]++;
    if(!(ss.Length()==strlen(ref)&&memcmp(ss.First(),ref,ss.Length())==0)){ bad[key]++; if(!ex.count(key)){ ss.InsertNull(); char b[700]; snprintf(b,700,"%.17g p=%u got '%s' want '%s'",d,p,ss.First(),ref); ex[key]=b; } } }
  for(auto&t:tot) printf("%-24s bad %ld / %ld   %s\n",t.first.c_str(),bad[t.first],t.second, ex.count(t.first)?ex[t.first].c_str():"");
}
