// drv_digit.cpp -- correspondence driver of the digit component (C09, C10, C11).
// case lines:
//   P <w> <units>                            Digit::StringToNumber on exactly these code units
//   F <w> <fmt> <prec> <bits64> <pre>        Digit::NumberToString(double) into a stream holding <pre>
//   G <w> <fmt> <prec> <bits32> <pre>        the same for float
//   I <w> <bitsw> <signed> <pattern> <pre>   Digit::NumberToString for an 8/16/32/64-bit integer
//   R <w> <bits64>                           format(17, Default) then parse
//   S <w> <bits32>                           float: format(9, Default) then parse
// w: 0 char, 1 char16_t, 2 char32_t.
// output (one token): P -> kind:bits:consumed (0:0:0 for NotANumber); F/G/I -> the stream's units;
//   R/S -> units|kind:bits:consumed.  A second opinion of the C library (strtod / snprintf)
//   follows after ';' -- diagnostic only, never the oracle.
#include "common.hpp"
#include <cmath>
#include "Digit.hpp"
#include "StringStream.hpp"

using namespace Qentem;
using vf::u64;

template <typename C>
static std::string parse_units(const C *p, SizeT n) {
    QNumber64   q;
    SizeT       off = 0;
    QNumberType t   = Digit::StringToNumber(q, p, off, n);
    if (t == QNumberType::NotANumber) return "0:0:0";
    return std::to_string((unsigned)t) + ":" + std::to_string((u64)q.Natural) + ":" + std::to_string((u64)off);
}

template <typename C>
static std::string do_parse(const std::vector<u64> &units) {
    vf::ExactBuf<C> buf(units);
    std::string     r = parse_units<C>((const C *)buf.p, (SizeT)buf.n);
    // second opinion
    bool ascii = true;
    std::string s;
    for (auto u : units) {
        if (u == 0 || u > 126) ascii = false;
        s.push_back((char)u);
    }
    if (ascii) {
        char  *e = nullptr;
        double d = std::strtod(s.c_str(), &e);
        u64    b;
        std::memcpy(&b, &d, 8);
        r += ";sd=" + std::to_string(b) + ":" + std::to_string((u64)(e - s.c_str()));
    }
    return r;
}

static std::string snp(double d, unsigned prec, unsigned fmt) {
    std::vector<char> ref(2200);
    if (fmt == 0) {
        std::snprintf(ref.data(), ref.size(), "%.*g", (int)prec, d);
    } else {
        std::snprintf(ref.data(), ref.size(), "%.*f", (int)prec, d);
        if (fmt == 2 && std::strchr(ref.data(), '.')) {
            size_t l = std::strlen(ref.data());
            while (l && ref[l - 1] == '0') ref[--l] = 0;
            if (l && ref[l - 1] == '.') ref[--l] = 0;
        }
    }
    std::string s = ref.data();
    if (s == "-nan") s = "nan";
    return s;
}

template <typename C, typename Fl>
static std::string do_format(unsigned fmt, unsigned prec, Fl value, const std::vector<u64> &pre) {
    StringStream<C> ss;
    if (!pre.empty()) {
        vf::ExactBuf<C> pb(pre);
        ss.Write((const C *)pb.p, (SizeT)pb.n);
    }
    Digit::NumberToString(ss, value, Digit::RealFormatInfo{(SizeT32)prec, (Digit::RealFormatType)fmt});
    std::string r = vf::fmt_units(ss.First(), ss.Length());
    if (prec <= 2000) {
        std::string s = snp((double)value, prec, fmt);
        std::string u;
        for (size_t i = 0; i < s.size(); i++) {
            if (i) u += ',';
            u += std::to_string((unsigned)(unsigned char)s[i]);
        }
        r += ";sp=" + (u.empty() ? std::string("-") : u);
    }
    return r;
}

template <typename C, typename I>
static std::string fmt_int(I v, const std::vector<u64> &pre) {
    StringStream<C> ss;
    if (!pre.empty()) {
        vf::ExactBuf<C> pb(pre);
        ss.Write((const C *)pb.p, (SizeT)pb.n);
    }
    Digit::NumberToString(ss, v);
    return vf::fmt_units(ss.First(), ss.Length());
}

template <typename C>
static std::string do_int(unsigned bitsw, bool sg, u64 pat, const std::vector<u64> &pre) {
    switch (bitsw) {
        case 8: return sg ? fmt_int<C>((signed char)(unsigned char)pat, pre) : fmt_int<C>((unsigned char)pat, pre);
        case 16: return sg ? fmt_int<C>((short)(unsigned short)pat, pre) : fmt_int<C>((unsigned short)pat, pre);
        case 32: return sg ? fmt_int<C>((int)(unsigned)pat, pre) : fmt_int<C>((unsigned)pat, pre);
        case 64: return sg ? fmt_int<C>((long long)pat, pre) : fmt_int<C>((unsigned long long)pat, pre);
        default: return "BADCASE";
    }
}

template <typename C, typename Fl>
static std::string do_roundtrip(Fl value, unsigned digits) {
    StringStream<C> ss;
    Digit::NumberToString(ss, value, Digit::RealFormatInfo{(SizeT32)digits, Digit::RealFormatType::Default});
    std::string r = vf::fmt_units(ss.First(), ss.Length());
    // parse exactly the produced units (exact-size copy)
    std::vector<u64> units;
    for (SizeT i = 0; i < ss.Length(); i++) units.push_back((u64)(uint32_t)(typename std::make_unsigned<C>::type)ss.First()[i]);
    vf::ExactBuf<C> buf(units);
    r += "|" + parse_units<C>((const C *)buf.p, (SizeT)buf.n);
    return r;
}

template <typename C>
static std::string run_case(const std::vector<std::string> &tk) {
    const std::string &op = tk[0];
    if (op == "P" && tk.size() >= 3) return do_parse<C>(vf::parse_list(tk[2]));
    if ((op == "F" || op == "G") && tk.size() >= 6) {
        unsigned fmt  = (unsigned)std::strtoul(tk[2].c_str(), nullptr, 10);
        unsigned prec = (unsigned)std::strtoul(tk[3].c_str(), nullptr, 10);
        u64      bits = std::strtoull(tk[4].c_str(), nullptr, 10);
        auto     pre  = vf::parse_list(tk[5]);
        if (op == "F") {
            double d;
            std::memcpy(&d, &bits, 8);
            return do_format<C, double>(fmt, prec, d, pre);
        }
        float    f;
        uint32_t b32 = (uint32_t)bits;
        std::memcpy(&f, &b32, 4);
        return do_format<C, float>(fmt, prec, f, pre);
    }
    if (op == "I" && tk.size() >= 6) {
        return do_int<C>((unsigned)std::strtoul(tk[2].c_str(), nullptr, 10), tk[3] == "1", std::strtoull(tk[4].c_str(), nullptr, 10),
                         vf::parse_list(tk[5]));
    }
    if (op == "R" && tk.size() >= 3) {
        u64    bits = std::strtoull(tk[2].c_str(), nullptr, 10);
        double d;
        std::memcpy(&d, &bits, 8);
        return do_roundtrip<C, double>(d, 17);
    }
    if (op == "S" && tk.size() >= 3) {
        uint32_t b32 = (uint32_t)std::strtoull(tk[2].c_str(), nullptr, 10);
        float    f;
        std::memcpy(&f, &b32, 4);
        return do_roundtrip<C, float>(f, 9);
    }
    return "BADCASE";
}

int main() {
    vf::for_each_line([](const std::string &line) -> std::string {
        auto tk = vf::split_ws(line);
        if (tk.size() < 3) return "BADCASE";
        int w = std::atoi(tk[1].c_str());
        switch (w) {
            case 0: return run_case<char>(tk);
            case 1: return run_case<char16_t>(tk);
            default: return run_case<char32_t>(tk);
        }
    });
    return 0;
}
