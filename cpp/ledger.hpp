// ledger.hpp -- allocation ledger for C16, through the library's own allocator seam:
// Memory::Allocate / Memory::Deallocate call MemoryRecord::AddAllocation / RemoveAllocation when
// QENTEM_Q_TEST_H is defined (Include/Memory.hpp).  No change to /repo is needed.
// Included by common.hpp when the driver is built with -DVERIF_LEDGER.
#ifndef VERIF_LEDGER_HPP
#define VERIF_LEDGER_HPP
#define QENTEM_Q_TEST_H 1
#include <unordered_set>
#include <cstddef>

namespace vfl {
struct State {
    std::unordered_set<const void *> live;
    size_t allocs{0}, frees{0}, unknown_free{0}, dup_alloc{0};
};
inline State &st() {
    static State s;
    return s;
}
struct Mark {
    size_t live, unknown_free, dup_alloc, allocs;
};
inline Mark mark() { return Mark{st().live.size(), st().unknown_free, st().dup_alloc, st().allocs}; }
} // namespace vfl

namespace Qentem {
struct MemoryRecord {
    static void AddAllocation(void *p) noexcept {
        ++vfl::st().allocs;
        if (!vfl::st().live.insert(p).second) ++vfl::st().dup_alloc; // handed out twice without a release
    }
    static void RemoveAllocation(void *p) noexcept {
        ++vfl::st().frees;
        if (vfl::st().live.erase(p) == 0) ++vfl::st().unknown_free; // released twice, or never allocated here
    }
};
} // namespace Qentem
#endif
