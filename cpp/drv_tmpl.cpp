// drv_tmpl.cpp -- template rendering driver (C01, C02, C17).
// case line:  <width 0..3> <mode> <template units> <value as JSON text units (ASCII)>
//   mode 0  fresh render into an empty stream
//   mode 3  C01: the Finder alone (matches and offsets)
//   mode 1  C17: fresh render, then through one tag cache reused 3 times (the
//           second time with a different value, the third into a stream that
//           already holds text); value and template compared before/after;
//           then through a copy-constructed, a copy-assigned and a moved cache;
//           prints the fresh output, followed by ",!<n>" if anything differs
//   every mode but 3: the overloads Render(content, value, stream), Render<Stream>(content, length, value),
//           Render<Stream>(content, value) and JSON::Parse(content) on NUL-terminated copies must agree with the
//           primary calls; ",!o<bits>" is appended otherwise (1, 2, 4: the three Render overloads; 8: Parse)
// output: the rendered units ("-" when empty)
#include "common.hpp"
#include "JSON.hpp"
#include "Template.hpp"

using namespace Qentem;

// mode 3: the Finder alone: every (match, offset) pair Next() reports, flattened
template <typename C>
static std::string scan_case(const std::vector<vf::u64> &tmpl) {
    vf::ExactBuf<C>                        tb(tmpl);
    Finder<Tags::List<C>, C, SizeT>        finder{(const C *)tb.p, (SizeT)tb.n};
    std::vector<vf::u64>                   out;
    size_t                                 guard = 0;
    finder.Next();
    while (finder.GetMatch() != 0U && guard++ <= tmpl.size() + 2) {
        out.push_back(finder.GetMatch());
        out.push_back(finder.GetOffset());
        finder.Next();
    }
    if (out.empty()) return "-";
    std::string r;
    for (size_t i = 0; i < out.size(); i++) r += (i ? "," : "") + std::to_string(out[i]);
    return r;
}

template <typename C>
static std::string run_case(int mode, const std::vector<vf::u64> &tmpl, const std::vector<vf::u64> &json) {
    if (mode == 3) return scan_case<C>(tmpl);
    vf::ExactBuf<C> jb(json);
    Value<C>        v = JSON::Parse((const C *)jb.p, (SizeT)jb.n);
    vf::ExactBuf<C> tb(tmpl);
    StringStream<C> ss;
    StringStream<C> before; // the value as text BEFORE the first render touches it
    if (mode == 1) v.Stringify(before);
    Template::Render((const C *)tb.p, (SizeT)tb.n, v, ss);
    std::string out = vf::fmt_units(ss.First(), ss.Length());
    {
        // the convenience overloads (NUL-terminated content; stream returned by value) must give the same text;
        // usable when the template holds no NUL unit.  Likewise JSON::Parse(content) without a length.
        bool has_nul = false;
        for (size_t i = 0; i < tmpl.size(); i++) has_nul = has_nul || ((C)tmpl[i] == C(0));
        if (!has_nul) {
            std::vector<C> z(tmpl.size() + 1);
            for (size_t i = 0; i < tmpl.size(); i++) z[i] = (C)tmpl[i];
            z[tmpl.size()] = C(0);
            int             odd = 0;
            StringStream<C> o1;
            Template::Render(z.data(), v, o1);
            if (!(o1 == ss)) odd |= 1;
            StringStream<C> o2 = Template::Render<StringStream<C>>(z.data(), (SizeT)tmpl.size(), v);
            if (!(o2 == ss)) odd |= 2;
            StringStream<C> o3 = Template::Render<StringStream<C>>(z.data(), v);
            if (!(o3 == ss)) odd |= 4;
            std::vector<C> zj(json.size() + 1);
            for (size_t i = 0; i < json.size(); i++) zj[i] = (C)json[i];
            zj[json.size()] = C(0);
            Value<C>        v0 = JSON::Parse(zj.data());
            StringStream<C> a, b;
            v.Stringify(a);
            v0.Stringify(b);
            if (!(a == b)) odd |= 8;
            if (odd) out += ",!o" + std::to_string(odd);
        }
    }
    if (mode == 1) {
        int                 bad = 0;
        Array<Tags::TagBit> cache;
        StringStream<C>     s1;
        Template::Render((const C *)tb.p, (SizeT)tb.n, v, s1, cache);
        if (!(s1 == ss)) bad |= 1;
        // a different value through the same cache, compared with a fresh render of it
        Value<C> v2;
        v2 += 7U;
        v2 += v;
        StringStream<C> s2, s2f;
        Template::Render((const C *)tb.p, (SizeT)tb.n, v2, s2, cache);
        Template::Render((const C *)tb.p, (SizeT)tb.n, v2, s2f);
        if (!(s2 == s2f)) bad |= 2;
        // the first value again, into a stream that already holds text
        StringStream<C> s3;
        const C         pre[3] = {C('<'), C('{'), C(0)};
        s3.Write(pre, 2);
        Template::Render((const C *)tb.p, (SizeT)tb.n, v, s3, cache);
        if (s3.Length() != ss.Length() + 2 || s3.First()[0] != pre[0] || s3.First()[1] != pre[1] ||
            !StringUtils::IsEqual(s3.First() + 2, ss.First(), ss.Length()))
            bad |= 4;
        // the cache copied (construction and assignment over a cache in use) and moved: a previously parsed cache
        // is a previously parsed cache wherever it lives; the original must stay usable after having been copied
        {
            Array<Tags::TagBit> copy1{cache};
            StringStream<C>     c1;
            Template::Render((const C *)tb.p, (SizeT)tb.n, v, c1, copy1);
            if (!(c1 == ss)) bad |= 32;
            Array<Tags::TagBit> copy2;
            const C             other[8] = {C('{'), C('v'), C('a'), C('r'), C(':'), C('a'), C('}'), C(0)};
            StringStream<C>     c0;
            Template::Render(other, SizeT(7), v, c0, copy2);
            copy2 = cache;
            StringStream<C> c2;
            Template::Render((const C *)tb.p, (SizeT)tb.n, v, c2, copy2);
            if (!(c2 == ss)) bad |= 32;
            StringStream<C> c3;
            Template::Render((const C *)tb.p, (SizeT)tb.n, v, c3, cache);
            if (!(c3 == ss)) bad |= 32;
            Array<Tags::TagBit> moved{Memory::Move(copy1)};
            StringStream<C>     c4;
            Template::Render((const C *)tb.p, (SizeT)tb.n, v, c4, moved);
            if (!(c4 == ss)) bad |= 64;
        }
        StringStream<C> after;
        v.Stringify(after);
        if (!(before == after)) bad |= 8;
        for (size_t i = 0; i < tmpl.size(); i++)
            if ((vf::u64)(uint32_t)(typename std::make_unsigned<C>::type)tb.p[i] != (tmpl[i] & (sizeof(C) == 1 ? 0xFFu : sizeof(C) == 2 ? 0xFFFFu : 0xFFFFFFFFu))) bad |= 16;
        if (bad) out += ",!" + std::to_string(bad);
    }
    return out;
}

int main() {
    vf::for_each_line([](const std::string &line) -> std::string {
        auto tk = vf::split_ws(line);
        if (tk.size() < 4) return "BADCASE";
        int  w    = std::atoi(tk[0].c_str());
        int  mode = std::atoi(tk[1].c_str());
        auto t    = vf::parse_list(tk[2]);
        auto j    = vf::parse_list(tk[3]);
        switch (w) {
            case 0: return run_case<char>(mode, t, j);
            case 1: return run_case<char16_t>(mode, t, j);
            case 2: return run_case<char32_t>(mode, t, j);
            default: return run_case<wchar_t>(mode, t, j);
        }
    });
    return 0;
}
