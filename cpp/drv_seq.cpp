// drv_seq.cpp -- C14 correspondence driver: operation histories on a pool of three
// Array<int> / Array<String<char>> / String<C> / StringStream<C> / StringView<C>.
// case line:  <kind> <width> <op;op;...>      kind: ai as s t v     width: 0 char, 1 char16_t, 2 char32_t
// op:         NAME:arg:arg...   (see coq/SeqModel.v for the operation list; lists are a,b,c or -)
// output:     steps joined by ';', a step is <out>|<obj0>|<obj1>|<obj2>
//             out: n | b0 | b1 | s<units>[!]     ('!' = terminator missing)
#include "common.hpp"
#include "seq_fork.hpp"
#include "Array.hpp"
#include "StringStream.hpp"
#include <memory>
#include <algorithm>

using namespace Qentem;
using vf::u64;

static std::vector<std::string> split(const std::string &s, char sep) {
    std::vector<std::string> r;
    size_t                   i = 0;
    while (i <= s.size()) {
        size_t j = s.find(sep, i);
        if (j == std::string::npos) j = s.size();
        r.push_back(s.substr(i, j - i));
        i = j + 1;
    }
    return r;
}
static unsigned num(const std::string &s) { return (unsigned)std::strtoul(s.c_str(), nullptr, 10); }

template <typename T>
struct Pool {
    alignas(T) unsigned char raw[3][sizeof(T)];
    Pool() { for (int i = 0; i < 3; i++) new (raw[i]) T(); }
    ~Pool() { for (int i = 0; i < 3; i++) at(i).~T(); }
    T &at(unsigned i) { return *reinterpret_cast<T *>(raw[i % 3]); }
    void *slot(unsigned i) { return raw[i % 3]; }
};

// stream-like sinks for the templated stream-insertion operators
//   operator<<(Stream_T &, const String &), operator<<(Stream_T &, const StringStream &), operator<<(Stream_T &, const StringView &)
// Sink: a foreign stream type; DerivedStream: a StringStream subtype, so that the template (exact match on
// the first argument) is selected instead of StringStream's own non-template overloads.
template <typename C>
struct Sink {
    std::vector<C> v;
    Sink &operator<<(const C *p) { if (p != nullptr) { while (*p != C{0}) { v.push_back(*p); ++p; } } return *this; }
    Sink &operator<<(C c) { v.push_back(c); return *this; }
};
template <typename C>
struct DerivedStream : StringStream<C> {};

// "s<units>" of what `sink << src` delivers after a one-unit prefix (prefix disturbed -> PREFIXBAD)
template <typename C, typename Src>
static std::string stream_out(const Src &src, bool derived) {
    std::vector<C> got;
    if (derived) {
        DerivedStream<C> d;
        d += C{120};
        d << src;
        got.assign(d.First(), d.First() + d.Length());
    } else {
        Sink<C> k;
        k << C{120};
        k << src;
        got = k.v;
    }
    if (got.empty() || got[0] != C{120}) return "PREFIXBAD";
    return "s" + vf::fmt_units(got.data() + 1, got.size() - 1);
}

// ---------------------------------------------------------------- Array
template <typename E> struct Elem;
template <> struct Elem<int> {
    static int         make(const std::string &s) { return (int)num(s); }
    static std::string fmt(const int &e) { return std::to_string((unsigned)e); }
    static constexpr char sep = ',';
};
template <> struct Elem<String<char>> {
    static String<char> make(const std::string &s) {
        std::vector<u64> v;
        if (s != "e" && s != "-") for (auto &t : split(s, '.')) v.push_back(num(t));
        vf::ExactBuf<char> b(v);
        return String<char>((const char *)b.p, (SizeT)b.n);
    }
    static std::string fmt(const String<char> &e) {
        if (e.Length() == 0) return "e";
        if (e.First()[e.Length()] != 0) return "UNTERMINATED";
        std::string r;
        for (SizeT i = 0; i < e.Length(); i++) { if (i) r += '.'; r += std::to_string((unsigned)(unsigned char)e.First()[i]); }
        return r;
    }
    static constexpr char sep = '/';
};

template <typename E>
static std::string dump_arr(const Array<E> &a) {
    if (a.Size() > a.Capacity()) return "CAPBAD";
    if ((a.Last() == nullptr) != (a.Size() == 0)) return "LASTBAD";
    if (a.Size() != 0 && a.Last() != a.First() + (a.Size() - 1)) return "LASTBAD";
    if (a.End() != a.First() + a.Size()) return "ENDBAD";
    if (a.Size() == 0) return "-";
    std::string r;
    for (SizeT i = 0; i < a.Size(); i++) { if (i) r += Elem<E>::sep; r += Elem<E>::fmt(a.First()[i]); }
    return r;
}

template <typename E>
static std::string run_array(const std::vector<std::string> &ops) {
    using Arr = Array<E>;
    Pool<Arr>   P;
    std::string res;
    unsigned    step = 0;
    for (auto &tok : ops) {
        auto            f    = split(tok, ':');
        const std::string &nm = f[0];
        unsigned        i = f.size() > 1 ? num(f[1]) : 0, j = f.size() > 2 ? num(f[2]) : 0;
        Arr            &a = P.at(i);
        std::string     out = "n";
        if (nm == "ANewSized") { a.~Arr(); new (P.slot(i)) Arr((SizeT)j, num(f[3]) != 0); }
        else if (nm == "ACopyCtor") { a.~Arr(); new (P.slot(i)) Arr(P.at(j)); }
        else if (nm == "AMoveCtor") { a.~Arr(); new (P.slot(i)) Arr(Memory::Move(P.at(j))); }
        else if (nm == "AMoveAssign") { Arr *q = &P.at(j); a = Memory::Move(*q); }
        else if (nm == "ACopyAssign") { const Arr *q = &P.at(j); a = *q; }
        else if (nm == "AAppendMove") { if (step & 1) a += Memory::Move(P.at(j)); else a.Insert(Memory::Move(P.at(j))); }
        else if (nm == "AAppendCopy") { if (step & 1) a += P.at(j); else a.Insert(P.at(j)); }
        else if (nm == "AAppendItem") {
            E x = Elem<E>::make(f[2]);
            switch (step & 3) {
                case 0: a += x; break;
                case 1: a += Memory::Move(x); break;
                case 2: a.Insert(x); break;
                default: a.Insert(Memory::Move(x)); break;
            }
        }
        else if (nm == "AAppendOwn") { if (j < a.Size()) { if (step & 1) a += a.First()[j]; else a.Insert(a.First()[j]); } }
        else if (nm == "AClear") a.Clear();
        else if (nm == "AReset") a.Reset();
        else if (nm == "ADetach") { SizeT n = a.Size(); E *p = a.Detach(); Memory::Dispose(p, p + n); Memory::Deallocate(p); }
        else if (nm == "AReserve") a.Reserve((SizeT)j, num(f[3]) != 0);
        else if (nm == "AResize") a.Resize((SizeT)j);
        else if (nm == "AResizeInit") a.ResizeAndInitialize((SizeT)j);
        else if (nm == "AExpect") a.Expect((SizeT)j);
        else if (nm == "ACompress") a.Compress();
        else if (nm == "ADrop") a.Drop((SizeT)j);
        else if (nm == "ASwap") { unsigned k2 = num(f[3]); if (j < a.Size() && k2 < a.Size()) a.Swap(a.Storage()[j], a.Storage()[k2]); }
        else if (nm == "AIter") {
            std::string r1, r2;
            const Arr  &ca = a;
            for (const E &e : ca) { if (!r1.empty()) r1 += Elem<E>::sep; r1 += Elem<E>::fmt(e); }
            for (E &e : a) { if (!r2.empty()) r2 += Elem<E>::sep; r2 += Elem<E>::fmt(e); }
            if (r1 != r2) return "ITERBAD";
            out = "s" + (r1.empty() ? std::string("-") : r1);
        }
        else return "BADOP";
        if (step) res += ';';
        res += out;
        for (unsigned k = 0; k < 3; k++) { res += '|'; res += dump_arr(P.at(k)); }
        ++step;
    }
    return res;
}

// ---------------------------------------------------------------- String
template <typename C>
static std::string dump_str(const String<C> &s) {
    std::string r = vf::fmt_units(s.First(), s.Length());
    if (s.First() != nullptr && s.First()[s.Length()] != C{0}) r += '!';
    if ((s.Last() == nullptr) != (s.Length() == 0)) r += "LASTBAD";
    if (s.End() != s.First() + s.Length()) r += "ENDBAD";
    return r;
}
template <typename C>
static std::string out_str(const String<C> &s) { return "s" + dump_str(s); }

template <typename C>
static std::string run_string(const std::vector<std::string> &ops) {
    using Str = String<C>;
    Pool<Str>   P;
    std::string res;
    unsigned    step = 0;
    for (auto &tok : ops) {
        auto               f  = split(tok, ':');
        const std::string &nm = f[0];
        unsigned           i  = f.size() > 1 ? num(f[1]) : 0;
        Str               &s  = P.at(i);
        std::string        out = "n";
        auto L = [&](size_t k) { return vf::parse_list(f[k]); };
        auto Z = [&](size_t k) { auto v = vf::parse_list(f[k]); v.push_back(0); return v; };
        if (nm == "SDefault") { s.~Str(); new (P.slot(i)) Str(); }
        else if (nm == "SNewLen") { auto v = L(2); s.~Str(); new (P.slot(i)) Str((SizeT)v.size()); for (size_t k = 0; k < v.size(); k++) P.at(i).Storage()[k] = (C)v[k]; }
        else if (nm == "SNewCopy") { vf::ExactBuf<C> b(L(2)); s.~Str(); new (P.slot(i)) Str((const C *)b.p, (SizeT)b.n); }
        else if (nm == "SNewCstr") { vf::ExactBuf<C> b(Z(2)); s.~Str(); new (P.slot(i)) Str((const C *)b.p); }
        else if (nm == "SNewAdopt") {
            auto v = L(2);
            C   *p = Memory::Allocate<C>((SizeT)(v.size() + 1));
            for (size_t k = 0; k < v.size(); k++) p[k] = (C)v[k];
            p[v.size()] = C{0};
            s.~Str(); new (P.slot(i)) Str(p, (SizeT)v.size());
        }
        else if (nm == "SCopyCtor") { s.~Str(); new (P.slot(i)) Str(P.at(num(f[2]))); }
        else if (nm == "SMoveCtor") { s.~Str(); new (P.slot(i)) Str(Memory::Move(P.at(num(f[2])))); }
        else if (nm == "SMoveAssign") { Str *q = &P.at(num(f[2])); s = Memory::Move(*q); }
        else if (nm == "SCopyAssign") { const Str *q = &P.at(num(f[2])); s = *q; }
        else if (nm == "SAssignCstr") { vf::ExactBuf<C> b(Z(2)); s = (const C *)b.p; }
        else if (nm == "SAssignOwn") { unsigned off = num(f[2]); if (s.Storage() != nullptr && off <= s.Length()) s = (s.First() + off); }
        else if (nm == "SAppendMove") { s += Memory::Move(P.at(num(f[2]))); }
        else if (nm == "SAppendObj") { const Str &q = P.at(num(f[2])); if (step & 1) s += q; else s << q; }
        else if (nm == "SAppendCstr") { vf::ExactBuf<C> b(Z(2)); if (step & 1) s += (const C *)b.p; else s << (const C *)b.p; }
        else if (nm == "SAppendChar") { s += (C)num(f[2]); }
        else if (nm == "SWrite") { vf::ExactBuf<C> b(L(2)); s.Write((const C *)b.p, (SizeT)b.n); }
        else if (nm == "SPlus") {
            unsigned j = num(f[2]), k = num(f[3]);
            if (num(f[4]) != 0) s = (P.at(j) + Memory::Move(P.at(k)));
            else if (step & 1) s = (P.at(j) + P.at(k));
            else s = Str::Merge(P.at(j), P.at(k));
        }
        else if (nm == "SPlusCstr") { vf::ExactBuf<C> b(Z(3)); s = (P.at(num(f[2])) + (const C *)b.p); }
        else if (nm == "STrim") { s = Str::Trim(P.at(num(f[2]))); }
        else if (nm == "SEqObj") { const Str &q = P.at(num(f[2])); bool e = (s == q); if ((s != q) == e) return "NEQBAD"; out = e ? "b1" : "b0"; }
        else if (nm == "SEqCstr") { vf::ExactBuf<C> b(Z(2)); bool e = (s == (const C *)b.p); if ((s != (const C *)b.p) == e) return "NEQBAD"; out = e ? "b1" : "b0"; }
        else if (nm == "SEqNull") { const C *np = nullptr; bool e = (s == np); out = e ? "b1" : "b0"; }
        else if (nm == "SIsEqual") { vf::ExactBuf<C> b(L(2)); out = s.IsEqual((const C *)b.p, (SizeT)b.n) ? "b1" : "b0"; }
        else if (nm == "SReset") s.Reset();
        else if (nm == "SDetach") { C *p = s.Detach(); Memory::Deallocate(p); }
        else if (nm == "SStepBack") s.StepBack((SizeT)num(f[2]));
        else if (nm == "SReverse") s.Reverse((SizeT)num(f[2]));
        else if (nm == "SInsertAt") s.InsertAt((C)num(f[2]), (SizeT)num(f[3]));
        else if (nm == "SIter") {
            std::vector<C> a1, a2;
            const Str     &cs = s;
            for (const C &c : cs) a1.push_back(c);
            for (C &c : s) a2.push_back(c);
            if (a1 != a2) return "ITERBAD";
            out = "s" + vf::fmt_units(a1.data(), a1.size());
        }
        else if (nm == "SLast") {
            C         *p  = s.Last();
            const Str &cs = s;
            if (cs.Last() != p) return "LASTBAD";
            out = "s" + (p == nullptr ? std::string("-") : vf::fmt_units(p, 1));
        }
        else if (nm == "SIsEmpty") { bool e = s.IsEmpty(); if (s.IsNotEmpty() == e) return "NEQBAD"; out = e ? "b1" : "b0"; }
        else if (nm == "SStreamOut") { out = stream_out<C>(s, (step & 1) != 0); }
        else return "BADOP";
        if (step) res += ';';
        res += out;
        for (unsigned k = 0; k < 3; k++) { res += '|'; res += dump_str(P.at(k)); }
        ++step;
    }
    return res;
}

// ---------------------------------------------------------------- StringStream
template <typename C>
static std::string dump_ss(const StringStream<C> &s) {
    if (s.Length() > s.Capacity()) return "CAPBAD";
    if ((s.Last() == nullptr) != (s.Length() == 0)) return "LASTBAD";
    if (s.End() != s.First() + s.Length()) return "ENDBAD";
    return vf::fmt_units(s.First(), s.Length());
}

template <typename C>
static void append_view_char(StringStream<C> &, const C *, SizeT, bool &done) { done = false; }
template <>
void append_view_char<char>(StringStream<char> &s, const char *p, SizeT n, bool &done) { s += StringView<char>(p, n); done = true; }

template <typename C>
static std::string run_stream(const std::vector<std::string> &ops) {
    using SS = StringStream<C>;
    Pool<SS>    P;
    std::string res;
    unsigned    step = 0;
    for (auto &tok : ops) {
        auto               f   = split(tok, ':');
        const std::string &nm  = f[0];
        unsigned           i   = f.size() > 1 ? num(f[1]) : 0;
        SS                &s   = P.at(i);
        std::string        out = "n";
        auto L = [&](size_t k) { return vf::parse_list(f[k]); };
        auto Z = [&](size_t k) { auto v = vf::parse_list(f[k]); v.push_back(0); return v; };
        if (nm == "TNew") { s.~SS(); new (P.slot(i)) SS((SizeT)num(f[2])); }
        else if (nm == "TCopyCtor") { s.~SS(); new (P.slot(i)) SS(P.at(num(f[2]))); }
        else if (nm == "TMoveCtor") { s.~SS(); new (P.slot(i)) SS(Memory::Move(P.at(num(f[2])))); }
        else if (nm == "TMoveAssign") { SS *q = &P.at(num(f[2])); s = Memory::Move(*q); }
        else if (nm == "TCopyAssign") { const SS *q = &P.at(num(f[2])); s = *q; }
        else if (nm == "TAssignExt") {
            vf::ExactBuf<C> b(L(2));
            if (step & 1) { String<C> t((const C *)b.p, (SizeT)b.n); s = t; }
            else { StringView<C> v((const C *)b.p, (SizeT)b.n); s = v; }
        }
        else if (nm == "TAssignCstr") { vf::ExactBuf<C> b(Z(2)); s = (const C *)b.p; }
        else if (nm == "TAppendChar") { if (step & 1) s += (C)num(f[2]); else s << (C)num(f[2]); }
        else if (nm == "TAppendObj") { const SS &q = P.at(num(f[2])); if (step & 1) s += q; else s << q; }
        else if (nm == "TAppendExt") {
            vf::ExactBuf<C> b(L(2));
            const C *p = (const C *)b.p; SizeT n = (SizeT)b.n;
            switch (step % 5) {
                case 0: { String<C> t(p, n); s += t; break; }
                case 1: { String<C> t(p, n); s << t; break; }
                case 2: { StringView<C> v(p, n); s << v; break; }
                case 3: { bool done; append_view_char<C>(s, p, n, done); if (!done) s.Write(p, n); break; }
                default: s.Write(p, n); break;
            }
        }
        else if (nm == "TAppendCstr") { vf::ExactBuf<C> b(Z(2)); if (step & 1) s += (const C *)b.p; else s << (const C *)b.p; }
        else if (nm == "TEqObj") { const SS &q = P.at(num(f[2])); bool e = (s == q); if ((s != q) == e) return "NEQBAD"; out = e ? "b1" : "b0"; }
        else if (nm == "TEqExt") {
            vf::ExactBuf<C> b(L(2));
            const C *p = (const C *)b.p; SizeT n = (SizeT)b.n;
            bool e;
            switch (step % 3) {
                case 0: { String<C> t(p, n); e = (s == t); if ((s != t) == e) return "NEQBAD"; break; }
                case 1: { StringView<C> v(p, n); e = (s == v); if ((s != v) == e) return "NEQBAD"; break; }
                default: e = s.IsEqual(p, n); break;
            }
            out = e ? "b1" : "b0";
        }
        else if (nm == "TEqCstr") { vf::ExactBuf<C> b(Z(2)); bool e = (s == (const C *)b.p); if ((s != (const C *)b.p) == e) return "NEQBAD"; out = e ? "b1" : "b0"; }
        else if (nm == "TClear") s.Clear();
        else if (nm == "TReset") s.Reset();
        else if (nm == "TDetach") { C *p = s.Detach(); Memory::Deallocate(p); }
        else if (nm == "TStepBack") s.StepBack((SizeT)num(f[2]));
        else if (nm == "TReverse") s.Reverse((SizeT)num(f[2]));
        else if (nm == "TInsertAt") s.InsertAt((C)num(f[2]), (SizeT)num(f[3]));
        else if (nm == "TSetLength") { SizeT old = s.Length(), n = (SizeT)num(f[2]); s.SetLength(n); for (SizeT k = old; k < n; k++) s.Storage()[k] = (C)num(f[3]); }
        else if (nm == "TBuffer") { auto v = L(2); C *p = s.Buffer((SizeT)v.size()); for (size_t k = 0; k < v.size(); k++) p[k] = (C)v[k]; }
        else if (nm == "TExpect") s.Expect((SizeT)num(f[2]));
        else if (nm == "TReserve") s.Reserve((SizeT)num(f[2]));
        else if (nm == "TGetString") { String<C> g = s.GetString(); out = out_str(g); }
        else if (nm == "TGetStringView") {
            StringView<C> v = s.GetStringView();
            out = "s" + vf::fmt_units(v.First(), v.Length());
            if (v.First() == nullptr || v.First()[v.Length()] != C{0}) out += '!';
        }
        else if (nm == "TInsertNull") { s.InsertNull(); if (s.Storage()[s.Length()] != C{0}) return "NULLBAD"; }
        else if (nm == "TIter") {
            std::vector<C> a1, a2;
            const SS      &cs = s;
            for (const C &c : cs) a1.push_back(c);
            for (C &c : s) a2.push_back(c);
            if (a1 != a2) return "ITERBAD";
            out = "s" + vf::fmt_units(a1.data(), a1.size());
        }
        else if (nm == "TStreamOut") { out = stream_out<C>(s, (step & 1) != 0); }
        else return "BADOP";
        if (step) res += ';';
        res += out;
        for (unsigned k = 0; k < 3; k++) { res += '|'; res += dump_ss(P.at(k)); }
        ++step;
    }
    return res;
}

// ---------------------------------------------------------------- StringView
template <typename C>
static std::string run_view(const std::vector<std::string> &ops) {
    using SV = StringView<C>;
    std::vector<std::unique_ptr<vf::ExactBuf<C>>> keep; // viewed buffers outlive the views
    Pool<SV>    P;
    std::string res;
    unsigned    step = 0;
    for (auto &tok : ops) {
        auto               f   = split(tok, ':');
        const std::string &nm  = f[0];
        unsigned           i   = f.size() > 1 ? num(f[1]) : 0;
        SV                &s   = P.at(i);
        std::string        out = "n";
        auto L = [&](size_t k) { return vf::parse_list(f[k]); };
        auto Z = [&](size_t k) { auto v = vf::parse_list(f[k]); v.push_back(0); return v; };
        if (nm == "VNew") { keep.emplace_back(new vf::ExactBuf<C>(L(2))); s.~SV(); new (P.slot(i)) SV((const C *)keep.back()->p, (SizeT)keep.back()->n); }
        else if (nm == "VNewCstr") {
            keep.emplace_back(new vf::ExactBuf<C>(Z(2)));
            if (step & 1) { s.~SV(); new (P.slot(i)) SV((const C *)keep.back()->p); } else s = (const C *)keep.back()->p;
        }
        else if (nm == "VCopy") { unsigned j = num(f[2]); if ((step & 1) && (i % 3) != (j % 3)) { s.~SV(); new (P.slot(i)) SV(P.at(j)); } else { const SV *q = &P.at(j); s = *q; } }
        else if (nm == "VMove") { unsigned j = num(f[2]); if ((step & 1) && (i % 3) != (j % 3)) { s.~SV(); new (P.slot(i)) SV(Memory::Move(P.at(j))); } else { SV *q = &P.at(j); s = Memory::Move(*q); } }
        else if (nm == "VReset") s.Reset();
        else if (nm == "VEqObj") { const SV &q = P.at(num(f[2])); bool e = (s == q); if ((s != q) == e) return "NEQBAD"; out = e ? "b1" : "b0"; }
        else if (nm == "VEqCstr") { vf::ExactBuf<C> b(Z(2)); bool e = (s == (const C *)b.p); if ((s != (const C *)b.p) == e) return "NEQBAD"; out = e ? "b1" : "b0"; }
        else if (nm == "VIsEqual") { vf::ExactBuf<C> b(L(2)); out = s.IsEqual((const C *)b.p, (SizeT)b.n) ? "b1" : "b0"; }
        else if (nm == "VIter") {
            std::vector<C> a1;
            const SV      &cs = s;
            for (const C &c : cs) a1.push_back(c);
            for (const C &c : s) a1.push_back(c); // StringView has the const pair only: twice the same walk
            if (a1.size() % 2 != 0 || !std::equal(a1.begin(), a1.begin() + a1.size() / 2, a1.begin() + a1.size() / 2)) return "ITERBAD";
            out = "s" + vf::fmt_units(a1.data(), a1.size() / 2);
        }
        else if (nm == "VStreamOut") { out = stream_out<C>(s, (step & 1) != 0); }
        else if (nm == "VIsEmpty") { bool e = s.IsEmpty(); if (s.IsNotEmpty() == e) return "NEQBAD"; out = e ? "b1" : "b0"; }
        else return "BADOP";
        if (step) res += ';';
        res += out;
        for (unsigned k = 0; k < 3; k++) {
            const SV &v = P.at(k);
            res += '|';
            if ((v.Last() == nullptr) != (v.Length() == 0) || v.End() != v.First() + v.Length()) res += "LASTBAD";
            res += vf::fmt_units(v.First(), v.Length());
        }
        ++step;
    }
    return res;
}

template <typename C>
static std::string run_width(const std::string &kind, const std::vector<std::string> &ops) {
    if (kind == "s") return run_string<C>(ops);
    if (kind == "t") return run_stream<C>(ops);
    if (kind == "v") return run_view<C>(ops);
    return "BADCASE";
}

int main() {
    vf::for_each_line_forked([](const std::string &line) -> std::string {
        auto tk = vf::split_ws(line);
        if (tk.size() < 3) return "BADCASE";
        std::vector<std::string> ops;
        for (auto &t : split(tk[2], ';')) if (!t.empty()) ops.push_back(t);
        if (tk[0] == "ai") return run_array<int>(ops);
        if (tk[0] == "as") return run_array<String<char>>(ops);
        switch (std::atoi(tk[1].c_str())) {
            case 0: return run_width<char>(tk[0], ops);
            case 1: return run_width<char16_t>(tk[0], ops);
            case 2: return run_width<char32_t>(tk[0], ops);
        }
        return "BADCASE";
    });
    return 0;
}
