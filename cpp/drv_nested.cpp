// drv_nested.cpp -- C14/C16 supplement: Array<T> with an OWNING, SELF-NESTING element type, where the
// right-hand side of an assignment / append lives inside the destination itself
// (root = Move(root[i].kids), root = root[i].kids, root += root[i].kids, root += Move(root[i].kids)).
// Assigning the whole container INTO one of its own parts is left out (the source changes while it is read).
// The Coq sequence model has no nested ownership; here the oracle is a plain std::vector mirror
// (value semantics), and ASan/LSan watch the lifetimes.  case line: comma separated unsigned integers
// (a script of choices); output: "ok:<final flattened size>" or "DIFF@<step>:<op>".
#include "common.hpp"
#include "Array.hpp"

using namespace Qentem;

struct Node {
    int         id{0};
    Array<Node> kids;
};
struct M {
    int            id{0};
    std::vector<M> kids;
};

static void flat(const Array<Node> &a, std::string &o) {
    o += '[';
    for (const Node *n = a.First(); n != a.End(); ++n) {
        o += std::to_string(n->id);
        flat(n->kids, o);
    }
    o += ']';
}
static void flat(const std::vector<M> &a, std::string &o) {
    o += '[';
    for (const M &n : a) {
        o += std::to_string(n.id);
        flat(n.kids, o);
    }
    o += ']';
}

struct Script {
    std::vector<vf::u64> v;
    size_t               i{0};
    vf::u64              next(vf::u64 mod) { return mod == 0 ? 0 : (i < v.size() ? v[i++] % mod : 0); }
};

static void build(Script &s, Array<Node> &a, std::vector<M> &m, int depth, int &ctr) {
    const vf::u64 n = s.next(4) + (depth == 0 ? 1 : 0);
    for (vf::u64 k = 0; k < n; k++) {
        Node nd;
        M    md;
        nd.id = md.id = ++ctr;
        if (depth < 2) build(s, nd.kids, md.kids, depth + 1, ctr);
        a += Memory::Move(nd);
        m.push_back(std::move(md));
    }
}

int main() {
    vf::for_each_line([](const std::string &line) -> std::string {
        Script s;
        s.v = vf::parse_list(line);
        Array<Node>    a;
        std::vector<M> m;
        int            ctr = 0;
        build(s, a, m, 0, ctr);
        const vf::u64 steps = s.next(6) + 1;
        for (vf::u64 st = 0; st < steps; st++) {
            if (a.Size() == 0) break;
            const vf::u64 op = s.next(5);
            const SizeT   i  = (SizeT)s.next(a.Size());
            switch (op) {
                case 0: { // root = Move(root[i].kids)
                    std::vector<M> t = std::move(m[i].kids);
                    m                = std::move(t);
                    a                = Memory::Move(a.Storage()[i].kids);
                    break;
                }
                case 1: { // root = root[i].kids   (copy from an own member)
                    std::vector<M> t = m[i].kids;
                    m                = t;
                    a                = a.Storage()[i].kids;
                    break;
                }
                case 2: { // root += root[i].kids  (append a copy of an own member's items)
                    std::vector<M> t = m[i].kids;
                    for (auto &x : t) m.push_back(x);
                    a += a.Storage()[i].kids;
                    break;
                }
                case 4: { // root += Move(root[i].kids)
                    std::vector<M> t = std::move(m[i].kids);
                    m[i].kids.clear();
                    for (auto &x : t) m.push_back(std::move(x));
                    a += Memory::Move(a.Storage()[i].kids);
                    break;
                }
                default: { // root = Move(root[i].kids[j].kids)  (two levels down)
                    if (m[i].kids.empty()) break;
                    const SizeT    j = (SizeT)s.next(m[i].kids.size());
                    std::vector<M> t = std::move(m[i].kids[j].kids);
                    m                = std::move(t);
                    a                = Memory::Move(a.Storage()[i].kids.Storage()[j].kids);
                    break;
                }
            }
            std::string fa, fm;
            flat(a, fa);
            flat(m, fm);
            if (fa != fm) return "DIFF@" + std::to_string(st) + ":" + std::to_string(op);
        }
        std::string fa;
        flat(a, fa);
        return "ok:" + std::to_string(fa.size());
    });
    return 0;
}
