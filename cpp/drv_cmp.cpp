// drv_cmp.cpp -- C15 correspondence driver (comparisons and sorting).
// case lines (see ocaml/cmp.ml for the same table):
//   S w a b             -> xxxxxx/xxxxxx/xxxxxx/xxxxxx   < <= > >= == !=  of String OP String, StringView OP StringView,
//                          String OP (const Char_T *), StringView OP (const Char_T *); the C string is b + NUL, i.e. b cut at its first NUL
//   I w a b             -> xxxxx/xxxxx          HAItem_T, HLItem_T with keys a, b:  < > <= >= ==
//   T w a b c           -> xxxxxx/xxxxxx/xxxxxx String results for (a,b), (b,c), (a,c)
//   V w va vb           -> xxxxx                Value  < > <= >= ==
//   N dir list          -> list                 Array<SizeT64>::Sort
//   L dir list          -> list                 <loop value="v" sort="..."> over an array of numbers
//   R dir w strs        -> strs                 Array<String>::Sort
//   J dir w vals        -> vals                 Value(array)::Sort; printed with pointers followed and -0 as +0
//   H dir w via ops queries -> pre|post|looked  via 0: HArray<String,SizeT64>, via 1: Value object
// w: 0 char, 1 char16_t, 2 char32_t, 3 wchar_t.  dir: 1 ascending, 0 descending.
// values: u n t f U<n> I<z> D<bits> S<units> A<size> O<size> P<value>
#include "common.hpp"
#include <memory>
#include <deque>
#include "JSON.hpp"
#include "Template.hpp"
#include "HList.hpp"

using namespace Qentem;
using vf::u64;

static std::vector<std::string> split_on(const std::string &s, char c) {
    std::vector<std::string> r;
    size_t                   i = 0;
    while (true) {
        size_t j = s.find(c, i);
        if (j == std::string::npos) {
            r.push_back(s.substr(i));
            break;
        }
        r.push_back(s.substr(i, j - i));
        i = j + 1;
    }
    return r;
}
static std::vector<std::string> split_list(const std::string &s, char c) {
    if (s == "~") return {};
    return split_on(s, c);
}
static char bit(bool b) { return b ? '1' : '0'; }

template <typename T>
static std::string six(const T &a, const T &b) {
    std::string r;
    r += bit(a < b);
    r += bit(a <= b);
    r += bit(a > b);
    r += bit(a >= b);
    r += bit(a == b);
    r += bit(a != b);
    return r;
}

template <typename T, typename C>
static std::string six_c(const T &a, const C *b) {
    std::string r;
    r += bit(a < b);
    r += bit(a <= b);
    r += bit(a > b);
    r += bit(a >= b);
    r += bit(a == b);
    r += bit(a != b);
    return r;
}

// HAItem_T / HLItem_T: the operators that exist, in the order of the struct:  <  >  <=  >=  ==
template <typename T>
static std::string five_item(const T &a, const T &b) {
    std::string r;
    r += bit(a < b);
    r += bit(a > b);
    r += bit(a <= b);
    r += bit(a >= b);
    r += bit(a == b);
    return r;
}

template <typename C>
static String<C> mk_string(const std::vector<u64> &u) {
    vf::ExactBuf<C> buf(u);
    return String<C>((const C *)buf.p, (SizeT)buf.n);
}

// ---- S / T ----
template <typename C>
static std::string run_S(const std::vector<u64> &a, const std::vector<u64> &b) {
    String<C>       sa = mk_string<C>(a), sb = mk_string<C>(b);
    vf::ExactBuf<C> ba(a), bb(b);
    StringView<C>   va((const C *)ba.p, (SizeT)ba.n), vb((const C *)bb.p, (SizeT)bb.n);
    // Storage identity is not part of the contract: when one string is a prefix of the other (or they
    // are equal) the two views are cut from ONE buffer (same start address, different or equal lengths),
    // as a tokenizer would produce them.
    {
        const std::vector<u64> &shorter = (a.size() <= b.size()) ? a : b;
        const std::vector<u64> &longer  = (a.size() <= b.size()) ? b : a;
        bool                    is_prefix = true;
        for (size_t i = 0; i < shorter.size(); i++) is_prefix = is_prefix && (shorter[i] == longer[i]);
        if (is_prefix) {
            const C *base = (a.size() <= b.size()) ? (const C *)bb.p : (const C *)ba.p;
            va            = StringView<C>(base, (SizeT)a.size());
            vb            = StringView<C>(base, (SizeT)b.size());
        }
    }
    std::string     r = ((a == b) ? six(sa, sa) : six(sa, sb)) + "/" + six(va, vb) + "/";
    // (const Char_T *) overloads: the right operand is b followed by a terminator, so what the callee
    // sees is b cut at its first NUL (StringUtils::Count); all six operators of both classes.
    std::vector<C> z;
    for (auto x : b) z.push_back((C)x);
    z.push_back(C(0));
    const C *cs = z.data();
    r += six_c(sa, cs) + "/" + six_c(va, cs);
    return r;
}
// ---- I: items of HArray / HList compare by key; Hash, Next and Value differ on purpose ----
template <typename C>
static std::string run_I(const std::vector<u64> &a, const std::vector<u64> &b) {
    HAItem_T<String<C>, SizeT64> ha{mk_string<C>(a), SizeT{7}, SizeT{1}, SizeT64{100}};
    HAItem_T<String<C>, SizeT64> hb{mk_string<C>(b), SizeT{3}, SizeT{9}, SizeT64{5}};
    HLItem_T<String<C>>          la{mk_string<C>(a), SizeT{2}, SizeT{8}};
    HLItem_T<String<C>>          lb{mk_string<C>(b), SizeT{6}, SizeT{0}};
    return five_item(ha, hb) + "/" + five_item(la, lb);
}
template <typename C>
static std::string run_T(const std::vector<u64> &a, const std::vector<u64> &b, const std::vector<u64> &c) {
    String<C> sa = mk_string<C>(a), sb = mk_string<C>(b), sc = mk_string<C>(c);
    return six(sa, sb) + "/" + six(sb, sc) + "/" + six(sa, sc);
}

// ---- values ----
template <typename C>
struct Pool {
    std::deque<std::unique_ptr<Value<C>>> keep; // pointer targets must outlive their users
};

template <typename C>
static Value<C> mk_value(const std::string &t, Pool<C> &pool) {
    using V = Value<C>;
    const std::string rest = t.substr(1);
    switch (t[0]) {
        case 'u': return V{};
        case 'n': return V{ValueType::Null};
        case 't': return V{true};
        case 'f': return V{false};
        case 'U': return V{SizeT64(std::strtoull(rest.c_str(), nullptr, 10))};
        case 'I': return V{SizeT64I(std::strtoll(rest.c_str(), nullptr, 10))};
        case 'D': {
            u64    bits = std::strtoull(rest.c_str(), nullptr, 10);
            double d;
            std::memcpy(&d, &bits, 8);
            return V{d};
        }
        case 'S': return V{mk_string<C>(vf::parse_list(rest))};
        case 'A': {
            typename V::ArrayT arr;
            u64                n = std::strtoull(rest.c_str(), nullptr, 10);
            for (u64 i = 0; i < n; i++) arr += V{SizeT64(i)};
            return V{Memory::Move(arr)};
        }
        case 'O': {
            typename V::ObjectT obj;
            u64                 n = std::strtoull(rest.c_str(), nullptr, 10);
            for (u64 i = 0; i < n; i++) {
                std::vector<u64> k = {'k', (u64)('a' + i)};
                obj[mk_string<C>(k)] = V{SizeT64(i)};
            }
            return V{Memory::Move(obj)};
        }
        case 'P': {
            pool.keep.emplace_back(new V(mk_value<C>(rest, pool)));
            V v;
            v.SetPointerToValue(pool.keep.back().get());
            return v;
        }
        default: return V{};
    }
}

// canonical text of a value: pointers followed (one level: the Is...() queries of the
// public interface look through one pointer), -0 printed as +0
template <typename C>
static std::string fmt_value(const Value<C> &v) {
    if (v.IsUndefined()) return "u";
    if (v.IsNull()) return "n";
    if (v.IsTrue()) return "t";
    if (v.IsFalse()) return "f";
    if (v.IsUInt64()) return "U" + std::to_string(v.GetUInt64());
    if (v.IsInt64()) return "I" + std::to_string(v.GetInt64());
    if (v.IsDouble()) {
        double d = v.GetDouble();
        u64    bits;
        std::memcpy(&bits, &d, 8);
        if (bits == (1ULL << 63)) bits = 0;
        return "D" + std::to_string(bits);
    }
    if (v.IsString()) return "S" + vf::fmt_units(v.StringStorage(), v.Length());
    if (v.IsArray()) return "A" + std::to_string(v.GetArray()->Size());
    if (v.IsObject()) return "O" + std::to_string(v.GetObject()->Size());
    return "?";
}

template <typename C>
static std::string run_V(const std::string &ta, const std::string &tb) {
    Pool<C>  pool;
    Value<C> a = mk_value<C>(ta, pool), b = mk_value<C>(tb, pool);
    std::string r;
    r += bit(a < b);
    r += bit(a > b);
    r += bit(a <= b);
    r += bit(a >= b);
    r += bit(a == b);
    return r;
}

// ---- sorting ----
static std::string run_N(bool asc, const std::vector<u64> &l) {
    Array<SizeT64> arr;
    for (auto x : l) arr += SizeT64(x);
    arr.Sort(asc);
    if (arr.Size() == 0) return "-";
    std::string r;
    for (SizeT i = 0; i < arr.Size(); i++) {
        if (i) r += ',';
        r += std::to_string((u64)arr.First()[i]);
    }
    return r;
}

static std::string run_L(bool asc, const std::vector<u64> &l) {
    Value<char> v;
    Value<char> &arr = v["s"];
    arr             = Value<char>::ArrayT{};
    for (auto x : l) arr += SizeT64(x);
    std::string        t = asc ? "<loop set=\"s\" value=\"v\" sort=\"ascend\">{var:v};</loop>" : "<loop set=\"s\" value=\"v\" sort=\"descend\">{var:v};</loop>";
    StringStream<char> ss;
    Template::Render(t.c_str(), (SizeT)t.size(), v, ss);
    std::string out(ss.First() ? ss.First() : "", ss.Length());
    if (out.empty()) return "-";
    for (auto &c : out)
        if (c == ';') c = ',';
    out.pop_back();
    return out;
}

template <typename C>
static std::string run_R(bool asc, const std::vector<std::string> &strs) {
    Array<String<C>> arr;
    for (auto &s : strs) arr += mk_string<C>(vf::parse_list(s));
    arr.Sort(asc);
    if (arr.Size() == 0) return "~";
    std::string r;
    for (SizeT i = 0; i < arr.Size(); i++) {
        if (i) r += ';';
        r += vf::fmt_units(arr.First()[i].First(), arr.First()[i].Length());
    }
    return r;
}

template <typename C>
static std::string run_J(bool asc, const std::vector<std::string> &vals) {
    Pool<C>  pool;
    Value<C> v;
    v = typename Value<C>::ArrayT{};
    for (auto &t : vals) v += mk_value<C>(t, pool);
    v.Sort(asc);
    const auto *arr = v.GetArray();
    if (arr == nullptr || arr->Size() == 0) return "~";
    std::string r;
    for (SizeT i = 0; i < arr->Size(); i++) {
        if (i) r += ';';
        r += fmt_value<C>(arr->First()[i]);
    }
    return r;
}

template <typename C, typename Obj, typename Num>
static std::string dump(const Obj &o, bool with_tombs, Num num) {
    std::string r;
    bool        first = true;
    const auto *it    = o.First();
    for (SizeT i = 0; i < o.Size(); i++, it++) {
        if (it->Hash == 0) {
            if (!with_tombs) continue;
            if (!first) r += ';';
            r += '#';
        } else {
            if (!first) r += ';';
            r += vf::fmt_units(it->Key.First(), it->Key.Length()) + "=" + std::to_string(num(it->Value));
        }
        first = false;
    }
    return first ? "~" : r;
}

template <typename C>
static std::string run_H(bool asc, int via, const std::vector<std::string> &ops, const std::vector<std::string> &queries) {
    std::string pre, post, looked;
    auto        key_of = [](const std::string &t, bool &is_remove, u64 &val) {
        is_remove = (t.back() == '!');
        val       = 0;
        std::string k;
        if (is_remove) {
            k = t.substr(0, t.size() - 1);
        } else {
            size_t e = t.find('=');
            k        = t.substr(0, e);
            val      = std::strtoull(t.substr(e + 1).c_str(), nullptr, 10);
        }
        return vf::parse_list(k);
    };
    if (via == 0) {
        HArray<String<C>, SizeT64> h;
        for (auto &t : ops) {
            bool rm;
            u64  val;
            auto k = key_of(t, rm, val);
            if (rm) {
                h.Remove(mk_string<C>(k));
            } else {
                h[mk_string<C>(k)] = SizeT64(val);
            }
        }
        auto num = [](const SizeT64 &x) { return (u64)x; };
        pre      = dump<C>(h, true, num);
        h.Sort(asc);
        post = dump<C>(h, false, num);
        for (size_t i = 0; i < queries.size(); i++) {
            vf::ExactBuf<C> q(vf::parse_list(queries[i]));
            const SizeT64  *p = h.GetValue((const C *)q.p, (SizeT)q.n);
            if (i) looked += ';';
            looked += p ? std::to_string((u64)*p) : "x";
        }
    } else {
        Value<C> v;
        v = typename Value<C>::ObjectT{};
        for (auto &t : ops) {
            bool rm;
            u64  val;
            auto k = key_of(t, rm, val);
            vf::ExactBuf<C> kb(k);
            if (rm) {
                v.Remove((const C *)kb.p, (SizeT)kb.n);
            } else {
                v[StringView<C>((const C *)kb.p, (SizeT)kb.n)] = SizeT64(val);
            }
        }
        auto num = [](const Value<C> &x) { return (u64)x.GetUInt64(); };
        pre      = dump<C>(*v.GetObject(), true, num);
        v.Sort(asc);
        post = dump<C>(*v.GetObject(), false, num);
        for (size_t i = 0; i < queries.size(); i++) {
            vf::ExactBuf<C> q(vf::parse_list(queries[i]));
            const Value<C> *p = v.GetValue((const C *)q.p, (SizeT)q.n);
            if (i) looked += ';';
            looked += p ? std::to_string((u64)p->GetUInt64()) : "x";
        }
    }
    if (queries.empty()) looked = "~";
    return pre + "|" + post + "|" + looked;
}

template <typename C>
static std::string run_w(const std::vector<std::string> &tk) {
    const std::string &k = tk[0];
    if (k == "S" && tk.size() >= 4) return run_S<C>(vf::parse_list(tk[2]), vf::parse_list(tk[3]));
    if (k == "T" && tk.size() >= 5) return run_T<C>(vf::parse_list(tk[2]), vf::parse_list(tk[3]), vf::parse_list(tk[4]));
    if (k == "V" && tk.size() >= 4) return run_V<C>(tk[2], tk[3]);
    if (k == "I" && tk.size() >= 4) return run_I<C>(vf::parse_list(tk[2]), vf::parse_list(tk[3]));
    return "BADCASE";
}
template <typename C>
static std::string run_dw(const std::vector<std::string> &tk) {
    const std::string &k   = tk[0];
    const bool         asc = (tk[1] == "1");
    if (k == "R" && tk.size() >= 4) return run_R<C>(asc, split_list(tk[3], ';'));
    if (k == "J" && tk.size() >= 4) return run_J<C>(asc, split_list(tk[3], ';'));
    if (k == "H" && tk.size() >= 6) return run_H<C>(asc, std::atoi(tk[3].c_str()), split_list(tk[4], ';'), split_list(tk[5], ';'));
    return "BADCASE";
}

int main() {
    vf::for_each_line([](const std::string &line) -> std::string {
        auto tk = vf::split_ws(line);
        if (tk.size() < 3) return "BADCASE";
        const std::string &k = tk[0];
        if (k == "N") return run_N(tk[1] == "1", vf::parse_list(tk[2]));
        if (k == "L") return run_L(tk[1] == "1", vf::parse_list(tk[2]));
        if (k == "S" || k == "T" || k == "V" || k == "I") {
            switch (std::atoi(tk[1].c_str())) {
                case 0: return run_w<char>(tk);
                case 1: return run_w<char16_t>(tk);
                case 2: return run_w<char32_t>(tk);
                default: return run_w<wchar_t>(tk);
            }
        }
        if (k == "R" || k == "J" || k == "H") {
            switch (std::atoi(tk[2].c_str())) {
                case 0: return run_dw<char>(tk);
                case 1: return run_dw<char16_t>(tk);
                case 2: return run_dw<char32_t>(tk);
                default: return run_dw<wchar_t>(tk);
            }
        }
        return "BADCASE";
    });
    return 0;
}
