// drv_ledger_valuemodel.cpp -- C16 tie of coq/LedgerValueModel.v: the SAME operation history (the model's
// vocabulary vop) on a pool of real Value<char> variables; the number of live allocations counted through the
// library's own MemoryRecord seam (cpp/ledger.hpp, build with -DVERIF_LEDGER=1) after EVERY operation.
// case line:  <n> <op;op;...>          n variables; a target is a dot separated model path:
//   v            variable v                       p.k      element k of the array at p
//   p.k.0        the value of item slot k of the object at p   (a removed slot / any other continuation does not resolve)
// ops (the model's flags are NOT read here, they are derived from what this run reports):
//   S:t          *t = 7                           T:t:len  *t = string of len chars (len 0: a String without storage)
//   Q:t:n        t->SetPointerToValue(&var[n % vars])
//   I:t:key      (*t)[key]  (get-or-create)       A:t      *t += 5
//   V:d:s:mv     *d += *s  /  *d += Move(*s)      G:d:s:mv *d = *s  /  *d = Move(*s)
//   M:d:s:mv     d->Merge(*s) / d->Merge(Move(*s))
//   R:t:k        t->RemoveIndex(k)                C:t      t->Compress()      Z:t   t->Reset()
// skipped (reported as such; the model is a no-op or is told so): a target that does not resolve; V / M with related
// targets; G by move with d strictly inside s; G by copy with d = s (C++: this == &val, nothing happens).
// output: per operation
//   "<live>,<obj>,<key>,<arr>,<str>,<cap before>,<cap after>,<bad>,<info>"  joined by ';', then "|<final>"
//   live   allocations live in the ledger relative to the empty pool
//   obj/key/arr/str  what the pool structurally owns: objects with storage, keys with a block, arrays with storage,
//          strings with a block
//   cap    Capacity() of the container at the (first) target before / after (0 when it is not a container)
//   bad    releases of unknown / already released blocks + blocks handed out twice during the operation
//   info   k  skipped;  o  V on two objects (= Merge);  for C the one-level compactions Value::Compress performs,
//          pre-order, as "path*re" joined by '+' (paths after the compaction of the ancestors; re = the level
//          reallocates: array: defined != Capacity(); object: tombstones present or no item left);  - otherwise
//   final  allocations still live after the pool is destroyed (must be 0)
#include "common.hpp"
#include "Value.hpp"

#ifndef VERIF_LEDGER
#error "build with -DVERIF_LEDGER=1"
#endif

using namespace Qentem;
using V  = Value<char>;
using St = String<char>;

static std::vector<std::string> split(const std::string &s, char c) {
    std::vector<std::string> r;
    size_t                   i = 0;
    while (true) {
        size_t j = s.find(c, i);
        if (j == std::string::npos) { r.push_back(s.substr(i)); break; }
        r.push_back(s.substr(i, j - i));
        i = j + 1;
    }
    return r;
}
using Path = std::vector<unsigned>;
static Path path_of(const std::string &s) {
    Path p;
    for (auto &t : split(s, '.')) p.push_back((unsigned)std::strtoul(t.c_str(), nullptr, 10));
    return p;
}
static std::string fmt_path(const Path &p) {
    std::string r;
    for (size_t i = 0; i < p.size(); i++) { if (i) r += '.'; r += std::to_string(p[i]); }
    return r;
}
static bool is_prefix(const Path &p, const Path &q) {
    if (p.size() > q.size()) return false;
    for (size_t i = 0; i < p.size(); i++) if (p[i] != q[i]) return false;
    return true;
}

static V *resolve(std::vector<V> &pool, const Path &p) {
    if (p.empty() || p[0] >= pool.size()) return nullptr;
    V     *cur = &pool[p[0]];
    size_t k   = 1;
    while (k < p.size()) {
        if (cur->Type() == ValueType::Object) {
            if (k + 1 >= p.size() || p[k + 1] != 0) return nullptr;
            V *c = cur->GetObject()->GetValue((SizeT)p[k]);
            if (c == nullptr) return nullptr;
            cur = c;
            k += 2;
        } else if (cur->Type() == ValueType::Array) {
            auto *a = cur->GetArray();
            if (p[k] >= a->Size()) return nullptr;
            cur = a->Storage() + p[k];
            k += 1;
        } else {
            return nullptr;
        }
    }
    return cur;
}

struct Owned { size_t obj{0}, key{0}, arr{0}, str{0}; };
static void count(const V &v, Owned &o) {
    switch (v.Type()) {
        case ValueType::Object: {
            const auto *ob = static_cast<const V &>(v).GetObject();
            if (ob->Capacity() != 0) ++o.obj;
            for (SizeT i = 0; i < ob->Size(); i++) {
                const auto *it = ob->GetItem(i);
                if (it == nullptr) continue;
                if (it->Key.First() != nullptr) ++o.key;
                count(it->Value, o);
            }
            break;
        }
        case ValueType::Array: {
            const auto *ar = static_cast<const V &>(v).GetArray();
            if (ar->Capacity() != 0) ++o.arr;
            for (SizeT i = 0; i < ar->Size(); i++) count(ar->First()[i], o);
            break;
        }
        case ValueType::String: {
            if (static_cast<const V &>(v).GetString()->First() != nullptr) ++o.str;
            break;
        }
        default: break;
    }
}
static size_t cap_of(const V *v) {
    if (v == nullptr) return 0;
    if (v->Type() == ValueType::Object) return v->GetObject()->Capacity();
    if (v->Type() == ValueType::Array) return v->GetArray()->Capacity();
    return 0;
}

// the one-level compactions Value::Compress will perform at v (located at model path p), pre-order
static void plan_compress(const V &v, const Path &p, std::string &out) {
    if (v.Type() == ValueType::Array) {
        const auto *ar      = v.GetArray();
        SizeT       defined = 0;
        for (SizeT i = 0; i < ar->Size(); i++) if (!ar->First()[i].IsUndefined()) ++defined;
        const bool re = (defined != ar->Capacity());
        if (!out.empty()) out += '+';
        out += fmt_path(p) + "*" + (re ? "1" : "0");
        if (re && defined == 0) return; // array_.Reset(); return
        SizeT idx = 0;
        for (SizeT i = 0; i < ar->Size(); i++) {
            const V &c = ar->First()[i];
            if (re && c.IsUndefined()) continue;
            if (c.Type() == ValueType::Array || c.Type() == ValueType::Object) {
                Path q = p;
                q.push_back((unsigned)(re ? idx : i));
                plan_compress(c, q, out);
            }
            ++idx;
        }
    } else if (v.Type() == ValueType::Object) {
        const auto *ob   = v.GetObject();
        const SizeT live = ob->ActualSize();
        const bool  re   = (live < ob->Size()) || (live == 0);
        if (!out.empty()) out += '+';
        out += fmt_path(p) + "*" + (re ? "1" : "0");
        SizeT idx = 0;
        for (SizeT i = 0; i < ob->Size(); i++) {
            const auto *it = ob->GetItem(i);
            if (it == nullptr) { if (!re) ++idx; continue; }
            if (it->Value.Type() == ValueType::Array || it->Value.Type() == ValueType::Object) {
                Path q = p;
                q.push_back((unsigned)idx);
                q.push_back(0);
                plan_compress(it->Value, q, out);
            }
            ++idx;
        }
    }
}

static std::string key_text(unsigned long k) { return "member-key-" + std::to_string(k) + "-with-padding"; }

int main() {
    std::string line;
    while (std::getline(std::cin, line)) {
        auto tk = vf::split_ws(line);
        if (tk.size() < 2) { std::puts("BADCASE"); std::fflush(stdout); continue; }
        const size_t n = std::strtoul(tk[0].c_str(), nullptr, 10);
        std::string  out;
        const size_t base = vfl::st().live.size();
        {
            std::vector<V> pool(n);
            bool           first = true;
            if (tk[1] != "-") {
                for (auto &ops : split(tk[1], ';')) {
                    auto         f = split(ops, ':');
                    const char   c = f[0].empty() ? '?' : f[0][0];
                    auto num = [&](size_t i) -> unsigned long { return i < f.size() ? std::strtoul(f[i].c_str(), nullptr, 10) : 0; };
                    const Path   pt = f.size() > 1 ? path_of(f[1]) : Path{};
                    V           *t  = resolve(pool, pt);
                    const size_t capb = cap_of(t);
                    const vfl::Mark m0 = vfl::mark();
                    std::string  info = "-";
                    bool         skipped = (t == nullptr);
                    if (!skipped) {
                        switch (c) {
                            case 'S': *t = 7U; break;
                            case 'T': {
                                const size_t len = num(2);
                                if (len == 0) { *t = St{}; } else { std::string s(len, 'x'); *t = St(s.c_str(), (SizeT)len); }
                                break;
                            }
                            case 'Q': t->SetPointerToValue(&pool[num(2) % n]); break;
                            case 'I': { const std::string k = key_text(num(2)); (void)(*t)[k.c_str()]; break; }
                            case 'A': *t += 5U; break;
                            case 'V': case 'G': case 'M': {
                                const Path ps = path_of(f[2]);
                                V         *s  = resolve(pool, ps);
                                const bool mv = num(3) != 0;
                                const bool related = is_prefix(pt, ps) || is_prefix(ps, pt);
                                if (s == nullptr) { skipped = true; break; }
                                if (c == 'G') {
                                    if (mv) {
                                        if (is_prefix(ps, pt) && ps.size() < pt.size()) { skipped = true; break; }
                                        *t = Memory::Move(*s);
                                    } else {
                                        if (t == s) { skipped = true; break; }
                                        *t = static_cast<const V &>(*s);
                                    }
                                } else {
                                    if (related) { skipped = true; break; }
                                    if (c == 'V') {
                                        if (t->Type() == ValueType::Object && s->Type() == ValueType::Object) info = "o";
                                        if (mv) *t += Memory::Move(*s); else *t += static_cast<const V &>(*s);
                                    } else {
                                        if (mv) t->Merge(Memory::Move(*s)); else t->Merge(static_cast<const V &>(*s));
                                    }
                                }
                                break;
                            }
                            case 'R': t->RemoveIndex((SizeT)num(2)); break;
                            case 'C': { std::string plan; plan_compress(*t, pt, plan); info = plan.empty() ? "-" : plan; t->Compress(); break; }
                            case 'Z': t->Reset(); break;
                            default: skipped = true;
                        }
                    }
                    if (skipped) info = "k";
                    const vfl::Mark m1 = vfl::mark();
                    V *t2 = resolve(pool, pt);
                    Owned o;
                    for (auto &v : pool) count(v, o);
                    if (!first) out += ';';
                    first = false;
                    out += std::to_string((long long)vfl::st().live.size() - (long long)base) + "," + std::to_string(o.obj) + "," + std::to_string(o.key) + "," +
                           std::to_string(o.arr) + "," + std::to_string(o.str) + "," + std::to_string(capb) + "," + std::to_string(cap_of(t2)) + "," +
                           std::to_string((m1.unknown_free - m0.unknown_free) + (m1.dup_alloc - m0.dup_alloc)) + "," + info;
                }
            }
            if (first) out = "-";
        }
        out += "|" + std::to_string((long long)vfl::st().live.size() - (long long)base);
        std::puts(out.c_str());
        std::fflush(stdout);
    }
    return 0;
}
