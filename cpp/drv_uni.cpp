// drv_uni.cpp -- C20 correspondence driver (real Unicode::ToUTF and JSON::Parse).
// case lines (w = character kind: 1 char, 2 char16_t, 4 char32_t (= sizeof), 5 wchar_t):
//   E <w> <cp>                              Unicode::ToUTF<C>(cp, stream)            -> units
//   J <w> <k1> <k2> <cp> <pre> <post>       JSON::Parse of  ["<pre>ESC<post>"]        -> units of value[0] | FAIL
//        ESC = \uXXXX for cp < 0x10000, else the surrogate pair; k1 (first / only
//        escape) and k2 (second) are bit masks: 16 = 'U' instead of 'u', 8,4,2,1 =
//        upper-case letter for hex digit 1..4
//   T <w> <body>                            JSON::Parse of  ["<body>"]                -> units | FAIL
//   R E <w> <lo> <hi> <step>                E for cp = lo, lo+step, ... < hi (surrogates skipped),
//   R J <w> <k1> <k2> <lo> <hi> <step> <pre> <post>     results joined with ';'
// The escape text is produced here with plain digit arithmetic; the model side
// produces it from the specification (UniModel.json_escape), so a disagreement
// about the text itself shows as a model/implementation difference.
#include "common.hpp"
#include "JSON.hpp"

using namespace Qentem;

static void put_escape(std::vector<vf::u64> &v, unsigned x, unsigned k) {
    v.push_back('\\');
    v.push_back((k & 16U) ? 'U' : 'u');
    for (int i = 3; i >= 0; i--) {
        const unsigned d  = (x >> (4 * i)) & 15U;
        const bool     up = (k >> i) & 1U;
        v.push_back(d < 10 ? ('0' + d) : ((up ? 'A' : 'a') + (d - 10)));
    }
}

static void put_cp(std::vector<vf::u64> &v, unsigned cp, unsigned k1, unsigned k2) {
    if (cp < 0x10000U) {
        put_escape(v, cp, k1);
    } else {
        const unsigned x = cp - 0x10000U;
        put_escape(v, 0xD800U + x / 1024U, k1);
        put_escape(v, 0xDC00U + x % 1024U, k2);
    }
}

template <typename C>
static std::string encode(unsigned cp) {
    StringStream<C> ss;
    Unicode::ToUTF<C>(SizeT32(cp), ss);
    return vf::fmt_units(ss.First(), ss.Length());
}

template <typename C>
static std::string parse_body(const std::vector<vf::u64> &body) {
    std::vector<vf::u64> doc;
    doc.push_back('[');
    doc.push_back('"');
    for (auto u : body) doc.push_back(u);
    doc.push_back('"');
    doc.push_back(']');
    vf::ExactBuf<C> buf(doc);
    Value<C>        v = JSON::Parse((const C *)buf.p, (SizeT)buf.n);
    if (!v.IsArray() || v.Size() != 1) return "FAIL";
    const Value<C> *e = v.GetValue(0);
    if (e == nullptr || !e->IsString()) return "FAIL";
    return vf::fmt_units(e->StringStorage(), e->Length());
}

template <typename C>
static std::string parse_cp(unsigned cp, unsigned k1, unsigned k2, const std::vector<vf::u64> &pre,
                            const std::vector<vf::u64> &post) {
    std::vector<vf::u64> body(pre);
    put_cp(body, cp, k1, k2);
    for (auto u : post) body.push_back(u);
    return parse_body<C>(body);
}

template <typename C>
static std::string run(const std::vector<std::string> &tk) {
    const std::string &kind = tk[0];
    if (kind == "E" && tk.size() == 3) return encode<C>((unsigned)std::strtoul(tk[2].c_str(), nullptr, 10));
    if (kind == "J" && tk.size() == 7) {
        return parse_cp<C>((unsigned)std::strtoul(tk[4].c_str(), nullptr, 10), (unsigned)std::atoi(tk[2].c_str()),
                           (unsigned)std::atoi(tk[3].c_str()), vf::parse_list(tk[5]), vf::parse_list(tk[6]));
    }
    if (kind == "T" && tk.size() == 3) return parse_body<C>(vf::parse_list(tk[2]));
    return "BADCASE";
}

template <typename C>
static std::string run_range(const std::vector<std::string> &tk) {
    // tk[0] = R, tk[1] = E|J, tk[2] = w
    std::string out;
    if (tk[1] == "E" && tk.size() == 6) {
        const unsigned lo = (unsigned)std::strtoul(tk[3].c_str(), nullptr, 10), hi = (unsigned)std::strtoul(tk[4].c_str(), nullptr, 10),
                       st = (unsigned)std::strtoul(tk[5].c_str(), nullptr, 10);
        for (unsigned cp = lo; cp < hi; cp += st) {
            if (cp >= 0xD800U && cp <= 0xDFFFU) continue;
            if (!out.empty()) out += ';';
            out += encode<C>(cp);
        }
        return out.empty() ? "EMPTY" : out;
    }
    if (tk[1] == "J" && tk.size() == 10) {
        const unsigned k1 = (unsigned)std::atoi(tk[3].c_str()), k2 = (unsigned)std::atoi(tk[4].c_str());
        const unsigned lo = (unsigned)std::strtoul(tk[5].c_str(), nullptr, 10), hi = (unsigned)std::strtoul(tk[6].c_str(), nullptr, 10),
                       st = (unsigned)std::strtoul(tk[7].c_str(), nullptr, 10);
        const auto pre = vf::parse_list(tk[8]), post = vf::parse_list(tk[9]);
        for (unsigned cp = lo; cp < hi; cp += st) {
            if (cp >= 0xD800U && cp <= 0xDFFFU) continue;
            if (!out.empty()) out += ';';
            out += parse_cp<C>(cp, k1, k2, pre, post);
        }
        return out.empty() ? "EMPTY" : out;
    }
    return "BADCASE";
}

int main() {
    vf::for_each_line([](const std::string &line) -> std::string {
        auto tk = vf::split_ws(line);
        if (tk.size() < 3) return "BADCASE";
        const bool range = (tk[0] == "R");
        const int  w     = std::atoi(tk[range ? 2 : 1].c_str());
        switch (w) {
            case 1: return range ? run_range<char>(tk) : run<char>(tk);
            case 2: return range ? run_range<char16_t>(tk) : run<char16_t>(tk);
            case 4: return range ? run_range<char32_t>(tk) : run<char32_t>(tk);
            case 5: return range ? run_range<wchar_t>(tk) : run<wchar_t>(tk);
            default: return "BADCASE";
        }
    });
    return 0;
}
