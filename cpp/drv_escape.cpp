// drv_escape.cpp -- C03 correspondence driver.
// case line:  <auto (ignored here)> <width 0..3> <kind> <units>
//   kind 0  StringUtils::EscapeHTMLSpecialChars directly
//   kind 1  {var:k}  with value {"k": s}
//   kind 2  {raw:k}  with value {"k": s}
//   kind 3  <loop value="v">{var:v}</loop> over the object {s: [1]}   (loop key path)
//   kind 4  {svar:k, {var:k}} with value {"k": s}                     (phrase pieces, {0} substitution)
//   kind 5  {var:<s>} with an empty object                            (echo of an unresolved tag)
//   kind 6  {var:k} written into a stream that already holds text (prefix "<&>")
//   kind 7  {var:k} where value["k"] is a POINTER to a string value (SetPointerToValue)
//   kind 8  <loop value="v">{var:v}</loop> over an array whose single item is a pointer to a string value
//   kind 9  {raw:k} where value["k"] is a pointer to a string value
//   kind 10 <loop value="v">{var:v<s>}</loop> over the array [{"name":"x"}]: a LOOP variable that does not resolve and whose
//           item has no key is echoed like any unresolved tag (the oracle is kind 5's on the text v<s>)
// output: the emitted units
#include "common.hpp"
#include "JSON.hpp"
#include "Template.hpp"

using namespace Qentem;

template <typename C>
static std::string run_case(int kind, const std::vector<vf::u64> &units) {
    vf::ExactBuf<C> buf(units);
    StringStream<C> ss;
    auto lit = [](const char *a) {
        std::vector<vf::u64> v;
        for (; *a; ++a) v.push_back((unsigned char)*a);
        return v;
    };
    switch (kind) {
        case 0: {
            StringUtils::EscapeHTMLSpecialChars(ss, (const C *)buf.p, (SizeT)buf.n);
            break;
        }
        case 1:
        case 2:
        case 4:
        case 6: {
            Value<C>        v;
            const C         key[2] = {C('k'), C(0)};
            v[key]                 = String<C>((const C *)buf.p, (SizeT)buf.n);
            vf::ExactBuf<C> t(lit(kind == 2 ? "{raw:k}" : (kind == 4 ? "{svar:k, {var:k}}" : "{var:k}")));
            if (kind == 6) {
                const C pre[4] = {C('<'), C('&'), C('>'), C(0)};
                ss.Write(pre, 3);
            }
            Template::Render((const C *)t.p, (SizeT)t.n, v, ss);
            break;
        }
        case 7:
        case 8:
        case 9: {
            Value<C>        target{String<C>((const C *)buf.p, (SizeT)buf.n)};
            Value<C>        v;
            const C         key[2] = {C('k'), C(0)};
            if (kind == 8) {
                v.AddPointerToValue(&target);
            } else {
                v[key].SetPointerToValue(&target);
            }
            vf::ExactBuf<C> t(lit(kind == 7 ? "{var:k}" : (kind == 9 ? "{raw:k}" : "<loop value=\"v\">{var:v}</loop>")));
            Template::Render((const C *)t.p, (SizeT)t.n, v, ss);
            break;
        }
        case 3: {
            Value<C> v;
            Value<C> &m = v[String<C>((const C *)buf.p, (SizeT)buf.n)];
            m += 1U;
            vf::ExactBuf<C> t(lit("<loop value=\"v\">{var:v}</loop>"));
            Template::Render((const C *)t.p, (SizeT)t.n, v, ss);
            break;
        }
        case 5: {
            Value<C>            v;
            const C             key[2] = {C('k'), C(0)};
            v[key]                     = 1U;
            std::vector<vf::u64> tv    = lit("{var:");
            for (auto u : units) tv.push_back(u);
            tv.push_back('}');
            vf::ExactBuf<C> t(tv);
            Template::Render((const C *)t.p, (SizeT)t.n, v, ss);
            break;
        }
        case 10: {
            Value<C>  v;
            Value<C>  rec;
            const C   name[5] = {C('n'), C('a'), C('m'), C('e'), C(0)};
            rec[name]         = 1U;
            v += rec;
            std::vector<vf::u64> tv = lit("<loop value=\"v\">{var:v");
            for (auto u : units) tv.push_back(u);
            for (auto u : lit("}</loop>")) tv.push_back(u);
            vf::ExactBuf<C> t(tv);
            Template::Render((const C *)t.p, (SizeT)t.n, v, ss);
            break;
        }
        default:
            return "BADCASE";
    }
    return vf::fmt_units(ss.First(), ss.Length());
}

int main() {
    vf::for_each_line([](const std::string &line) -> std::string {
        auto tk = vf::split_ws(line);
        if (tk.size() < 4) return "BADCASE";
        int  w     = std::atoi(tk[1].c_str());
        int  kind  = std::atoi(tk[2].c_str());
        auto units = vf::parse_list(tk[3]);
        switch (w) {
            case 0: return run_case<char>(kind, units);
            case 1: return run_case<char16_t>(kind, units);
            case 2: return run_case<char32_t>(kind, units);
            default: return run_case<wchar_t>(kind, units);
        }
    });
    return 0;
}
