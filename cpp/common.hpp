// common.hpp -- helpers shared by the C++ correspondence drivers.
// One case per input line, one canonical result per output line.
#ifndef VERIF_COMMON_HPP
#define VERIF_COMMON_HPP
#include <new>
#ifdef VERIF_LEDGER
#include "ledger.hpp"
#endif
#include <cstdio>
#include <cstdlib>
#include <cstring>
#include <cstdint>
#include <string>
#include <vector>
#include <iostream>
#include <sstream>

namespace vf {

using u64 = unsigned long long;

// "-" = empty list, otherwise comma separated unsigned integers
inline std::vector<u64> parse_list(const std::string &s) {
    std::vector<u64> r;
    if (s == "-" || s.empty()) return r;
    size_t i = 0;
    while (i < s.size()) {
        size_t j = s.find(',', i);
        if (j == std::string::npos) j = s.size();
        r.push_back(std::strtoull(s.substr(i, j - i).c_str(), nullptr, 10));
        i = j + 1;
    }
    return r;
}

inline std::vector<std::string> split_ws(const std::string &line) {
    std::vector<std::string> r;
    std::istringstream is(line);
    std::string t;
    while (is >> t) r.push_back(t);
    return r;
}

// exact-size heap copy of a code-unit string: no terminator, so that a read at
// [length] hits the sanitizer's redzone.  length 0 still yields a valid pointer.
template <typename C>
struct ExactBuf {
    C     *p;
    size_t n;
    explicit ExactBuf(const std::vector<u64> &v) : n(v.size()) {
        p = static_cast<C *>(std::malloc(n * sizeof(C) + (n == 0 ? 1 : 0)));
        for (size_t i = 0; i < n; i++) p[i] = static_cast<C>(v[i]);
    }
    ~ExactBuf() { std::free(p); }
    ExactBuf(const ExactBuf &)            = delete;
    ExactBuf &operator=(const ExactBuf &) = delete;
};

template <typename C>
inline std::string fmt_units(const C *p, size_t n) {
    if (n == 0) return "-";
    std::string r;
    for (size_t i = 0; i < n; i++) {
        if (i) r += ',';
        r += std::to_string(static_cast<u64>(static_cast<uint32_t>(static_cast<typename std::make_unsigned<C>::type>(p[i]))));
    }
    return r;
}

template <typename F>
inline void for_each_line(F f) {
    std::string line;
    while (std::getline(std::cin, line)) {
#ifdef VERIF_LEDGER
        // C16: only the ledger verdict of the case is printed: "L:<allocations>:<unknown or double
        // releases>:<blocks handed out twice>:<blocks still live once every object of the case is gone>"
        const vfl::Mark m0 = vfl::mark();
        { std::string ignored = f(line); }
        const vfl::Mark m1 = vfl::mark();
        std::string     out = "L:" + std::to_string(m1.allocs - m0.allocs) + ":" + std::to_string(m1.unknown_free - m0.unknown_free) + ":" +
                          std::to_string(m1.dup_alloc - m0.dup_alloc) + ":" + std::to_string((long long)m1.live - (long long)m0.live);
#else
        std::string out = f(line);
#endif
        std::fputs(out.c_str(), stdout);
        std::fputc('\n', stdout);
        std::fflush(stdout);
    }
}

} // namespace vf
#endif
