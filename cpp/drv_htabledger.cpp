// drv_htabledger.cpp -- C16 tie of coq/HtabLedgerModel.v: the SAME operation history on a pool of real tables,
// the number of live allocations counted through the library's own MemoryRecord seam (cpp/ledger.hpp,
// build with -DVERIF_LEDGER=1) after EVERY operation.
// case line:  <kind> <n> <op;op;...>
//   kind 0  HArray<String<char>, String<char>>   every key and every value owns exactly one block
//        1  HArray<String<char>, unsigned>       values own nothing
//        2  HList<String<char>>                  no values
//   ops (i, j: table numbers; k: key names; the model's flags g / ce are NOT read here):
//     I:i:k      Insert(Key{k}, value)            G:i:k:own  own=0 Get(ptr,len) / own=1 operator[](Key&&)   (kind 1)
//     R:i:k      Remove(ptr,len)                  X:i:n      RemoveIndex(n)
//     N:i:k:k2   Rename(Key{k}, Key{k2})          Z:i:n      Resize(n)           E:i:c  Expect(c)
//     C:i Compress   L:i Clear   T:i Reset   V:i:n Reserve(n)   S:i Sort(true)
//     P:i:j      t[i] = t[j] (also i = j)         M:i:j      t[i] = Move(t[j]) (also i = j)
//     A:i:j      t[i] += t[j]  (i != j)           B:i:j      t[i] += Move(t[j]) (i != j)
//     D:i        t[i].~Table(); new (&t[i]) Table()
//   an operation naming a table >= n is skipped (as in the model).
// output: per operation "<live>,<S>,<K>,<V>,<capacity of t[i] before>,<after>,<bad>" joined by ';', then "|<final>"
//   live  = allocations live in the ledger (relative to the empty pool); the driver's own temporaries are dead here
//   S,K,V = what the pool structurally owns: tables with storage, items whose Key owns a block, whose Value does
//   bad   = releases of unknown / already released blocks + blocks handed out twice during the operation
//   final = allocations still live after the pool is destroyed (must be 0)
// It does not use vf::for_each_line (which prints only the per-case verdict under VERIF_LEDGER).
#include "common.hpp"
#include "HArray.hpp"
#include "HList.hpp"
#include "String.hpp"

#ifndef VERIF_LEDGER
#error "build with -DVERIF_LEDGER=1"
#endif

using namespace Qentem;
using Key = String<char>;

static std::vector<std::string> split(const std::string &s, char c) {
    std::vector<std::string> r;
    size_t                   i = 0;
    while (true) {
        size_t j = s.find(c, i);
        if (j == std::string::npos) {
            r.push_back(s.substr(i));
            break;
        }
        r.push_back(s.substr(i, j - i));
        i = j + 1;
    }
    return r;
}

static std::string key_text(unsigned long k) {
    char buf[64];
    std::snprintf(buf, sizeof buf, "key-%06lu-with-some-padding", k);
    return buf;
}
static Key mk_key(unsigned long k) {
    const std::string s = key_text(k);
    return Key(s.c_str(), (SizeT)s.size());
}

template <int Kind>
struct Tr;
template <>
struct Tr<0> {
    using Table = HArray<Key, String<char>>;
    static void insert(Table &t, unsigned long k) {
        const std::string v = "value-of-" + key_text(k);
        t.Insert(mk_key(k), String<char>(v.c_str(), (SizeT)v.size()));
    }
    static bool val_owns(const typename Table::HItem &it) { return it.Value.First() != nullptr; }
};
template <>
struct Tr<1> {
    using Table = HArray<Key, unsigned>;
    static void insert(Table &t, unsigned long k) { t.Insert(mk_key(k), unsigned(k)); }
    static bool val_owns(const typename Table::HItem &) { return false; }
};
template <>
struct Tr<2> {
    using Table = HList<Key>;
    static void insert(Table &t, unsigned long k) { t.Insert(mk_key(k)); }
    static bool val_owns(const typename Table::HItem &) { return false; }
};

template <int Kind>
static std::string run_case(size_t n, const std::string &ops) {
    using T     = Tr<Kind>;
    using Table = typename T::Table;
    const long long base = (long long)vfl::st().live.size();
    std::string     out;
    {
        // the pool: raw storage (operator new[], not the library's allocator), tables constructed in place
        Table *pool = static_cast<Table *>(::operator new(sizeof(Table) * (n == 0 ? 1 : n)));
        for (size_t i = 0; i < n; i++) new (pool + i) Table();
        bool first = true;
        if (ops != "-" && !ops.empty()) {
            for (auto &os : split(ops, ';')) {
                auto a   = split(os, ':');
                auto num = [&](size_t i) -> unsigned long { return i < a.size() ? std::strtoul(a[i].c_str(), nullptr, 10) : 0; };
                const char   c = a[0].empty() ? '?' : a[0][0];
                const size_t i = num(1);
                const size_t j = num(2);
                const bool   binary = (c == 'P' || c == 'M' || c == 'A' || c == 'B');
                const vfl::Mark m0   = vfl::mark();
                SizeT           capb = 0, capa = 0;
                if (i < n && (!binary || j < n)) {
                    Table &t = pool[i];
                    capb     = t.Capacity();
                    switch (c) {
                        case 'I': T::insert(t, num(2)); break;
                        case 'G':
                            if constexpr (Kind == 1) {
                                if (num(3) != 0) {
                                    (void)t[mk_key(num(2))];
                                } else {
                                    const std::string s = key_text(num(2));
                                    (void)t.Get(s.c_str(), (SizeT)s.size());
                                }
                            }
                            break;
                        case 'R': {
                            const std::string s = key_text(num(2));
                            t.Remove(s.c_str(), (SizeT)s.size());
                            break;
                        }
                        case 'X': t.RemoveIndex((SizeT)num(2)); break;
                        case 'N': (void)t.Rename(mk_key(num(2)), mk_key(num(3))); break;
                        case 'Z': t.Resize((SizeT)num(2)); break;
                        case 'E': t.Expect((SizeT)num(2)); break;
                        case 'C': t.Compress(); break;
                        case 'L': t.Clear(); break;
                        case 'T': t.Reset(); break;
                        case 'V': t.Reserve((SizeT)num(2)); break;
                        case 'S': t.Sort(true); break;
                        case 'P': {
                            const Table &src = pool[j];
                            t                = src;
                            break;
                        }
                        case 'M': {
                            Table &src = pool[j];
                            t          = Memory::Move(src);
                            break;
                        }
                        case 'A':
                            if (i != j) {
                                const Table &src = pool[j];
                                t += src;
                            }
                            break;
                        case 'B':
                            if (i != j) t += Memory::Move(pool[j]);
                            break;
                        case 'D':
                            t.~Table();
                            new (&t) Table();
                            break;
                        default: return "BADOP";
                    }
                    capa = pool[i].Capacity();
                }
                const vfl::Mark m1 = vfl::mark();
                unsigned long   S = 0, K = 0, V = 0;
                for (size_t q = 0; q < n; q++) {
                    const Table &tq = pool[q];
                    if (tq.Capacity() != 0) ++S;
                    const auto *it = tq.First();
                    for (SizeT e = 0; e < tq.Size(); e++) {
                        if (it[e].Key.First() != nullptr) ++K;
                        if (T::val_owns(it[e])) ++V;
                    }
                }
                if (!first) out += ';';
                first = false;
                out += std::to_string((long long)m1.live - base) + "," + std::to_string(S) + "," + std::to_string(K) + "," + std::to_string(V) + "," +
                       std::to_string(capb) + "," + std::to_string(capa) + "," +
                       std::to_string((m1.unknown_free - m0.unknown_free) + (m1.dup_alloc - m0.dup_alloc));
            }
        }
        if (first) out = "-";
        for (size_t i = 0; i < n; i++) pool[i].~Table();
        ::operator delete(pool);
    }
    out += "|" + std::to_string((long long)vfl::st().live.size() - base);
    return out;
}

int main() {
    std::string line;
    while (std::getline(std::cin, line)) {
        auto        tk = vf::split_ws(line);
        std::string out;
        if (tk.size() < 3) {
            out = "BADCASE";
        } else {
            const size_t n = (size_t)std::strtoul(tk[1].c_str(), nullptr, 10);
            switch (std::atoi(tk[0].c_str())) {
                case 0: out = run_case<0>(n, tk[2]); break;
                case 1: out = run_case<1>(n, tk[2]); break;
                case 2: out = run_case<2>(n, tk[2]); break;
                default: out = "BADCASE";
            }
        }
        std::fputs(out.c_str(), stdout);
        std::fputc('\n', stdout);
        std::fflush(stdout);
    }
    return 0;
}
