// drv_ledger_nested.cpp -- C16: Array<Node> with nested Array<Node> (Node = {id; kids}), explicit operations at
// explicit locations, the counterpart of coq/LedgerNestedModel.v (cpp/drv_nested.cpp draws the same operations
// from a script of choices and compares with a std::vector mirror).
// case line:  <op;op;...>   locations are dot separated: 0 = the array a, 0.i.0 = a[i].kids, 0.i.0.j.0 = a[i].kids[j].kids
//   P/<d>/<id>/<g>  d += Node{id}     M/<d>/<s>  d = Move(s)     C/<d>/<s>  d = s
//   A/<d>/<s>/<g>   d += s            B/<d>/<s>/<g>  d += Move(s)          (g: growth flag of the model, unused here)
// An operation whose locations do not resolve is skipped; so are (as in the model / outside the domain) d = Move(s)
// and d += Move(s) with d strictly inside s, and d = s / d += s with d strictly inside s (the source would change
// while it is read).
// output: contents after every step ("[1[]2[3[]]]"), joined by ';' ("-" for no step).
// With -DVERIF_LEDGER=1 vf::for_each_line prints only the allocation-ledger verdict of the case.
#include "common.hpp"
#include "Array.hpp"

using namespace Qentem;

struct Node {
    int         id{0};
    Array<Node> kids;
};

static std::vector<std::string> split(const std::string &s, char sep) {
    std::vector<std::string> r;
    size_t                   i = 0;
    while (i <= s.size()) {
        size_t j = s.find(sep, i);
        if (j == std::string::npos) j = s.size();
        r.push_back(s.substr(i, j - i));
        i = j + 1;
    }
    return r;
}
static std::vector<unsigned> path_of(const std::string &s) {
    std::vector<unsigned> p;
    for (auto &t : split(s, '.')) p.push_back((unsigned)std::strtoul(t.c_str(), nullptr, 10));
    return p;
}
static Array<Node> *resolve(Array<Node> &a, const std::vector<unsigned> &p) {
    if (p.empty() || p[0] != 0 || (p.size() % 2) != 1) return nullptr;
    Array<Node> *cur = &a;
    for (size_t k = 1; k + 1 < p.size(); k += 2) {
        if (p[k + 1] != 0 || p[k] >= cur->Size()) return nullptr;
        cur = &(cur->Storage()[p[k]].kids);
    }
    return cur;
}
static bool is_prefix(const std::vector<unsigned> &p, const std::vector<unsigned> &q) {
    if (p.size() > q.size()) return false;
    for (size_t i = 0; i < p.size(); i++) if (p[i] != q[i]) return false;
    return true;
}
static void flat(const Array<Node> &a, std::string &o) {
    o += '[';
    for (const Node *n = a.First(); n != a.End(); ++n) {
        o += std::to_string(n->id);
        flat(n->kids, o);
    }
    o += ']';
}

int main() {
    vf::for_each_line([](const std::string &line) -> std::string {
        auto tk = vf::split_ws(line);
        if (tk.empty()) return "BADCASE";
        Array<Node> a;
        std::string out;
        bool        first = true;
        for (auto &op : split(tk[0], ';')) {
            if (op.empty()) continue;
            auto f = split(op, '/');
            if (f.size() < 3) return "BADOP";
            const auto   pd = path_of(f[1]);
            Array<Node> *d  = resolve(a, pd);
            if (f[0] == "P") {
                if (d != nullptr) {
                    Node nd;
                    nd.id = (int)std::strtoul(f[2].c_str(), nullptr, 10);
                    *d += Memory::Move(nd);
                }
            } else {
                const auto   ps = path_of(f[2]);
                Array<Node> *s  = resolve(a, ps);
                const bool   d_inside_s = is_prefix(ps, pd) && ps.size() < pd.size();
                if (d != nullptr && s != nullptr && !d_inside_s) {
                    if (f[0] == "M") *d = Memory::Move(*s);
                    else if (f[0] == "C") { const Array<Node> &cs = *s; *d = cs; }
                    else if (f[0] == "A") { const Array<Node> &cs = *s; *d += cs; }
                    else if (f[0] == "B") *d += Memory::Move(*s);
                    else return "BADOP";
                }
            }
            if (!first) out += ';';
            first = false;
            flat(a, out);
        }
        return first ? "-" : out;
    });
    return 0;
}
