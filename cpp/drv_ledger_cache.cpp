// drv_ledger_cache.cpp -- C16: lifetimes of template tag caches (Array<Tags::TagBit>) through the ledger.
// Built with -DVERIF_LEDGER=1 (vf::for_each_line prints the ledger verdict L:a:u:d:l of the case).
//
// case line:  <width 0..3> <script> <template0 units> <template1 units> <json units>
// A pool of three caches; every cache remembers the template it was parsed from ("pure"), renders are
// only issued for pure caches with their own template (offsets in tag records refer to that text).
// script := op;op;...
//   P:i:t   Reset cache i, Parse template t into it              Q:i:t  Parse template t into it WITHOUT clearing
//   R:i:v   render cache i with its template (v: 0 value, 1 another value, 2 into a non-empty stream)
//   G:i:t:v Template::Render(template t, value, stream, cache i)  (parses when the cache is empty)
//   F:t:v   Template::Render without a cache
//   C:i:j   cache i = cache j (copy: TagBit copy constructor)     K:i:j  destroy i, copy-construct from j
//   M:i:j   cache i = Move(cache j)                               V:i:j  destroy i, move-construct from j
//   A:i:j   cache i += cache j  (copy of every tag)               B:i:j  cache i += Move(cache j)   (i != j)
//   L:i Clear   T:i Reset   D:i:n Drop(n)   Z:i:n Resize(n)   E:i Compress
//   X:i:k   move tag k of cache i into a local TagBit (moved-from tag stays in the array)
//   Y:i:k   copy tag k of cache i into a local TagBit, then destroy the copy
//   W:i:k:j:m   tag k of cache i = Move(copy of tag m of cache j)      (TagBit move assignment: Clear + adopt)
//   O:i:k   push a copy of tag k of cache i at the end of cache i (element of the growing array itself)
//   N:i:k   TagBit::Clear + Make...Tag a second time on a local copy of tag k (documented reuse protocol)
//   S:t     TemplateCore::ParseExpressions over template t as an expression text (QExpression lists: copy, move, assign)
#include "common.hpp"
#include "JSON.hpp"
#include "Template.hpp"

using namespace Qentem;
using Cache = Array<Tags::TagBit>;

static std::vector<std::string> split(const std::string &s, char sep) {
    std::vector<std::string> r;
    size_t                   i = 0;
    while (i <= s.size()) {
        size_t j = s.find(sep, i);
        if (j == std::string::npos) j = s.size();
        r.push_back(s.substr(i, j - i));
        i = j + 1;
    }
    return r;
}
static unsigned num(const std::string &s) { return (unsigned)std::strtoul(s.c_str(), nullptr, 10); }

struct Pool {
    alignas(Cache) unsigned char raw[3][sizeof(Cache)];
    int  tmpl[3];  // template the cache was parsed from, -1 = none
    bool pure[3];  // the tags are exactly a parse of tmpl (or a copy of one)
    Pool() {
        for (int i = 0; i < 3; i++) {
            new (raw[i]) Cache();
            tmpl[i] = -1;
            pure[i] = true;
        }
    }
    ~Pool() {
        for (int i = 0; i < 3; i++) at(i).~Cache();
    }
    Cache &at(unsigned i) { return *reinterpret_cast<Cache *>(raw[i % 3]); }
    void  *slot(unsigned i) { return raw[i % 3]; }
};

template <typename C>
static std::string run_case(const std::string &script, const std::vector<vf::u64> &t0, const std::vector<vf::u64> &t1,
                            const std::vector<vf::u64> &json) {
    using Core = TemplateCore<C, Value<C>, StringStream<C>>;
    vf::ExactBuf<C> jb(json);
    const Value<C>  v = JSON::Parse((const C *)jb.p, (SizeT)jb.n);
    Value<C>        v2;
    v2 += 7U;
    v2 += v;
    vf::ExactBuf<C> tb0(t0), tb1(t1);
    const C        *tp[2] = {(const C *)tb0.p, (const C *)tb1.p};
    const SizeT     tl[2] = {(SizeT)tb0.n, (SizeT)tb1.n};
    Pool            P;
    unsigned        done = 0;
    for (auto &tok : split(script, ';')) {
        if (tok.empty()) continue;
        auto               f  = split(tok, ':');
        const std::string &nm = f[0];
        const unsigned     i  = (f.size() > 1 ? num(f[1]) : 0) % 3;
        const unsigned     a2 = f.size() > 2 ? num(f[2]) : 0;
        const unsigned     a3 = f.size() > 3 ? num(f[3]) : 0;
        Cache             &c  = P.at(i);
        auto value_of = [&](unsigned k) -> const Value<C> & { return (k % 3 == 1) ? v2 : v; };
        auto render   = [&](Cache &cc, unsigned t, unsigned k) {
            StringStream<C> ss;
            if (k % 3 == 2) { const C pre[3] = {C('<'), C('{'), C(0)}; ss.Write(pre, 2); }
            Core core{tp[t], tl[t]};
            core.Render(cc, value_of(k), ss);
        };
        if (nm == "P") { const unsigned t = a2 & 1; c.Reset(); Core::Parse(tp[t], tl[t], c); P.tmpl[i] = (int)t; P.pure[i] = true; }
        else if (nm == "Q") {
            const unsigned t = a2 & 1;
            const bool     was_empty = c.IsEmpty();
            Core::Parse(tp[t], tl[t], c);
            if (was_empty) { P.tmpl[i] = (int)t; P.pure[i] = true; } else P.pure[i] = false;
        }
        else if (nm == "R") { if (P.pure[i] && P.tmpl[i] >= 0) render(c, (unsigned)P.tmpl[i], a2); }
        else if (nm == "G") {
            const unsigned t = a2 & 1;
            if (c.IsEmpty()) { P.tmpl[i] = (int)t; P.pure[i] = true; }
            if (P.pure[i] && P.tmpl[i] == (int)t) {
                StringStream<C> ss;
                if (a3 % 3 == 2) { const C pre[3] = {C('<'), C('{'), C(0)}; ss.Write(pre, 2); }
                Template::Render(tp[t], tl[t], value_of(a3), ss, c);
            }
        }
        else if (nm == "F") { const unsigned t = i & 1; StringStream<C> ss; Template::Render(tp[t], tl[t], value_of(a2), ss); }
        else if (nm == "C") { const unsigned j = a2 % 3; const Cache *q = &P.at(j); c = *q; P.tmpl[i] = P.tmpl[j]; P.pure[i] = P.pure[j]; }
        else if (nm == "K") { const unsigned j = a2 % 3; if (j != i) { c.~Cache(); new (P.slot(i)) Cache(P.at(j)); P.tmpl[i] = P.tmpl[j]; P.pure[i] = P.pure[j]; } }
        else if (nm == "M") {
            const unsigned j = a2 % 3; Cache *q = &P.at(j); c = Memory::Move(*q);
            if (j != i) { P.tmpl[i] = P.tmpl[j]; P.pure[i] = P.pure[j]; P.tmpl[j] = -1; P.pure[j] = true; }
        }
        else if (nm == "V") {
            const unsigned j = a2 % 3;
            if (j != i) { c.~Cache(); new (P.slot(i)) Cache(Memory::Move(P.at(j))); P.tmpl[i] = P.tmpl[j]; P.pure[i] = P.pure[j]; P.tmpl[j] = -1; P.pure[j] = true; }
        }
        else if (nm == "A") { const unsigned j = a2 % 3; if (done & 1) c += P.at(j); else c.Insert(P.at(j)); P.pure[i] = false; }
        else if (nm == "B") { const unsigned j = a2 % 3; if (j != i) { if (done & 1) c += Memory::Move(P.at(j)); else c.Insert(Memory::Move(P.at(j))); P.pure[i] = false; P.tmpl[j] = -1; P.pure[j] = true; } }
        else if (nm == "L") { c.Clear(); P.tmpl[i] = -1; P.pure[i] = true; }
        else if (nm == "T") { c.Reset(); P.tmpl[i] = -1; P.pure[i] = true; }
        else if (nm == "D") { if (a2 != 0 && c.Size() != 0) P.pure[i] = false; c.Drop((SizeT)a2); }
        else if (nm == "Z") { if ((SizeT)a2 < c.Size()) P.pure[i] = false; c.Resize((SizeT)a2); }
        else if (nm == "E") c.Compress();
        else if (nm == "X") { if (a2 < c.Size()) { Tags::TagBit local{Memory::Move(c.Storage()[a2])}; P.pure[i] = false; } }
        else if (nm == "Y") { if (a2 < c.Size()) { Tags::TagBit local{static_cast<const Tags::TagBit &>(c.First()[a2])}; (void)local; } }
        else if (nm == "W") {
            const unsigned j = a3 % 3, m = f.size() > 4 ? num(f[4]) : 0;
            Cache &s = P.at(j);
            if (a2 < c.Size() && m < s.Size()) {
                Tags::TagBit cpy{static_cast<const Tags::TagBit &>(s.First()[m])};
                c.Storage()[a2] = Memory::Move(cpy);
                P.pure[i] = false;
            }
        }
        else if (nm == "O") { if (a2 < c.Size()) { if (done & 1) c += static_cast<const Tags::TagBit &>(c.First()[a2]); else c.Insert(static_cast<const Tags::TagBit &>(c.First()[a2])); P.pure[i] = false; } }
        else if (nm == "N") {
            if (a2 < c.Size()) {
                Tags::TagBit local{static_cast<const Tags::TagBit &>(c.First()[a2])};
                local.Clear(); // "use before calling Make... the second time"
                switch (done % 4) {
                    case 0: local.MakeVariableTag(); break;
                    case 1: local.MakeMathTag(); break;
                    case 2: local.MakeLoopTag(); break;
                    default: local.MakeIfTag(); break;
                }
            }
        }
        else if (nm == "S") {
            // the expression text is followed by one more unit (as inside a tag, where the closing quote / brace follows):
            // getOperation's one-unit look-ahead at the last operator is C01's subject (finding D80), not a lifetime question
            std::vector<vf::u64> e = (i & 1) ? t1 : t0;
            const SizeT          n = (SizeT)e.size();
            e.push_back('}');
            vf::ExactBuf<C> eb(e);
            auto            ex  = Core::ParseExpressions((const C *)eb.p, n);
            auto            ex2 = ex;
            auto            ex3 = Memory::Move(ex);
            ex                  = ex2;
            (void)ex3;
        }
        else return "BADOP";
        ++done;
    }
    return "ok";
}

int main() {
    vf::for_each_line([](const std::string &line) -> std::string {
        auto tk = vf::split_ws(line);
        if (tk.size() < 5) return "BADCASE";
        const int w  = std::atoi(tk[0].c_str());
        auto      t0 = vf::parse_list(tk[2]);
        auto      t1 = vf::parse_list(tk[3]);
        auto      j  = vf::parse_list(tk[4]);
        switch (w) {
            case 0: return run_case<char>(tk[1], t0, t1, j);
            case 1: return run_case<char16_t>(tk[1], t0, t1, j);
            case 2: return run_case<char32_t>(tk[1], t0, t1, j);
            default: return run_case<wchar_t>(tk[1], t0, t1, j);
        }
    });
    return 0;
}
