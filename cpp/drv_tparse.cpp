// drv_tparse.cpp -- dumps the tag tree TemplateCore<...>::Parse builds (component tparse, C01/C02).
// case line:  <width 0..3> <template units>
// output: ONE token, the whole tree with every field of the Tags.hpp records:
//   TAGS := [tag;tag;...]            (in array order; [] when empty)
//   V(Offset,Length,IDLength,Level)            VariableTag (var)      R(...) raw variable
//   M(Offset,EndOffset,E)                      MathTag
//   S(Offset,EndOffset,Variable.Offset,Variable.Length,Variable.IDLength,Variable.Level,TAGS)
//   I(Offset,Length,TrueOffset,TrueLength,FalseOffset,FalseLength,TrueTagsStartID,FalseTagsStartID,E,TAGS)
//   L(Offset,EndOffset,ContentOffset,ValueOffset,ValueLength,GroupOffset,GroupLength,Options,Level,
//     Set.Offset,Set.Length,Set.IDLength,Set.Level,TAGS)
//   F(Offset,EndOffset,[C(Offset,EndOffset,E,TAGS);...])
//   E := {e;e;...}   n(Operation,Type,bits)  t(Operation,Value.Offset,Value.Length)
//                    v(Operation,Offset,Length,IDLength,Level)  s(Operation,E)
// The private members are not needed: Tags.hpp records and Parse are public.
#include "common.hpp"
#define private public
#include "JSON.hpp"
#include "Template.hpp"
#undef private

using namespace Qentem;

static std::string U(unsigned long long v) { return std::to_string(v); }

static std::string dump_var(const Tags::VariableTag &v) {
    return U(v.Offset) + "," + U(v.Length) + "," + U(v.IDLength) + "," + U(v.Level);
}

static std::string dump_exprs(const Array<QExpression> &ex) {
    std::string r = "{";
    for (SizeT k = 0; k < ex.Size(); k++) {
        const QExpression &e = ex.First()[k];
        if (k) r += ";";
        const unsigned op = (unsigned)e.Operation;
        switch (e.Type) {
            case QExpression::ExpressionType::RealNumber:
            case QExpression::ExpressionType::NaturalNumber:
            case QExpression::ExpressionType::IntegerNumber:
                r += "n(" + U(op) + "," + U((unsigned)e.Type) + "," + U(e.Value.Number.Natural) + ")";
                break;
            case QExpression::ExpressionType::NotANumber:
                r += "t(" + U(op) + "," + U(e.Value.Offset) + "," + U(e.Value.Length) + ")";
                break;
            case QExpression::ExpressionType::Variable:
                r += "v(" + U(op) + "," + dump_var(e.Variable) + ")";
                break;
            case QExpression::ExpressionType::SubOperation:
                r += "s(" + U(op) + "," + dump_exprs(e.SubExpressions) + ")";
                break;
            default:
                r += "e(" + U(op) + ")";
        }
    }
    return r + "}";
}

static std::string dump_tags(const Array<Tags::TagBit> &tags) {
    std::string r = "[";
    for (SizeT k = 0; k < tags.Size(); k++) {
        const Tags::TagBit &t = tags.First()[k];
        if (k) r += ";";
        switch (t.GetType()) {
            case Tags::TagType::Variable: r += "V(" + dump_var(t.GetVariableTag()) + ")"; break;
            case Tags::TagType::RawVariable: r += "R(" + dump_var(t.GetVariableTag()) + ")"; break;
            case Tags::TagType::Math: {
                const Tags::MathTag &m = t.GetMathTag();
                r += "M(" + U(m.Offset) + "," + U(m.EndOffset) + "," + dump_exprs(m.Expressions) + ")";
                break;
            }
            case Tags::TagType::SuperVariable: {
                const Tags::SuperVariableTag &s = t.GetSuperVariableTag();
                r += "S(" + U(s.Offset) + "," + U(s.EndOffset) + "," + dump_var(s.Variable) + "," + dump_tags(s.SubTags) + ")";
                break;
            }
            case Tags::TagType::InLineIf: {
                const Tags::InLineIfTag &i = t.GetInLineIfTag();
                r += "I(" + U(i.Offset) + "," + U(i.Length) + "," + U(i.TrueOffset) + "," + U(i.TrueLength) + "," + U(i.FalseOffset) + "," +
                     U(i.FalseLength) + "," + U(i.TrueTagsStartID) + "," + U(i.FalseTagsStartID) + "," + dump_exprs(i.Case) + "," +
                     dump_tags(i.SubTags) + ")";
                break;
            }
            case Tags::TagType::Loop: {
                const Tags::LoopTag &l = t.GetLoopTag();
                r += "L(" + U(l.Offset) + "," + U(l.EndOffset) + "," + U(l.ContentOffset) + "," + U(l.ValueOffset) + "," + U(l.ValueLength) + "," +
                     U(l.GroupOffset) + "," + U(l.GroupLength) + "," + U(l.Options) + "," + U(l.Level) + "," + dump_var(l.Set) + "," +
                     dump_tags(l.SubTags) + ")";
                break;
            }
            case Tags::TagType::If: {
                const Tags::IfTag &f = t.GetIfTag();
                r += "F(" + U(f.Offset) + "," + U(f.EndOffset) + ",[";
                for (SizeT c = 0; c < f.Cases.Size(); c++) {
                    const Tags::IfTagCase &ic = f.Cases.First()[c];
                    if (c) r += ";";
                    r += "C(" + U(ic.Offset) + "," + U(ic.EndOffset) + "," + dump_exprs(ic.Case) + "," + dump_tags(ic.SubTags) + ")";
                }
                r += "])";
                break;
            }
            default: r += "N()";
        }
    }
    return r + "]";
}

template <typename C>
static std::string run_case(const std::vector<vf::u64> &tmpl) {
    vf::ExactBuf<C>     tb(tmpl);
    Array<Tags::TagBit> cache;
    TemplateCore<C, Value<C>, StringStream<C>>::Parse((const C *)tb.p, (SizeT)tb.n, cache);
    return dump_tags(cache);
}

int main() {
    vf::for_each_line([](const std::string &line) -> std::string {
        auto tk = vf::split_ws(line);
        if (tk.size() < 2) return "BADCASE";
        int  w = std::atoi(tk[0].c_str());
        auto t = vf::parse_list(tk[1]);
        switch (w) {
            case 0: return run_case<char>(t);
            case 1: return run_case<char16_t>(t);
            case 2: return run_case<char32_t>(t);
            default: return run_case<wchar_t>(t);
        }
    });
    return 0;
}
