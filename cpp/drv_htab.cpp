// drv_htab.cpp -- C13 correspondence driver (HashTable.hpp through HArray / HList).
// case lines:
//   H <units>                      -> StringUtils::Hash of the key (decimal)
//   T <inst> <keys> <ops>          -> trace: one observation per operation, joined by ';'
//      inst 0 HArray<String<char>, String<char>>   value n = decimal text of n, 0 = String{}
//           1 HArray<String<char>, Value<char>>    value 0 = Value{}, odd n = number, even n = object {"v": n}
//           2 HList<String<char>>                  no values (always 0)
//      keys  k0/k1/...  each a comma separated byte list, '-' = empty key
//      ops   op;op;...   I:k:v Insert  G:k:v x=Get(k),report,x=v  O:k:v same through operator[](Key&&)
//            J:k get-or-create without assignment (HList: Insert(ptr,len))   R:k Remove  X:i RemoveIndex
//            Y:k RemoveIndex(GetKeyIndex(k))
//            N:a:b Rename  Z:n Resize  E:n Expect  C Compress  L Clear  T Reset  V:n Reserve  S:a Sort
//            P copy round trip  M move round trip  U:mode:ins:rm  merge (ins k.v.k.v / '_', rm k.k / '_')
// observation: groups joined by '|', numbers by ',', empty group '-':
//   out | ActualSize | live (keyindex,value)* by slot | (has,value,roundtrip) per key | Size,(index+1)* when clean
// `clean` (no removed slot can be present) is derived from the operations and ActualSize only,
// never from Size/Capacity, so that growth policy is not observable.
#include "common.hpp"
#include "HArray.hpp"
#include "HList.hpp"
#include "String.hpp"
#include "Value.hpp"

using namespace Qentem;
using vf::u64;
using Key = String<char>;

struct KeyTab {
    std::vector<vf::ExactBuf<char> *> bufs;
    ~KeyTab() {
        for (auto *b : bufs) delete b;
    }
    const char *ptr(size_t i) const { return bufs[i]->p; }
    SizeT       len(size_t i) const { return (SizeT)bufs[i]->n; }
    size_t      size() const { return bufs.size(); }
    Key         key(size_t i) const { return Key((const char *)bufs[i]->p, (SizeT)bufs[i]->n); }
    u64         index_of(const Key &k) const {
        for (size_t i = 0; i < bufs.size(); i++) {
            if (k.Length() == len(i) && std::memcmp(k.First() ? k.First() : "", ptr(i), len(i)) == 0) return i;
        }
        return bufs.size();
    }
};

static std::vector<std::string> split(const std::string &s, char c) {
    std::vector<std::string> r;
    size_t                   i = 0;
    while (true) {
        size_t j = s.find(c, i);
        if (j == std::string::npos) {
            r.push_back(s.substr(i));
            break;
        }
        r.push_back(s.substr(i, j - i));
        i = j + 1;
    }
    return r;
}

// ---- value codecs ----
struct StrVal {
    using T = String<char>;
    static T make(u64 n) {
        if (n == 0) return T{};
        std::string s = std::to_string(n);
        return T(s.c_str(), (SizeT)s.size());
    }
    static u64 read(const T &v) {
        if (v.Length() == 0) return 0;
        u64 r = 0;
        for (SizeT i = 0; i < v.Length(); i++) {
            char c = v.First()[i];
            if (c < '0' || c > '9') return 999999999ULL;
            r = r * 10 + (u64)(c - '0');
        }
        return r;
    }
};
struct ValVal {
    using T = Value<char>;
    static T make(u64 n) {
        if (n == 0) return T{};
        if (n & 1U) return T{SizeT64(n)};
        T v;
        v["v"] = SizeT64(n);
        v["pad"] = "some text that owns memory";
        return v;
    }
    static u64 read(const T &v) {
        if (v.IsUndefined()) return 0;
        if (v.IsNumber()) return v.GetUInt64();
        if (v.IsObject()) {
            const T *x = v.GetValue("v", 1);
            if (x != nullptr && x->IsNumber()) return x->GetUInt64();
        }
        return 999999998ULL;
    }
};

template <typename Table, typename Codec, bool HasVal>
struct Runner {
    const KeyTab &kt;
    Table         h;
    bool          clean = true;
    explicit Runner(const KeyTab &k) : kt(k) {}

    static void grp(std::string &o, const std::vector<u64> &g) {
        if (!o.empty()) o += '|';
        if (g.empty()) {
            o += '-';
            return;
        }
        for (size_t i = 0; i < g.size(); i++) {
            if (i) o += ',';
            o += std::to_string(g[i]);
        }
    }

    // var selects the overload; the lvalue arguments must come back unchanged
    bool insert(Table &t, size_t k, u64 v, unsigned var = 0) {
        bool ok = true;
        if constexpr (HasVal) {
            using V = typename Codec::T;
            switch (var & 3U) {
                case 0: t.Insert(kt.key(k), Codec::make(v)); break;
                case 1: {
                    const Key kk = kt.key(k);
                    t.Insert(kk, Codec::make(v));
                    ok = (kt.index_of(kk) == k);
                    break;
                }
                case 2: {
                    const V vv = Codec::make(v);
                    t.Insert(kt.key(k), vv);
                    ok = (Codec::read(vv) == v);
                    break;
                }
                default: {
                    const Key kk = kt.key(k);
                    const V   vv = Codec::make(v);
                    t.Insert(kk, vv);
                    ok = (kt.index_of(kk) == k) && (Codec::read(vv) == v);
                }
            }
        } else {
            if ((var & 1U) != 0) {
                const Key kk = kt.key(k);
                t.Insert(kk);
                ok = (kt.index_of(kk) == k);
            } else {
                t.Insert(kt.key(k));
            }
        }
        return ok;
    }

    std::string observe(u64 out) {
        std::string o;
        grp(o, {out});
        grp(o, {(u64)h.ActualSize()});
        std::vector<u64> lv;
        for (SizeT i = 0; i < h.Size(); i++) {
            const Key *k  = h.GetKey(i);
            const auto *it = h.GetItem(i);
            if ((k == nullptr) != (it == nullptr) || (k != nullptr && k != &(it->Key))) {
                lv.push_back(777777);
            }
            if constexpr (HasVal) {
                auto *v = h.GetValue(i);
                if ((k == nullptr) != (v == nullptr)) lv.push_back(777778);
                if (k != nullptr && v != nullptr) {
                    lv.push_back(kt.index_of(*k));
                    lv.push_back(Codec::read(*v));
                }
            } else if (k != nullptr) {
                lv.push_back(kt.index_of(*k));
                lv.push_back(0);
            }
        }
        // iteration through begin()/end() (const and non-const range-for) must visit the same slots: the live
        // entries in the same order as GetKey(i)/GetValue(i); a removed slot shows Hash == 0, the empty key and
        // the default value
        {
            SizeT n = 0;
            for (const auto &x : static_cast<const Table &>(h)) {
                (void)x;
                ++n;
            }
            if (n != h.Size()) lv.push_back(777779);
            std::vector<u64> it2;
            SizeT            m = 0;
            for (auto &x : h) {
                ++m;
                if (x.Hash != 0) {
                    it2.push_back(kt.index_of(x.Key));
                    if constexpr (HasVal) {
                        it2.push_back(Codec::read(x.Value));
                    } else {
                        it2.push_back(0);
                    }
                } else {
                    if (x.Key.Length() != 0) lv.push_back(777781);
                    if constexpr (HasVal) {
                        if (Codec::read(x.Value) != 0) lv.push_back(777782);
                    }
                }
            }
            if (m != h.Size() || it2 != lv) lv.push_back(777780);
        }
        grp(o, lv);
        std::vector<u64> pr, ix;
        ix.push_back((u64)h.Size());
        for (size_t j = 0; j < kt.size(); j++) {
            const bool  has = h.Has(kt.ptr(j), kt.len(j));
            const Key   kk  = kt.key(j);
            const bool  has2 = h.Has(kk);
            const auto *itk = h.GetItem(kk);
            u64         v   = 0;
            const void *vp  = nullptr;
            if constexpr (HasVal) {
                auto *p = h.GetValue(kt.ptr(j), kt.len(j));
                vp      = p;
                if (p != nullptr) v = Codec::read(*p);
                if ((p != nullptr) != has) v = 888888;
                if ((const void *)h.GetValue(kk) != vp) v = 888890;   // GetValue(const Key_T &)
            }
            if (has != has2 || (itk != nullptr) != has) v = 888889;
            SizeT idx = 0;
            u64   rt  = 0;
            if (h.GetKeyIndex(idx, kt.ptr(j), kt.len(j))) {
                const Key *k2 = h.GetKey(idx);
                rt            = 1;
                if (k2 == nullptr || kt.index_of(*k2) != j || h.GetItem(idx) != itk) rt = 2;
                if constexpr (HasVal) {
                    if ((const void *)h.GetValue(idx) != vp) rt = 2;
                }
                SizeT idx2 = 0;
                if (!h.GetKeyIndex(idx2, kk) || idx2 != idx) rt = 2;
                ix.push_back((u64)idx + 1);
            } else {
                ix.push_back(0);
            }
            pr.push_back(has ? 1 : 0);
            pr.push_back(v);
            pr.push_back(rt);
        }
        grp(o, pr);
        if (clean) {
            grp(o, ix);
        } else {
            grp(o, {});
        }
        return o;
    }

    std::string step(const std::string &ops) {
        auto        a    = split(ops, ':');
        const char  c    = a[0].empty() ? '?' : a[0][0];
        auto        num  = [&](size_t i) -> u64 { return i < a.size() ? std::strtoull(a[i].c_str(), nullptr, 10) : 0; };
        u64         out  = 0;
        const SizeT act0 = h.ActualSize();
        switch (c) {
            case 'I':
                if (!insert(h, num(1), num(2), (unsigned)num(3))) out = 998;
                break;
            case 'Q': {
                // assignment from an empty table: by copy (0) / by move (1)
                Table e;
                if (num(1) == 1) {
                    h = Memory::Move(e);
                } else {
                    const Table &ce = e;
                    h               = ce;
                }
                if (h.Size() != 0 || h.Capacity() != 0) out = 996;
                clean = true;
                break;
            }
            case 'W': {
                Table fresh((SizeT)num(1));   // explicit HashTable(SizeT): capacity for num(1) items, no items
                if (fresh.Size() != 0 || (num(1) != 0 && fresh.Capacity() < num(1)) || (num(1) == 0 && fresh.Capacity() != 0)) out = 997;
                h     = Memory::Move(fresh);
                clean = true;
                break;
            }
            case 'G':
                if constexpr (HasVal) {
                    auto &x = h.Get(kt.ptr(num(1)), kt.len(num(1)));
                    out     = 3 + Codec::read(x);
                    x       = Codec::make(num(2));
                }
                break;
            case 'O':
                if constexpr (HasVal) {
                    auto &x = h[kt.key(num(1))];
                    out     = 3 + Codec::read(x);
                    x       = Codec::make(num(2));
                }
                break;
            case 'J':
                if constexpr (HasVal) {
                    const Key kk = kt.key(num(1));
                    (void)h[kk];
                } else {
                    h.Insert(kt.ptr(num(1)), kt.len(num(1)));
                }
                break;
            case 'R':
                if (num(2) == 1) {
                    h.Remove(kt.key(num(1)));
                } else if (num(2) == 2) {
                    // Remove(const Char_T *): a NUL-terminated string, i.e. the key up to its first NUL
                    std::vector<u64> z;
                    for (SizeT q = 0; q < kt.len(num(1)); q++) z.push_back((unsigned char)kt.ptr(num(1))[q]);
                    z.push_back(0);
                    vf::ExactBuf<char> zb(z);
                    h.Remove((const char *)zb.p);
                } else {
                    h.Remove(kt.ptr(num(1)), kt.len(num(1)));
                }
                if (h.ActualSize() != act0) clean = false;
                break;
            case 'X': {
                const bool was_clean = clean;
                h.RemoveIndex((SizeT)num(1));
                clean = was_clean ? !(num(1) < act0) : false;
                break;
            }
            case 'Y': {
                SizeT idx = 0;
                if (h.GetKeyIndex(idx, kt.ptr(num(1)), kt.len(num(1)))) {
                    h.RemoveIndex(idx);
                }
                if (h.ActualSize() != act0) clean = false;
                break;
            }
            case 'N': {
                bool ok;
                if (num(3) == 1) {
                    ok = h.Rename(kt.key(num(1)), kt.key(num(2)));  // Key&& overload
                } else {
                    const Key to = kt.key(num(2));
                    ok           = h.Rename(kt.key(num(1)), to);
                }
                out = ok ? 2 : 1;
                break;
            }
            case 'Z':
                h.Resize((SizeT)num(1));
                clean = true;
                break;
            case 'E': h.Expect((SizeT)num(1)); break;
            case 'C':
                h.Compress();
                clean = true;
                break;
            case 'L':
                h.Clear();
                clean = true;
                break;
            case 'T':
                h.Reset();
                clean = true;
                break;
            case 'V':
                h.Reserve((SizeT)num(1));
                clean = true;
                break;
            case 'S': h.Sort(num(1) != 0); break;
            case 'P': {
                Table cpy(h);
                h     = cpy;
                clean = true;
                break;
            }
            case 'M': {
                Table m(Memory::Move(h));
                if (h.Size() != 0 || h.Capacity() != 0 || h.First() != nullptr) out = 999;
                h = Memory::Move(m);
                if (m.Size() != 0 || m.Capacity() != 0) out = 999;
                break;
            }
            case 'U': {
                Table o;
                if (a.size() > 2 && a[2] != "_") {
                    auto iv = split(a[2], '.');
                    for (size_t i = 0; i + 1 < iv.size(); i += 2) {
                        insert(o, std::strtoull(iv[i].c_str(), nullptr, 10), std::strtoull(iv[i + 1].c_str(), nullptr, 10));
                    }
                }
                if (a.size() > 3 && a[3] != "_") {
                    for (auto &r : split(a[3], '.')) {
                        size_t k = std::strtoull(r.c_str(), nullptr, 10);
                        o.Remove(kt.ptr(k), kt.len(k));
                    }
                }
                if (num(1) == 1) {
                    h += Memory::Move(o);
                    if (o.Size() != 0 || o.Capacity() != 0) out = 999;
                } else {
                    const SizeT before = o.ActualSize();
                    h += o;
                    if (o.ActualSize() != before) out = 999;
                }
                break;
            }
            default: return "BADOP";
        }
        return observe(out);
    }

    std::string run(const std::string &ops) {
        std::string res;
        if (ops == "-" || ops.empty()) return "-";
        bool first = true;
        for (auto &o : split(ops, ';')) {
            if (!first) res += ';';
            first = false;
            res += step(o);
        }
        return res;
    }
};

int main() {
    vf::for_each_line([](const std::string &line) -> std::string {
        auto tk = vf::split_ws(line);
        if (tk.size() >= 2 && tk[0] == "H") {
            auto               u = vf::parse_list(tk[1]);
            vf::ExactBuf<char> b(u);
            return std::to_string((u64)StringUtils::Hash((const char *)b.p, (SizeT)b.n));
        }
        if (tk.size() < 4 || tk[0] != "T") return "BADCASE";
        KeyTab kt;
        for (auto &ks : split(tk[2], '/')) kt.bufs.push_back(new vf::ExactBuf<char>(vf::parse_list(ks)));
        switch (std::atoi(tk[1].c_str())) {
            case 0: {
                Runner<HArray<Key, String<char>>, StrVal, true> r(kt);
                return r.run(tk[3]);
            }
            case 1: {
                Runner<HArray<Key, Value<char>>, ValVal, true> r(kt);
                return r.run(tk[3]);
            }
            case 2: {
                Runner<HList<Key>, StrVal, false> r(kt);
                return r.run(tk[3]);
            }
            default: return "BADCASE";
        }
    });
    return 0;
}
