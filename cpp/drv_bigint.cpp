// drv_bigint.cpp -- C19 correspondence driver (Include/BigInt.hpp).
// case lines:
//   S <w> <nbits> <ops>          history on BigInt<uint<w>, nbits>;  ops = op;op;... ("-" = none)
//        S.ow.v =   A.ow.v +=   B.ow.v -=   O.ow.v |=   N.ow.v &=   (operand type uint<ow>)
//        P.v.i Add(v,i)  Q.v.i Subtract(v,i)  M.v *=  D.v Divide  L.k <<=  R.k >>=
//        F FindFirstBit  G FindLastBit  C.v comparison family  T.tw narrowing conversion
//        K.ow.v copy-assignment from BigInt{uint<ow>(v)}   X Clear
//        E.v operator/=    V.ow.v  x = std::move(tmp{uint<ow>(v)}), returns code(tmp)
//        W  BigInt t(std::move(x)); a = code(x); x = std::move(t); returns a + 65536 * code(t)
//        Y  BigInt t(x); x.Clear(); x = t      Z  x = std::move(x)
//        U.i.v.k  Storage()[i] = v; SetIndex(k)
//        code(o) = 2 * o.Index() + (1 if any word of o is non-zero), read through the const Storage()
//      output: step;step;...   step = Index():words:returned   (words: all MaxIndex()+1 words,
//      trailing zero words trimmed, "-" if none)
//   M <t> <hw> <a> <m>           DoubleSize<uint<t>, hw>::Multiply     output lo,hi
//   D <t> <hw> <hi> <lo> <d>     DoubleSize<uint<t>, hw>::Divide       output rem,quo
//        (hw = 64 with t = 32: the 128/64 algorithm re-instantiated on 16-bit halves; t = 16 / t = 8: on 8- / 4-bit
//         halves through the promotion-free word type Narrow<>)
#include "common.hpp"
#include "BigInt.hpp"

using namespace Qentem;
using vf::u64;

static std::vector<std::string> split(const std::string &s, char c) {
    std::vector<std::string> r;
    if (s == "-" || s.empty()) return r;
    size_t i = 0;
    while (i <= s.size()) {
        size_t j = s.find(c, i);
        if (j == std::string::npos) j = s.size();
        r.push_back(s.substr(i, j - i));
        i = j + 1;
    }
    return r;
}

static u64 num(const std::string &s) { return std::strtoull(s.c_str(), nullptr, 10); }

template <typename W, SizeT32 BITS, typename F>
static void with_operand(unsigned ow, u64 v, F f) {
    switch (ow) {
        case 8: f(SizeT8(v)); break;
        case 16: f(SizeT16(v)); break;
        case 32: f(SizeT32(v)); break;
        default: f(SizeT64(v)); break;
    }
}

// what a history observes of a secondary object (read access through the const overloads)
template <typename BI>
static u64 obj_code(const BI &o) {
    u64 nz = 0;
    for (SizeT32 i = 0; i <= BI::MaxIndex(); i++) nz |= u64(o.Storage()[i] != 0);
    return 2U * u64(o.Index()) + nz;
}

template <typename W, SizeT32 BITS>
static std::string run_seq(const std::vector<std::string> &ops) {
    using BI = BigInt<W, BITS>;
    BI          *px = new BI();   // heap: ASan redzones border the object
    BI          &x  = *px;
    std::string  out;
    for (size_t k = 0; k < ops.size(); k++) {
        auto f   = split(ops[k], '.');
        char c   = f[0][0];
        u64  ret = 0;
        switch (c) {
            case 'S': with_operand<W, BITS>(unsigned(num(f[1])), num(f[2]), [&](auto v) { x = v; }); break;
            case 'A': with_operand<W, BITS>(unsigned(num(f[1])), num(f[2]), [&](auto v) { x += v; }); break;
            case 'B': with_operand<W, BITS>(unsigned(num(f[1])), num(f[2]), [&](auto v) { x -= v; }); break;
            case 'O': with_operand<W, BITS>(unsigned(num(f[1])), num(f[2]), [&](auto v) { x |= v; }); break;
            case 'N': with_operand<W, BITS>(unsigned(num(f[1])), num(f[2]), [&](auto v) { x &= v; }); break;
            case 'K':
                with_operand<W, BITS>(unsigned(num(f[1])), num(f[2]), [&](auto v) {
                    BI *tmp = new BI(v);
                    x       = *tmp;
                    delete tmp;
                });
                break;
            case 'P': x.Add(W(num(f[1])), SizeT32(num(f[2]))); break;
            case 'Q': x.Subtract(W(num(f[1])), SizeT32(num(f[2]))); break;
            case 'M': x *= W(num(f[1])); break;
            case 'D': ret = u64(x.Divide(W(num(f[1])))); break;
            case 'L': x <<= SizeT32(num(f[1])); break;
            case 'R': x >>= SizeT32(num(f[1])); break;
            case 'F': ret = x.FindFirstBit(); break;
            case 'G': ret = x.FindLastBit(); break;
            case 'X': x.Clear(); break;
            case 'E': x /= W(num(f[1])); break;
            case 'V':
                with_operand<W, BITS>(unsigned(num(f[1])), num(f[2]), [&](auto v) {
                    BI *tmp = new BI(v);
                    x       = static_cast<BI &&>(*tmp);
                    ret     = obj_code(*tmp);
                    delete tmp;
                });
                break;
            case 'W': {
                BI *t       = new BI(static_cast<BI &&>(x));
                const u64 a = obj_code(x);
                x           = static_cast<BI &&>(*t);
                ret         = a + 65536U * obj_code(*t);
                delete t;
                break;
            }
            case 'Y': {
                BI *t = new BI(x);
                x.Clear();
                x = *t;
                delete t;
                break;
            }
            case 'Z': {
                BI &alias = x;
                x         = static_cast<BI &&>(alias);
                break;
            }
            case 'U':
                x.Storage()[SizeT32(num(f[1]))] = W(num(f[2]));
                x.SetIndex(SizeT32(num(f[3])));
                break;
            case 'C': {
                const W    v = W(num(f[1]));
                const bool b[15] = {x < v,  x <= v, x > v,  x >= v, x == v,     x != v,      v < x,     v <= x,
                                    v > x,  v >= x, v == x, v != x, x.IsZero(), x.NotZero(), x.IsBig()};
                for (int i = 0; i < 15; i++) ret |= (u64(b[i]) << i);
                break;
            }
            case 'T': {
                switch (num(f[1])) {
                    case 8: ret = u64(static_cast<SizeT8>(x)); break;
                    case 16: ret = u64(static_cast<SizeT16>(x)); break;
                    case 32: ret = u64(static_cast<SizeT32>(x)); break;
                    default: ret = u64(static_cast<SizeT64>(x)); break;
                }
                break;
            }
            default: delete px; return "BADCASE";
        }
        if (k) out += ';';
        const BI &cx = x;   // read access: Index() and the const Storage()
        out += std::to_string(cx.Index());
        out += ':';
        SizeT32 top = BI::MaxIndex() + 1U;
        while (top > 0 && cx.Storage()[top - 1U] == 0) --top;
        if (top == 0) out += '-';
        for (SizeT32 i = 0; i < top; i++) {
            if (i) out += ',';
            out += std::to_string(u64(cx.Storage()[i]));
        }
        out += ':';
        out += std::to_string(ret);
    }
    delete px;
    return ops.empty() ? "-" : out;
}


// A word type of exactly 8 / 16 bits WITHOUT integer promotion: every operator returns the wrapper again,
// truncated to its width.  DoubleSize<Number_T, 64U> derives its half width from sizeof(Number_T), so
// DoubleSize<Narrow<SizeT8>, 64U> is the 128/64 split algorithm (and the 64x64->128 multiply) running on
// 4-bit halves -- the plain unsigned char / unsigned short instantiations are not usable because
// ~(Number_T{0}) promotes to int and yields a full-width mask_.
template <typename S>
struct Narrow {
    S v;
    constexpr Narrow() noexcept : v{0} {}
    template <typename I>
    constexpr Narrow(I x) noexcept : v{S(x)} {}
    constexpr explicit operator u64() const noexcept { return u64(v); }
    friend constexpr Narrow operator+(Narrow a, Narrow b) noexcept { return Narrow(S(a.v + b.v)); }
    friend constexpr Narrow operator-(Narrow a, Narrow b) noexcept { return Narrow(S(a.v - b.v)); }
    friend constexpr Narrow operator*(Narrow a, Narrow b) noexcept { return Narrow(S(unsigned(a.v) * unsigned(b.v))); }
    friend constexpr Narrow operator/(Narrow a, Narrow b) noexcept { return Narrow(S(a.v / b.v)); }
    friend constexpr Narrow operator%(Narrow a, Narrow b) noexcept { return Narrow(S(a.v % b.v)); }
    friend constexpr Narrow operator&(Narrow a, Narrow b) noexcept { return Narrow(S(a.v & b.v)); }
    friend constexpr Narrow operator|(Narrow a, Narrow b) noexcept { return Narrow(S(a.v | b.v)); }
    friend constexpr Narrow operator<<(Narrow a, SizeT32 n) noexcept { return Narrow(S(unsigned(a.v) << n)); }
    friend constexpr Narrow operator>>(Narrow a, SizeT32 n) noexcept { return Narrow(S(a.v >> n)); }
    constexpr Narrow operator~() const noexcept { return Narrow(S(~unsigned(v))); }
    constexpr Narrow &operator+=(Narrow b) noexcept { return (*this = *this + b); }
    constexpr Narrow &operator-=(Narrow b) noexcept { return (*this = *this - b); }
    constexpr Narrow &operator*=(Narrow b) noexcept { return (*this = *this * b); }
    constexpr Narrow &operator/=(Narrow b) noexcept { return (*this = *this / b); }
    constexpr Narrow &operator%=(Narrow b) noexcept { return (*this = *this % b); }
    constexpr Narrow &operator&=(Narrow b) noexcept { return (*this = *this & b); }
    constexpr Narrow &operator|=(Narrow b) noexcept { return (*this = *this | b); }
    constexpr Narrow &operator<<=(SizeT32 n) noexcept { return (*this = *this << n); }
    constexpr Narrow &operator>>=(SizeT32 n) noexcept { return (*this = *this >> n); }
    constexpr Narrow &operator++() noexcept { return (*this = *this + Narrow(1)); }
    constexpr Narrow &operator--() noexcept { return (*this = *this - Narrow(1)); }
    friend constexpr bool operator<(Narrow a, Narrow b) noexcept { return a.v < b.v; }
    friend constexpr bool operator>(Narrow a, Narrow b) noexcept { return a.v > b.v; }
    friend constexpr bool operator<=(Narrow a, Narrow b) noexcept { return a.v <= b.v; }
    friend constexpr bool operator>=(Narrow a, Narrow b) noexcept { return a.v >= b.v; }
    friend constexpr bool operator==(Narrow a, Narrow b) noexcept { return a.v == b.v; }
    friend constexpr bool operator!=(Narrow a, Narrow b) noexcept { return a.v != b.v; }
};
static_assert(sizeof(Narrow<SizeT8>) == 1 && sizeof(Narrow<SizeT16>) == 2, "Narrow must have the size of its word");

static SizeT32 last_bit(u64 d) {
    SizeT32 r = 0;
    while (d >>= 1U) ++r;
    return r;
}

template <typename T, SizeT32 HW>
static std::string run_mul(u64 a, u64 m) {
    T lo = T(a);
    T hi = DoubleSize<T, HW>::Multiply(lo, T(m));
    return std::to_string(u64(lo)) + "," + std::to_string(u64(hi));
}

template <typename T, SizeT32 HW>
static std::string run_div(u64 hi, u64 lo, u64 d) {
    T             h = T(hi), l = T(lo);
    const SizeT32 shift = (HW == 64U) ? ((sizeof(T) * 8U - 1U) - last_bit(d)) : 0U;
    DoubleSize<T, HW>::Divide(h, l, T(d), shift);
    return std::to_string(u64(h)) + "," + std::to_string(u64(l));
}

#define SEQ(WT, WB, NB) \
    if (w == WB && nbits == NB) return run_seq<WT, NB>(ops);

int main() {
    vf::for_each_line([](const std::string &line) -> std::string {
        auto tk = vf::split_ws(line);
        if (tk.empty()) return "BADCASE";
        if (tk[0] == "S" && tk.size() >= 4) {
            const unsigned w = unsigned(num(tk[1])), nbits = unsigned(num(tk[2]));
            auto           ops = split(tk[3], ';');
            SEQ(SizeT8, 8, 64) SEQ(SizeT8, 8, 72) SEQ(SizeT8, 8, 256) SEQ(SizeT8, 8, 2048)
            SEQ(SizeT16, 16, 64) SEQ(SizeT16, 16, 120) SEQ(SizeT16, 16, 1024)
            SEQ(SizeT32, 32, 64) SEQ(SizeT32, 32, 96) SEQ(SizeT32, 32, 256) SEQ(SizeT32, 32, 2048)
            SEQ(SizeT64, 64, 64) SEQ(SizeT64, 64, 128) SEQ(SizeT64, 64, 192) SEQ(SizeT64, 64, 256)
            SEQ(SizeT64, 64, 1000) SEQ(SizeT64, 64, 2048)
            return "BADCASE";
        }
        if (tk[0] == "M" && tk.size() >= 5) {
            const unsigned t = unsigned(num(tk[1])), hw = unsigned(num(tk[2]));
            const u64      a = num(tk[3]), m = num(tk[4]);
            if (t == 8 && hw == 8) return run_mul<SizeT8, 8U>(a, m);
            if (t == 16 && hw == 16) return run_mul<SizeT16, 16U>(a, m);
            if (t == 32 && hw == 32) return run_mul<SizeT32, 32U>(a, m);
            if (t == 64 && hw == 64) return run_mul<SizeT64, 64U>(a, m);
            if (t == 32 && hw == 64) return run_mul<SizeT32, 64U>(a, m);
            if (t == 16 && hw == 64) return run_mul<Narrow<SizeT16>, 64U>(a, m);
            if (t == 8 && hw == 64) return run_mul<Narrow<SizeT8>, 64U>(a, m);
            return "BADCASE";
        }
        if (tk[0] == "D" && tk.size() >= 6) {
            const unsigned t = unsigned(num(tk[1])), hw = unsigned(num(tk[2]));
            const u64      hi = num(tk[3]), lo = num(tk[4]), d = num(tk[5]);
            if (d == 0 || hi >= d) return "BADCASE";
            if (t == 8 && hw == 8) return run_div<SizeT8, 8U>(hi, lo, d);
            if (t == 16 && hw == 16) return run_div<SizeT16, 16U>(hi, lo, d);
            if (t == 32 && hw == 32) return run_div<SizeT32, 32U>(hi, lo, d);
            if (t == 64 && hw == 64) return run_div<SizeT64, 64U>(hi, lo, d);
            if (t == 32 && hw == 64) return run_div<SizeT32, 64U>(hi, lo, d);
            if (t == 16 && hw == 64) return run_div<Narrow<SizeT16>, 64U>(hi, lo, d);
            if (t == 8 && hw == 64) return run_div<Narrow<SizeT8>, 64U>(hi, lo, d);
            return "BADCASE";
        }
        return "BADCASE";
    });
    return 0;
}
