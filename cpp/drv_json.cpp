// drv_json.cpp -- correspondence driver of the `json` component (C05, C06, C07, C08).
//
// case line:  <kind> <width 0..3> <payload> [more tokens ignored]
//   width: 0 char (UTF-8), 1 char16_t, 2 char32_t, 3 wchar_t
//   kind P / X / G : payload = code units of the text ("-" = empty, else a,b,c).  The text is
//        copied into an exact-size heap buffer without terminator and handed to
//        JSON::Parse(content, length).  Output: canonical dump of the parsed Value.
//   kind S / R : payload = a tree term (see build()); the tree is built through the public
//        Value API, stringified (precision 17), the text is parsed again from an exact
//        buffer and the result stringified a second time.
//        Output: <text units>|<dump of the reparsed value>|<1 if second text == first else 0>
//   kind H : payload = text1/text2/... (each a unit list): the texts are parsed one after the other through ONE
//        caller-supplied scratch stream, JSON::Parse(stream, content, length).  Output: dump1/dump2/...
//   kind Z : payload = depth,shape ; parses a generated document nested <depth> levels
//        (shape 0 = [[[..]]], 1 = {"a":{"a":..}}, 2 alternating); output ok<depth> when the
//        result is defined and has that depth, else bad.  (run by the check under ulimit -s)
//
// canonical dump (one token):  U undefined | N | T | F | u<n> | i<z> | R (any double) |
//   S<u1.u2...> | [d;d;...] | {K<u1.u2..>:d;...}    (objects in storage order, live items only;
//   array elements that are Undefined print as U)
#include "common.hpp"
#include "JSON.hpp"

using namespace Qentem;

template <typename C>
static void dump_units(const C *p, SizeT n, std::string &o) {
    for (SizeT i = 0; i < n; i++) {
        if (i) o += '.';
        o += std::to_string(static_cast<vf::u64>(static_cast<uint32_t>(static_cast<typename std::make_unsigned<C>::type>(p[i]))));
    }
}

template <typename C>
static void dump(const Value<C> &v, std::string &o) {
    switch (v.Type()) {
        case ValueType::Object: {
            const auto *ob = v.GetObject();
            o += '{';
            bool first = true;
            for (SizeT i = 0; i < ob->Size(); i++) {
                const auto *it = ob->GetItem(i);
                if (it == nullptr) continue; // removed slot
                if (!first) o += ';';
                first = false;
                o += 'K';
                dump_units(it->Key.First(), it->Key.Length(), o);
                o += ':';
                dump(it->Value, o);
            }
            o += '}';
            break;
        }
        case ValueType::Array: {
            const auto *ar = v.GetArray();
            o += '[';
            for (SizeT i = 0; i < ar->Size(); i++) {
                if (i) o += ';';
                dump(*(ar->First() + i), o);
            }
            o += ']';
            break;
        }
        case ValueType::String: {
            o += 'S';
            dump_units(v.StringStorage(), v.Length(), o);
            break;
        }
        case ValueType::UIntLong: o += 'u' + std::to_string((unsigned long long)v.GetUInt64()); break;
        case ValueType::IntLong: o += 'i' + std::to_string((long long)v.GetInt64()); break;
        case ValueType::Double: o += 'R'; break;
        case ValueType::True: o += 'T'; break;
        case ValueType::False: o += 'F'; break;
        case ValueType::Null: o += 'N'; break;
        case ValueType::ValuePtr: o += 'P'; break;
        default: o += 'U';
    }
}

template <typename C>
static std::string parse_case(const std::vector<vf::u64> &units) {
    vf::ExactBuf<C> buf(units);
    Value<C>        v = JSON::Parse((const C *)buf.p, (SizeT)buf.n);
    std::string     o;
    dump(v, o);
    return o;
}

// ---- tree terms (kind S) ----------------------------------------------------
// term := A<n>;t1;..;tn | O<n>;m1;..;mn | S<units|-> | u<n> | i<z> | r<16 hex digits> |
//         T | F | N | X (an Undefined value) | P;term (pointer to a separately owned value)
// m    := K<units|->;term   (member)  |  D<units|->;term  (member inserted, then removed)
template <typename C>
struct Builder {
    std::vector<std::string>  tk;
    size_t                    pos = 0;
    std::vector<Value<C> *>   owned; // targets of pointer members (must outlive the tree)

    ~Builder() {
        for (auto *p : owned) delete p;
    }

    static std::vector<vf::u64> units_of(const std::string &s) { return vf::parse_list(s.empty() ? "-" : s); }

    bool build(Value<C> &out) {
        if (pos >= tk.size()) return false;
        const std::string t = tk[pos++];
        if (t.empty()) return false;
        switch (t[0]) {
            case 'A': {
                int n = std::atoi(t.c_str() + 1);
                out   = Value<C>{ValueType::Array};
                for (int i = 0; i < n; i++) {
                    Value<C> e;
                    if (!build(e)) return false;
                    if (e.Type() == ValueType::Undefined) {
                        // an Undefined element: append a placeholder and reset it
                        out += Value<C>{ValueType::Null};
                        out.RemoveIndex(SizeT(out.Size() - 1));
                    } else {
                        out += Memory::Move(e);
                    }
                }
                return true;
            }
            case 'O': {
                int n = std::atoi(t.c_str() + 1);
                out   = Value<C>{ValueType::Object};
                for (int i = 0; i < n; i++) {
                    if (pos >= tk.size()) return false;
                    const std::string k = tk[pos++];
                    if (k.empty() || (k[0] != 'K' && k[0] != 'D')) return false;
                    auto            ku = units_of(k.substr(1));
                    vf::ExactBuf<C> kb(ku);
                    Value<C>        e;
                    if (!build(e)) return false;
                    String<C> key((const C *)kb.p, (SizeT)kb.n);
                    out[key] = Memory::Move(e);
                    if (k[0] == 'D') {
                        out.Remove((const C *)kb.p, (SizeT)kb.n);
                    }
                }
                return true;
            }
            case 'S': {
                auto            u = units_of(t.substr(1));
                vf::ExactBuf<C> b(u);
                out = Value<C>{(const C *)b.p, (SizeT)b.n};
                return true;
            }
            case 'u': out = Value<C>{(SizeT64)std::strtoull(t.c_str() + 1, nullptr, 10)}; return true;
            case 'i': out = Value<C>{(SizeT64I)std::strtoll(t.c_str() + 1, nullptr, 10)}; return true;
            case 'r': {
                unsigned long long bits = std::strtoull(t.c_str() + 1, nullptr, 16);
                double             d;
                std::memcpy(&d, &bits, 8);
                out = Value<C>{d};
                return true;
            }
            case 'T': out = Value<C>{true}; return true;
            case 'F': out = Value<C>{false}; return true;
            case 'N': out = Value<C>{NullType{}}; return true;
            case 'X': out = Value<C>{}; return true;
            case 'P': {
                Value<C> *target = new Value<C>{};
                owned.push_back(target);
                if (!build(*target)) return false;
                out.SetPointerToValue(target);
                return true;
            }
            default: return false;
        }
    }
};

template <typename C>
static std::string stringify_case(const std::string &term) {
    Builder<C> b;
    {
        size_t i = 0;
        while (i <= term.size()) {
            size_t j = term.find(';', i);
            if (j == std::string::npos) j = term.size();
            b.tk.push_back(term.substr(i, j - i));
            i = j + 1;
        }
    }
    Value<C> root;
    if (!b.build(root)) return "BADCASE";
    StringStream<C> ss;
    root.Stringify(ss, 17U);
    std::string out = vf::fmt_units(ss.First(), ss.Length());
    out += '|';
    std::vector<vf::u64> units;
    for (SizeT i = 0; i < ss.Length(); i++) {
        units.push_back(static_cast<vf::u64>(static_cast<uint32_t>(static_cast<typename std::make_unsigned<C>::type>(ss.First()[i]))));
    }
    {
        vf::ExactBuf<C> buf(units);
        Value<C>        v2 = JSON::Parse((const C *)buf.p, (SizeT)buf.n);
        dump(v2, out);
        out += '|';
        StringStream<C> s2;
        v2.Stringify(s2, 17U);
        bool same = (s2.Length() == ss.Length());
        for (SizeT i = 0; same && i < ss.Length(); i++) same = (s2.First()[i] == ss.First()[i]);
        out += same ? '1' : '0';
    }
    return out;
}

template <typename C>
static unsigned depth_of(const Value<C> *v) {
    unsigned d = 0;
    while (v != nullptr && (v->IsArray() || v->IsObject())) {
        ++d;
        if (v->Size() == 0) break;
        v = v->GetValue(SizeT{0});
    }
    return d;
}

template <typename C>
static std::string deep_case(const std::string &payload) {
    auto     pr    = vf::parse_list(payload);
    unsigned depth = pr.size() > 0 ? (unsigned)pr[0] : 0, shape = pr.size() > 1 ? (unsigned)pr[1] : 0;
    std::vector<vf::u64> u;
    std::vector<int>     kinds;
    for (unsigned i = 0; i < depth; i++) {
        bool obj = (shape == 1) || (shape == 2 && (i & 1));
        kinds.push_back(obj);
        if (obj && i + 1 < depth) {
            for (char c : std::string("{\"a\":")) u.push_back((unsigned char)c);
        } else if (obj) {
            u.push_back('{');
        } else {
            u.push_back('[');
        }
    }
    for (unsigned i = depth; i-- > 0;) u.push_back(kinds[i] ? '}' : ']');
    vf::ExactBuf<C> buf(u);
    Value<C>        v = JSON::Parse((const C *)buf.p, (SizeT)buf.n);
    if (v.IsUndefined()) return "bad";
    return (depth_of(&v) == depth ? "ok" : "bad") + std::to_string(depth);
}

template <typename C>
static std::string history_case(const std::string &payload) {
    StringStream<C> scratch;
    std::string     out;
    size_t          i = 0;
    bool            first = true;
    while (i <= payload.size()) {
        size_t j = payload.find('/', i);
        if (j == std::string::npos) j = payload.size();
        auto            units = vf::parse_list(payload.substr(i, j - i));
        vf::ExactBuf<C> buf(units);
        Value<C>        v = JSON::Parse(scratch, (const C *)buf.p, (SizeT)buf.n);
        if (!first) out += '/';
        first = false;
        dump(v, out);
        i = j + 1;
    }
    return out;
}

template <typename C>
static std::string run(char kind, const std::string &payload) {
    switch (kind) {
        case 'P':
        case 'X':
        case 'G': return parse_case<C>(vf::parse_list(payload));
        case 'S':
        case 'R': return stringify_case<C>(payload);
        case 'H': return history_case<C>(payload);
        case 'Z': return deep_case<C>(payload);
        default: return "BADCASE";
    }
}

int main() {
    vf::for_each_line([](const std::string &line) -> std::string {
        auto tk = vf::split_ws(line);
        if (tk.size() < 3 || tk[0].size() != 1) return "BADCASE";
        int w = std::atoi(tk[1].c_str());
        switch (w) {
            case 0: return run<char>(tk[0][0], tk[2]);
            case 1: return run<char16_t>(tk[0][0], tk[2]);
            case 2: return run<char32_t>(tk[0][0], tk[2]);
            default: return run<wchar_t>(tk[0][0], tk[2]);
        }
    });
    return 0;
}
