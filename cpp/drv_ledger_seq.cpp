// drv_ledger_seq.cpp -- C16: the C14 operation histories (Array<int>, Array<String<char>>, String<C>,
// StringStream<C>, StringView<C>) through the allocation ledger.
// Built with -DVERIF_LEDGER=1: vf::for_each_line prints only the ledger verdict of the case,
//   L:<allocations>:<unknown or double releases>:<blocks handed out twice>:<blocks live once the pool is gone>
// The per-case interpreter is the one of cpp/drv_seq.cpp (included, its forking main() renamed), so the
// operations are exactly those of the C14 correspondence run.  The pool of three objects is a local of
// run_array / run_string / run_stream: it is destroyed before the verdict is taken.
// case line:  <kind ai|as|s|t|v> <width 0..2> <op;op;...>      (see cpp/drv_seq.cpp)
#include "common.hpp"
#include "seq_fork.hpp"
#include "Array.hpp"
#include "StringStream.hpp"
#include <memory>

#define main drv_seq_forking_main
#include "drv_seq.cpp"
#undef main

int main() {
    (void)&drv_seq_forking_main;
    vf::for_each_line([](const std::string &line) -> std::string {
        auto tk = vf::split_ws(line);
        if (tk.size() < 3) return "BADCASE";
        std::vector<std::string> ops;
        for (auto &t : split(tk[2], ';'))
            if (!t.empty()) ops.push_back(t);
        if (tk[0] == "ai") return run_array<int>(ops);
        if (tk[0] == "as") return run_array<String<char>>(ops);
        switch (std::atoi(tk[1].c_str())) {
            case 0: return run_width<char>(tk[0], ops);
            case 1: return run_width<char16_t>(tk[0], ops);
            case 2: return run_width<char32_t>(tk[0], ops);
        }
        return "BADCASE";
    });
    return 0;
}
