// drv_memcopy.cpp -- C14: Memory::Copy / Memory::SetToZero against memcpy / memset semantics.
// Built three times: scalar, -DQENTEM_SSE2=1 -msse2, -DQENTEM_AVX2=1 -mavx2.
// lines:
//   G <c|z> <lo> <hi>                 grid: every length lo..hi x source misalignment 0..31 x destination
//                                     misalignment 0..31; exact-size source (over-read -> ASan), guard bytes
//                                     around the destination.  output: ok:<combinations> | BAD:<what>:<n>:<sa>:<da>
//   m <simd> <shift> <n> <src> <dst>  Memory::Copy(dst, src, n) on the given bytes; output: resulting dst
//   z <simd> <shift> <n> <dst>        Memory::SetToZero(dst, n); output: resulting dst
//                                     (CFGBAD when simd/shift differ from this build's Platform::SIMD)
//   cfg                               output: <simd>:<shift>
#include "common.hpp"
#include "seq_fork.hpp"
#include "Memory.hpp"

using namespace Qentem;
using vf::u64;

static constexpr size_t GUARD = 40;

static unsigned char *al(size_t size) {
    void *p = nullptr;
    if (posix_memalign(&p, 64, size ? size : 1) != 0) std::abort();
    return (unsigned char *)p;
}

static std::string grid(bool copy, unsigned lo, unsigned hi) {
    u64 combos = 0;
    for (unsigned n = lo; n <= hi; n++) {
        for (unsigned sa = 0; sa < 32; sa++) {
            unsigned char *sb = al(sa + n); // exact: one byte more is a heap-buffer-overflow
            for (unsigned k = 0; k < sa + n; k++) sb[k] = (unsigned char)((k * 131U + n * 7U + sa) | 1U);
            for (unsigned da = 0; da < 32; da++) {
                const size_t   dn = da + n + GUARD;
                unsigned char *db = al(dn);
                for (size_t k = 0; k < dn; k++) db[k] = (unsigned char)(0xA4U ^ (k & 0x1FU) << 1U); // even values
                if (copy) Memory::Copy(db + da, sb + sa, (SizeT)n);
                else Memory::SetToZero(db + da, (SizeT)n);
                bool ok = true;
                for (size_t k = 0; k < dn && ok; k++) {
                    unsigned char want;
                    if (k >= da && k < da + n) want = copy ? sb[sa + (k - da)] : 0;
                    else want = (unsigned char)(0xA4U ^ (k & 0x1FU) << 1U);
                    ok = (db[k] == want);
                }
                std::free(db);
                if (!ok) { std::free(sb); return std::string("BAD:") + (copy ? "copy:" : "zero:") + std::to_string(n) + ":" + std::to_string(sa) + ":" + std::to_string(da); }
                ++combos;
            }
            std::free(sb);
            if (!copy) break; // SetToZero has no source
        }
    }
    return "ok:" + std::to_string(combos);
}

int main() {
    vf::for_each_line_forked([](const std::string &line) -> std::string {
        auto tk = vf::split_ws(line);
        if (tk.empty()) return "BADCASE";
        const bool     simd  = Config::IsSIMDEnabled;
        const unsigned shift = Platform::SIMD::Shift;
        if (tk[0] == "cfg") return std::to_string(simd ? 1 : 0) + ":" + std::to_string(shift);
        if (tk[0] == "G" && tk.size() >= 4) return grid(tk[1] == "c", (unsigned)std::atoi(tk[2].c_str()), (unsigned)std::atoi(tk[3].c_str()));
        if ((tk[0] == "m" && tk.size() >= 6) || (tk[0] == "z" && tk.size() >= 5)) {
            if ((std::atoi(tk[1].c_str()) != 0) != simd || (simd && (unsigned)std::atoi(tk[2].c_str()) != shift)) return "CFGBAD";
            const unsigned n = (unsigned)std::atoi(tk[3].c_str());
            if (tk[0] == "m") {
                vf::ExactBuf<unsigned char> s(vf::parse_list(tk[4])), d(vf::parse_list(tk[5]));
                Memory::Copy(d.p, s.p, (SizeT)n);
                return vf::fmt_units(d.p, d.n);
            }
            vf::ExactBuf<unsigned char> d(vf::parse_list(tk[4]));
            Memory::SetToZero(d.p, (SizeT)n);
            return vf::fmt_units(d.p, d.n);
        }
        return "BADCASE";
    });
    return 0;
}
