// seq_fork.hpp -- C14 drivers: one forked child per case line, so that a sanitizer abort in
// one case yields the token CRASH:<kind> for that case and the run continues.
// The child leaves through exit() so that the leak checker runs (leak -> CRASH:leak).
#ifndef VERIF_SEQ_FORK_HPP
#define VERIF_SEQ_FORK_HPP
#include "common.hpp"
#include <sys/types.h>
#include <sys/wait.h>
#include <unistd.h>

namespace vf {

inline std::string crash_kind(const std::string &err) {
    static const char *keys[] = {"heap-use-after-free", "heap-buffer-overflow", "stack-buffer-overflow", "attempting double-free",
                                 "alloc-dealloc-mismatch", "SEGV", "null pointer", "detected memory leaks", "misaligned",
                                 "negative-size-param", "memcpy-param-overlap", "runtime error"};
    static const char *names[] = {"heap-use-after-free", "heap-buffer-overflow", "stack-buffer-overflow", "double-free",
                                  "alloc-dealloc-mismatch", "SEGV", "null-pointer", "leak", "misaligned",
                                  "negative-size", "overlap", "ubsan"};
    for (size_t k = 0; k < sizeof(keys) / sizeof(keys[0]); k++)
        if (err.find(keys[k]) != std::string::npos) return names[k];
    return "signal-or-exit";
}

template <typename F>
inline void for_each_line_forked(F f) {
    std::string line;
    while (std::getline(std::cin, line)) {
        int po[2], pe[2];
        if (pipe(po) != 0 || pipe(pe) != 0) std::abort();
        std::fflush(stdout);
        pid_t pid = fork();
        if (pid == 0) {
            close(po[0]); close(pe[0]);
            dup2(pe[1], 2);
            std::string out = f(line);
            size_t off = 0;
            while (off < out.size()) {
                ssize_t w = write(po[1], out.data() + off, out.size() - off);
                if (w <= 0) break;
                off += (size_t)w;
            }
            close(po[1]);
            std::exit(0); // runs the leak check
        }
        close(po[1]); close(pe[1]);
        std::string out, err;
        char        buf[65536];
        // drain stdout pipe first (the child writes it last, after any stderr report is small) -- read both until EOF
        fd_set fds;
        bool   oo = true, eo = true;
        while (oo || eo) {
            FD_ZERO(&fds);
            if (oo) FD_SET(po[0], &fds);
            if (eo) FD_SET(pe[0], &fds);
            int mx = (po[0] > pe[0] ? po[0] : pe[0]) + 1;
            if (select(mx, &fds, nullptr, nullptr, nullptr) <= 0) break;
            if (oo && FD_ISSET(po[0], &fds)) { ssize_t r = read(po[0], buf, sizeof buf); if (r <= 0) oo = false; else out.append(buf, (size_t)r); }
            if (eo && FD_ISSET(pe[0], &fds)) { ssize_t r = read(pe[0], buf, sizeof buf); if (r <= 0) eo = false; else if (err.size() < 200000) err.append(buf, (size_t)r); }
        }
        close(po[0]); close(pe[0]);
        int status = 0;
        waitpid(pid, &status, 0);
        if (!(WIFEXITED(status) && WEXITSTATUS(status) == 0)) out = "CRASH:" + crash_kind(err);
        std::fputs(out.c_str(), stdout);
        std::fputc('\n', stdout);
        std::fflush(stdout);
    }
}

} // namespace vf
#endif
