// drv_expr.cpp -- C04 correspondence driver.
// case line:  [Q<quote code>:]<expr units> <env> <tree (ignored here)>
//   env:  '-' or entries separated by ';' :  name:n:<dec>  name:i:<signed dec>  name:r:<m>_<e> (m * 2^e)
//         name:s:<units separated by '.', or '-'>  name:t  name:f  name:z (null)  name:a (array)
// output: ONE token   <eval>|<math>|<inline-if>|<if-block>
//   eval       X (ParseExpressions returned nothing)  F (Evaluate returned false)
//              N<dec>  I<signed dec>  R<m>p<e> (odd m, value m*2^e)  Rz  Rnz  Rinf  R-inf  Rnan
//   math       rendering of {math:E}: 'E' when the tag is echoed, the digits for a
//              Natural/Integer result, '=' when a Real result is printed exactly as
//              Digit::NumberToString prints the value Evaluate returned ('!' otherwise;
//              number formatting itself is C10's subject)
//   inline-if  rendering of {if case="E" true="1" false="0"}:  1  0  _ (nothing)
//   if-block   rendering of <if case="E">1<else>0</if>:  1  0  _
#include "common.hpp"
#include "JSON.hpp"
#include "Template.hpp"
#include <cmath>

using namespace Qentem;
using TC = TemplateCore<char, Value<char>, StringStream<char>>;

static std::vector<std::string> split(const std::string &s, char sep) {
    std::vector<std::string> r;
    size_t                   i = 0;
    while (i <= s.size()) {
        size_t j = s.find(sep, i);
        if (j == std::string::npos) j = s.size();
        r.push_back(s.substr(i, j - i));
        i = j + 1;
    }
    return r;
}

static void build_env(Value<char> &v, const std::string &tok) {
    v = Value<char>{ValueType::Object};
    if (tok == "-") return;
    for (const std::string &ent : split(tok, ';')) {
        auto f = split(ent, ':');
        if (f.size() < 2) continue;
        const char *name = f[0].c_str();
        const SizeT nlen = (SizeT)f[0].size();
        Value<char> &slot = v[String<char>(name, nlen)];
        switch (f[1][0]) {
            case 'n': slot = (unsigned long long)std::strtoull(f[2].c_str(), nullptr, 10); break;
            case 'i': slot = (long long)std::strtoll(f[2].c_str(), nullptr, 10); break;
            case 'r': {
                auto   me = split(f[2], '_');
                double d  = std::ldexp((double)std::strtoll(me[0].c_str(), nullptr, 10), std::atoi(me[1].c_str()));
                slot      = d;
                break;
            }
            case 's': {
                std::string s;
                if (f[2] != "-")
                    for (const std::string &u : split(f[2], '.')) s.push_back((char)std::atoi(u.c_str()));
                slot = String<char>(s.c_str(), (SizeT)s.size());
                break;
            }
            case 't': slot = true; break;
            case 'f': slot = false; break;
            case 'z': slot = nullptr; break;
            case 'a': slot[0] = 1U; break;
            default: break;
        }
    }
}

static std::string fmt_real(double d) {
    if (std::isnan(d)) return "Rnan";
    if (std::isinf(d)) return d < 0 ? "R-inf" : "Rinf";
    if (d == 0.0) return std::signbit(d) ? "Rnz" : "Rz";
    int    e;
    double m = std::frexp(d, &e); // d = m * 2^e, 0.5 <= |m| < 1
    long long mi = (long long)std::ldexp(m, 53);
    e -= 53;
    while ((mi % 2) == 0) {
        mi /= 2;
        e += 1;
    }
    return "R" + std::to_string(mi) + "p" + std::to_string(e);
}

static std::string render(const std::string &tpl, const Value<char> &v) {
    vf::ExactBuf<char> buf(std::vector<vf::u64>(tpl.begin(), tpl.end()));
    // chars above 127 would sign-extend through u64; the generator stays in ASCII
    StringStream<char> ss;
    Template::Render((const char *)buf.p, (SizeT)buf.n, v, ss);
    return std::string(ss.First(), ss.Length());
}

static std::string one(const std::string &s) {
    if (s == "1") return "1";
    if (s == "0") return "0";
    if (s.empty()) return "_";
    return "?" + std::to_string(s.size());
}

int main() {
    vf::for_each_line([](const std::string &line) -> std::string {
        auto tk = vf::split_ws(line);
        if (tk.size() < 2) return "BADCASE";
        // optional prefix Q<code>: = the quote character of case=... in the two if forms (default '"')
        char        quote = '"';
        std::string utok  = tk[0];
        if (!utok.empty() && utok[0] == 'Q') {
            size_t c = utok.find(':');
            quote    = (char)std::atoi(utok.substr(1, c - 1).c_str());
            utok     = utok.substr(c + 1);
        }
        auto        units = vf::parse_list(utok);
        std::string expr;
        for (auto u : units) expr.push_back((char)u);
        Value<char> v;
        build_env(v, tk[1]);

        std::string ev;
        QExpression num;
        bool        ok = false;
        {
            vf::ExactBuf<char> buf(units);
            auto               exprs = TC::ParseExpressions((const char *)buf.p, (SizeT)buf.n);
            if (exprs.IsEmpty()) {
                ev = "X";
            } else {
                TC tc{(const char *)buf.p, (SizeT)buf.n};
                ok = tc.Evaluate(num, exprs, v);
                if (!ok) {
                    ev = "F";
                } else {
                    switch (num.Type) {
                        case QExpression::ExpressionType::NaturalNumber:
                            ev = "N" + std::to_string((unsigned long long)num.Value.Number.Natural);
                            break;
                        case QExpression::ExpressionType::IntegerNumber:
                            ev = "I" + std::to_string((long long)num.Value.Number.Integer);
                            break;
                        case QExpression::ExpressionType::RealNumber: ev = fmt_real(num.Value.Number.Real); break;
                        default: ev = "T" + std::to_string((unsigned)num.Type); break;
                    }
                }
            }
        }
        // rendered paths
        const std::string src = "{math:" + expr + "}";
        std::string math = render(src, v);
        std::string mtok;
        if (math == src) {
            mtok = "E";
        } else if (ok && num.Type == QExpression::ExpressionType::RealNumber) {
            StringStream<char> ss;
            Digit::NumberToString(ss, num.Value.Number.Real, {Config::TemplatePrecision, QENTEM_TEMPLATE_DOUBLE_FORMAT});
            mtok = (math == std::string(ss.First(), ss.Length())) ? "=" : "!";
        } else {
            bool plain = !math.empty();
            for (char c : math) plain = plain && ((c >= '0' && c <= '9') || c == '-');
            mtok = plain ? math : ("?" + std::to_string(math.size()));
        }
        const std::string q(1, quote);
        std::string iif = one(render("{if case=" + q + expr + q + " true=\"1\" false=\"0\"}", v));
        std::string bif = one(render("<if case=" + q + expr + q + ">1<else>0</if>", v));
        return ev + "|" + mtok + "|" + iif + "|" + bif;
    });
    return 0;
}
