// drv_value: runs operation histories on the real Value<char> and prints, per step,
// the operation's own output and a canonical dump of all three variables made
// through the public getters only, plus the text skeleton of Stringify.
// Case line: "<mode> <history>" (see ocaml/value.ml for the history format).
// One token per line; steps separated by '/'.
#include "common.hpp"
#include "Value.hpp"
#include "Template.hpp"

using namespace Qentem;
// character width: -DVERIF_CHAR=char16_t / char32_t builds the same driver for the wide instances
#ifndef VERIF_CHAR
#define VERIF_CHAR char
#endif
using Ch  = VERIF_CHAR;
using UCh = std::make_unsigned<Ch>::type;
using Str = std::basic_string<Ch>;
using V   = Value<Ch>;
using St  = String<Ch>;
using SV  = StringView<Ch>;

static Str W(const char *ascii) {
    Str r;
    for (const char *p = ascii; *p; ++p) r.push_back(static_cast<Ch>(static_cast<unsigned char>(*p)));
    return r;
}

static V *POOL = nullptr;

struct Cur {
    std::vector<std::string> f;
    size_t                   i = 0;
    bool                     bad = false;
    const std::string &next() {
        static const std::string z = "0";
        if (i >= f.size()) { bad = true; return z; }
        return f[i++];
    }
    long long           ll() { return std::strtoll(next().c_str(), nullptr, 10); }
    unsigned long long  ull() { return std::strtoull(next().c_str(), nullptr, 10); }
    Str                 str() {
        long long n = ll();
        Str       s;
        for (long long k = 0; k < n; k++) s.push_back(static_cast<Ch>(static_cast<UCh>(ull())));
        return s;
    }
};

struct Step { bool key; Str k; unsigned idx; };
struct Target { unsigned var; std::vector<Step> path; };
struct Scal { int kind = 7; unsigned long long u = 0; long long i = 0; long long q = 0; Str s; };

static Target rd_target(Cur &c) {
    Target t; t.var = static_cast<unsigned>(c.ll());
    long long pl = c.ll();
    for (long long k = 0; k < pl; k++) {
        Step s; s.key = (c.ll() == 0); s.idx = 0;
        if (s.key) s.k = c.str(); else s.idx = static_cast<unsigned>(c.ll());
        t.path.push_back(s);
    }
    return t;
}
static Scal rd_scal(Cur &c) {
    Scal p; p.kind = static_cast<int>(c.ll());
    switch (p.kind) {
        case 3: p.u = c.ull(); break;
        case 4: p.i = c.ll(); break;
        case 5: p.q = c.ll(); break;
        case 6: p.s = c.str(); break;
        default: break;
    }
    return p;
}
static bool step_eq(const Step &a, const Step &b) { return a.key == b.key && (a.key ? a.k == b.k : a.idx == b.idx); }
static bool is_prefix(const std::vector<Step> &p, const std::vector<Step> &q) {
    if (p.size() > q.size()) return false;
    for (size_t i = 0; i < p.size(); i++) if (!step_eq(p[i], q[i])) return false;
    return true;
}
static bool related(const Target &a, const Target &b) { return a.var == b.var && (is_prefix(a.path, b.path) || is_prefix(b.path, a.path)); }
static bool same_target(const Target &a, const Target &b) { return a.var == b.var && is_prefix(a.path, b.path) && is_prefix(b.path, a.path); }
static bool src_is_ancestor(const Target &t1, const Target &t2) { return t1.var == t2.var && is_prefix(t2.path, t1.path) && !is_prefix(t1.path, t2.path); }

static V *resolve(V *vars, const Target &t) {
    if (t.var >= 3) return nullptr;
    V *cur = &vars[t.var];
    for (const Step &s : t.path) {
        V *c = nullptr;
        if (s.key) {
            if (cur->Type() != ValueType::Object) return nullptr;
            c = cur->GetValue(s.k.c_str(), static_cast<SizeT>(s.k.size()));
        } else {
            if (cur->Type() != ValueType::Array) return nullptr;
            c = cur->GetValue(static_cast<SizeT>(s.idx));
        }
        if (c == nullptr) return nullptr;
        cur = c;
    }
    return cur;
}

static bool has_nul(const Str &s) { return s.find(static_cast<Ch>(0)) != Str::npos; }

// dst = payload through one of the assignment overloads
static void assign(V &dst, const Scal &p, long long v) {
    switch (p.kind) {
        case 0: if (v & 1) { V tmp{nullptr}; dst = Memory::Move(tmp); } else dst = nullptr; break;
        case 1: if (v & 1) { V tmp{true}; dst = Memory::Move(tmp); } else dst = true; break;
        case 2: if (v & 1) { V tmp{false}; dst = Memory::Move(tmp); } else dst = false; break;
        case 3: if ((v & 1) && p.u < 4000000000ULL) dst = static_cast<unsigned int>(p.u); else dst = static_cast<SizeT64>(p.u); break;
        case 4: if ((v & 1) && p.i > -2000000000LL && p.i < 2000000000LL) dst = static_cast<int>(p.i); else dst = static_cast<SizeT64I>(p.i); break;
        case 5: {
            double d = static_cast<double>(p.q) / 256.0;
            if ((v & 1) && static_cast<double>(static_cast<float>(d)) == d) dst = static_cast<float>(d); else dst = d;
            break;
        }
        case 6: {
            long long w = v % 10;
            if (w == 3 && has_nul(p.s)) w = 2;
            if (w == 5) { V tmp{p.s.c_str(), static_cast<SizeT>(p.s.size())}; dst = Memory::Move(tmp); }
            else if (w == 6) { V tmp{SV(p.s.c_str(), static_cast<SizeT>(p.s.size()))}; dst = Memory::Move(tmp); }
            else if (w == 7) { V tmp{St(p.s.c_str(), static_cast<SizeT>(p.s.size()))}; dst = Memory::Move(tmp); }
            else if (w == 8) { const St s(p.s.c_str(), static_cast<SizeT>(p.s.size())); V tmp{s}; dst = Memory::Move(tmp); }
            else if (w == 9) { St s(p.s.c_str(), static_cast<SizeT>(p.s.size())); St *ps = &s; dst = ps; }
            else if (w == 0) { dst = St(p.s.c_str(), static_cast<SizeT>(p.s.size())); }
            else if (w == 1) { const St s(p.s.c_str(), static_cast<SizeT>(p.s.size())); dst = s; }
            else if (w == 2) { dst = SV(p.s.c_str(), static_cast<SizeT>(p.s.size())); }
            else if (w == 3) { dst = p.s.c_str(); }
            else { const St s(p.s.c_str(), static_cast<SizeT>(p.s.size())); const St *ps = &s; dst = ps; }
            break;
        }
        default: break;
    }
}
static void append(V &dst, const Scal &p, long long v) {
    switch (p.kind) {
        case 0: dst += nullptr; break;
        case 1: dst += true; break;
        case 2: dst += false; break;
        case 3: if ((v & 1) && p.u < 4000000000ULL) dst += static_cast<unsigned int>(p.u); else dst += static_cast<SizeT64>(p.u); break;
        case 4: if ((v & 1) && p.i > -2000000000LL && p.i < 2000000000LL) dst += static_cast<int>(p.i); else dst += static_cast<SizeT64I>(p.i); break;
        case 5: dst += (static_cast<double>(p.q) / 256.0); break;
        case 6: {
            long long w = v % 4;
            if (w == 3 && has_nul(p.s)) w = 2;
            if (w == 0) { dst += St(p.s.c_str(), static_cast<SizeT>(p.s.size())); }
            else if (w == 1) { const St s(p.s.c_str(), static_cast<SizeT>(p.s.size())); dst += s; }
            else if (w == 2) { dst += SV(p.s.c_str(), static_cast<SizeT>(p.s.size())); }
            else { dst += p.s.c_str(); }
            break;
        }
        default: break;
    }
}

static void units(const Ch *p, size_t n, std::string &o) {
    o += '(';
    for (size_t i = 0; i < n; i++) { o += std::to_string(static_cast<unsigned long>(static_cast<UCh>(p[i]))); o += '.'; }
    o += ')';
}
// a real as an exact number of 256ths (the model's unit: dyadics with at most 8 fraction bits)
static std::string quarters(double d) {
    if (!(d > -1e15 && d < 1e15)) return "B";
    double q = d * 256.0;
    long long r = static_cast<long long>(q);
    if (static_cast<double>(r) != q) return "!" + std::to_string(r);
    return std::to_string(r);
}

static void dump(const V &v, std::string &o, int depth = 0) {
    if (depth > 40) { o += "!deep"; return; }
    if (v.Type() == ValueType::ValuePtr) o += 'P';
    if (v.IsUndefined()) { o += 'U'; return; }
    if (v.IsNull()) { o += 'N'; return; }
    if (v.IsTrue()) { o += 'T'; return; }
    if (v.IsFalse()) { o += 'F'; return; }
    if (v.IsUInt64()) { o += 'u'; o += std::to_string(v.GetUInt64()); return; }
    if (v.IsInt64()) { o += 'i'; o += std::to_string(v.GetInt64()); return; }
    if (v.IsDouble()) { o += 'r'; o += quarters(v.GetDouble()); return; }
    if (v.IsString()) {
        o += 's';
        const Ch   *p = v.StringStorage();
        SizeT       n = v.Length();
        units(p, n, o);
        const St *s = v.GetString();
        if (s == nullptr || s->Length() != n || s->First() != p) o += '!';
        SV sv = v.GetStringView();
        if (sv.Length() != n) o += '!';
        return;
    }
    if (v.IsArray()) {
        o += '[';
        SizeT n = v.Size();
        {
            const typename V::ArrayT *ap = v.GetArray();
            if (ap == nullptr || ap->Size() != n || v.First() != ap->First() ||
                ((n != 0) && (v.Last() != ap->Last())) || v.GetObject() != nullptr || v.GetKey(0) != nullptr) o += '!';
        }
        for (SizeT i = 0; i < n; i++) {
            if (i) o += ',';
            const V *c = v.GetValue(i);
            if (c == nullptr) o += 'U'; else dump(*c, o, depth + 1);
        }
        o += ']';
        return;
    }
    if (v.IsObject()) {
        o += "{#";
        SizeT n = v.Size();
        {
            const typename V::ObjectT *op = v.GetObject();
            if (op == nullptr || op->Size() != n || v.GetArray() != nullptr || v.GetString() != nullptr) o += '!';
            if (n != 0 && (v.First() != &(op->First()->Value) || v.Last() != &(op->Last()->Value))) o += '!';
        }
        o += std::to_string(n);
        o += ';';
        bool first = true;
        for (SizeT i = 0; i < n; i++) {
            const St *k = v.GetKey(i);
            if (k == nullptr) {
                if (v.GetValue(i) != nullptr) o += '!';
                continue;
            }
            if (!first) o += ',';
            first = false;
            units(k->First(), k->Length(), o);
            o += '=';
            const V *c = v.GetValue(i);
            const V *c2 = v.GetValue(k->First(), k->Length());
            if (c != c2) o += '!';
            if (v.GetValue(SV(k->First(), k->Length())) != c) o += '!';
            {
                const V *c3 = &v;   // any non-null start value
                SV       kv;
                v.SetValueAndKey(i, c3, kv);
                if (c3 != c || (c != nullptr && (kv.First() != k->First() || kv.Length() != k->Length()))) o += '!';
                const V  *c4 = &v;
                const Ch *kp = nullptr;
                SizeT     kl = 0;
                v.SetValueKeyLength(i, c4, kp, kl);
                if (c4 != c || (c != nullptr && (kp != k->First() || kl != k->Length()))) o += '!';
                const Ch *kp2 = nullptr;
                SizeT     kl2 = 0;
                if (!v.SetKeyCharAndLength(i, kp2, kl2) || kp2 != k->First() || kl2 != k->Length()) o += '!';
                StringStream<Ch> ks;
                if (!v.CopyKeyByIndexTo(ks, i) || ks.Length() != k->Length()) o += '!';
            }
            if (c == nullptr) o += 'U'; else dump(*c, o, depth + 1);
        }
        o += '}';
        return;
    }
    o += "!kind";
}

static bool keep(unsigned long c) { return c >= 33 && c <= 126 && c != '"' && c != '\\' && c != '/' && c != '?'; }

static void skeleton(const V &v, std::string &o) {
    StringStream<Ch> ss;
    v.Stringify(ss);
    const Ch   *p = ss.First();
    size_t      n = ss.Length();
    bool        in = false;
    for (size_t i = 0; i < n; i++) {
        unsigned long c = static_cast<unsigned long>(static_cast<UCh>(p[i]));
        if (!in) {
            if (c == '"') in = true;
            o += static_cast<char>(c);
        } else if (c == '"') {
            in = false;
            o += '"';
        } else if (c == '\\') {
            if (i + 1 < n && p[i + 1] == 'u') i += 5; else i += 1;
        } else if (keep(c)) {
            o += static_cast<char>(c);
        }
    }
}

static void dump_all(V *vars, std::string &o) {
    for (int q = 0; q < 3; q++) {
        if (q) o += '&';
        dump(vars[q], o);
        o += '|';
        skeleton(vars[q], o);
    }
}

static void read_value(const V &v, std::string &o) {
    QNumber64 n;
    n.Natural = 0;
    QNumberType ty = v.SetNumber(n);
    o += 'n';
    o += std::to_string(static_cast<unsigned>(ty));
    if (ty == QNumberType::Natural) { o += ':'; o += std::to_string(n.Natural); }
    else if (ty == QNumberType::Integer) { o += ':'; o += std::to_string(n.Integer); }
    else if (ty == QNumberType::Real) { o += ':'; o += quarters(n.Real); }
    if ((ty != QNumberType::NotANumber) != v.IsNumber() && !v.IsString() && !v.IsTrue() && !v.IsFalse() && !v.IsNull()) o += '!';
    if (v.GetNumberType() != ty && !v.IsString() && !v.IsTrue() && !v.IsFalse() && !v.IsNull()) o += '!';
    o += ";u"; o += std::to_string(v.GetUInt64());
    o += ";i"; o += std::to_string(v.GetInt64());
    o += ";d"; o += quarters(v.GetDouble());
    if (v.GetNumber() != v.GetDouble()) o += '!';
    bool b = false;
    o += ";b";
    if (v.SetBool(b)) { o += '1'; o += (b ? '1' : '0'); } else o += "00";
    const Ch   *p = nullptr;
    SizeT       len = 0;
    o += ";c";
    if (v.SetCharAndLength(p, len)) units(p, len, o); else o += '-';
    StringStream<Ch> ss;
    o += ";t";
    if (v.CopyValueTo(ss)) units(ss.First(), ss.Length(), o); else o += '-';
    o += ";l"; o += std::to_string(v.Length());
    o += ";z"; o += std::to_string(v.Size());
}

static void write_units(StringStream<Ch> &out, const Ch *p, SizeT n) { out.Write(p, n); }

// Getters that every kind answers (mostly with "nothing"), the non-const getter overloads, the
// String-returning Stringify and operator<<.  Each answer is determined by the kind and by reads the
// dump already compares with the model (they are overloads / alternative routes of the same
// observations), so they print nothing when consistent and "!<tag>" otherwise.
static void extra_reads(V &v, std::string &o) {
    const V        &cv   = v;
    const ValueType ty   = v.Type();
    const bool      ptr  = (ty == ValueType::ValuePtr);
    const bool      arr  = cv.IsArray();
    const bool      obj  = cv.IsObject();
    const bool      str  = cv.IsString();
    const SizeT     n    = cv.Size();
    // non-const getters do not follow a pointer
    if ((v.GetString() != nullptr) != (ty == ValueType::String)) o += "!gs";
    if ((ty == ValueType::String) && (v.GetString() != cv.GetString())) o += "!gs2";
    if ((v.GetObject() != nullptr) != (ty == ValueType::Object)) o += "!go";
    if ((v.GetArray() != nullptr) != (ty == ValueType::Array)) o += "!ga";
    // const getters follow it
    if ((cv.GetString() != nullptr) != str) o += "!cgs";
    if ((cv.GetObject() != nullptr) != obj) o += "!cgo";
    if ((cv.GetArray() != nullptr) != arr) o += "!cga";
    if ((cv.StringStorage() != nullptr) != (str && cv.GetString()->First() != nullptr)) o += "!ss";
    {
        SV sv = cv.GetStringView();
        if (sv.Length() != cv.Length() || (!str && (sv.Length() != 0 || sv.First() != nullptr))) o += "!sv";
        if (str && sv.First() != cv.StringStorage()) o += "!sv2";
    }
    if (!str && cv.Length() != 0) o += "!len";
    if (!arr && !obj) {
        if (n != 0) o += "!size";
        if (cv.GetValue(SizeT{0}) != nullptr || cv.GetValue(SizeT{3}) != nullptr) o += "!gvi";
        const Ch k0[1] = {static_cast<Ch>('0')};
        if (cv.GetValue(k0, SizeT{1}) != nullptr || cv.GetValue(SV(k0, SizeT{1})) != nullptr) o += "!gvk";
        if (cv.First() != nullptr || cv.Last() != nullptr) o += "!fl";
    }
    if (!obj) {
        const Ch *kp = nullptr;
        SizeT     kl = 7;
        if (cv.GetKey(SizeT{0}) != nullptr) o += "!gk";
        if (cv.SetKeyCharAndLength(SizeT{0}, kp, kl) || kp != nullptr || kl != 7) o += "!skl";
        StringStream<Ch> ks;
        const bool       r = cv.CopyKeyByIndexTo(ks, SizeT{0});
        if (r || ks.Length() != 0) o += "!ckt";
    }
    if (arr) {
        // by index, by decimal key, first / last
        if (n != 0 && (cv.First() == nullptr || cv.Last() != cv.First() + (n - 1))) o += "!afl";
        if (n == 0 && cv.Last() != nullptr) o += "!afl0";
        const Ch k1[1] = {static_cast<Ch>('1')};
        if (cv.GetValue(k1, SizeT{1}) != cv.GetValue(SizeT{1})) o += "!gvd";
        if (cv.GetValue(n) != nullptr) o += "!gvn";
    }
    if (obj) {
        const typename V::ObjectT *op = cv.GetObject();
        if (n == 0 && op->Capacity() == 0 && (cv.First() != nullptr || cv.Last() != nullptr)) o += "!ofl0";
        if (n == 0 && cv.Last() != nullptr) o += "!ol0";
        if (cv.GetValue(n) != nullptr || cv.GetKey(n) != nullptr) o += "!ogn";
        const Ch *kp = nullptr;
        SizeT     kl = 7;
        if (cv.SetKeyCharAndLength(n, kp, kl) || kl != 7) o += "!oskl";
        StringStream<Ch> ks;
        if (!cv.CopyKeyByIndexTo(ks, n) || ks.Length() != 0) o += "!ockt";
    }
    // the three routes to the JSON text
    {
        StringStream<Ch> a;
        cv.Stringify(a);
        const St         b = cv.Stringify();
        StringStream<Ch> c;
        c << cv;
        const St         d = cv.Stringify(Config::DoublePrecision);
        if (b.Length() != a.Length() || !StringUtils::IsEqual(b.First(), a.First(), a.Length())) o += "!str1";
        if (c.Length() != a.Length() || !StringUtils::IsEqual(c.First(), a.First(), a.Length())) o += "!str2";
        if (d.Length() != a.Length() || !StringUtils::IsEqual(d.First(), a.First(), a.Length())) o += "!str3";
    }
    // CopyValueTo with an explicit format and a string function
    {
        StringStream<Ch> a;
        StringStream<Ch> b;
        const bool       ra = cv.CopyValueTo(a);
        const bool       rb = cv.CopyValueTo(b, Digit::RealFormatInfo{Config::DoublePrecision}, &write_units);
        if (ra != rb || a.Length() != b.Length() || !StringUtils::IsEqual(a.First(), b.First(), a.Length())) o += "!cvf";
    }
    (void)ptr;
}

static const V *ptr_of(long long id) { return (id >= 0 && id < 4) ? &POOL[id] : nullptr; }

static std::string run_case(const std::string &line) {
    std::vector<std::string> tk = vf::split_ws(line);
    if (tk.size() != 2) return "BADCASE";
    std::string out;
    V           vars[3];
    if (tk[1] == "-") return "-";
    size_t pos = 0;
    bool   firststep = true;
    const std::string &h = tk[1];
    while (pos <= h.size()) {
        size_t e = h.find(';', pos);
        if (e == std::string::npos) e = h.size();
        std::string ops = h.substr(pos, e - pos);
        pos = e + 1;
        Cur c;
        {
            size_t a = 0;
            while (a <= ops.size()) {
                size_t b = ops.find(',', a);
                if (b == std::string::npos) b = ops.size();
                c.f.push_back(ops.substr(a, b - a));
                a = b + 1;
            }
        }
        if (!firststep) out += '/';
        firststep = false;
        std::string own;
        bool        skipped = false;
        long long   code = c.ll();
        switch (code) {
            case 0: break;
            case 1: { Target t = rd_target(c); Scal p = rd_scal(c); long long v = c.ll(); V *d = resolve(vars, t); if (!d) { skipped = true; break; } assign(*d, p, v); break; }
            case 2: {
                Target t = rd_target(c); Str k = c.str(); Scal p = rd_scal(c); long long v = c.ll();
                V *d = resolve(vars, t); if (!d) { skipped = true; break; }
                long long w = v % 6;
                if (w == 0 && has_nul(k)) w = 1;
                V *r;
                if (w == 0) r = &((*d)[k.c_str()]);
                else if (w == 1) r = &((*d)[SV(k.c_str(), static_cast<SizeT>(k.size()))]);
                else if (w == 2) r = &((*d)[St(k.c_str(), static_cast<SizeT>(k.size()))]);
                else if (w == 3) { const St ks(k.c_str(), static_cast<SizeT>(k.size())); r = &((*d)[ks]); }
                else if (w == 4) r = &(d->Get(k.c_str(), static_cast<SizeT>(k.size())));
                else r = &(d->Get(SV(k.c_str(), static_cast<SizeT>(k.size()))));
                if (p.kind != 7) assign(*r, p, v / 6);
                break;
            }
            case 3: {
                Target t = rd_target(c); unsigned i = static_cast<unsigned>(c.ll()); Scal p = rd_scal(c); long long v = c.ll();
                V *d = resolve(vars, t); if (!d) { skipped = true; break; }
                V &r = (v & 1) ? (*d)[static_cast<int>(i)] : (*d)[static_cast<SizeT>(i)];
                if (p.kind != 7) assign(r, p, v / 2);
                break;
            }
            case 4: { Target t = rd_target(c); Scal p = rd_scal(c); long long v = c.ll(); V *d = resolve(vars, t); if (!d) { skipped = true; break; } append(*d, p, v); break; }
            case 5: case 6: {
                Target t1 = rd_target(c); Target t2 = rd_target(c); bool mv = c.ll() != 0;
                if (related(t1, t2)) { skipped = true; break; }
                V *d = resolve(vars, t1); V *s = resolve(vars, t2); if (!d || !s) { skipped = true; break; }
                if (code == 5) { if (mv) *d += Memory::Move(*s); else *d += static_cast<const V &>(*s); }
                else { if (mv) d->Merge(Memory::Move(*s)); else d->Merge(static_cast<const V &>(*s)); }
                break;
            }
            case 7: {
                Target t1 = rd_target(c); Str k = c.str(); Target t2 = rd_target(c);
                if (related(t1, t2)) { skipped = true; break; }
                V *d = resolve(vars, t1); V *s = resolve(vars, t2); if (!d || !s) { skipped = true; break; }
                d->Insert(SV(k.c_str(), static_cast<SizeT>(k.size())), Memory::Move(*s));
                break;
            }
            case 8: {
                Target t = rd_target(c); Str k = c.str(); long long v = c.ll();
                V *d = resolve(vars, t); if (!d) { skipped = true; break; }
                long long w = v % 3;
                if (w == 2 && has_nul(k)) w = 0;
                if (w == 0) d->Remove(k.c_str(), static_cast<SizeT>(k.size()));
                else if (w == 1) { const St ks(k.c_str(), static_cast<SizeT>(k.size())); d->Remove(ks); }
                else d->Remove(k.c_str());
                break;
            }
            case 9: { Target t = rd_target(c); unsigned i = static_cast<unsigned>(c.ll()); V *d = resolve(vars, t); if (!d) { skipped = true; break; } if (i & 1) d->RemoveIndex(static_cast<int>(i)); else d->RemoveIndex(static_cast<SizeT>(i)); break; }
            case 10: { Target t = rd_target(c); V *d = resolve(vars, t); if (!d) { skipped = true; break; } d->Reset(); break; }
            case 11: { Target t = rd_target(c); V *d = resolve(vars, t); if (!d) { skipped = true; break; } d->Compress(); break; }
            case 12: case 13: {
                Target t1 = rd_target(c); Target t2 = rd_target(c); bool ctor = c.ll() != 0; bool mv = (code == 13);
                V *d = resolve(vars, t1); V *s = resolve(vars, t2); if (!d || !s) { skipped = true; break; }
                if (same_target(t1, t2)) {
                    if (ctor && !mv) { V tmp{static_cast<const V &>(*s)}; *d = Memory::Move(tmp); }
                    else if (ctor) { V tmp{Memory::Move(*s)}; *d = Memory::Move(tmp); }
                    else if (mv) { V &alias = *s; *d = Memory::Move(alias); }
                    else { const V &alias = *s; *d = alias; }
                } else if (mv) {
                    if (src_is_ancestor(t1, t2)) { skipped = true; break; }
                    if (ctor) { V tmp{Memory::Move(*s)}; *d = Memory::Move(tmp); } else *d = Memory::Move(*s);
                } else {
                    if (ctor) { V tmp{static_cast<const V &>(*s)}; *d = Memory::Move(tmp); } else *d = static_cast<const V &>(*s);
                }
                break;
            }
            case 14: { Target t = rd_target(c); long long id = c.ll(); V *d = resolve(vars, t); if (!d) { skipped = true; break; } d->SetPointerToValue(ptr_of(id)); break; }
            case 15: { Target t = rd_target(c); long long id = c.ll(); V *d = resolve(vars, t); if (!d) { skipped = true; break; } d->AddPointerToValue(ptr_of(id)); break; }
            case 16: {
                Target t = rd_target(c); Scal n = rd_scal(c); Scal p = rd_scal(c);
                V *d = resolve(vars, t); if (!d) { skipped = true; break; }
                alignas(V) unsigned char buf[sizeof(V)];
                std::memset(buf, 0xAA, sizeof buf);
                V *tmp;
                if (n.kind == 3) tmp = new (buf) V{static_cast<SizeT64>(n.u)};
                else if (n.kind == 4) tmp = new (buf) V{static_cast<SizeT64I>(n.i)};
                else if (n.kind == 5) tmp = new (buf) V{static_cast<double>(n.q) / 256.0};
                else tmp = new (buf) V{static_cast<unsigned int>(n.kind)};
                append(*tmp, p, 0);
                *d = Memory::Move(*tmp);
                tmp->~V();
                break;
            }
            case 17: { Target t = rd_target(c); V *d = resolve(vars, t); if (!d) { skipped = true; break; } read_value(*d, own); extra_reads(*d, own); break; }
            case 18: {
                Target t1 = rd_target(c); Target t2 = rd_target(c); Str k = c.str();
                if (related(t1, t2)) { skipped = true; break; }
                V *d = resolve(vars, t1); V *s = resolve(vars, t2); if (!d || !s) { skipped = true; break; }
                bool ok = (!has_nul(k) && (k.size() % 2 == 1)) ? static_cast<const V *>(s)->GroupBy(*d, k.c_str())
                                                              : static_cast<const V *>(s)->GroupBy(*d, k.c_str(), static_cast<SizeT>(k.size()));
                own += ok ? '1' : '0';
                break;
            }
            case 19: {
                Target t = rd_target(c); Str k = c.str();
                V *d = resolve(vars, t); if (!d) { skipped = true; break; }
                Str tpl = W("<loop value=\"g\" group=\"") + k + W("\">{var:g}=<loop set=\"g\" value=\"e\">(<loop set=\"e\" value=\"m\">{var:m};</loop>)</loop>|</loop>");
                StringStream<Ch> ss;
                Template::Render(tpl.c_str(), static_cast<SizeT>(tpl.size()), *d, ss);
                for (SizeT i = 0; i < ss.Length(); i++) if (keep(static_cast<unsigned long>(static_cast<UCh>(ss.First()[i])))) own += static_cast<char>(ss.First()[i]);
                break;
            }
            case 20: {
                Target t = rd_target(c); long long kind = c.ll(); long long v = c.ll();
                V *d = resolve(vars, t); if (!d) { skipped = true; break; }
                ValueType ty = static_cast<ValueType>(static_cast<SizeT8>(kind));
                if (ty == ValueType::ValuePtr) ty = ValueType::Undefined;
                if (v % 3 == 0) { *d = ty; }
                else if (v % 3 == 1) { V tmp{ty}; *d = Memory::Move(tmp); }
                else { V tmp{ty, static_cast<SizeT>(v % 5)}; *d = Memory::Move(tmp); }
                break;
            }
            case 21: case 22: {
                Target t1 = rd_target(c); Target t2 = rd_target(c); long long v = c.ll();
                if (related(t1, t2)) { skipped = true; break; }
                V *d = resolve(vars, t1); V *s = resolve(vars, t2); if (!d || !s) { skipped = true; break; }
                if (s->Type() == ValueType::Object) {
                    const typename V::ObjectT &o = *(s->GetObject());
                    if (code == 21) {
                        if (v % 4 == 0) { *d = o; }
                        else if (v % 4 == 1) { typename V::ObjectT tmp{o}; *d = Memory::Move(tmp); }
                        else if (v % 4 == 2) { V tmpv{o}; *d = Memory::Move(tmpv); }
                        else { typename V::ObjectT tmp{o}; V tmpv{Memory::Move(tmp)}; *d = Memory::Move(tmpv); }
                    } else {
                        if (v % 2 == 0) { *d += o; } else { typename V::ObjectT tmp{o}; *d += Memory::Move(tmp); }
                    }
                } else if (s->Type() == ValueType::Array) {
                    const typename V::ArrayT &a = *(s->GetArray());
                    if (code == 21) {
                        if (v % 4 == 0) { *d = a; }
                        else if (v % 4 == 1) { typename V::ArrayT tmp{a}; *d = Memory::Move(tmp); }
                        else if (v % 4 == 2) { V tmpv{a}; *d = Memory::Move(tmpv); }
                        else { typename V::ArrayT tmp{a}; V tmpv{Memory::Move(tmp)}; *d = Memory::Move(tmpv); }
                    } else {
                        if (v % 2 == 0) { *d += a; } else { typename V::ArrayT tmp{a}; *d += Memory::Move(tmp); }
                    }
                }
                break;
            }
            default: return "BADOP";
        }
        if (c.bad) return "BADFIELDS";
        if (skipped) { out += 'S'; continue; }
        out += own;
        out += '@';
        dump_all(vars, out);
    }
    return out;
}

int main() {
    static V pool[4];
    pool[0] = static_cast<SizeT64>(7);
    pool[1] = W("pq").c_str();
    pool[2] += static_cast<SizeT64I>(-2);
    pool[2] += W("x").c_str();
    pool[2] += nullptr;
    pool[3][W("a").c_str()] = static_cast<SizeT64>(1);
    pool[3][W("b").c_str()] += true;
    POOL = pool;
    vf::for_each_line([](const std::string &line) { return run_case(line); });
    return 0;
}
