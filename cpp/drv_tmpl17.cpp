// drv_tmpl17.cpp -- C17: concurrent renders through one shared parsed tag array and one shared value.
// Built with -fsanitize=thread.  case line as drv_tmpl.cpp: <width> <threads> <template units> <json units>
// output: the single-threaded fresh render, followed by ",!<n>" when any concurrent render differs
#include "common.hpp"
#include <thread>
#include <atomic>
#include "JSON.hpp"
#include "Template.hpp"

using namespace Qentem;

template <typename C>
static std::string run_case(int nthreads, const std::vector<vf::u64> &tmpl, const std::vector<vf::u64> &json) {
    vf::ExactBuf<C> jb(json);
    const Value<C>  v = JSON::Parse((const C *)jb.p, (SizeT)jb.n);
    vf::ExactBuf<C> tb(tmpl);
    StringStream<C> fresh;
    Template::Render((const C *)tb.p, (SizeT)tb.n, v, fresh);
    Array<Tags::TagBit> cache;
    TemplateCore<C, Value<C>, StringStream<C>>::Parse((const C *)tb.p, (SizeT)tb.n, cache);
    const Array<Tags::TagBit> &shared = cache;
    std::atomic<int>           bad{0};
    std::vector<std::thread>   th;
    for (int t = 0; t < nthreads; t++) {
        th.emplace_back([&, t]() {
            for (int k = 0; k < 3; k++) {
                StringStream<C>                           s;
                TemplateCore<C, Value<C>, StringStream<C>> core{(const C *)tb.p, (SizeT)tb.n};
                if (t & 1) {
                    const C pre[2] = {C('#'), C(0)};
                    s.Write(pre, 1);
                }
                core.Render(shared, v, s);
                const SizeT skip = (t & 1) ? 1 : 0;
                if (s.Length() != fresh.Length() + skip || !StringUtils::IsEqual(s.First() + skip, fresh.First(), fresh.Length())) bad++;
            }
        });
    }
    for (auto &x : th) x.join();
    std::string out = vf::fmt_units(fresh.First(), fresh.Length());
    if (bad.load()) out += ",!" + std::to_string(bad.load());
    return out;
}

int main() {
    vf::for_each_line([](const std::string &line) -> std::string {
        auto tk = vf::split_ws(line);
        if (tk.size() < 4) return "BADCASE";
        int  w  = std::atoi(tk[0].c_str());
        int  nt = std::atoi(tk[1].c_str());
        auto t  = vf::parse_list(tk[2]);
        auto j  = vf::parse_list(tk[3]);
        switch (w) {
            case 0: return run_case<char>(nt, t, j);
            case 1: return run_case<char16_t>(nt, t, j);
            case 2: return run_case<char32_t>(nt, t, j);
            default: return run_case<wchar_t>(nt, t, j);
        }
    });
    return 0;
}
