// drv_trender.cpp -- renders a template with the REAL Parse + Render, after overwriting every non-empty
// expression array of the parsed tree with a constant that depends on the tag's offset only (component tparse,
// C01; the model instance coq/TrenderInst.v does the same): a math tag at Offset o evaluates to o % 7, the
// condition of an inline if at Offset k / of an if case whose Offset is k is the natural number k % 2.
// case line:  <width 0..3> <template units> <value as JSON text units (ASCII)>
// output: the rendered units ("-" when empty)
#include "common.hpp"
#define private public
#include "JSON.hpp"
#include "Template.hpp"
#undef private

using namespace Qentem;

static void set_const(Array<QExpression> &ex, unsigned long long n) {
    if (ex.IsEmpty()) return;
    ex.Clear();
    QExpression e;
    e.Type                 = QExpression::ExpressionType::NaturalNumber;
    e.Operation            = QExpression::QOperation::NoOp;
    e.Value.Number.Natural = n;
    ex += Memory::Move(e);
}

static void rewrite(Array<Tags::TagBit> &tags) {
    for (SizeT k = 0; k < tags.Size(); k++) {
        Tags::TagBit &t = tags.Storage()[k];
        switch (t.GetType()) {
            case Tags::TagType::Math: {
                Tags::MathTag &m = t.GetMathTag();
                set_const(m.Expressions, m.Offset % 7U);
                break;
            }
            case Tags::TagType::SuperVariable: rewrite(t.GetSuperVariableTag().SubTags); break;
            case Tags::TagType::InLineIf: {
                Tags::InLineIfTag &i = t.GetInLineIfTag();
                set_const(i.Case, i.Offset % 2U);
                rewrite(i.SubTags);
                break;
            }
            case Tags::TagType::Loop: rewrite(t.GetLoopTag().SubTags); break;
            case Tags::TagType::If: {
                Tags::IfTag &f = t.GetIfTag();
                for (SizeT c = 0; c < f.Cases.Size(); c++) {
                    Tags::IfTagCase &ic = f.Cases.Storage()[c];
                    set_const(ic.Case, ic.Offset % 2U);
                    rewrite(ic.SubTags);
                }
                break;
            }
            default: break;
        }
    }
}

template <typename C>
static std::string run_case(const std::vector<vf::u64> &tmpl, const std::vector<vf::u64> &json) {
    vf::ExactBuf<C>     jb(json);
    Value<C>            v = JSON::Parse((const C *)jb.p, (SizeT)jb.n);
    vf::ExactBuf<C>     tb(tmpl);
    Array<Tags::TagBit> cache;
    TemplateCore<C, Value<C>, StringStream<C>> core{(const C *)tb.p, (SizeT)tb.n};
    core.Parse(cache);
    rewrite(cache);
    StringStream<C> ss;
    core.Render(cache, v, ss);
    return vf::fmt_units(ss.First(), ss.Length());
}

int main() {
    vf::for_each_line([](const std::string &line) -> std::string {
        auto tk = vf::split_ws(line);
        if (tk.size() < 3) return "BADCASE";
        int  w = std::atoi(tk[0].c_str());
        auto t = vf::parse_list(tk[1]);
        auto j = vf::parse_list(tk[2]);
        switch (w) {
            case 0: return run_case<char>(t, j);
            case 1: return run_case<char16_t>(t, j);
            case 2: return run_case<char32_t>(t, j);
            default: return run_case<wchar_t>(t, j);
        }
    });
    return 0;
}
