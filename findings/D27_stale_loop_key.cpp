// D27 (C01/C16/C02): the loop-item slot of a level keeps the Key of an earlier object loop; when the next loop at
// that level iterates an array, an unresolved {var:v} prints that stale key -- after a sorted loop the key
// points into the destroyed private copy: heap-use-after-free in the escaper.
#include "tmpl_repro.hpp"
int main() {
    return expect("D27", render_exact("<loop set=\"obj\" value=\"v\" sort=\"ascend\">x</loop><loop set=\"list\" value=\"v\">{var:v}</loop>",
                                      "{\"obj\":{\"kkkkkkkkkkkkkkkkkkkkkkkkkkkkkkkk\":1},\"list\":[[1]]}"), "x{var:v}");
}
