// D1: TemplateCore::evaluate forgets to re-test previous_oper after the recursive branch: a lower-ranked operator that follows is applied inside the recursion's caller frame (10 - 2*3^2 + 5 is computed as 10 - (2*3^2 + 5)).
// g++ -std=c++17 -I/repo/Include findings/D1_precedence_after_recursion.cpp -o /tmp/D1_precedence_after_recursion && /tmp/D1_precedence_after_recursion ; echo $?
// exit code 1 when the defect shows, 0 when fixed.
#include <new>
#include <cstdio>
#include <cstring>
#include "JSON.hpp"
#include "Template.hpp"
using namespace Qentem;
static int t(const char *tpl, const char *want) {
    Value<char>        v;
    StringStream<char> ss;
    Template::Render(tpl, (SizeT)std::strlen(tpl), v, ss);
    ss.InsertNull();
    const bool ok = (std::strcmp(ss.First(), want) == 0);
    std::printf("%s => %s (expected %s)%s\n", tpl, ss.First(), want, ok ? "" : "  DEFECT");
    return ok ? 0 : 1;
}
int main() {
    int bad = 0;
    bad += t("{math:10 - 2 * 3 ^ 2 + 5}", "-3");
    bad += t("{math:8 - 1 * 2 ^ 2 - 1}", "3");
    bad += t("{math:0 && 1 == 1 + 0 || 1}", "1");
    bad += t("{math:100 / 2 * 5 ^ 2 / 5}", "250");
    return bad ? 1 : 0;
}
