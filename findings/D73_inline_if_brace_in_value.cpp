// D73 (C02/C01): an inline if whose true="..." / false="..." value holds a '}' is finished in two steps: the
// first '}' re-opens the tag ("Found '}' inside 'True' or 'False'") and the attributes are scanned again at the
// real end.  The first, partial scan nevertheless runs the start-id / validity pass with the provisional
// TrueOffset: a sub tag of the already scanned attribute lies outside that provisional slice and is dropped from
// SubTags, so {var:a} is rendered as literal text.  (The stale TrueLength / FalseOffset / FalseLength of the
// partial scan are also kept.)  Expected: "A".
//   g++ -std=c++17 -g -fsanitize=address,undefined -fno-sanitize-recover=all -I/repo/Include D73_inline_if_brace_in_value.cpp
#include "tmpl_repro.hpp"
int main() {
    const char *t = "{if case=\"1\" true=\"{var:a}\" false=\"x}y\"}";
    return expect("D73", render_exact(t, "{\"a\":\"A\"}"), "A");
}
