// D80 (C01 / C04 / C16): getOperation() looks one unit ahead of a two-character operator without
// checking the end of the expression text.
//  (a) Inside a template the unit after the text is its closing quote.  The quote character of
//      <if case=Q...Q> is whatever follows "case=", so with Q = '=' the text "5>" is read as "5>=":
//      the cursor leaves the expression, the last QExpression keeps a pending ">=" and evaluate()
//      reads the element after the end of the expression array: heap-buffer-overflow (Template.hpp evaluate).
//  (b) TemplateCore::ParseExpressions(text, length) with a text that ends in '|', '&', '<', '>', '=' or '!'
//      reads text[length] (one past an exact-size buffer).
// Expected: the look-ahead stays inside the expression text; "5>" is a malformed case (renders nothing).
//   g++ -std=c++17 -g -fsanitize=address,undefined -fno-sanitize-recover=all -I/repo/Include D80_operator_lookahead_past_end.cpp
#include "tmpl_repro.hpp"
int main() {
    using namespace Qentem;
    int bad = 0;
    const char *t = "<if case==5>=>x</if>";
    bad |= expect("D80a", render_exact(t, "[]"), "");
    {
        const char  src[2] = {'1', '|'};
        char       *buf    = static_cast<char *>(std::malloc(2));
        std::memcpy(buf, src, 2);
        auto ex = TemplateCore<char, Value<char>, StringStream<char>>::ParseExpressions(buf, 2U);
        (void)ex;
        std::free(buf);
    }
    return bad;
}
