// D16 (C08): Stringify / JSONUtils::Escape emit the control characters below 0x20 that have no
// short escape (everything except \b \t \n \f \r) raw, which RFC 8259 forbids inside strings:
//   Value ["\x01"] stringifies to [" ^A "] instead of ["\u0001"].
// g++ -std=c++17 -I/repo/Include D16_json_escape_control_characters.cpp -o d16 && ./d16  (exit 1 = defect present)
#include <new>
#include <cstdio>
#include "JSON.hpp"
using namespace Qentem;
int main() {
    int bad = 0;
    for (unsigned c = 0; c < 0x20; c++) {
        Value<char> v;
        const char  s[2] = {char(c), 0};
        v += String<char>(s, SizeT{1});
        StringStream<char> ss;
        v.Stringify(ss);
        for (SizeT i = 0; i < ss.Length(); i++) {
            if (static_cast<unsigned char>(ss.First()[i]) < 0x20) {
                std::printf("raw control character 0x%02x in the output\n", c);
                bad = 1;
            }
        }
        // and the text must read back as the same one-unit string
        Value<char> back = JSON::Parse(ss.First(), ss.Length());
        const Value<char> *e = back.GetValue(SizeT{0});
        if (e == nullptr || !e->IsString() || e->Length() != 1 || e->StringStorage()[0] != char(c)) {
            std::printf("0x%02x does not survive stringify -> parse\n", c);
            bad = 1;
        }
    }
    return bad;
}
