// D33_round_string_number_oob -- reproducer. exit 1 = defect present, 0 = fixed.
// g++ -std=c++17 -g -fsanitize=address -DQENTEM_VERIF=1 -I/repo/Include D33_round_string_number_oob.cpp -o /tmp/D33_round_string_number_oob && /tmp/D33_round_string_number_oob
#include <new>
#include <cstdio>
#include <cstring>
#include <cstdlib>
#include "Digit.hpp"
#include "StringStream.hpp"
using namespace Qentem;
static int parse(const char *t, QNumber64 &q, SizeT &off) { off = 0; return (int)Digit::StringToNumber(q, t, off, (SizeT)strlen(t)); }
template <typename N> static bool prints(N v, Digit::RealFormatInfo f, const char *want) { StringStream<char> ss; Digit::NumberToString(ss, v, f); bool ok = (ss.Length() == strlen(want)) && (memcmp(ss.First(), want, ss.Length()) == 0); ss.InsertNull(); printf("  got \"%s\" want \"%s\"\n", ss.First(), want); return ok; }

// Digit.hpp:1166 writes storage[Length] (carry out of the leading digit), :1154 reads storage[Length] (half-even parity test).
// With -DQENTEM_VERIF=1 (exact-fit growth) ASan reports heap-buffer-overflow; without it the access lands in slack capacity
// (uninitialised read decides the rounding of 0.5 at precision 0; the written carry digit is lost).
int main() { bool ok = true;
  ok &= prints(0.005, {2U, Digit::RealFormatType::SemiFixed}, "0.01");   // write past the end
  ok &= prints(0.5, {0U, Digit::RealFormatType::SemiFixed}, "0");        // read past the end
  ok &= prints(0.9205, {0U, Digit::RealFormatType::SemiFixed}, "1");
  return ok ? 0 : 1; }
