// D20: String::operator==(const Char_T*) on an empty (default-constructed) String dereferences
// First() == nullptr; with str == nullptr it dereferences str after the guard.
// g++ -std=c++17 -g -fsanitize=address,undefined -fno-sanitize-recover=all -I/repo/Include D20_string_eq_cstr_null.cpp -o d20 && ./d20   (UBSan/SEGV => non-zero exit)
#include <new>
#include <cstdio>
#include "String.hpp"
using namespace Qentem;
int main() {
    String<char> e;
    if (e == "x") { std::puts("D20: empty == \"x\""); return 1; }
    if (!(e == "")) { std::puts("D20: empty != \"\""); return 1; }
    if (e != "") { std::puts("D20: empty != \"\" (2)"); return 1; }
    const char *np = nullptr;
    if (!(e == np)) { std::puts("D20: empty != nullptr"); return 1; }
    String<char> s{"ab"};
    if (s == np) { std::puts("D20: \"ab\" == nullptr"); return 1; }
    if (!(s == "ab") || (s == "a") || (s == "abc") || (s == "ax")) { std::puts("D20: compare"); return 1; }
    String<char> z{"a\0b", 3};
    if (z == "a") { std::puts("D20: embedded NUL"); return 1; }
    std::puts("ok");
    return 0;
}
