// D51: String::operator=(const Char_T*) with a pointer into the string's own buffer (s = s.First(),
// s = s.First() + 2): the storage is released before it is copied => heap-use-after-free.
// g++ -std=c++17 -g -fsanitize=address,undefined -fno-sanitize-recover=all -I/repo/Include D51_string_assign_own_cstr.cpp -o d51 && ./d51   (ASan => non-zero exit)
#include <new>
#include <cstdio>
#include "String.hpp"
using namespace Qentem;
int main() {
    String<char> s{"hello world"};
    s = s.First();
    if (!(s == "hello world")) { std::puts("D51: self"); return 1; }
    s = s.First() + 6;
    if (!(s == "world") || s.Length() != 5) { std::puts("D51: tail"); return 1; }
    std::puts("ok");
    return 0;
}
