// D25: String::StepBack(0) on a default-constructed String stores the terminator through a null pointer.
// g++ -std=c++17 -g -fsanitize=address,undefined -fno-sanitize-recover=all -I/repo/Include D25_string_stepback_null.cpp -o d25 && ./d25   (UBSan/SEGV => non-zero exit)
#include <new>
#include <cstdio>
#include "String.hpp"
using namespace Qentem;
int main() {
    String<char> s;
    s.StepBack(0);
    if (s.Length() != 0) return 1;
    String<char> t{"abc"};
    t.StepBack(1);
    if (t.Length() != 2 || t.First()[2] != 0 || !(t == "ab")) { std::puts("D25: stepback"); return 1; }
    t.StepBack(0);
    t.StepBack(3);
    if (t.Length() != 2) return 1;
    t.StepBack(2);
    if (t.Length() != 0 || t.First()[0] != 0) return 1;
    std::puts("ok");
    return 0;
}
