// D44_exponent_wraps_around -- reproducer. exit 1 = defect present, 0 = fixed.
// g++ -std=c++17  -I/repo/Include D44_exponent_wraps_around.cpp -o /tmp/D44_exponent_wraps_around && /tmp/D44_exponent_wraps_around
#include <new>
#include <cstdio>
#include <cstring>
#include <cstdlib>
#include "Digit.hpp"
#include "StringStream.hpp"
using namespace Qentem;
static int parse(const char *t, QNumber64 &q, SizeT &off) { off = 0; return (int)Digit::StringToNumber(q, t, off, (SizeT)strlen(t)); }
template <typename N> static bool prints(N v, Digit::RealFormatInfo f, const char *want) { StringStream<char> ss; Digit::NumberToString(ss, v, f); bool ok = (ss.Length() == strlen(want)) && (memcmp(ss.First(), want, ss.Length()) == 0); ss.InsertNull(); printf("  got \"%s\" want \"%s\"\n", ss.First(), want); return ok; }

// parseExponent accumulates in 32 bits without a bound: 4294967297 wraps to 1.
int main() { QNumber64 q; SizeT off; int k = parse("1e4294967297", q, off);
  printf("1e4294967297 -> kind=%d value=%g (want NotANumber)\n", k, k == 1 ? q.Real : 0.0);
  int k2 = parse("1e-4294967297", q, off); printf("1e-4294967297 -> kind=%d value=%g (want NotANumber or 0)\n", k2, k2 == 1 ? q.Real : 0.0);
  return (k == 0 && (k2 == 0 || (k2 == 1 && q.Real == 0.0))) ? 0 : 1; }
