// D18: Array::operator+=(const Array&) writes the appended items from the front of the
// destination (index_ advanced before the destination pointer is computed), and for
// a += a reads src.Size() after it was doubled.
// g++ -std=c++17 -g -fsanitize=address,undefined -fno-sanitize-recover=all -I/repo/Include D18_array_append_copy.cpp -o d18 && ./d18
#include <new>
#include <cstdio>
#include "Array.hpp"
using namespace Qentem;
int main() {
    Array<int> a; a += 1; a += 2;
    Array<int> b; b += 7; b += 8;
    a += b;
    const int want[4] = {1, 2, 7, 8};
    if (a.Size() != 4) { std::puts("D18: size"); return 1; }
    for (int i = 0; i < 4; i++) if (a.First()[i] != want[i]) { std::printf("D18: a[%d]=%d want %d\n", i, a.First()[i], want[i]); return 1; }
    Array<int> c; c += 3; c += 4; c.Expect(8);
    c += c; // self-append
    const int want2[4] = {3, 4, 3, 4};
    if (c.Size() != 4) { std::puts("D18: self size"); return 1; }
    for (int i = 0; i < 4; i++) if (c.First()[i] != want2[i]) { std::printf("D18: c[%d]=%d want %d\n", i, c.First()[i], want2[i]); return 1; }
    std::puts("ok");
    return 0;
}
