// D17 -- Value::Remove(const String&) takes the key length from the value's own
// (object) payload (string_.Length()) instead of key.Length(): nothing is removed.
// exit 1 when the defect shows, 0 when fixed.
// g++ -std=c++17 -I/repo/Include D17_remove_string_key_length.cpp -o d17 && ./d17
#include <new>
#include <cstdio>
#include "Value.hpp"
using namespace Qentem;
int main() {
    Value<char> o;
    o["key1"] = 1;
    o["k2"]   = 2;
    o.Remove(String<char>("key1"));
    bool still = (o.GetValue("key1", 4) != nullptr);
    puts(still ? "DEFECT: key1 still present" : "fixed");
    return still ? 1 : 0;
}
