// D74 (C01): getValue() walks the [index] parts of a variable name; after a ']' it reads id[offset2] without
// comparing offset2 with the name's length.  A name that ends in ']' without any '[' ("a]") enters the loop with
// offset2 = length + 1 and reads two units past the name -- past the template buffer when the tag ends the text:
// heap-buffer-overflow (Template.hpp getValue).
//   g++ -std=c++17 -g -fsanitize=address,undefined -fno-sanitize-recover=all -I/repo/Include D74_getvalue_read_past_name.cpp
#include "tmpl_repro.hpp"
int main() {
    const char *t = "{var:a]}";
    return expect("D74", render_exact(t, "{\"a]\":{\"k\":1}}"), t);
}
