// D22 (C01): "{math:" followed by a tag opener other than '}' builds a MathTag with EndOffset 0
// and parses its expression up to offset 0xFFFFFFFF -> heap-buffer-overflow (getOperation).
#include "tmpl_repro.hpp"
int main() { return expect("D22", render_exact("2.5&&{math:\n{if", "[1]"), "2.5&&{math:\n{if"); }
