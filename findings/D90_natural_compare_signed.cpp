// D90: QExpression::operator> / >= / < / <= / == compare a NaturalNumber with a non-real right
// operand through Value.Number.Integer (the signed view of the 64 bits), and a RealNumber with a
// non-real right operand through double(right.Value.Number.Integer): a Natural from 2^63 up is read
// as a negative number.  {math:18446744073709551615 > 1} renders 0, {math:18446744073709551615 == -1}
// renders 1, {math:1.5 < 18446744073709551615} renders 0, <if case="{var:big} > 1"> is not satisfied.
// (The truth test operator>(0U) used by && / || / case= compares .Natural and is not affected.)
// g++ -std=c++17 -I/repo/Include findings/D90_natural_compare_signed.cpp -o /tmp/d90 && /tmp/d90 ; echo $?
// exit code 1 when the defect shows, 0 when fixed.
#include <new>
#include <cstdio>
#include <cstring>
#include "JSON.hpp"
#include "Template.hpp"
using namespace Qentem;
static int t(const char *tpl, const char *want) {
    Value<char> v;
    v["big"] = 18446744073709551615ULL;
    v["b63"] = 9223372036854775808ULL;
    v["m1"]  = -1;
    v["r"]   = 1.5;
    StringStream<char> ss;
    Template::Render(tpl, (SizeT)std::strlen(tpl), v, ss);
    ss.InsertNull();
    const bool ok = (std::strcmp(ss.First(), want) == 0);
    std::printf("%s => %s (expected %s)%s\n", tpl, ss.First(), want, ok ? "" : "  DEFECT");
    return ok ? 0 : 1;
}
int main() {
    int bad = 0;
    bad += t("{math:{var:big} > 1}", "1");
    bad += t("{math:18446744073709551615 > 1}", "1");
    bad += t("{math:1 < {var:big}}", "1");
    bad += t("{math:{var:b63} >= 1}", "1");
    bad += t("{math:{var:b63} <= {var:big}}", "1");
    bad += t("{math:{var:big} <= {var:b63}}", "0");
    bad += t("{math:9223372036854775807 < 9223372036854775808}", "1");
    bad += t("{math:{var:big} > {var:m1}}", "1");
    bad += t("{math:{var:m1} < {var:big}}", "1");
    bad += t("{math:{var:big} == {var:m1}}", "0");
    bad += t("{math:{var:m1} != {var:big}}", "1");
    bad += t("{math:18446744073709551615 == -1}", "0");
    bad += t("{math:{var:big} == {var:big}}", "1");
    bad += t("{math:{var:r} < {var:big}}", "1");
    bad += t("{math:{var:r} == {var:b63}}", "0");
    bad += t("{if case=\"{var:big} > 1\" true=\"yes\" false=\"no\"}", "yes");
    bad += t("<if case=\"{var:b63} > {var:m1}\">yes<else>no</if>", "yes");
    // unchanged behaviour that must stay
    bad += t("{math:{var:m1} < 0}", "1");
    bad += t("{math:-3 < {var:m1}}", "1");
    bad += t("{math:{var:m1} <= {var:m1}}", "1");
    bad += t("{math:2 > 1}", "1");
    bad += t("{math:{var:big} && 1}", "1");
    bad += t("{if case=\"{var:big}\" true=\"yes\" false=\"no\"}", "yes");
    return bad ? 1 : 0;
}
