// D21 (C01): a loop nested inside two <if> has Level 2 but the loop-item array is grown by one
// element only -> heap-buffer-overflow in renderLoop (Template.hpp).
#include "tmpl_repro.hpp"
int main() { return expect("D21", render_exact("<if case=\"1\"><if case=\"1\"><loop value=\"v\">{var:v}</loop></if></if>", "[1,2]"), "12"); }
