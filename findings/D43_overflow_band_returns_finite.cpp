// D43_overflow_band_returns_finite -- reproducer. exit 1 = defect present, 0 = fixed.
// g++ -std=c++17  -I/repo/Include D43_overflow_band_returns_finite.cpp -o /tmp/D43_overflow_band_returns_finite && /tmp/D43_overflow_band_returns_finite
#include <new>
#include <cstdio>
#include <cstring>
#include <cstdlib>
#include "Digit.hpp"
#include "StringStream.hpp"
using namespace Qentem;
static int parse(const char *t, QNumber64 &q, SizeT &off) { off = 0; return (int)Digit::StringToNumber(q, t, off, (SizeT)strlen(t)); }
template <typename N> static bool prints(N v, Digit::RealFormatInfo f, const char *want) { StringStream<char> ss; Digit::NumberToString(ss, v, f); bool ok = (ss.Length() == strlen(want)) && (memcmp(ss.First(), want, ss.Length()) == 0); ss.InsertNull(); printf("  got \"%s\" want \"%s\"\n", ss.First(), want); return ok; }

// numerals between DBL_MAX and 1e310 pass the (exponent + digits > 309) test; the biased exponent then overflows into the sign bit.
int main() { QNumber64 q; SizeT off; bool ok = true; const char *t[] = {"7.999952e308", "1.8e308", "1.7976931348623159e308", "9e308"};
  for (const char *s : t) { int k = parse(s, q, off); bool good = (k == 0) || (k == 1 && (q.Natural & 0x7FFFFFFFFFFFFFFFULL) == 0x7FF0000000000000ULL);
    printf("  %s -> kind=%d value=%g bits=%llx %s\n", s, k, k == 1 ? q.Real : 0.0, (unsigned long long)q.Natural, good ? "" : "  <-- finite / garbage"); ok &= good; }
  return ok ? 0 : 1; }
