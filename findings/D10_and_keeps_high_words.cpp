// D10 (C19): BigInt::operator&= only touches the words covered by the operand and
// then lowers index_; the words above stay in storage.  The value is wrong as soon
// as a later operation reaches them (carry, shift, conversion).
// build: g++ -std=c++17 -I/repo/Include D10_and_keeps_high_words.cpp -o d10 && ./d10
// exit 1 = defect present, 0 = fixed
#include <new>
#include <cstdio>
#include "BigInt.hpp"
using namespace Qentem;
int main() {
    BigInt<SizeT64, 256U> x;
    x = SizeT64{1};
    x <<= 64U;
    x |= SizeT64{3};                        // 2^64 + 3
    x &= SizeT64{1};                        // 1
    x += SizeT64{0xFFFFFFFFFFFFFFFFULL};    // 2^64: word 1 must be 1
    std::printf("((2^64+3) & 1) + (2^64-1): word1 = %llu (expected 1) word0 = %llu\n",
                (unsigned long long)x.Storage()[1], (unsigned long long)x.Storage()[0]);
    // wide operand on narrow words: words above the operand's top word must be cleared too
    BigInt<SizeT8, 64U> y;
    y = SizeT64{0xFFFFFFFFFFFFFFFFULL};
    y &= SizeT64{0x00FF00FFULL};
    std::printf("(2^64-1) & 0xFF00FF: uint64 = %llx (expected ff00ff) Index = %u (expected 2)\n",
                (unsigned long long)SizeT64(y), y.Index());
    bool high_clear = true;
    for (unsigned i = 3; i < 8; i++) high_clear = high_clear && (y.Storage()[i] == 0);
    return (x.Storage()[1] == 1U && high_clear && y.Index() == 2U) ? 0 : 1;
}
