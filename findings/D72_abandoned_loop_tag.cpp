// D72 (C01): parse() keeps loop_tag pointing at a <loop> that was opened inside a super variable or an
// inline if and abandoned when their closing '}' popped its storage.  A later "<else" without '>' ("bad else")
// drops the <if> that owns the abandoned loop and frees the LoopTag; the next {var:...} runs
// checkLoopVariable() through the dangling pointer: heap-use-after-free (Template.hpp checkLoopVariable).
// Expected: parsing any text is memory-safe; the malformed text stays literal.
//   g++ -std=c++17 -g -fsanitize=address,undefined -fno-sanitize-recover=all -I/repo/Include D72_abandoned_loop_tag.cpp
#include "tmpl_repro.hpp"
int main() {
    const char *t = "{ifcase=}<if<loop>}<else{var:1}";
    return expect("D72", render_exact(t, "{\"1\":\"x\"}"), t);
}
