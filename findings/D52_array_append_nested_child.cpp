// D52 (C14/C16): appending the array held by one of the destination's own elements
// (parent += parent[i].kids, parent += Move(parent[i].kids)) while the destination grows:
// resize() relocates the elements bitwise and frees the old block, then the source array object
// (which lived in that block) is read -- heap-use-after-free; the move overload also writes to it
// and leaves the relocated copy owning a released buffer (double free).
//   g++ -std=c++17 -g -fsanitize=address,undefined -fno-sanitize-recover=all -I/repo/Include D52_array_append_nested_child.cpp
#include <new>
#include <cstdio>
#include "Array.hpp"
using namespace Qentem;
struct Node {
    int         id{0};
    Array<Node> kids;
};
static int count(const Array<Node> &a) {
    int n = 0;
    for (const Node *p = a.First(); p != a.End(); ++p) n += 1 + count(p->kids);
    return n;
}
int main() {
    int bad = 0;
    for (int variant = 0; variant < 2; variant++) {
        Array<Node> root;
        for (int i = 1; i <= 2; i++) {
            Node n;
            n.id = i;
            for (int k = 0; k < 3; k++) {
                Node c;
                c.id = 10 * i + k;
                n.kids += Memory::Move(c);
            }
            root += Memory::Move(n);
        }
        root.Compress(); // capacity == size: the append has to grow
        if (variant == 0) {
            root += root.Storage()[0].kids; // copy: 2 + 3 top-level items, first child keeps its 3 kids
            if (root.Size() != 5 || count(root) != 11) bad |= 1;
        } else {
            root += Memory::Move(root.Storage()[0].kids); // move: first child is left without kids
            if (root.Size() != 5 || count(root) != 8) bad |= 2;
        }
    }
    std::printf("bad=%d\n", bad);
    return bad ? 1 : 0;
}
