// D23 (C01): "</loop>" while an <if> is the innermost open tag reinterprets the IfTag record as a
// LoopTag and writes EndOffset past the block.
#include "tmpl_repro.hpp"
int main() { return expect("D23", render_exact("<loop value=\"v\"><if case=\"1\"></loop>", "[1,2]"), "<loop value=\"v\"><if case=\"1\"></loop>"); }
