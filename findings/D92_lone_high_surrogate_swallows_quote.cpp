// D92 (C07, C05): JSONUtils::UnEscape, after a \uD800..\uDBFF escape, skips the next two units and reads four more as the
// low half WITHOUT checking that they are "\uXXXX" with a low surrogate.  With ordinary text behind a lone high surrogate
// the string's closing quote is swallowed, so a ']' or '}' inside a LATER string is taken as structure: the proper prefix
//   ["\uD800abcde","]        of the (grammatically valid) document        ["\uD800abcde","]"]
// is accepted as a complete document.  Expected: every proper prefix of a document is Undefined.
//   g++ -std=c++17 -I/repo/Include D92_lone_high_surrogate_swallows_quote.cpp
#include <new>
#include <cstdio>
#include <cstring>
#include "JSON.hpp"
using namespace Qentem;
int main() {
    const char *doc = "[\"\\uD800abcde\",\"]\"]";
    const SizeT n   = (SizeT)std::strlen(doc);
    int         bad = 0;
    for (SizeT cut = 1; cut < n; cut++) {
        Value<char> v = JSON::Parse(doc, cut);
        if (!v.IsUndefined()) {
            std::printf("D92: the proper prefix of %u of %u units is accepted\n", (unsigned)cut, (unsigned)n);
            bad = 1;
        }
    }
    // a well-formed pair still decodes
    const char *pair = "[\"\\uD83D\\uDE00\"]";
    Value<char> p    = JSON::Parse(pair, (SizeT)std::strlen(pair));
    if (!(p.IsArray() && p.GetValue(0) != nullptr && p.GetValue(0)->IsString() && p.GetValue(0)->Length() == 4)) {
        std::printf("D92: a well-formed surrogate pair no longer decodes\n");
        bad = 1;
    }
    return bad;
}
