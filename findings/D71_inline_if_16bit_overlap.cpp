// D71 (C01): the true="..." / false="..." slices of an inline if are stored as 16-bit offsets from the tag start.
// With more than 65535 units between the attributes (spaces are enough) FalseOffset wraps around and the false
// slice aliases a range that overlaps the true slice.  A sub tag that lies inside the true slice passes
// areInLineIfSubTagsValid(), but is rendered for the FALSE slice whose start lies after the tag's start:
// render() computes (tag start - cursor) below zero -> Write() with a length near 2^32, heap-buffer-overflow.
// Expected: an inline if that does not fit the 16-bit fields is not a tag; the text stays literal.
//   g++ -std=c++17 -g -fsanitize=address,undefined -fno-sanitize-recover=all -I/repo/Include D71_inline_if_16bit_overlap.cpp
#include "tmpl_repro.hpp"
int main() {
    std::string t = "{if case=\"0\" true=\"a{var:x}\"";
    t += std::string(65526, ' ');
    t += "false=\"bbbbbbbbbb\"}";
    const std::string out = render_exact(t.c_str(), "{\"x\":\"X\"}");
    std::printf("D71: rendered %zu units (template %zu)\n", out.size(), t.size());
    return out == t ? 0 : 1;
}
