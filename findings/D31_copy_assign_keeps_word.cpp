// D31 (C19): BigInt copy/move assignment from a SHORTER value: copy() clears the
// destination's old words with "while (index_ > index)", where index is already
// src.index_ + 1, so the word at src.index_ + 1 is never cleared.
// build: g++ -std=c++17 -I/repo/Include D31_copy_assign_keeps_word.cpp -o d31 && ./d31
// exit 1 = defect present, 0 = fixed
#include <new>
#include <cstdio>
#include "BigInt.hpp"
using namespace Qentem;
int main() {
    BigInt<SizeT64, 256U> a, b;
    a = SizeT64{7};
    a <<= 64U;
    a |= SizeT64{5};      // 7 * 2^64 + 5  (two words)
    b = SizeT64{9};       // one word
    a = b;                // a must be 9
    std::printf("a = b: word0 = %llu word1 = %llu (expected 9, 0) Index = %u\n", (unsigned long long)a.Storage()[0],
                (unsigned long long)a.Storage()[1], a.Index());
    a += SizeT64{0xFFFFFFFFFFFFFFFFULL};   // 2^64 + 8
    std::printf("a + (2^64-1): word1 = %llu (expected 1)\n", (unsigned long long)a.Storage()[1]);
    return (a.Storage()[1] == 1U) ? 0 : 1;
}
