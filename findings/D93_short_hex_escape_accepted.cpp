// D93 (C07, C05):
// a \u escape is not required to have four hexadecimal digits.  Digit::HexStringToNumber stops at
// the first unit that is not a digit, but JSONUtils::UnEscape advances by four units regardless, so
// the units after a short digit group -- including the string's closing quote -- are swallowed:
//   ["\u1","abcd"]  is accepted as a ONE-element array holding the string 01 'a' 'b' 'c' 'd'
//   ["\u00zz"]      is accepted as the string 00
// Still present with D11 and D92 applied.  A repair in the spirit of D92: fail (return 0) unless
// HexStringToNumber consumed exactly four units (use the offset-returning overload), in both halves.
//   g++ -std=c++17 -I/repo/Include Dxx_short_hex_escape_swallows_quote.cpp -o dxx && ./dxx
// exit code 1 = defect present, 0 = fixed.
#include <new>
#include <cstdio>
#include "JSON.hpp"
using namespace Qentem;
int main() {
    int bad = 0;
    Value<char> a = JSON::Parse("[\"\\u1\",\"abcd\"]");
    std::printf("[\"\\u1\",\"abcd\"] : %s\n", a.IsUndefined() ? "rejected" : "ACCEPTED");
    if (!a.IsUndefined()) bad = 1;
    Value<char> b = JSON::Parse("[\"\\u00zz\"]");
    std::printf("[\"\\u00zz\"]      : %s\n", b.IsUndefined() ? "rejected" : "ACCEPTED");
    if (!b.IsUndefined()) bad = 1;
    return bad;
}
