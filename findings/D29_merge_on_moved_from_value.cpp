// D29 -- Merge on an Undefined value switches the kind to Array without the reset()
// every other path performs; a moved-from scalar keeps its payload bytes, so the
// "array" starts with storage pointer = the old number: operator delete(0x7).
// exit 1 (or a crash) when the defect shows, 0 when fixed.
// g++ -std=c++17 -g -fsanitize=address,undefined -I/repo/Include D29_merge_on_moved_from_value.cpp -o d29 && ./d29
#include <new>
#include <cstdio>
#include <csignal>
#include <cstdlib>
#include "Value.hpp"
using namespace Qentem;
static void on_crash(int) { puts("DEFECT: crash"); _Exit(1); }
int main() {
    signal(SIGSEGV, on_crash);
    signal(SIGABRT, on_crash);
    Value<char> a{SizeT64(7)};
    Value<char> b = Memory::Move(a);
    Value<char> arr;
    arr += 1;
    arr += 2;
    a.Merge(arr);
    bool ok = a.IsArray() && a.Size() == 2;
    puts(ok ? "fixed" : "DEFECT");
    return ok ? 0 : 1;
}
