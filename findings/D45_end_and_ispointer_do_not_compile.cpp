// D45 -- three public members of Value cannot be instantiated (the class is a template, so the
// errors only show when somebody calls them):
//   Value::End()              : "VItem *item = object_.End();" converts const VItem* to VItem*
//   Value::IsPointerToValue() : returns isPtrValue(), which is declared "void isPtrValue() noexcept"
//                               (non-const, void) -- called from a const member
//   Value::Storage()          : non-const, calls value_->Storage() through the const Value *value_
//                               ("passing const Value as this discards qualifiers")
// This file does not COMPILE against /repo (that is the defect); with the patch it compiles,
// runs and exits 0.
// g++ -std=c++17 -I/repo/Include D45_end_and_ispointer_do_not_compile.cpp -o d45 && ./d45
#include <new>
#include <cstdio>
#include "Value.hpp"
using namespace Qentem;
int main() {
    Value<char> a;
    a += 1;
    a += 2;
    Value<char> p;
    p.SetPointerToValue(&a);
    bool ok = (a.End() == a.First() + 2) && p.IsPointerToValue() && !a.IsPointerToValue() &&
              (a.Storage() == a.First()) && (p.Storage() == a.First());
    puts(ok ? "fixed" : "DEFECT");
    return ok ? 0 : 1;
}
