// D19: StringStream self-append (s += s, s << s, s.Write(s.First(), n)) when the stream has to grow:
// write() receives a pointer into the old buffer, expand() frees it, Memory::Copy reads freed storage.
// g++ -std=c++17 -g -fsanitize=address,undefined -fno-sanitize-recover=all -I/repo/Include D19_stream_self_append.cpp -o d19 && ./d19   (ASan: heap-use-after-free => non-zero exit)
#include <new>
#include <cstdio>
#include <cstring>
#include "StringStream.hpp"
using namespace Qentem;
int main() {
    StringStream<char> s;
    s += "abc";
    for (int i = 0; i < 6; i++) s += s;
    if (s.Length() != 3 * 64) { std::puts("D19: length"); return 1; }
    for (SizeT i = 0; i < s.Length(); i++) if (s.First()[i] != "abc"[i % 3]) { std::puts("D19: content"); return 1; }
    StringStream<char> t;
    t += "xy";
    for (int i = 0; i < 6; i++) t << t;
    for (int i = 0; i < 3; i++) t.Write(t.First(), t.Length());
    if (t.Length() != 2 * 64 * 8) { std::puts("D19: length 2"); return 1; }
    for (SizeT i = 0; i < t.Length(); i++) if (t.First()[i] != "xy"[i % 2]) { std::puts("D19: content 2"); return 1; }
    std::puts("ok");
    return 0;
}
