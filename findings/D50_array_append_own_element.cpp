// D50: Array::operator+=(const Type_T&) / Insert(const Type_T&) with an element of the same array
// (a += a[0]) when the array has to grow: resize() frees the old storage, then the item reference is
// read => heap-use-after-free.  Same for the rvalue overload (a += Memory::Move(a[0])).
// g++ -std=c++17 -g -fsanitize=address,undefined -fno-sanitize-recover=all -I/repo/Include D50_array_append_own_element.cpp -o d50 && ./d50   (ASan => non-zero exit)
#include <new>
#include <cstdio>
#include "Array.hpp"
#include "String.hpp"
using namespace Qentem;
int main() {
    Array<int> a;
    a += 5;                    // size 1, capacity 1
    a += a.First()[0];         // grows
    a += a.First()[0];         // grows
    if (a.Size() != 3 || a.First()[0] != 5 || a.First()[1] != 5 || a.First()[2] != 5) { std::puts("D50: int"); return 1; }
    Array<String<char>> s;
    s += String<char>{"hello"};
    s.Compress();
    s += s.First()[0];
    s.Compress();
    s.Insert(s.First()[1]);
    if (s.Size() != 3) return 1;
    for (int i = 0; i < 3; i++) if (!(s.First()[i] == "hello")) { std::puts("D50: str"); return 1; }
    s.Compress();
    s += Memory::Move(s.Storage()[0]);
    if (s.Size() != 4 || !(s.First()[3] == "hello") || s.First()[0].Length() != 0) { std::puts("D50: move"); return 1; }
    std::puts("ok");
    return 0;
}
