// D15 (C05): the JSON parser reads content[length] (one unit past the buffer) on truncated input:
//   "["  JSON.hpp:145 (and "{" :86)      "{\"a\""  JSON.hpp:106      "[\"\\"  JSONUtils.hpp:102
//   "{\"abc"  JSONUtils.hpp:86 (UnEscape is given the whole length instead of the remaining length)
//   " "  JSON.hpp:178
// The buffers are exact-size heap blocks without terminator.
// g++ -std=c++17 -g -fsanitize=address -I/repo/Include D15_json_one_past_reads.cpp -o d15 && ./d15
//   (AddressSanitizer report, exit code 1 = defect present; silent exit 0 = fixed)
#include <new>
#include <cstdio>
#include <cstdlib>
#include <cstring>
#include "JSON.hpp"
using namespace Qentem;
static void run(const char *text) {
    size_t n   = std::strlen(text);
    char  *buf = static_cast<char *>(std::malloc(n));
    std::memcpy(buf, text, n);
    Value<char> v = JSON::Parse(static_cast<const char *>(buf), SizeT(n));
    std::free(buf);
    if (!v.IsUndefined()) {
        std::printf("accepted: %s\n", text);
        std::exit(1);
    }
}
int main() {
    run("[");
    run("{");
    run("{\"a\"");
    run("[\"\\");
    run("{\"abc");
    run(" ");
    run("{\"a\":");
    run("[1,");
    return 0;
}
