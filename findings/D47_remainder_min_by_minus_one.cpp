// D47 (C01): {math:-9223372036854775808 % -1} divides INT64_MIN by -1: SIGFPE on x86-64 (UBSan: not representable).
#include "tmpl_repro.hpp"
int main() { return expect("D47", render_exact("{math:-9223372036854775808 % -1}", "[1]"), "0"); }
