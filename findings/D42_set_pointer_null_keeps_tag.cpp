// D42 -- SetPointerToValue(nullptr) clears the payload but keeps the kind tag: a value
// that was a pointer stays ValueType::ValuePtr with a null pointer and the next read
// dereferences it (SEGV in Type()); a string becomes "", a number 0.  The value should
// be Undefined.  Found by reading.
// exit 1 (or a crash) when the defect shows, 0 when fixed.
// g++ -std=c++17 -I/repo/Include D42_set_pointer_null_keeps_tag.cpp -o d42 && ./d42
#include <new>
#include <cstdio>
#include <csignal>
#include <cstdlib>
#include "Value.hpp"
using namespace Qentem;
static void on_crash(int) { puts("DEFECT: null pointer dereferenced"); _Exit(1); }
int main() {
    signal(SIGSEGV, on_crash);
    Value<char> s{"abc", 3};
    s.SetPointerToValue(nullptr);
    if (!s.IsUndefined()) { puts("DEFECT: kind tag kept"); return 1; }
    Value<char> x{SizeT64(7)};
    Value<char> p;
    p.SetPointerToValue(&x);
    p.SetPointerToValue(nullptr);
    bool n = p.IsNumber();   // follows the (null) pointer
    puts(n ? "DEFECT" : "fixed");
    return n ? 1 : 0;
}
