// D2 (C07): a failure inside a nested container does not poison the outer one.
//   JSON::Parse("[[1 2]")      -> an array holding one Undefined element (Stringify: [])
//   JSON::Parse("{\"a\":[1 2}") -> an object whose member "a" is Undefined
//   JSON::Parse("[{\"a\"x,2]")  -> [Undefined, 2]
// expected: Undefined (the text is not a JSON document).
// g++ -std=c++17 -I/repo/Include D2_json_inner_failure_not_propagated.cpp -o d2 && ./d2   (exit 1 = defect present)
#include <new>
#include <cstdio>
#include "JSON.hpp"
using namespace Qentem;
int main() {
    const char *docs[] = {"[[1 2]", "{\"a\":[1 2}", "[{\"a\"x,2]", "[[1,]", "{\"k\":{\"a\" 1},\"b\":2}"};
    int         bad    = 0;
    for (const char *d : docs) {
        Value<char> v = JSON::Parse(d, StringUtils::Count(d));
        if (!v.IsUndefined()) {
            std::printf("accepted: %s  -> %s\n", d, v.Stringify().First());
            bad = 1;
        }
    }
    return bad;
}
