// D8 (C19): DoubleSize<uint64,64>::Divide, branch "remainder + carry overflowed":
// it adds ((2^63 % (d >> 1)) << 1), which equals 2^64 mod d only for even d.  For
// odd divisors >= 2^63 remainder and quotient are wrong.
// build: g++ -std=c++17 -I/repo/Include D8_divide128_odd_top_bit_divisor.cpp -o d8 && ./d8
// exit 1 = defect present, 0 = fixed
#include <new>
#include <cstdio>
#include "BigInt.hpp"
using namespace Qentem;
typedef unsigned __int128 u128;
int main() {
    const SizeT64 d = 0x8000000000000001ULL, hi = 0x4000000000000001ULL, lo = 0x8000000000000000ULL;
    BigInt<SizeT64, 256U> x;
    x = hi;
    x <<= 64U;
    x |= lo;
    const u128    v = ((u128)hi << 64) | lo;
    const SizeT64 r = x.Divide(d);
    std::printf("rem = %llu (expected %llu)  quotient word0 = %llu (expected %llu)\n", (unsigned long long)r,
                (unsigned long long)(v % d), (unsigned long long)x.Storage()[0], (unsigned long long)(SizeT64)(v / d));
    // the helper itself, re-instantiated on 32-bit words (16-bit halves; narrower word types do not
    // work because of integer promotion in mask_): ((2^30+1) * 2^32 + 2^31) / (2^31+1)
    SizeT32       h32 = 0x40000001U, l32 = 0x80000000U;
    const SizeT32 d32 = 0x80000001U;
    const SizeT64 v32 = (SizeT64(h32) << 32U) | l32;
    DoubleSize<SizeT32, 64U>::Divide(h32, l32, d32, 0U);
    std::printf("32-bit analogue: rem = %u quo = %u (expected %u %u)\n", h32, l32, SizeT32(v32 % d32), SizeT32(v32 / d32));
    const bool ok = (r == (SizeT64)(v % d)) && (x.Storage()[0] == (SizeT64)(v / d)) && (h32 == SizeT32(v32 % d32)) &&
                    (l32 == SizeT32(v32 / d32));
    return ok ? 0 : 1;
}
