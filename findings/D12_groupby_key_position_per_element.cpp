// D12 / D13 -- Value::GroupBy looks the key's position up once, in the first element,
// and reuses it for every element; and an element with a removed member makes it fail.
//   [{y:1,m:2},{m:5,y:1}] grouped by y  ->  {"1":[{"m":2}],"5":[{"y":1}]}   (want {"1":[{"m":2},{"m":5}]})
//   [{y:1,m:2,z:3},{y:2,m:5,z:4}] with z removed from element 0 -> returns false
// exit 1 when the defect shows, 0 when fixed.
// g++ -std=c++17 -I/repo/Include D12_groupby_key_position_per_element.cpp -o d12 && ./d12
#include <new>
#include <cstdio>
#include <cstring>
#include "JSON.hpp"
using namespace Qentem;
static bool same(const Value<char> &v, const char *want) {
    StringStream<char> ss;
    v.Stringify(ss);
    bool ok = (ss.Length() == strlen(want)) && (memcmp(ss.First(), want, ss.Length()) == 0);
    printf("%.*s  (want %s)\n", (int)ss.Length(), ss.First(), want);
    return ok;
}
int main() {
    int bad = 0;
    Value<char> g = JSON::Parse("[{\"y\":1,\"m\":2},{\"m\":5,\"y\":1}]");
    Value<char> out;
    bool ok = g.GroupBy(out, "y");
    if (!ok || !same(out, "{\"1\":[{\"m\":2},{\"m\":5}]}")) bad = 1;
    Value<char> g2 = JSON::Parse("[{\"y\":1,\"m\":2,\"z\":3},{\"y\":2,\"m\":5,\"z\":4}]");
    g2[0].Remove("z");
    Value<char> out2;
    ok = g2.GroupBy(out2, "y");
    if (!ok || !same(out2, "{\"1\":[{\"m\":2}],\"2\":[{\"m\":5,\"z\":4}]}")) bad = 1;
    puts(bad ? "DEFECT" : "fixed");
    return bad;
}
