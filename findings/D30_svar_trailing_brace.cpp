// D30 (C02/C03): a super-variable phrase ending in "{" (or "{d", or "{d}" with d not a
// sub-tag index) is emitted with one extra unit: the scanner's index runs to length+1
// and the final piece is written with (index - last_index) units, i.e. including the
// string's NUL terminator.   g++ -std=c++17 -I/repo/Include D30_svar_trailing_brace.cpp
#include <new>
#include <cstdio>
#include "JSON.hpp"
#include "Template.hpp"
using namespace Qentem;
int main() {
    Value<char> v;
    v["k"] = "a{";
    StringStream<char> ss;
    Template::Render("{svar:k, {var:k}}", v, ss);
    std::printf("length=%u (expected 2)\n", (unsigned)ss.Length());
    return ss.Length() == 2 ? 0 : 1;
}
