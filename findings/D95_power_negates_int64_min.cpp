// D95 (C01, C04): QExpression::operator^= takes absolute values and restores signs with a SIGNED negation
// (`-Value.Number.Integer`, `-right.Value.Number.Integer`).  With a magnitude of 2^63 -- an integer -2^63, a real
// -2^63 as the base with an odd exponent, or -2^63 as the exponent -- that negation overflows: undefined behaviour
// (UBSan: "negation of -9223372036854775808 cannot be represented in type 'long long int'").
// Expected: {math:{var:rmin} ^ 1} = -9223372036854775808 with every operation defined.
//   g++ -std=c++17 -g -fsanitize=address,undefined -fno-sanitize-recover=all -I/repo/Include D95_power_negates_int64_min.cpp
#include "tmpl_repro.hpp"
int main() {
    int bad = 0;
    bad |= expect("real base -2^63, exponent 1", render_exact("{math:{var:rmin} ^ 1}", "{\"rmin\":-9223372036854775808.0}"), "-9223372036854775808");
    bad |= expect("integer base -2^63, exponent 1", render_exact("{math:{var:imin} ^ 1}", "{\"imin\":-9223372036854775808}"), "-9223372036854775808");
    bad |= expect("exponent -2^63", render_exact("{math:1 ^ {var:imin}}", "{\"imin\":-9223372036854775808}"), "1");
    return bad;
}
