// D42_fixed_precision_zero_bare_point -- reproducer. exit 1 = defect present, 0 = fixed.
// g++ -std=c++17  -I/repo/Include D42_fixed_precision_zero_bare_point.cpp -o /tmp/D42_fixed_precision_zero_bare_point && /tmp/D42_fixed_precision_zero_bare_point
#include <new>
#include <cstdio>
#include <cstring>
#include <cstdlib>
#include "Digit.hpp"
#include "StringStream.hpp"
using namespace Qentem;
static int parse(const char *t, QNumber64 &q, SizeT &off) { off = 0; return (int)Digit::StringToNumber(q, t, off, (SizeT)strlen(t)); }
template <typename N> static bool prints(N v, Digit::RealFormatInfo f, const char *want) { StringStream<char> ss; Digit::NumberToString(ss, v, f); bool ok = (ss.Length() == strlen(want)) && (memcmp(ss.First(), want, ss.Length()) == 0); ss.InsertNull(); printf("  got \"%s\" want \"%s\"\n", ss.First(), want); return ok; }

// Fixed is documented "same as std::fixed": precision 0 prints no decimal point.
int main() { bool ok = true;
  ok &= prints(47279.0, {0U, Digit::RealFormatType::Fixed}, "47279");   // pinned: "47279."
  ok &= prints(0.0, {0U, Digit::RealFormatType::Fixed}, "0");           // pinned: "0."
  ok &= prints(1.5, {0U, Digit::RealFormatType::Fixed}, "2");
  return ok ? 0 : 1; }
