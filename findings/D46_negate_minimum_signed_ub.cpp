// D46_negate_minimum_signed_ub -- reproducer. exit 1 = defect present, 0 = fixed.
// g++ -std=c++17 -fsanitize=undefined -fno-sanitize-recover=all -I/repo/Include D46_negate_minimum_signed_ub.cpp -o /tmp/D46_negate_minimum_signed_ub && /tmp/D46_negate_minimum_signed_ub
#include <new>
#include <cstdio>
#include <cstring>
#include <cstdlib>
#include "Digit.hpp"
#include "StringStream.hpp"
using namespace Qentem;
static int parse(const char *t, QNumber64 &q, SizeT &off) { off = 0; return (int)Digit::StringToNumber(q, t, off, (SizeT)strlen(t)); }
template <typename N> static bool prints(N v, Digit::RealFormatInfo f, const char *want) { StringStream<char> ss; Digit::NumberToString(ss, v, f); bool ok = (ss.Length() == strlen(want)) && (memcmp(ss.First(), want, ss.Length()) == 0); ss.InsertNull(); printf("  got \"%s\" want \"%s\"\n", ss.First(), want); return ok; }

// Digit.hpp:86 "qn.Integer = -qn.Integer" negates the minimum of a signed type: undefined behaviour (UBSan: negation of
// -9223372036854775808 cannot be represented).  exit code 1 comes from the sanitizer abort (nonzero) on the pinned tree.
int main() { bool ok = true;
  ok &= prints((long long)(-9223372036854775807LL - 1), {}, "-9223372036854775808");
  ok &= prints((int)(-2147483647 - 1), {}, "-2147483648");
  ok &= prints((short)-32768, {}, "-32768");
  ok &= prints((signed char)-128, {}, "-128");
  return ok ? 0 : 1; }
