// D94_limb_cutoff_one_short -- reproducer. exit 1 = defect present, 0 = fixed.
// g++ -std=c++17 -I/repo/Include D94_limb_cutoff_one_short.cpp -o /tmp/D94 && /tmp/D94
// Digit::realToString multiplies the odd part of the mantissa by 5^27 repeatedly and, to stay short, drops the low
// 64-bit word as soon as the product has (Precision / 19) + 2 limbs.  A product that has only just crossed a limb
// boundary (short mantissas: m * 2^k with a few significant bits) then keeps barely 64 (resp. 128) bits, fewer than the
// 3.32 * (Precision + 2) bits the digits need at the precisions just below a step (16..18, 35..37): the last digit(s)
// come out one unit low (about 376 of 8 M (m < 64, all exponents, all precisions, Default format) cases, 0 after the fix).
// Floats: for precision >= MaxCut (30) every product reaching the 4th limb is cut although the 256-bit integer can hold
// everything up to precision 49; subnormal floats at 39 digits are one unit low.
// Fix: keep one more limb ((Precision / 19) + 3), and let floats use that rule up to precision 49 (MaxCut 50).
#include <new>
#include <cstdio>
#include <cstring>
#include <cstdlib>
#include <cmath>
#include "Digit.hpp"
#include "StringStream.hpp"
using namespace Qentem;
template <typename N> static bool prints(N v, unsigned p, const char *want) { StringStream<char> ss; Digit::NumberToString(ss, v, Digit::RealFormatInfo{p, Digit::RealFormatType::Default});
  bool ok = (ss.Length() == strlen(want)) && (memcmp(ss.First(), want, ss.Length()) == 0); ss.InsertNull(); printf("  got \"%s\"\n want \"%s\"%s\n", ss.First(), want, ok ? "" : "   <--"); return ok; }
int main() { bool ok = true;
  ok &= prints(std::ldexp(7.0, -200), 18U, "4.3561106945027992e-60");                       // pinned: 4.35611069450279919e-60
  ok &= prints(std::ldexp(15.0, -181), 18U, "4.8939783509988934e-54");                      // pinned: ...339e-54
  ok &= prints(std::ldexp(17.0, -201), 37U, "5.289562986181970451072454445713105605e-60");  // pinned: ...604e-60
  ok &= prints(std::ldexp(9.0, -1073), 18U, "8.8931816251424378e-323");                     // subnormal double
  ok &= prints(std::ldexp(37.0f, -149), 39U, "5.18480431800182316241779945817268968574e-44"); // subnormal float, pinned ...573e-44
  ok &= prints(0.1, 17U, "0.10000000000000001");                                            // unchanged
  return ok ? 0 : 1; }
