// D11 (C20/C06): JSONUtils::UnEscape recognises a \uXXXX escape as a high surrogate only
// when (code >> 8) == 0xD8, i.e. D800..D8FF.  High surrogates D900..DBFF (every code point
// from U+50000 up, e.g. U+64000 = 񤀀) are emitted as a lone surrogate, and the
// following low surrogate as another one: in UTF-8 the string becomes the six bytes
// ED A5 90 ED B0 80 instead of F1 A4 80 80; in UTF-16 the result happens to be right
// (the two units are copied), in UTF-32 it is two units D950 DC00 instead of 00064000.
//   g++ -std=c++17 -I/repo/Include D11_high_surrogate_range.cpp -o d11 && ./d11
// exit code 1 = defect present, 0 = fixed.
#include <new>
#include <cstdio>
#include "JSON.hpp"
using namespace Qentem;
int main() {
    int bad = 0;
    {
        const char   *in = "[\"\\ud950\\udc00\"]";
        Value<char>   v  = JSON::Parse(in);
        const char   *s  = v[0].StringStorage();
        const SizeT   n  = v[0].Length();
        const unsigned char want[4] = {0xF1, 0xA4, 0x80, 0x80};
        std::printf("char    : %u units:", (unsigned)n);
        for (SizeT i = 0; i < n; i++) std::printf(" %02X", (unsigned char)s[i]);
        std::printf("   (expected 4 units: F1 A4 80 80)\n");
        if (n != 4) bad = 1;
        for (SizeT i = 0; i < n && i < 4; i++) if ((unsigned char)s[i] != want[i]) bad = 1;
    }
    {
        const char32_t  in[] = U"[\"\\uDBFF\\uDFFF\"]";
        Value<char32_t> v    = JSON::Parse(in);
        const SizeT     n    = v[0].Length();
        std::printf("char32_t: %u units:", (unsigned)n);
        for (SizeT i = 0; i < n; i++) std::printf(" %08X", (unsigned)v[0].StringStorage()[i]);
        std::printf("   (expected 1 unit: 0010FFFF)\n");
        if (n != 1 || v[0].StringStorage()[0] != char32_t(0x10FFFF)) bad = 1;
    }
    std::printf(bad ? "D11 PRESENT\n" : "D11 fixed\n");
    return bad;
}
