// D5: a ValuePtr on the right-hand side of a Value comparison is not followed:
//     p->7 > 5 and 5 > q->9 hold, but p->7 > q->9 does not (not transitive); 5 == q->5 is false.
// g++ -std=c++17 -I/repo/Include D5_value_rhs_pointer.cpp -o d5 && ./d5 ; exit 1 = defect present, 0 = fixed
#include <new>
#include <cstdio>
#include "Value.hpp"
using namespace Qentem;
int main() {
    Value<char> seven{SizeT64(7)}, nine{SizeT64(9)}, five{SizeT64(5)}, five2{SizeT64(5)};
    Value<char> p, q, r;
    p.SetPointerToValue(&seven);
    q.SetPointerToValue(&nine);
    r.SetPointerToValue(&five2);
    const bool a = (p > five), b = (five > q), c = (p > q);
    std::printf("p->7 > 5: %d   5 > q->9: %d   p->7 > q->9: %d   (expected 1 0 0)\n", a, b, c);
    const bool lt = (five < q), eq = (five == r), le = (five <= r), ge = (nine >= q), eq2 = (r == five);
    std::printf("5 < q->9: %d   5 == r->5: %d   5 <= r->5: %d   9 >= q->9: %d   r->5 == 5: %d   (expected 1 1 1 1 1)\n", lt, eq, le, ge, eq2);
    const bool ok = a && !b && !c && lt && eq && le && ge && eq2;
    return ok ? 0 : 1;
}
