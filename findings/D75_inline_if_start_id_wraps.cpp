// D75 (C01): TrueTagsStartID / FalseTagsStartID of an inline if are 8 bits wide.  With 256 sub tags in the first
// of the two values the start id of the second value wraps to 0; rendering the second value then starts with the
// sub tags of the first one, which lie before the slice: render() computes (tag start - cursor) below zero ->
// Write() with a length near 2^32, heap-buffer-overflow.
// Expected: "B" (or the literal text if such a tag is not supported) -- never a crash.
//   g++ -std=c++17 -g -fsanitize=address,undefined -fno-sanitize-recover=all -I/repo/Include D75_inline_if_start_id_wraps.cpp
#include "tmpl_repro.hpp"
int main() {
    std::string t = "{if case=\"0\" true=\"";
    for (int i = 0; i < 256; i++) t += "{var:a}";
    t += "\" false=\"{var:b}\"}";
    const std::string out = render_exact(t.c_str(), "{\"a\":\"A\",\"b\":\"B\"}");
    std::printf("D75: rendered %zu units\n", out.size());
    return (out == "B" || out == t) ? 0 : 1;
}
