// D7 (C19): BigInt::ShiftLeft of the value zero by one whole word or more: the
// scan "while (storage_[index] == 0) --index;" has no lower bound, index wraps
// to 4294967295 and storage_ is read far outside the object.
// build: g++ -std=c++17 -g -fsanitize=address,undefined -fno-sanitize-recover=all -I/repo/Include D7_shiftleft_zero_underflow.cpp -o d7 && ./d7
// exit != 0 (sanitizer abort / crash) = defect present, 0 = fixed
#include <new>
#include <cstdio>
#include "BigInt.hpp"
using namespace Qentem;
int main() {
    BigInt<SizeT64, 256U> x;               // zero
    x <<= 64U;
    std::printf("0 << 64: Index() = %u IsZero = %d\n", x.Index(), int(x.IsZero()));
    BigInt<SizeT8, 64U> y;
    y <<= 17U;
    std::printf("0 << 17 (8-bit words): Index() = %u IsZero = %d\n", y.Index(), int(y.IsZero()));
    return (x.Index() == 0U && x.IsZero() && y.Index() == 0U && y.IsZero()) ? 0 : 1;
}
