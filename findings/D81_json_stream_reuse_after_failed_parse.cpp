// D81 (C06/C07): JSON::Parse(stream, content, length) with a caller-supplied scratch stream: a parse that fails
// inside an escaped string leaves decoded units in the stream; the next (valid) document parsed with the same
// stream gets them prepended to its first escaped string.
//   g++ -std=c++17 -I/repo/Include D81_json_stream_reuse_after_failed_parse.cpp
#include <new>
#include <cstdio>
#include <cstring>
#include "JSON.hpp"
using namespace Qentem;
int main() {
    StringStream<char> scratch;
    const char *bad  = "[\"a\\n";          // fails: unterminated string, after decoding "a\n" into the scratch stream
    const char *good = "[\"x\\ty\"]";      // a valid document with an escape
    Value<char> v1 = JSON::Parse(scratch, bad, (SizeT)std::strlen(bad));
    Value<char> v2 = JSON::Parse(scratch, good, (SizeT)std::strlen(good));
    const Value<char> *s = v2.GetValue(0);
    const bool ok = v1.IsUndefined() && (s != nullptr) && s->IsString() && (s->Length() == 3) &&
                    (std::memcmp(s->StringStorage(), "x\ty", 3) == 0);
    std::printf("first undefined=%d second string length=%u (expected 3)\n", (int)v1.IsUndefined(), (s && s->IsString()) ? (unsigned)s->Length() : 999u);
    return ok ? 0 : 1;
}
