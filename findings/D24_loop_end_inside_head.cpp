// D24 (C01): "<loop se</loop>t": the '>' of the closing tag is taken as the end of the loop head, so the
// content offset lies after the end offset -> negative slice length, heap-buffer-overflow in Memory::Copy.
#include "tmpl_repro.hpp"
int main() { return expect("D24", render_exact("<loop se</loop>t", "[\"10\",\"zz\"]"), "<loop se</loop>t"); }
