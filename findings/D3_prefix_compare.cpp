// D3: a string and its proper prefix compare as neither <, >, == nor <=.
// g++ -std=c++17 -I/repo/Include D3_prefix_compare.cpp -o d3 && ./d3 ; exit 1 = defect present, 0 = fixed
#include <new>
#include <cstdio>
#include "String.hpp"
#include "StringView.hpp"
#include "Array.hpp"
using namespace Qentem;
int main() {
    String<char> a("a"), ab("ab"), e("");
    const bool lt = (a < ab), gt = (a > ab), eq = (a == ab), le = (a <= ab), ge = (a >= ab);
    std::printf("\"a\" vs \"ab\":  <%d  >%d  ==%d  <=%d  >=%d   (expected 1 0 0 1 0)\n", lt, gt, eq, le, ge);
    const bool r_gt = (ab > a), r_ge = (ab >= a), e_lt = (e < a);
    std::printf("\"ab\" > \"a\": %d   \"ab\" >= \"a\": %d   \"\" < \"a\": %d   (expected 1 1 1)\n", r_gt, r_ge, e_lt);
    StringView<char> va("a", 1), vab("ab", 2);
    const bool v_lt = (va < vab);
    Array<String<char>> arr;
    arr += String<char>("ab"); arr += String<char>("a"); arr += String<char>("abc"); arr += String<char>("");
    arr.Sort();
    bool sorted = (arr.Storage()[0] == "") ;
    sorted = sorted && (arr.Storage()[1] == "a") && (arr.Storage()[2] == "ab") && (arr.Storage()[3] == "abc");
    std::printf("sort [ab,a,abc,\"\"] ascending ordered: %d (expected 1)\n", sorted);
    const bool ok = lt && !gt && !eq && le && !ge && r_gt && r_ge && e_lt && v_lt && sorted;
    return ok ? 0 : 1;
}
