// shared by the template reproducers: render `tmpl` (exact-size heap buffer, no terminator)
// with the JSON value `json`, return the output.  Build with
//   g++ -std=c++17 -g -fsanitize=address,undefined -fno-sanitize-recover=all -I/repo/Include <file>.cpp
#include <new>
#include <cstdio>
#include <cstdlib>
#include <cstring>
#include <string>
#include "JSON.hpp"
#include "Template.hpp"
static std::string render_exact(const char *tmpl, const char *json) {
    using namespace Qentem;
    const size_t n = std::strlen(tmpl);
    char *buf = static_cast<char *>(std::malloc(n ? n : 1));
    std::memcpy(buf, tmpl, n);
    Value<char> v = JSON::Parse(json);
    StringStream<char> ss;
    Template::Render(buf, (SizeT)n, v, ss);
    std::string out(ss.First(), ss.Length());
    std::free(buf);
    return out;
}
static int expect(const char *what, const std::string &got, const char *want) {
    std::printf("%s: got '%s' want '%s'\n", what, got.c_str(), want);
    return got == want ? 0 : 1;
}
