// D40 -- Value::operator=(const Value&) and operator=(Value&&) reset the left-hand
// side before they read the right-hand side: assigning a value one of its own members
// (a = a["x"], a = move(a[0])) reads freed memory.  Array and HArray guard against
// exactly this ("Just in case the copied array is not a child array, do this last");
// Value does not.  Found by reading, confirmed under ASan (heap-use-after-free in
// copyValue / HashTable::operator=).
// exit 1 (or a sanitizer abort) when the defect shows, 0 when fixed.
// g++ -std=c++17 -g -fsanitize=address,undefined -I/repo/Include D40_assign_from_own_member.cpp -o d40 && ./d40
#include <new>
#include <cstdio>
#include <cstring>
#include "Value.hpp"
using namespace Qentem;
static bool is(const Value<char> &v, const char *want) {
    StringStream<char> ss;
    v.Stringify(ss);
    return (ss.Length() == strlen(want)) && (memcmp(ss.First(), want, ss.Length()) == 0);
}
int main() {
    int bad = 0;
    {
        Value<char> a;
        a["x"]["y"] = 5;
        a["z"]      = 1;
        a           = a["x"];
        if (!is(a, "{\"y\":5}")) bad = 1;
    }
    {
        Value<char> a;
        a += 1;
        a[1]["k"] = "v";
        a         = Memory::Move(a[1]);
        if (!is(a, "{\"k\":\"v\"}")) bad = 1;
    }
    puts(bad ? "DEFECT" : "fixed");
    return bad;
}
