// D6 (C19): BigInt::FindFirstBit scans for the first non-zero word but then
// inspects storage_[index_] (the TOP word) instead of the word it found.
// build: g++ -std=c++17 -I/repo/Include D6_findfirstbit_wrong_word.cpp -o d6 && ./d6
// exit 1 = defect present, 0 = fixed
#include <new>
#include <cstdio>
#include "BigInt.hpp"
using namespace Qentem;
int main() {
    BigInt<SizeT64, 256U> x;
    x = SizeT64{1};
    x <<= 128U;
    x |= SizeT64{4};                       // value = 2^128 + 4: lowest set bit is bit 2
    const SizeT32 got = x.FindFirstBit();
    std::printf("FindFirstBit(2^128 + 4) = %u (expected 2)\n", got);
    BigInt<SizeT8, 64U> y;
    y = SizeT64{0x0100000000000600ULL};    // lowest set bit 9, top word = 1
    const SizeT32 got2 = y.FindFirstBit();
    std::printf("FindFirstBit(0x0100000000000600) = %u (expected 9)\n", got2);
    return (got == 2U && got2 == 9U) ? 0 : 1;
}
