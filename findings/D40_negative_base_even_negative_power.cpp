// D40 (known finding KF-C04-negpow, NOT patched: Tests/EvaluateTest.hpp:721 and :4653 pin the
// defective sign, so a repair would break the repository's suite): QExpression::operator^= negates the reciprocal for every negative base, also for an even exponent: (-2)^-2 yields -0.25.
// g++ -std=c++17 -I/repo/Include findings/D40_negative_base_even_negative_power.cpp -o /tmp/D40_negative_base_even_negative_power && /tmp/D40_negative_base_even_negative_power ; echo $?
// exit code 1 when the defect shows, 0 when fixed.
#include <new>
#include <cstdio>
#include <cstring>
#include "JSON.hpp"
#include "Template.hpp"
using namespace Qentem;
static int t(const char *tpl, const char *want) {
    Value<char>        v;
    StringStream<char> ss;
    Template::Render(tpl, (SizeT)std::strlen(tpl), v, ss);
    ss.InsertNull();
    const bool ok = (std::strcmp(ss.First(), want) == 0);
    std::printf("%s => %s (expected %s)%s\n", tpl, ss.First(), want, ok ? "" : "  DEFECT");
    return ok ? 0 : 1;
}
int main() {
    int bad = 0;
    bad += t("{math:(0-2) ^ -2}", "0.25");
    bad += t("{math:-2 ^ -2}", "0.25");
    bad += t("{math:-2 ^ -1}", "-0.5");
    bad += t("{math:-2 ^ 2}", "4");
    return bad ? 1 : 0;
}
