// D43 -- Value(SizeT64), Value(SizeT64I), Value(double) and Value(Number_T) initialise
// only number_ (8 of the 16 payload bytes); reset() on a number also clears only
// number_.  When such a value later becomes an array / object / string, size and
// capacity are whatever the storage held before: here array_ += reads index_ =
// capacity_ = 0xAAAAAAAA and copies from a null storage pointer.  Every other
// constructor (default, move, copy, bool, null) zero-initialises the whole payload.
// Found by reading; the garbage is made deterministic with placement new.
// exit 1 (or a crash) when the defect shows, 0 when fixed.
// g++ -std=c++17 -I/repo/Include D43_numeric_ctor_uninitialised_payload.cpp -o d43 && ./d43
#include <new>
#include <cstdio>
#include <cstring>
#include <csignal>
#include <cstdlib>
#include "Value.hpp"
using namespace Qentem;
static void on_crash(int) { puts("DEFECT: crash"); _Exit(1); }
int main() {
    signal(SIGSEGV, on_crash);
    signal(SIGABRT, on_crash);
    alignas(Value<char>) unsigned char buf[sizeof(Value<char>)];
    memset(buf, 0xAA, sizeof buf);
    Value<char> *a = new (buf) Value<char>{SizeT64(7)};
    *a += SizeT64(1);                       // number -> array
    bool ok = a->IsArray() && a->Size() == 1;
    a->~Value<char>();
    puts(ok ? "fixed" : "DEFECT");
    return ok ? 0 : 1;
}
