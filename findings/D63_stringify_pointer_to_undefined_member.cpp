// D63 (C08): an object member (or array element) that is a pointer to an Undefined value is not
// skipped by Stringify: the key is written, the value writes nothing, and the text is not JSON:
//   Value u;  Value v;  v["a"].SetPointerToValue(&u);  v["b"] = 1;   v.Stringify() == {"a":,"b":1}
//   array:  [<pointer to Undefined>, 1]  ->  [,1]
// The writers test the member's own tag (isUndefined) instead of the value it stands for
// (IsUndefined follows the pointer, as GetValue / Size / the comparison operators do).
// g++ -std=c++17 -I/repo/Include D63_stringify_pointer_to_undefined_member.cpp -o d63 && ./d63  (exit 1 = defect present)
#include <new>
#include <cstdio>
#include <cstring>
#include "JSON.hpp"
using namespace Qentem;
int main() {
    int         bad = 0;
    Value<char> undefined_target;
    {
        Value<char> v;
        v["a"].SetPointerToValue(&undefined_target);
        v["b"] = 1U;
        StringStream<char> ss;
        v.Stringify(ss);
        Value<char> back = JSON::Parse(ss.First(), ss.Length());
        if (back.IsUndefined()) {
            std::printf("object text is not JSON: %.*s\n", int(ss.Length()), ss.First());
            bad = 1;
        }
    }
    {
        Value<char> v;
        v += 0U;
        v += 1U;
        v[SizeT{0}].SetPointerToValue(&undefined_target);
        StringStream<char> ss;
        v.Stringify(ss);
        Value<char> back = JSON::Parse(ss.First(), ss.Length());
        if (back.IsUndefined()) {
            std::printf("array text is not JSON: %.*s\n", int(ss.Length()), ss.First());
            bad = 1;
        }
    }
    return bad;
}
