// D9 (C19): BigInt::Multiply(0) zeroes every word but leaves index_ at the old top
// word: IsZero() is false, comparisons against a word treat the value as "big".
// build: g++ -std=c++17 -I/repo/Include D9_multiply_by_zero_index.cpp -o d9 && ./d9
// exit 1 = defect present, 0 = fixed
#include <new>
#include <cstdio>
#include "BigInt.hpp"
using namespace Qentem;
int main() {
    BigInt<SizeT64, 256U> x;
    x = SizeT64{1};
    x <<= 64U;                // 2^64
    x *= SizeT64{0};
    std::printf("(2^64) * 0: IsZero = %d Index = %u (x > 5) = %d\n", int(x.IsZero()), x.Index(), int(x > SizeT64{5}));
    return (x.IsZero() && x.Index() == 0U && !(x > SizeT64{5})) ? 0 : 1;
}
