// D45_zero_mantissa_exponent_not_consumed -- reproducer. exit 1 = defect present, 0 = fixed.
// g++ -std=c++17  -I/repo/Include D45_zero_mantissa_exponent_not_consumed.cpp -o /tmp/D45_zero_mantissa_exponent_not_consumed && /tmp/D45_zero_mantissa_exponent_not_consumed
#include <new>
#include <cstdio>
#include <cstring>
#include <cstdlib>
#include "Digit.hpp"
#include "StringStream.hpp"
using namespace Qentem;
static int parse(const char *t, QNumber64 &q, SizeT &off) { off = 0; return (int)Digit::StringToNumber(q, t, off, (SizeT)strlen(t)); }
template <typename N> static bool prints(N v, Digit::RealFormatInfo f, const char *want) { StringStream<char> ss; Digit::NumberToString(ss, v, f); bool ok = (ss.Length() == strlen(want)) && (memcmp(ss.First(), want, ss.Length()) == 0); ss.InsertNull(); printf("  got \"%s\" want \"%s\"\n", ss.First(), want); return ok; }

// a zero mantissa skips the scan of the fraction tail / exponent: "0e5" stops at offset 1, "0.0e0" at 3.
int main() { QNumber64 q; SizeT off; bool ok = true; const char *t[] = {"0e5", "0.0e0", "-0.000e-3", "0E+7"};
  for (const char *s : t) { int k = parse(s, q, off); bool good = (k == 1) && (off == strlen(s)) && ((q.Natural & 0x7FFFFFFFFFFFFFFFULL) == 0);
    printf("  %s -> kind=%d consumed=%u of %zu\n", s, k, off, strlen(s)); ok &= good; }
  int k = parse("0e", q, off); ok &= (k == 0);   // empty exponent stays rejected
  return ok ? 0 : 1; }
