// D41_default_precision_zero -- reproducer. exit 1 = defect present, 0 = fixed.
// g++ -std=c++17  -I/repo/Include D41_default_precision_zero.cpp -o /tmp/D41_default_precision_zero && /tmp/D41_default_precision_zero
#include <new>
#include <cstdio>
#include <cstring>
#include <cstdlib>
#include "Digit.hpp"
#include "StringStream.hpp"
using namespace Qentem;
static int parse(const char *t, QNumber64 &q, SizeT &off) { off = 0; return (int)Digit::StringToNumber(q, t, off, (SizeT)strlen(t)); }
template <typename N> static bool prints(N v, Digit::RealFormatInfo f, const char *want) { StringStream<char> ss; Digit::NumberToString(ss, v, f); bool ok = (ss.Length() == strlen(want)) && (memcmp(ss.First(), want, ss.Length()) == 0); ss.InsertNull(); printf("  got \"%s\" want \"%s\"\n", ss.First(), want); return ok; }

// Default format is documented "same as std::defaultfloat": precision 0 means one significant digit (%.0g == %.1g).
int main() { bool ok = true;
  ok &= prints(0.3, {0U, Digit::RealFormatType::Default}, "0.3");        // pinned: "0."
  ok &= prints(98836.172, {0U, Digit::RealFormatType::Default}, "1e+05"); // pinned: "e+05"
  return ok ? 0 : 1; }
