// D34 (C02): inside a <loop> that has no value="..." attribute the variables of the enclosing loops are
// no longer recognised: checkLoopVariable compares with a zero-length value name (always "equal"),
// records IDLength 0 and stops searching.
#include "tmpl_repro.hpp"
int main() {
    return expect("D34", render_exact("<loop set=\"list\" value=\"v\"><loop set=\"obj\">{var:v};</loop></loop>",
                                      "{\"list\":[1,2],\"obj\":{\"a\":1}}"), "1;2;");
}
