// D28_min_int64_parsed_as_double -- reproducer. exit 1 = defect present, 0 = fixed.
// g++ -std=c++17  -I/repo/Include D28_min_int64_parsed_as_double.cpp -o /tmp/D28_min_int64_parsed_as_double && /tmp/D28_min_int64_parsed_as_double
#include <new>
#include <cstdio>
#include <cstring>
#include <cstdlib>
#include "Digit.hpp"
#include "StringStream.hpp"
using namespace Qentem;
static int parse(const char *t, QNumber64 &q, SizeT &off) { off = 0; return (int)Digit::StringToNumber(q, t, off, (SizeT)strlen(t)); }
template <typename N> static bool prints(N v, Digit::RealFormatInfo f, const char *want) { StringStream<char> ss; Digit::NumberToString(ss, v, f); bool ok = (ss.Length() == strlen(want)) && (memcmp(ss.First(), want, ss.Length()) == 0); ss.InsertNull(); printf("  got \"%s\" want \"%s\"\n", ss.First(), want); return ok; }

int main() { QNumber64 q; SizeT off; int k = parse("-9223372036854775808", q, off);
  printf("kind=%d bits=%llu (want kind 3 = Integer, bits 9223372036854775808)\n", k, (unsigned long long)q.Natural);
  return (k == 3 && q.Natural == 0x8000000000000000ULL && off == 20) ? 0 : 1; }
