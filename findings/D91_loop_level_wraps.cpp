// D91 (C01 / C02): LoopTag::Level is 8 bits wide and is set to SizeT8(parent_storage.Size()).  A <loop> opened while 256
// tags are open (here: an enclosing loop and 255 <if>) gets Level 0 again and shares the loop-item slot of the
// enclosing loop: after the inner loop the enclosing loop's {var:a} prints the inner loop's last item ("y" instead of
// 7 / 8); with sort="..." on the inner loop the slot is left pointing into the inner loop's destroyed private copy and
// the next {var:a} is a heap-use-after-free.
// Expected: the items of the outer loop (7 and 8) appear in the output, whatever is done with the too deeply nested
// loop (rendered, or left as literal text) -- and never a sanitizer report.
//   g++ -std=c++17 -g -fsanitize=address,undefined -fno-sanitize-recover=all -I/repo/Include D91_loop_level_wraps.cpp
#include "tmpl_repro.hpp"
int main() {
    int bad = 0;
    for (int sorted = 0; sorted < 2; sorted++) {
        std::string t = "<loop set=\"list\" value=\"a\">";
        for (int i = 0; i < 255; i++) t += "<if case=\"1\">";
        t += sorted ? "<loop set=\"obj\" value=\"b\" sort=\"ascend\">{var:b}</loop>" : "<loop set=\"obj\" value=\"b\">{var:b}</loop>";
        for (int i = 0; i < 255; i++) t += "</if>";
        t += "[{var:a}]</loop>";
        const std::string out = render_exact(t.c_str(), "{\"list\":[7,8],\"obj\":{\"k\":\"x\",\"j\":\"y\"}}");
        const bool        ok  = (out.find("[7]") != std::string::npos) && (out.find("[8]") != std::string::npos);
        std::printf("D91: sorted=%d rendered %zu units, outer items %s\n", sorted, out.size(), ok ? "present" : "LOST");
        if (!ok) bad = 1;
    }
    return bad;
}
