// D26 (C01): an inline if whose true="..." loses its closing quote owns a sub tag that lies outside both
// attribute slices; rendering it moves the cursor past the slice end -> negative length, heap-buffer-overflow.
#include "tmpl_repro.hpp"
int main() {
    const char *t = "{if case=\"5\" true=\"{var:b}no  false=\"{raw:0[9]}\"}%";
    return expect("D26", render_exact(t, "{\"b\":false}"), t);
}
