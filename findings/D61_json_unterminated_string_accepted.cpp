// D61 (C07): an unterminated string at the end of the text is accepted and loses its last unit.
//   JSON::Parse("\"abc", 4)   -> the string "ab"
//   JSON::Parse("\"a", 2)     -> the empty string
//   JSON::Parse("\"a\\\"", 4) -> the string a"   (the escaped quote is taken for the terminator)
// expected: Undefined.  Cause: JSONUtils::UnEscape returns `length` when it reaches the end of
// its input without a closing quote (a behaviour JSONUtilsTest relies on), and the parser
// treats every non-zero return as "terminated".
// g++ -std=c++17 -I/repo/Include D61_json_unterminated_string_accepted.cpp -o d61 && ./d61  (exit 1 = defect present)
#include <new>
#include <cstdio>
#include "JSON.hpp"
using namespace Qentem;
int main() {
    const char *docs[] = {"\"abc", "\"a", "\"a\\\"", "  \"xy"};
    int         bad    = 0;
    for (const char *d : docs) {
        Value<char> v = JSON::Parse(d, StringUtils::Count(d));
        if (!v.IsUndefined()) {
            std::printf("accepted: %s -> string of length %u\n", d, unsigned(v.Length()));
            bad = 1;
        }
    }
    // complete strings are still accepted
    Value<char> ok = JSON::Parse("\"abc\"", SizeT{5});
    if (!ok.IsString() || ok.Length() != 3) bad = 1;
    return bad;
}
