// D49_half_way_rounding_ignores_dropped_part -- reproducer. exit 1 = defect present, 0 = fixed.
// g++ -std=c++17 -I/repo/Include D49_half_way_rounding_ignores_dropped_part.cpp -o /tmp/D49 && /tmp/D49
// roundStringNumber rounds a digit 5 up when round_up is set, else to even.  round_up was meant to say "something
// non-zero was dropped below this digit" but (a) is not set when realToString shifts the fraction bits out on the
// integer path (1521525.3 at 6 digits: .3 is dropped silently, 5 is taken for a tie and goes to even),
// (b) is set whenever bits / decimal digits are dropped even if all of them are zero (2500000 at 1 digit, an exact
// tie, goes up), (c) ignores the decimal digits that are still in the stream below the rounded one.
#include <new>
#include <cstdio>
#include <cstring>
#include <cstdlib>
#include "Digit.hpp"
#include "StringStream.hpp"
using namespace Qentem;
template <typename N> static bool prints(N v, Digit::RealFormatInfo f, const char *want) { StringStream<char> ss; Digit::NumberToString(ss, v, f); bool ok = (ss.Length() == strlen(want)) && (memcmp(ss.First(), want, ss.Length()) == 0); ss.InsertNull(); printf("  got \"%s\" want \"%s\"\n", ss.First(), want); return ok; }
int main() { bool ok = true;
  ok &= prints(1521525.3, {6U, Digit::RealFormatType::Default}, "1.52153e+06");   // (a) pinned: 1.52152e+06
  ok &= prints(23585.805, {4U, Digit::RealFormatType::Default}, "2.359e+04");     // (a) pinned: 2.358e+04
  ok &= prints(2500000.0, {1U, Digit::RealFormatType::Default}, "2e+06");         // (b) exact tie -> even; pinned: 3e+06
  ok &= prints(8644250000000000.0, {5U, Digit::RealFormatType::Default}, "8.6442e+15"); // (b) pinned: 8.6443e+15
  ok &= prints(1.1823431123048067e-11, {39U, Digit::RealFormatType::SemiFixed}, "0.000000000011823431123048067092895507812"); // (b) exact tie
  ok &= prints(12345651.0, {6U, Digit::RealFormatType::Default}, "1.23457e+07");  // (c) a digit below the rounded 5
  ok &= prints(0.0625, {3U, Digit::RealFormatType::Fixed}, "0.062");              // exact tie below 1 -> even
  ok &= prints(2.5, {0U, Digit::RealFormatType::Fixed}, "2");
  ok &= prints(3.5, {0U, Digit::RealFormatType::Fixed}, "4");
  return ok ? 0 : 1; }
