// D70 (C01): areInLineIfSubTagsValid() reads every sub tag of an inline if that is not a MathTag through
// GetVariableTag().  A <loop> (or <if>, {svar:}, {if}) sub tag that follows the first sub tag of the later
// attribute is therefore reinterpreted as a VariableTag: the "offset" compared with the true/false slices is
// the first word of the LoopTag record (its SubTags storage pointer).  With an empty loop that word is 0, the
// unsigned "start = 0 - 5" wraps above true_start, the test passes and the inline if keeps a Loop sub tag;
// with a non-empty loop the verdict depends on the heap address.  Expected: such an inline if is not a tag
// (it is dropped, like the one whose first sub tag is of a wrong kind), the text stays literal.
//   g++ -std=c++17 -g -fsanitize=address,undefined -fno-sanitize-recover=all -I/repo/Include D70_inline_if_subtag_kind.cpp
#include "tmpl_repro.hpp"
int main() {
    using namespace Qentem;
    const char *t = "{if case=\"1\" true=\"{var:a}<loop></loop>\"}";
    Array<Tags::TagBit> cache;
    TemplateCore<char, Value<char>, StringStream<char>>::Parse(t, (SizeT)std::strlen(t), cache);
    int bad = 0;
    for (SizeT k = 0; k < cache.Size(); k++) {
        const Tags::TagBit &tb = cache.First()[k];
        if (tb.GetType() == Tags::TagType::InLineIf) {
            const Tags::InLineIfTag &iif = tb.GetInLineIfTag();
            for (SizeT j = 0; j < iif.SubTags.Size(); j++) {
                const Tags::TagType ty = iif.SubTags.First()[j].GetType();
                if (ty != Tags::TagType::Variable && ty != Tags::TagType::RawVariable && ty != Tags::TagType::Math) {
                    std::printf("D70: inline if keeps a sub tag of kind %u that was validated as a VariableTag\n", (unsigned)ty);
                    bad = 1;
                }
            }
        }
    }
    const int r = expect("D70", render_exact(t, "{\"a\":\"A\"}"), t);
    return (bad || r) ? 1 : 0;
}
