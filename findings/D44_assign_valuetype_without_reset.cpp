// D44 -- Value::operator=(ValueType) only overwrites the kind tag; every other assignment
// tears the old payload down first (reset()).  On a live value the old payload is
// reinterpreted by the new kind:  Value s{"abcdefgh", 8}; s = ValueType::Array;  makes an
// "array" whose storage is the string's characters and whose size is the string's length
// (Size() == 8; the destructor walks 8 bogus Values: heap-buffer-overflow, and the string
// leaks).  On a moved-from number the stale payload becomes the storage pointer (as in D29).
// Found by reading (the one assignment outside the reset-then-set discipline).
// exit 1 (or a sanitizer abort) when the defect shows, 0 when fixed.
// g++ -std=c++17 -g -fsanitize=address,undefined -I/repo/Include D44_assign_valuetype_without_reset.cpp -o d44 && ./d44
#include <new>
#include <cstdio>
#include <cstdlib>
#include "Value.hpp"
using namespace Qentem;
int main() {
    setvbuf(stdout, nullptr, _IONBF, 0);
    Value<char> s{"abcdefgh", 8};
    s = ValueType::Array;
    if (s.Size() != 0) {
        puts("DEFECT: the string payload is read as an array");
        _Exit(1);   // do not run the destructor over the bogus array
    }
    Value<char> n{SizeT64(7)};
    n = ValueType::String;
    bool ok = n.IsString() && n.Length() == 0;
    puts(ok ? "fixed" : "DEFECT");
    return ok ? 0 : 1;
}
