// D14: the remainder operator divides by zero (SIGFPE) when the divisor is 0 or a real in (-1,1); division already guards this. (The process dies with SIGFPE = exit code 136 when the defect shows.)
// g++ -std=c++17 -I/repo/Include findings/D14_remainder_by_zero.cpp -o /tmp/D14_remainder_by_zero && /tmp/D14_remainder_by_zero ; echo $?
// exit code 1 when the defect shows, 0 when fixed.
#include <new>
#include <cstdio>
#include <cstring>
#include "JSON.hpp"
#include "Template.hpp"
using namespace Qentem;
static int t(const char *tpl, const char *want) {
    Value<char>        v;
    StringStream<char> ss;
    Template::Render(tpl, (SizeT)std::strlen(tpl), v, ss);
    ss.InsertNull();
    const bool ok = (std::strcmp(ss.First(), want) == 0);
    std::printf("%s => %s (expected %s)%s\n", tpl, ss.First(), want, ok ? "" : "  DEFECT");
    return ok ? 0 : 1;
}
int main() {
    int bad = 0;
    bad += t("{math:5 % 0}", "{math:5 % 0}");      // SIGFPE before the fix
    bad += t("{math:5 % 0.5}", "{math:5 % 0.5}");  // SIGFPE before the fix
    bad += t("{math:7 % 2.5}", "1");
    bad += t("{if case=\"5 % 0\" true=\"T\" false=\"F\"}", "");
    return bad ? 1 : 0;
}
