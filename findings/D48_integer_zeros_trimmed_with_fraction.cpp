// D48_integer_zeros_trimmed_with_fraction -- reproducer. exit 1 = defect present, 0 = fixed.
// g++ -std=c++17 -I/repo/Include D48_integer_zeros_trimmed_with_fraction.cpp -o /tmp/D48 && /tmp/D48
// formatStringNumberFixed / formatStringNumberDefault trim trailing zeros of the reversed digit run past the decimal
// point and give back (index - started_at) - (number_length - calculated_digits) of them; calculated_digits is the
// ESTIMATE floor(exp * 0.30103) + 1 of the integer digits, one short for e.g. 11150 (2^13 has 4 digits), so one zero
// of the integer part is lost whenever the fraction rounds away and the integer part ends in 0.
#include <new>
#include <cstdio>
#include <cstring>
#include <cstdlib>
#include "Digit.hpp"
#include "StringStream.hpp"
using namespace Qentem;
template <typename N> static bool prints(N v, Digit::RealFormatInfo f, const char *want) { StringStream<char> ss; Digit::NumberToString(ss, v, f); bool ok = (ss.Length() == strlen(want)) && (memcmp(ss.First(), want, ss.Length()) == 0); ss.InsertNull(); printf("  got \"%s\" want \"%s\"\n", ss.First(), want); return ok; }
int main() { bool ok = true;
  ok &= prints(11150.001, {2U, Digit::RealFormatType::SemiFixed}, "11150");     // pinned: "1115"
  ok &= prints(13220.409, {0U, Digit::RealFormatType::SemiFixed}, "13220");     // pinned: "1322"
  ok &= prints(13440.034, {1U, Digit::RealFormatType::Fixed}, "13440.0");       // pinned: "134400"
  ok &= prints(10.048, {1U, Digit::RealFormatType::Fixed}, "10.0");             // pinned: "1.0"
  ok &= prints(10.316970091027308, {2U, Digit::RealFormatType::Default}, "10"); // pinned: "1"
  ok &= prints(199.996, {2U, Digit::RealFormatType::Fixed}, "200.00");          // carry into the integer part: stays right
  return ok ? 0 : 1; }
