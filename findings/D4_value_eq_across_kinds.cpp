// D4: Value::operator== across kinds returns (type > other type): Value(5) == Value("x") is true.
// g++ -std=c++17 -I/repo/Include D4_value_eq_across_kinds.cpp -o d4 && ./d4 ; exit 1 = defect present, 0 = fixed
#include <new>
#include <cstdio>
#include "Value.hpp"
using namespace Qentem;
int main() {
    Value<char> five{SizeT64(5)}, x{"x", 1}, nul{ValueType::Null}, t{true};
    const bool a = (five == x), b = (x == five), c = (nul == five), d = (t == x);
    std::printf("5==\"x\": %d  \"x\"==5: %d  null==5: %d  true==\"x\": %d   (expected 0 0 0 0)\n", a, b, c, d);
    const bool both = (five == x) && (five > x);
    std::printf("5==\"x\" and 5>\"x\" at once: %d (expected 0)\n", both);
    return (a || b || c || d) ? 1 : 0;
}
