// D62 (C05): the keyword matcher of JSON.hpp (true / false / null) compares content[offset] with
// *literal without stopping at the literal's terminator: when NUL units follow the keyword in
// the input, the pointer runs past the end of the string literal (JSON.hpp:216/221, 233/238, 250/255).
//   JSON::Parse("true\0", 5), JSON::Parse("[null\0\0\0]", 9)
// g++ -std=c++17 -g -fsanitize=address -I/repo/Include D62_json_keyword_literal_overread.cpp -o d62 && ./d62
//   (AddressSanitizer global-buffer-overflow, exit code 1 = defect present; exit 0 = fixed)
#include <new>
#include <cstdio>
#include <cstdlib>
#include <cstring>
#include "JSON.hpp"
using namespace Qentem;
static int run(const char *text, size_t n) {
    char *buf = static_cast<char *>(std::malloc(n));
    std::memcpy(buf, text, n);
    Value<char> v = JSON::Parse(static_cast<const char *>(buf), SizeT(n));
    std::free(buf);
    return v.IsUndefined() ? 0 : 1; // none of these texts is a document
}
int main() {
    int bad = 0;
    bad |= run("true\0", 5);
    bad |= run("false\0\0", 7);
    bad |= run("[null\0\0\0]", 9);
    bad |= run("[true\0\0\0\0\0\0\0\0\0\0\0\0\0\0\0\0]", 22);
    return bad;
}
