#!/bin/bash
# staging/D90/install.sh -- switch C04 (model, proofs, oracle, generator, corpus) over to the code
# AFTER findings/D90_natural_compare_signed.patch.  Run right after the patch is committed to /repo:
#   bash tools/apply_finding.sh D90_natural_compare_signed "fix: whole numbers in expressions are compared by value"
#   bash staging/D90/install.sh && python3 tools/check.py C04
# (before the fix is in /repo the installed check reports D90 as VIOLATIONs: '{var:big} > 1' etc.)
set -eu
S="$(cd "$(dirname "$0")" && pwd)"; R="$(cd "$S/../.." && pwd)"
for f in coq/ExprModel.v coq/ExprProofs3.v coq/Properties_C04.v coq/ExprBridgeProofs.v tools/props/c04.py corpus/C04/cases.txt; do
  cp "$S/$f" "$R/$f"; echo "installed $f"
done
