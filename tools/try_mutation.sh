#!/bin/bash
# try_mutation.sh <property> <patch-file>
# apply a patch to the tree named by VERIF_REPO (default /repo), run the quick check, undo.
P="$1"; PATCH="$2"; R="${VERIF_REPO:-/repo}"
git -C "$R" apply "$PATCH" || { echo "patch does not apply"; exit 3; }
VERIF_EVIDENCE_DIR=/var/tmp/verif_side_evidence VERIF_REPO="$R" python3 /verif/tools/check.py "$P" --tier quick 2>&1 | grep -E "VIOLATION|KNOWN-FINDING|\[verif\]" | head -8
git -C "$R" checkout -- .
