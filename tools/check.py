#!/usr/bin/env python3
"""check.py Cnn [--tier quick|thorough] [--replay path]
Entry point registered in MANIFEST.json for every property."""
import argparse
import importlib
import os
import sys

sys.path.insert(0, os.path.dirname(os.path.abspath(__file__)))
sys.path.insert(0, os.path.join(os.path.dirname(os.path.abspath(__file__)), "props"))


def main():
    ap = argparse.ArgumentParser()
    ap.add_argument("prop")
    ap.add_argument("--tier", default=os.environ.get("VERIF_TIER", "quick"), choices=["quick", "thorough"])
    ap.add_argument("--replay", default=None)
    a = ap.parse_args()
    mod = importlib.import_module("props." + a.prop.lower())
    if a.replay:
        return mod.replay(a.replay)
    return mod.check(a.tier)


if __name__ == "__main__":
    sys.exit(main())
