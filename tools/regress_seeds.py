#!/usr/bin/env python3
"""regress_seeds.py [-j N] [seed-id ...] -- re-run the stored seeded changes against the CURRENT machinery.
regress_seeds.py --harmless [-j N] [id ...] -- the same for harmless/: all 20 quick checks must stay quiet.


For every /verif/seeded/<id>/ (or the ids given): a scratch worktree of /repo at HEAD with patch.diff applied, a
private copy of the Coq tree (generated tables follow the tree under test), and the quick check of every property
that meta.json records as having caught the change (the seed's own property first).  Writes the outcome into
meta.json ("regression": {check: caught|missed, ...}) and prints one line per seed; exit 1 if a change that was
caught before is now missed by every check.  Nothing is ever applied to /repo itself."""
import concurrent.futures as cf
import json
import os
import shutil
import subprocess
import sys

ROOT = "/verif"


def sh(cmd, **kw):
    return subprocess.run(cmd, shell=True, stdout=subprocess.PIPE, stderr=subprocess.STDOUT, text=True, **kw)


def one(sid):
    d = os.path.join(ROOT, "seeded", sid)
    meta = json.load(open(os.path.join(d, "meta.json")))
    caught = [c.split(":")[0] for c in meta.get("checks_run", []) + meta.get("after_strengthening", {}).get("checks", []) if c.endswith(":caught")]
    own = meta.get("property")
    order = ([own] if own in caught else []) + [c for c in caught if c != own]
    if not order:
        order = [own]
    wt, cq = "/tmp/regwt_" + sid, "/var/tmp/coq_reg_" + sid
    sh("rm -rf %s %s %s.ev; git -C /repo worktree prune; git -C /repo worktree add --detach %s HEAD -q" % (wt, cq, cq, wt))
    r = sh("git -C %s apply --whitespace=nowarn %s/patch.diff" % (wt, d))
    res = {}
    if r.returncode != 0:
        res = {"apply": "patch no longer applies to /repo HEAD"}
    else:
        shutil.copytree(os.path.join(ROOT, "coq"), cq, symlinks=True)
        env = dict(os.environ, VERIF_COQ_DIR=cq, VERIF_EVIDENCE_DIR=cq + ".ev", VERIF_REPO=wt)
        for p in order:
            out = subprocess.run(["timeout", "2400", "python3", os.path.join(ROOT, "tools", "check.py"), p, "--tier", "quick"],
                                 env=env, stdout=subprocess.PIPE, stderr=subprocess.STDOUT, text=True).stdout
            res[p] = "caught" if "\nVIOLATION" in "\n" + out else "missed"
            if res[p] == "caught":
                break          # one catching check is enough for the regression
    sh("git -C /repo worktree remove --force %s; rm -rf %s %s.ev" % (wt, cq, cq))
    meta["regression"] = res
    json.dump(meta, open(os.path.join(d, "meta.json"), "w"), indent=1)
    ok = any(v == "caught" for v in res.values())
    print("%-10s %s %s" % (sid, "ok  " if ok else "LOST", res), flush=True)
    return ok


def one_harmless(hid):
    """a behaviour-preserving change: every quick check must stay quiet"""
    d = os.path.join(ROOT, "harmless", hid)
    meta = json.load(open(os.path.join(d, "meta.json")))
    wt, cq = "/tmp/regwt_" + hid, "/var/tmp/coq_reg_" + hid
    sh("rm -rf %s %s %s.ev; git -C /repo worktree prune; git -C /repo worktree add --detach %s HEAD -q" % (wt, cq, cq, wt))
    r = sh("git -C %s apply --whitespace=nowarn %s/patch.diff" % (wt, d))
    res = {}
    if r.returncode != 0:
        res = {"apply": "patch no longer applies to /repo HEAD"}
    else:
        shutil.copytree(os.path.join(ROOT, "coq"), cq, symlinks=True)
        env = dict(os.environ, VERIF_COQ_DIR=cq, VERIF_EVIDENCE_DIR=cq + ".ev", VERIF_REPO=wt)
        for p in ["C%02d" % i for i in range(1, 21)]:
            out = subprocess.run(["timeout", "3000", "python3", os.path.join(ROOT, "tools", "check.py"), p, "--tier", "quick"],
                                 env=env, stdout=subprocess.PIPE, stderr=subprocess.STDOUT, text=True).stdout
            res[p] = "ALARM" if "\nVIOLATION" in "\n" + out else "quiet"
    sh("git -C /repo worktree remove --force %s; rm -rf %s %s.ev" % (wt, cq, cq))
    meta["regression"] = res
    json.dump(meta, open(os.path.join(d, "meta.json"), "w"), indent=1)
    ok = all(v == "quiet" for v in res.values()) and "apply" not in res
    print("%-8s %s %s" % (hid, "quiet" if ok else "NOISY", {k: v for k, v in res.items() if v != "quiet"}), flush=True)
    return ok


def main():
    args = sys.argv[1:]
    j = 3
    if args and args[0] == "--harmless":
        args = args[1:]
        if args and args[0] == "-j":
            j = int(args[1])
            args = args[2:]
        ids = args or sorted(x for x in os.listdir(os.path.join(ROOT, "harmless")) if os.path.exists(os.path.join(ROOT, "harmless", x, "meta.json")))
        with cf.ThreadPoolExecutor(max_workers=j) as ex:
            oks = list(ex.map(one_harmless, ids))
        print("harmless changes: %d, all checks quiet on: %d" % (len(ids), sum(oks)))
        return 0 if all(oks) else 1
    if args and args[0] == "-j":
        j = int(args[1])
        args = args[2:]
    ids = args or sorted(x for x in os.listdir(os.path.join(ROOT, "seeded")) if os.path.exists(os.path.join(ROOT, "seeded", x, "meta.json")))
    # a change that a later repair of /repo made behaviour-preserving (its own demo no longer discriminates) stays in the
    # corpus as history but is not part of the regression
    ids = [i for i in ids if not json.load(open(os.path.join(ROOT, "seeded", i, "meta.json"))).get("obsolete_after")]
    with cf.ThreadPoolExecutor(max_workers=j) as ex:
        oks = list(ex.map(one, ids))
    print("seeds: %d, still caught: %d" % (len(ids), sum(oks)))
    return 0 if all(oks) else 1


if __name__ == "__main__":
    sys.exit(main())
