#!/bin/bash
# eval_harmless.sh <src-dir> <h1|h2|h3> <id> [property...]
# applies a behaviour-preserving change in a scratch worktree and runs the named checks (default: all 20):
# any VIOLATION is a false alarm of the machinery.  Stores the change under /verif/harmless/<id>/.
set -u
SRC="$1"; H="$2"; ID="$3"; shift 3
PROPS="${*:-C01 C02 C03 C04 C05 C06 C07 C08 C09 C10 C11 C12 C13 C14 C15 C16 C17 C18 C19 C20}"
WT=/tmp/harmwt_$ID; OUT=/verif/harmless/$ID
rm -rf "$WT"; git -C /repo worktree prune; git -C /repo worktree add --detach "$WT" HEAD -q || exit 2
mkdir -p "$OUT"; cp "$SRC/$H.diff" "$OUT/patch.diff"; cp "$SRC/$H.json" "$OUT/agent_meta.json"
git -C "$WT" apply --whitespace=nowarn "$OUT/patch.diff" || { echo "[$ID] PATCH DOES NOT APPLY"; git -C /repo worktree remove --force "$WT"; exit 3; }
TESTS=$(bash /verif/tools/baseline_off.sh "$WT" | tail -1)
echo "[$ID] $TESTS"
CQ=/var/tmp/coq_$ID; rm -rf "$CQ" "$CQ.ev"; cp -a /verif/coq "$CQ"     # private Coq tree: generated tables follow the tree under test
RES=""
for P in $PROPS; do
  L=$(VERIF_COQ_DIR="$CQ" VERIF_EVIDENCE_DIR="$CQ.ev" VERIF_REPO="$WT" timeout 2400 python3 /verif/tools/check.py "$P" --tier quick 2>&1 | grep -E "^VIOLATION" | head -3 | tr '\n' ' ')
  if [ -n "$L" ]; then echo "[$ID] $P: FALSE-ALARM? $L"; RES="$RES $P:alarm"; mkdir -p "$OUT/replays"; cp /verif/replays/${P}_quick_1.json "$OUT/replays/" 2>/dev/null; else RES="$RES $P:quiet"; fi
done
echo "[$ID] result:$RES"
python3 - "$OUT" "$ID" "$TESTS" "$RES" <<'PY'
import json, sys
out, hid, tests, res = sys.argv[1:5]
a = json.load(open(out + "/agent_meta.json"))
json.dump({"id": hid, "summary": a.get("summary"), "why_neutral": a.get("why_neutral"), "repo_tests_with_change": tests, "checks_run": res.strip().split()}, open(out + "/meta.json", "w"), indent=1)
PY
rm -f "$OUT/agent_meta.json"
git -C /repo worktree remove --force "$WT"
rm -rf "$CQ" "$CQ.ev"
