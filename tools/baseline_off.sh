#!/bin/bash
# Runs the repository's own 15-test suite from the CURRENT working tree with the
# verification guard OFF, in a scratch build directory that is removed afterwards.
# usage: baseline_off.sh [repo-dir]
set -u
REPO="${1:-/repo}"
B="$(mktemp -d /var/tmp/qverif_baseline.XXXXXX)"
trap 'rm -rf "$B"' EXIT
if ! cmake -G Ninja -S "$REPO" -B "$B" >"$B/cmake.log" 2>&1; then
  cmake -S "$REPO" -B "$B" >"$B/cmake.log" 2>&1 || { cat "$B/cmake.log"; echo "BASELINE: configure failed"; exit 2; }
fi
if ! cmake --build "$B" -j 16 >"$B/build.log" 2>&1; then
  tail -40 "$B/build.log"; echo "BASELINE: build failed"; exit 2
fi
ctest --test-dir "$B" -j8 --timeout 900 2>&1 | tail -25
rc=${PIPESTATUS[0]}
[ "$rc" -eq 0 ] && echo "BASELINE: all tests passed (guard off)" || echo "BASELINE: FAILURES"
exit $rc
