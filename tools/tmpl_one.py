#!/usr/bin/env python3
"""tmpl_one.py '<template>' '<json value>' [width]  -- render one template with the C++ driver (ASan/UBSan), show result / report."""
import sys, os, json
sys.path.insert(0, os.path.dirname(os.path.abspath(__file__)))
sys.path.insert(0, os.path.join(os.path.dirname(os.path.abspath(__file__)), "props"))
import vlib, tmplgen as g
exe, msg = vlib.build_cpp("drv_tmpl", "drv_tmpl.cpp")
if exe is None:
    print(msg); sys.exit(2)
t = sys.argv[1]
v = json.loads(sys.argv[2]) if len(sys.argv) > 2 else {}
w = int(sys.argv[3]) if len(sys.argv) > 3 else 0
rc, out, err = vlib.run_lines(exe, [], [g.case_line(w, 0, t, v)])
if out and rc == 0:
    print("OUT:", repr("".join(chr(int(x)) for x in out[0].split(",")) if out[0] != "-" else ""))
else:
    print("CRASH rc=%d" % rc)
    lines = [l for l in err.split("\n") if "ERROR" in l or "runtime error" in l or "Include/" in l][:8]
    print("\n".join(lines))
