#!/usr/bin/env python3
"""coverage.py [Cnn ...] -- diagnostic, never a verdict: which executable lines of /repo/Include the quick checks' cases reach.

Rebuilds every C++ driver with --coverage (VERIF_COVERAGE=1 -> build/cov/), runs the named quick checks (default all 20)
with their evidence redirected, merges the gcov counters of all drivers and prints, per header, the executable lines
no case reached.  A line the cases never reach is a place where a change cannot be noticed by the correspondence runs:
the list is used to aim generators (DESIGN.md 14.11)."""
import glob, gzip, json, os, subprocess, sys
ROOT = os.path.dirname(os.path.dirname(os.path.abspath(__file__)))
COV = os.path.join(ROOT, "build", "cov_%d" % os.getpid())     # private per invocation: several authors may measure at once


def main():
    props = sys.argv[1:] or ["C%02d" % i for i in range(1, 21)]
    subprocess.run("rm -rf %s; mkdir -p %s" % (COV, COV), shell=True)
    env = dict(os.environ, VERIF_COVERAGE=COV, VERIF_EVIDENCE_DIR="/var/tmp/verif_cov_evidence_%d" % os.getpid())
    for p in props:
        r = subprocess.run(["python3", os.path.join(ROOT, "tools", "check.py"), p, "--tier", "quick"], env=env, stdout=subprocess.PIPE, stderr=subprocess.STDOUT, text=True)
        print(p, r.stdout.strip().split("\n")[-1], flush=True)
    lines = {}     # file -> line -> count
    for g in glob.glob(os.path.join(COV, "*.gcda")):
        r = subprocess.run(["gcov", "--json-format", "--stdout", g], cwd=COV, stdout=subprocess.PIPE, stderr=subprocess.DEVNULL)
        for doc in r.stdout.decode("utf-8", "replace").split("\n"):
            if not doc.strip():
                continue
            try:
                d = json.loads(doc)
            except ValueError:
                continue
            for f in d.get("files", []):
                fn = os.path.realpath(os.path.join(COV, f["file"])) if not f["file"].startswith("/") else os.path.realpath(f["file"])
                if "/Include/" not in fn:
                    continue
                h = os.path.basename(fn)
                t = lines.setdefault(h, {})
                for ln in f.get("lines", []):
                    t[ln["line_number"]] = t.get(ln["line_number"], 0) + ln["count"]
    out = {}
    tot_e = tot_c = 0
    for h in sorted(lines):
        ex = len(lines[h])
        un = sorted(k for k, v in lines[h].items() if v == 0)
        tot_e += ex
        tot_c += ex - len(un)
        out[h] = {"executable": ex, "reached": ex - len(un), "unreached_lines": un}
        print("%-18s %5d / %5d  unreached: %s" % (h, ex - len(un), ex, _ranges(un)[:400]))
    print("TOTAL %d / %d (%.1f %%)" % (tot_c, tot_e, 100.0 * tot_c / max(1, tot_e)))
    json.dump(out, open(os.path.join(ROOT, "build", "coverage.json"), "w"), indent=1)
    subprocess.run("rm -rf %s /var/tmp/verif_cov_evidence_%d" % (COV, os.getpid()), shell=True)


def _ranges(xs):
    r, i = [], 0
    while i < len(xs):
        j = i
        while j + 1 < len(xs) and xs[j + 1] == xs[j] + 1:
            j += 1
        r.append(str(xs[i]) if i == j else "%d-%d" % (xs[i], xs[j]))
        i = j + 1
    return ",".join(r)


main()
