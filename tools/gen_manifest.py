#!/usr/bin/env python3
"""Writes /verif/MANIFEST.json from the table below (kept in one place so that
the claimed levels stay in step with what the checks really do)."""
import json
import os

ROOT = os.path.dirname(os.path.dirname(os.path.abspath(__file__)))
TECH = "Coq proof over a Gallina model + model/implementation correspondence run (extracted OCaml model and specification oracle vs C++ built from /repo under ASan/UBSan)"
NOTE = ("Trusted: Coq 8.16.1 kernel (vm_compute, no native_compute); the hand-written Gallina model (tied to /repo by constant tables regenerated from the headers "
        "on every run and by the finite differential run reported in the evidence); extraction (ExtrOcamlBasic only) + OCaml; C++ drivers, g++ 12 sanitizers, python harness. "
        "No C++ is verified directly. ")

C = {}
C["C01"] = ("proof", "Proved on the model, for EVERY template text in every character width and EVERY value (c01_render_all_safe): Template::Render = parse then render never reaches an error outcome -- no out-of-bounds read of the text at any site of Finder::Next, parse (all eleven match kinds, attribute scanners, the reads of the expression parser, 8/16-bit field truncations) or the renderer (every literal slice, every index into the loop-item array, every inline-if start id, getValue's bracket scan), no Last() of an empty array, no tag record read as another kind, no negative unsigned difference, termination within |text|+2 parser iterations; via the invariant c01_tree_ok_all (the tree parse builds obeys the offset discipline the renderer relies on). Stating these theorems found nine memory-safety defects (repaired). PARTIAL in this sense: the value side (lookup, GroupBy, Sort, number formatting) and expression evaluation are abstract parameters of the renderer theorem (they are C04/C10/C12/C13/C15/C18), array capacity/reallocation and object lifetimes are not modelled; those and the tie to the code are covered by comparing the real tag trees and the complete rendered output with the extracted models on arbitrary texts, and by a sanitizer search (grammar templates, mutations, token soup, all prefixes of complete tags, boundary shapes for the 8/16-bit fields, 4 widths, auto-escape off, SIMD builds in thorough).",
            "Model of parse/render hand-written (tied by tree / output comparison on thousands of arbitrary texts per run); value operations and evaluation abstract in the renderer theorem; stack depth, timing runtime.")
C["C02"] = ("proof", "Proved END TO END on the faithful models for every constructor of the template AST (c02_full): the parser model (real scanner, stack, attribute scanners, expression parser, 8/16-bit fields) applied to the printed template, followed by the renderer model (slices, Level-indexed loop items, text-scanned paths, every access checked) on the concrete value type = the documented expansion `expand`, for every well-formed AST, value tree, width and escape configuration; wf_template is a boolean predicate measured on the generated ASTs in every run. PARTIAL in this sense: the expression language of the theorem is the exact-integer fragment with one operator per parenthesis level (precedence and the full arithmetic are C04); its evaluator is bridged to C04's faithful ExprModel.eval_items on a boolean domain check (c02_bridge_q_top, c02_full_faithful_eval: integers within 64 bits, no real / signed-numeral-string variables); real values are IEEE bit patterns printed by the Digit model (any finite double), sort restricted to naturals / strings / object keys; the models are hand-written and tied to the C++ by comparing tag trees and complete rendered outputs on arbitrary texts and by the differential run over generated ASTs x value trees (4 widths; 3 SIMD builds in thorough) judged by the extracted reference interpreter.",
            "Hand-written parser/renderer models; value operations (GroupBy, Sort, number formatting) enter through their own models (C18, C15, C10) restricted to the generated domain.")
C["C03"] = ("proof", "Unbounded Coq theorems (induction on the string) for the escaper model: output is a concatenation of non-special units and complete entities, decode-preservation, idempotence, raw verbatim, off = raw, and Safe output for every {var:} position of the routing model; entity strings/lengths/default config are re-checked from the headers on each run; the model is tied to the C++ by a differential run (exhaustive short look-alike strings + random, 4 widths, 7 tag positions, 2 builds).",
            "Routing of tag positions in Template.hpp is modelled as a table and tied only by the differential run.")
C["C04"] = ("proof", "Proved on the model of evaluate/GetExpressionValue/evaluateExpression and QExpression arithmetic: the flat-list precedence-climbing loop equals textbook precedence climbing on the generated operator ranks for every item list; ranks refine the documented levels; integer fragment exact in Z with unsigned->signed promotion; comparisons/logic yield 0/1; no trap. Reals modelled with SpecFloat and compared bit-for-bit; 'equals exact arithmetic up to rounding' for reals is not proved. Correspondence: generated expression trees aimed at every adjacent operator pair, via ParseExpressions+Evaluate and rendered {math:}/{if}/<if>.",
            "Numeral parsing restricted to exact numerals (C09 covers the rest). Known finding KF-C04-negpow listed.")
C["C05"] = ("proof", "Model of JSON.hpp/JSONUtils.hpp with checked reads: proved no out-of-bounds read, fuel 2|s|+4 sufficient (termination), result is a defined value or none, for every code-unit string (theorems listed in evidence; unproved parts named there). Stack depth for 512+ levels is a runtime quantity: tested under a stack limit. Correspondence: generated documents, truncations/mutations, random strings, exact-size buffers, 4 widths, ASan+UBSan.",
            "Stack consumption not modelled.")
C["C06"] = ("proof", "PARTIAL. Proved for structure, strings (all escape forms incl. surrogate pairs) and 64-bit integers: parse(print layout v) = denote v by induction on v; real numerals taken as a hypothesis (C09). Correspondence against the denotation of generated ASTs over the full Unicode range, 4 widths.",
            "Real-number accuracy is C09's (partial).")
C["C07"] = ("proof", "All-or-nothing proved on the parser model: a successful parse returns a fully defined value and consumed exactly one document between whitespace; proper prefixes, trailing non-whitespace and damaged brackets of printed documents are rejected. Correspondence: every proper prefix / suffix / bracket damage of generated documents.",
            "")
C["C08"] = ("proof", "PARTIAL. Proved: string round trip unescape(escape s) = s for all code units, comma-patch soundness, structural round trip parse(stringify t) = normalize t with the number round trip as hypothesis (C11); emitted text accepted by an independent RFC 8259 recogniser (extracted) in the correspondence run.",
            "Number round trip is C11's (tested, not proved).")
C["C09"] = ("proof", "PARTIAL. Proved: integer numerals that fit are exact with the right kind (incl. 2^63/2^64 boundaries), the scanner consumes exactly the numeral, malformed numerals rejected, sign preserved, generated power-of-five/reciprocal tables correct (re-checked per run). The one-ulp claim for reals is NOT proved (kept as a Definition); it is tested against an exact rational oracle written in Coq (extracted). Known finding KF-C09b (deep underflow -> NaN, pinned by the repo suite).",
            "No error analysis of the 19-digit cut / 256-bit scaling.")
C["C10"] = ("proof", "PARTIAL. Proved: integer -> decimal exact for all widths incl. minimum values, specials, stream prefix untouched, digit tables correct. Real formatting is modelled bit-faithfully (Gallina transliteration of realToString) and tested against an exact decimal-expansion oracle (Coq, extracted); known-finding classes KF-C10b/KF-C10c identified by precise predicates, anything else is a violation.",
            "Correct rounding of reals is refuted in two listed classes and otherwise only tested.")
C["C11"] = ("proof", "PARTIAL. No unbounded theorem is available for the 2^64 doubles (would need an error analysis of both heuristic algorithms); model-level facts for the integer paths are proved, the statement is kept as a Definition; the check is model/implementation correspondence on the intermediate text and the result plus a large C++ round-trip sweep (all 2^32 floats in thorough).",
            "Round trip itself is tested, not proved.")
C["C12"] = ("proof", "Refinement proved by induction over operation lists: after any history the Value model abstracts to the abstract-document specification and outputs agree (assign, keyed/indexed write, append, +=, Merge, Insert, Remove, RemoveIndex, Reset, Compress, copy/move incl. self and own-member, pointer-to-value, GroupBy); copies fresh, moved-from Undefined. Text-level observers and coercion getters are tied by the differential READ op only. Correspondence: histories <= 50 ops over 3 variables and their children, ASan+UBSan.",
            "Objects modelled at the C13 specification level; union storage punning is a C++ lifetime matter (sanitizers only).")
C["C13"] = ("proof", "Full refinement proved: for every operation sequence (17 operation kinds incl. Sort, Rename aliasing, merge by copy/move, resize/rehash) the bucket-head/Next-link model keeps its invariant, never runs out of fuel and agrees with the insertion-ordered association-list specification in outputs and iteration order, for an arbitrary hash (never using injectivity), instantiated with the modelled StringUtils::Hash (top bit proved set). Correspondence: histories over collision-crafted key alphabets, HArray<String,String>, HArray<String,Value>, HList.",
            "RemoveIndex/shrinking Resize in states with removed slots: invariant only (slot numbers are outside the property).")
C["C14"] = ("proof", "List refinement of Array, String, StringStream, StringView over a block-ledger heap model, per operation and over histories; no use-after-free/out-of-bounds outcome for any history; block-copy/zero-fill equal firstn for every block size. Alignment/SIMD load-store behaviour is runtime: exhaustive length x misalignment grid in scalar/SSE2/AVX2 builds (a test).",
            "SIMD alignment behaviour tested, not proved.")
C["C15"] = ("proof", "33 unbounded theorems: string comparison is the lexicographic order by code unit (trichotomy, unions, transitivity, prefix first, signedness per width), Value comparison is a total preorder by kind then content with pointers followed on both sides (no-NaN hypothesis where needed), Memory::Sort returns a permutation for ANY comparison and an ordered one for every strict order, both directions. Correspondence: all pairs/triples of short strings, value pool incl. pointers and NaN, sorts of arrays/HArray/Value objects with tombstones and lookups afterwards, <loop sort>.",
            "Key lookups after HashTable::Sort are proved in C13.")
C["C16"] = ("proof", "PARTIAL. Proved on four ownership models, each for EVERY operation history: (1) the block heap of the sequence containers Array / String / StringStream (the C14 model): nothing dead is released or accessed, no block has two owners, every live block has an owner, destroying every object leaves no live block; (2) a heap model of Value trees (c16_value_ledger; assignment from an own member, merges by copy / move, removal, compress ...; the pre-D40 order is a use-after-free of the model); (3) nested Array<Node> whose elements own arrays of the same kind (c16_nested_ledger; the D52 class is Error UAF); (4) HashTable / HArray / HList storage, keys and values (c16_htab_ledger: resize moves without disposing, tombstones own nothing, merge by move disposes what it does not adopt). Tag records, expression lists and the parsers' failure paths have no heap in the models: for them, and as the tie of (1)-(4) to the code, the check is the runtime ledger through the library's own allocator seam (unknown/double release, block handed out twice, blocks live after every owner is gone) plus ASan/LSan, over the C12/C13/C14 histories, nested-array histories judged by the extracted model, valid and rejected JSON texts, well-formed and malformed templates and tag-cache lifetimes (copy, move, clear, reuse).",
            "Whether a destructor runs is decided by the C++ runtime; the theorems are about the ownership discipline of the modelled operations in the order of the code.")
C["C17"] = ("proof", "PARTIAL. Proved on the model: a render only appends; any sequence of renders through one tag tree with different values and pre-filled streams equals the concatenation of fresh renders, each the documented expansion; N threads sharing the text and the parsed tag list, each with its own value and stream, stepped one top-level tag at a time under ANY schedule (any order, repetitions, unfair): every thread only extends its own stream by a prefix of its fresh render, a finished thread holds exactly pre ++ fresh render (= the documented expansion for well-formed templates), all completing schedules agree, round robin completes. That the C++ never writes the shared value / text / tag array (the model has no way to), and interleavings finer than a tag, are runtime facts: tested per generated template (cache reused 3x, copied, copy-assigned and moved caches, before/after comparison of value and text, ASan) and with 8/16 threads sharing one tag array and one value under ThreadSanitizer.",
            "Thread schedules of the C++ are sampled, not enumerated; the interleaving theorem is about the model at tag granularity.")
C["C18"] = ("proof", "Proved (induction on the array): GroupBy on values equals the partition specification on documents -- one member per distinct textual value in first-appearance order, each the stable filter of the input with the key erased, wherever the key sits; source unchanged. Correspondence: Value::GroupBy tree and <loop group=> output on generated arrays incl. removed members.",
            "Number->text of numeric group names restricted to exact forms.")
C["C19"] = ("proof", "Per-operation and history refinement of the BigInt word-array model to exact integers (value = sum word_i 2^(i w)) for all word widths and counts, no out-of-bounds access; double-word multiply generic in the half width; the 128/64 division helper as stated in the evidence (generic or finite sweep with the bound in the statement). Correspondence: operation sequences at 8/16/32/64-bit words, widths 64..2048.",
            "See evidence for the exact status of the division helper proof.")
C["C20"] = ("proof", "Full, finite domain and symbolic: for every Unicode scalar value the encoder model equals RFC 3629/2781/UTF-32 (proved symbolically by ranges AND independently by exhaustive vm_compute sweeps with the bound in the statement); \\\\u escapes incl. surrogate pairs, any hex letter case, with arbitrary neighbours (induction) decode to the standard encoding. Correspondence: exhaustive on the C++ side (1,112,064 scalars x 3 widths x direct/escape forms).",
            "Lone/reversed surrogates are outside the property.")


def main():
    have = sorted(p[:-3].upper() for p in os.listdir(os.path.join(ROOT, "tools", "props")) if p.startswith("c") and p[1:3].isdigit() and p.endswith(".py"))
    claimed = [p for p in have if os.path.exists(os.path.join(ROOT, "coq", "Properties_%s.v" % p)) and p in CLAIM]
    props = [json.loads(l) for l in open(os.path.join(ROOT, "properties.jsonl"))]
    checks = []
    for p in claimed:
        cat, text, extra = C[p]
        checks.append({
            "property_id": p,
            "quick_cmd": "python3 tools/check.py %s --tier quick" % p,
            "thorough_cmd": "python3 tools/check.py %s --tier thorough" % p,
            "evidence_file": "evidence/%s.json" % p,
            "replay_cmd_template": "python3 tools/check.py %s --replay {path}" % p,
            "engine": "coq-model-proof+correspondence",
            "level_claimed": {"category": cat, "text": text, "design_ref": "DESIGN.md section 6, " + p},
            "level_note": NOTE + extra,
            "technique": TECH,
        })
    hooks = {"guard": "QENTEM_VERIF",
             "enable": "drivers are compiled with -DQENTEM_VERIF=1 against /repo/Include (header-only library)",
             "baseline_off_cmd": "bash tools/baseline_off.sh /repo",
             "source_commits": ["4accf8a"], "add_only": True}
    m = {"version": 1, "setup_cmd": "bash tools/setup.sh", "hooks": hooks,
         "engines": [{"name": "coq-model-proof+correspondence", "path": "tools/check.py", "serves_properties": claimed,
                      "kind_free_text": "Coq 8.16 theorems about hand-written Gallina models; models tied to /repo by constant tables regenerated from the headers and by a differential run of the extracted OCaml model + extracted specification oracle against C++ drivers built from the working tree under ASan/UBSan (TSan for C17)"}],
         "checks": checks,
         "notes": "See DESIGN.md. Checks rebuild drivers from /repo's working tree; Coq constants are regenerated from the headers on every run. KNOWN_FINDINGS.txt lists recorded defects (finding:) and repaired ones (fixed:).",
         "not_applicable": [{"property_id": p["id"], "reason": NA.get(p["id"], "check under construction in this round (not yet claimed)")} for p in props if p["id"] not in claimed]}
    json.dump(m, open(os.path.join(ROOT, "MANIFEST.json"), "w"), indent=1)
    print("claimed:", claimed)
    print("not claimed:", [p["id"] for p in props if p["id"] not in claimed])


# properties whose check is wired, green on /repo and reviewed
CLAIM = ["C01", "C02", "C03", "C04", "C05", "C06", "C07", "C08", "C14", "C16", "C19", "C09", "C10", "C11", "C12", "C13", "C15", "C17", "C18", "C20"]
NA = {}

if __name__ == "__main__":
    main()
