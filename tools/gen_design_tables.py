#!/usr/bin/env python3
"""Rewrites the generated tables of DESIGN.md (between the markers) from
KNOWN_FINDINGS.txt, seeded/*/meta.json and evidence/*.json."""
import glob, json, os, re
ROOT = os.path.dirname(os.path.dirname(os.path.abspath(__file__)))

def fixes():
    rows = ["| property | repo commit | what failed (replay under findings/) |", "|---|---|---|"]
    kf = ["| property | id | site | rule (abridged) |", "|---|---|---|---|"]
    for line in open(os.path.join(ROOT, "KNOWN_FINDINGS.txt")):
        line = line.strip()
        if line.startswith("fixed:"):
            m = re.match(r"fixed: property=(\S+) (\S+) (.*)", line)
            if m:
                rows.append("| %s | `%s` | %s |" % (m.group(1), m.group(2), m.group(3).replace("|", "\\|")))
        elif line.startswith("finding:"):
            kv = dict(re.findall(r'(\w+)=((?:"[^"]*")|\S+)', line))
            kf.append("| %s | %s | %s | %s |" % (kv.get("property"), kv.get("id"), kv.get("site", "").strip('"')[:70], kv.get("rule", "").strip('"')[:160].replace("|", "\\|")))
    return "\n".join(rows), "\n".join(kf)

def seeds():
    rows = ["| seed | property | what the change is | needs to manifest | checks run -> result |", "|---|---|---|---|---|"]
    for d in sorted(glob.glob(os.path.join(ROOT, "seeded", "*", "meta.json"))):
        m = json.load(open(d))
        rows.append("| %s | %s | %s | %s | %s |" % (m["seed_id"], m.get("property"), (m.get("summary") or "")[:260].replace("|", "\\|").replace("\n", " "),
                                                  (m.get("needs_to_manifest") or "")[:200].replace("|", "\\|").replace("\n", " "), ", ".join(m.get("checks_run", [])) +
                                                  ((" ; after strengthening: " + ", ".join(m["after_strengthening"]["checks"])) if m.get("after_strengthening") else "")))
    return "\n".join(rows)

def harmless():
    rows = ["| id | behaviour-preserving change | repo tests | checks run -> result |", "|---|---|---|---|"]
    for d in sorted(glob.glob(os.path.join(ROOT, "harmless", "*", "meta.json"))):
        m = json.load(open(d))
        cr = m.get("checks_run", [])
        quiet = sum(1 for c in cr if c.endswith(":quiet"))
        loud = [c for c in cr if not c.endswith(":quiet")]
        rows.append("| %s | %s | %s | %d checks quiet%s |" % (m.get("id") or os.path.basename(os.path.dirname(d)), (m.get("summary") or "")[:300].replace("|", "\\|").replace("\n", " "),
                                                         "pass" if "all tests passed" in (m.get("repo_tests_with_change") or "") else (m.get("repo_tests_with_change") or "?"),
                                                         quiet, ("; ALARM: " + ", ".join(loud)) if loud else ""))
    return "\n".join(rows)

def status():
    rows = ["| property | theorems (obligations discharged) | cases in the last quick run | wall s | violations |", "|---|---|---|---|---|"]
    for f in sorted(glob.glob(os.path.join(ROOT, "evidence", "C*.json"))):
        e = json.load(open(f)); c = e["coverage"]
        rows.append("| %s | %s/%s | %s | %s | %s |" % (e["property_id"], c.get("discharged"), c.get("obligations"), c.get("evaluations"), e.get("wall_s"), e.get("violations")))
    return "\n".join(rows)

def main():
    p = os.path.join(ROOT, "DESIGN.md")
    s = open(p).read()
    fx, kf = fixes()
    for name, body in (("FIXES", fx), ("KNOWN", kf), ("SEEDS", seeds()), ("HARMLESS", harmless()), ("STATUS", status())):
        a, b = "<!-- BEGIN %s -->" % name, "<!-- END %s -->" % name
        if a in s and b in s:
            s = s[:s.index(a) + len(a)] + "\n" + body + "\n" + s[s.index(b):]
    open(p, "w").write(s)

main()
