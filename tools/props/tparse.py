"""tparse -- correspondence of the parser model (coq/TparseModel.v) with Template.hpp::parse.

Both sides get the same template text; the C++ driver (cpp/drv_tparse.cpp) dumps
the tag tree TemplateCore<...>::Parse builds, with every field of the Tags.hpp
records, the extracted model (ocaml/tparse.ml) prints its tree in the same
canonical form.  Texts: tmplgen grammar templates, 1-3 mutations of them, token
soup, c01.boundary_templates, and printed well-formed ASTs of tmplast.

  correspond(rng, tier, boost) -> dict(n, mismatches, errors, samples, distribution)
  python3 tools/props/tparse.py [seed] [n]          stand-alone development run
"""
import os
import random
import sys

sys.path.insert(0, os.path.dirname(os.path.dirname(os.path.abspath(__file__))))
sys.path.insert(0, os.path.dirname(os.path.abspath(__file__)))
import vlib
from vlib import fmt_list
import tmplgen as g
import tmplast as ta

DRV = "drv_tparse"
TABLES = (("Tables_tmpl", "gentables_tmpl.cpp"), ("Tables_expr", "gentables_expr.cpp"), ("Tables_digit", "gentables_digit.cpp"),
          ("Tables_tparse", "gentables_tparse.cpp"), ("Tables_tmplfmt", "gentables_tmplfmt.cpp"))

EXTRA_TOKENS = ["{if case=\"", "\" true=\"", "\" false=\"", "\"}", "<loop value=\"v\">", "<loop set=\"", "<if case=\"1\">", "<else>", "<else if case=\"",
                "</loop>", "</if>", "{var:v}", "{var:v[0]}", "{raw:a}", "{math:1+", "{svar:a, ", "true=", "false=", "case=", "sort=", "group=", "set=", "value=",
                "=", " = ", "'", "i", "t", "f", "s", "v", "g", "}", "}", "{", "(", ")", "==", "!=", "a==b", "x"]


def build():
    return vlib.build_cpp(DRV, "drv_tparse.cpp", defines=["QENTEM_SSE2=1"], extra=["-msse2"])


def units_of(t, w):
    u = [ord(c) for c in t]
    if w == 0:
        u = [x if x < 256 else 63 for x in u]
    elif w == 1:
        u = [x if x < 65536 else 63 for x in u]
    return u


def boundary_texts():
    import c01
    out = c01.boundary_templates(None)
    # narrow-field shapes of the parser itself
    for n in (250, 255, 256, 257, 300):
        out.append("<loop" + " " * n + "value=\"v\">{var:v}</loop>")
        out.append("<loop value=\"v\"" + " " * n + "set=\"a\">{var:v}</loop>")
        out.append("<loop group=\"" + "g" * n + "\" value=\"v\">{var:v}</loop>")
        out.append("{var:" + "a" * n + "}{raw:" + "b" * (n + 256) + "}")
        out.append("{svar:" + "c" * n + ", {var:a}}")
        out.append("{if case=\"1\" true=\"" + "{var:a}" * n + "\" false=\"{var:b}\"}")
        out.append("{if case=\"1\" false=\"{var:b}\" true=\"" + "{var:a}" * n + "\"}")
        # the OTHER value selected: its start id is the number of sub tags of the first value (8 bits wide, D75)
        out.append("{if case=\"0\" true=\"" + "{var:a}" * n + "\" false=\"{var:b}\"}")
        out.append("{if case=\"0\" false=\"" + "{var:a}" * n + "\" true=\"{var:b}\"}x")
        out.append("{if case=\"1\" false=\"" + "{var:a}" * n + "\" true=\"{var:b}{raw:a}\"}")
    for d in (254, 255, 256, 257):
        out.append("<if case=\"1\">" * d + "<loop value=\"v\">{var:v}</loop>" + "</if>" * d)
    for q in "=|&<>!":
        out += ["<if case=" + q + "5>" + q + ">x</if>", "<if case=" + q + "5" + q + q + ">x</if>", "<if case=" + q + "1|" + q + "|>x</if>", "{if case=" + q + "1&" + q + "& true=" + q + "a" + q + "}",
                "<if case=" + q + "{var:a}!" + q + "=>x<else if case=" + q + "3<" + q + "=>y</if>", "{math:1" + q + "}", "{math:1" + q + q + "}"]
    out += ["{if case=\"1\" true=\"{var:a}\" false=\"x}y\"}", "{if case=\"1\" false=\"x}y\" true=\"{var:a}\"}", "{if case=\"1\" true=\"{var:a}}\" false=\"{var:b}}\"}",
            "{if case=\"1\" true=\"}\"}", "{if case=\"1\" true=\"a}b}c\" false=\"{math:1+1}\"}", "{var:a]}", "{var:a][}", "{var:]}", "<loop value=\"v]\">{var:v]}</loop>",
            "{ifcase=}<if<loop>}<else{var:1}", "{svar:a, <if case=\"1\"><loop value=\"v\">}<else{var:v}", "{if case=\"1\" true=\"<if case=\"1\"><loop value=\"v\">}<else{var:v}",
            "{if case=\"1\" true=\"{var:a}<loop></loop>\"}", "{if case=\"1\" true=\"{var:a}<if case=\"1\"></if>\"}",
            "{svar:a, <loop value=\"v\">}{var:v}</loop>", "<if case=\"1\">{svar:a, <loop value=\"v\">}<else", "<if>", "<if >x</if>", "<if case>x</if>",
            "<if case=\"1\">a<else>b<else>c</if>", "<if case=\"1\">a<elseif case=\"0\">b</if>", "<if case=\"1\">a<else if>b</if>", "<if case=\"1\">a<else",
            "<if case=\"1\">a<else i", "<if case=\"1\">a<else if case=\"1", "<loop set=\"a\" \"b\" value='v' sort=\"ascend\" sort=\"d\">{var:v}</loop>",
            "<loop s se so v g =\"x\">y</loop>", "<loop value=\"v\"></loop></loop>", "{if case=\"{var:a}\" true=\"{var:b}\" false=\"{math:1+{var:c}}\"}",
            "{if case=\"1\" t true=\"a\" f false=\"b\"}", "{if case=\"1\" true=\"a\" fals=\"b\"}", "{if case=\"1\" true=a}", "{if case='1' true='}' false='x'}",
            "{if case=\"1\" true=\"}\" false=\"{var:x}\"}", "{math:(1+2)*{var:a}==3&&(4>=2)||!1}", "{math:  ( ( 1 ) ) }", "{math:a==b}", "{math:1 == abc}", "{math:-1}",
            "{if case=\"0\" true=\"a{var:x}\"" + " " * 65526 + "false=\"bbbbbbbbbb\"}", "{if case=\"1\" true=\"a{var:x}\"" + " " * 65500 + "false=\"b\"}",
            "{if case=\"1\" true=\"" + "t" * 65510 + "\" false=\"{var:b}\"}", "{if case=\"" + "1" * 65536 + "\" true=\"{var:b}\"}",
            "{math:1 - -1}", "{math:{var:a}-1}", "{math:0x1F+1e3+1.5e-2}", "{math:(}", "{math:()}", "{math:(1)(2)}", "{math:{var:a}", "{math:{var:}"]
    return out


def gen_texts(rng, n):
    """-> list of (width, text, class)"""
    out = []
    for _ in range(n):
        r = rng.random()
        w = rng.choice([0, 0, 1, 2, 3])
        if r < 0.15:
            out.append((w, g.print_nodes(g.gen_nodes(rng, [], 0)), "grammar"))
        elif r < 0.5:
            t = g.print_nodes(g.gen_nodes(rng, [], 0))
            for _k in range(rng.choice([1, 1, 2, 3])):
                t = g.mutate(rng, t)
            out.append((w, t, "mutated"))
        elif r < 0.68:
            out.append((w, g.token_soup(rng, rng.randrange(1, 25)), "soup"))
        elif r < 0.85:
            out.append((w, "".join(rng.choice(EXTRA_TOKENS + g.TOKENS[:22]) for _ in range(rng.randrange(1, 16))), "soup2"))
        elif r < 0.93:
            ast, _root = ta.gen_case(rng)
            out.append((w, None, ("ast", ast)))
        else:
            ast, _root = ta.gen_case(rng)
            out.append((w, None, ("ast_mut", ast)))
    return out


def resolve_asts(rng, texts):
    """print the tmplast ASTs with the extracted template model (tmpl.ml mode p)"""
    idx = [i for i, (w, t, c) in enumerate(texts) if t is None]
    if not idx:
        return texts
    mexe, msg = vlib.build_ocaml("tmpl")
    if mexe is None:
        raise RuntimeError("extracted template model does not build: " + msg)
    lines = ["p 2 %d %s" % (texts[i][0], "|".join(ta.ser_nodes(texts[i][2][1]))) for i in idx]
    printed, _ = vlib.run_sharded(mexe, [], lines)
    res = list(texts)
    for i, p in zip(idx, printed):
        w, _t, c = texts[i]
        t = "".join(chr(int(x)) for x in p.split(",")) if p not in ("-", "") else ""
        if c[0] == "ast_mut":
            t = g.mutate(rng, t)
        res[i] = (w, t, c[0])
    return res


def run_texts(exe, mexe, texts):
    """-> list of (w, text, class, impl, model)"""
    lines = ["%d %s" % (w, fmt_list(units_of(t, w))) for (w, t, c) in texts]
    impl, crashes = vlib.run_sharded(exe, [], lines, timeout=3600)
    model, _ = vlib.run_sharded(mexe, [], lines, timeout=3600)
    out = []
    for (w, t, c), i, m in zip(texts, impl, model):
        if i == "":
            i = "CRASH (no output: sanitizer abort)"
        parts = m.rsplit(" ", 1)
        mt = parts[0]
        if len(parts) == 2 and parts[1] == "0" and not mt.startswith("ERR"):
            mt = "BADTREE:" + mt          # the model's tree violates the tree specification (tree_okb)
        out.append((w, t, c, i, mt))
    return out


def minimise(exe, mexe, w, t, kind):
    def still(u):
        tt = "".join(u)
        r = run_texts(exe, mexe, [(w, tt, "min")])[0]
        if kind == "error":
            return r[4].startswith("ERR")
        return r[3] != r[4]
    if len(t) > 4000:
        return t
    return "".join(vlib.shrink_list(list(t), still, max_steps=300))


def correspond(rng, tier, boost=1, with_boundary=True):
    exe, msg = build()
    if exe is None:
        return {"n": 0, "mismatches": [{"broken": "cpp/drv_tparse.cpp does not build", "log": msg}], "errors": [], "samples": [], "distribution": {}}
    mexe, mmsg = vlib.build_ocaml("tparse")
    if mexe is None:
        return {"n": 0, "mismatches": [{"broken": "extracted parser model does not build", "log": mmsg}], "errors": [], "samples": [], "distribution": {}}
    n = (4000 if tier == "quick" else 200000) * boost
    texts = resolve_asts(rng, gen_texts(rng, n))
    if with_boundary:
        bt = boundary_texts()
        if tier == "quick":
            bt = [t for t in bt if len(t) < 9000]
        texts = [(rng.choice([0, 1, 2, 3]), t, "boundary") for t in bt] + texts
    res = run_texts(exe, mexe, texts)
    dist = {}
    mism, errs = [], []
    nontrivial = 0
    for (w, t, c, i, m) in res:
        dist[c] = dist.get(c, 0) + 1
        if m != "[]":
            nontrivial += 1
        if m.startswith("CRASH") and not i.startswith("CRASH"):
            # the extracted model could not be evaluated (OCaml stack / time limit): counted, not judged
            dist["model_unevaluated"] = dist.get("model_unevaluated", 0) + 1
            continue
        if m.startswith("ERR"):
            errs.append((w, t, c, i, m))
        elif i != m:
            mism.append((w, t, c, i, m))
    out = {"n": len(res), "distinct_nonempty_trees": nontrivial, "mismatches": [], "errors": [], "distribution": dist,
           "samples": [r[1][:200] for r in res[len(res) // 2: len(res) // 2 + 3]]}
    for (w, t, c, i, m) in mism[:3]:
        s = minimise(exe, mexe, w, t, "mismatch")
        r = run_texts(exe, mexe, [(w, s, c)])[0]
        out["mismatches"].append({"width": w, "text": s, "text_units": fmt_list(units_of(s, w)), "class": c, "impl": r[3][:2000], "model": r[4][:2000]})
    for (w, t, c, i, m) in errs[:3]:
        s = minimise(exe, mexe, w, t, "error")
        r = run_texts(exe, mexe, [(w, s, c)])[0]
        out["errors"].append({"width": w, "text": s, "text_units": fmt_list(units_of(s, w)), "class": c, "impl": r[3][:2000], "model": r[4][:2000]})
    out["n_mismatch"] = len(mism)
    out["n_error"] = len(errs)
    return out


def main():
    seed = int(sys.argv[1]) if len(sys.argv) > 1 else 1
    n = int(sys.argv[2]) if len(sys.argv) > 2 else 4000
    rng = random.Random(seed)
    for (name, src) in TABLES:
        ok, ch, msg = vlib.gen_tables(name, src)
        if not ok:
            print(msg)
            return 2
    ok, log = vlib.coq_make(["Extract_tparse.vo", "Extract_tmpl.vo"])
    if not ok:
        print(log[-3000:])
        return 2
    global_n = n

    def corr():
        exe, msg = build()
        if exe is None:
            print(msg)
            return None
        mexe, mmsg = vlib.build_ocaml("tparse")
        if mexe is None:
            print(mmsg)
            return None
        texts = resolve_asts(rng, gen_texts(rng, global_n))
        if os.environ.get("TPARSE_BOUNDARY", "1") == "1":
            texts = [(rng.choice([0, 1, 2, 3]), t, "boundary") for t in boundary_texts() if len(t) < int(os.environ.get("TPARSE_MAXLEN", "9000"))] + texts
        return exe, mexe, run_texts(exe, mexe, texts)
    r = corr()
    if r is None:
        return 2
    exe, mexe, res = r
    bad = [x for x in res if x[3] != x[4]]
    errs = [x for x in res if x[4].startswith("ERR")]
    dist = {}
    for x in res:
        dist[x[2]] = dist.get(x[2], 0) + 1
    print("cases", len(res), "mismatches", len(bad), "model errors", len(errs), "nonempty", sum(1 for x in res if x[4] != "[]"), dist)
    shown = 0
    seen = set()
    for (w, t, c, i, m) in bad:
        if shown >= int(os.environ.get("TPARSE_SHOW", "4")):
            break
        s = minimise(exe, mexe, w, t, "error" if m.startswith("ERR") else "mismatch")
        if s in seen:
            continue
        seen.add(s)
        shown += 1
        rr = run_texts(exe, mexe, [(w, s, c)])[0]
        print("---- class", c, "width", w, "text", repr(s))
        print("impl ", rr[3][:1500])
        print("model", rr[4][:1500])
    return 1 if bad else 0


if __name__ == "__main__":
    sys.exit(main())
