"""C16 -- every allocation is released exactly once; nothing is used after release.

PARTIAL (DESIGN.md C16).
Proof: coq/Properties_C16.v
       (1) the ownership ledger of the block-heap model of Array / String / StringStream (coq/SeqModel.v,
       the model of the C14 theorems): for EVERY operation history no block is released twice, nothing
       unallocated is released, every live block has exactly one owner, and after destroying every object
       of the pool no block is live.
       (2) an ownership model of Value trees (coq/LedgerValueModel.v: object -> HArray storage + key blocks +
       member values, array -> element block + elements, string -> character block, pointer -> nothing;
       assignment by copy / move incl. from an own member (D40) and from an ancestor, get-or-create, append,
       Merge by copy / move, Remove / RemoveIndex, Compress, Reset, destruction, in the order of the C++):
       for every history on a pool of variables the run never releases or reads a dead block, every block is
       owned exactly as often as it is live, and destroying the pool leaves no live block.
       (3) Array<Node> with nested Array<Node> (coq/LedgerNestedModel.v, the D52 shapes of cpp/drv_nested.cpp):
       the element block is explicit, a reference to the array record of an element dangles once the enclosing
       array grows; for every history of d += Node, d = Move(s), d = s, d += s, d += Move(s) (s anywhere, in
       particular inside d), in the order of the current code: no read through a dangling reference, no release
       of a dead block, ledger kept, destruction leaves nothing live; the pre-D52 orders are Error UAF (Example).
       This model is also RUN: extracted (coq/Extract_ledger.v, ocaml/ledger.ml) and compared, contents after every
       step, with the real Array<Node> (cpp/drv_ledger_nested.cpp) and with an extracted value-semantics
       specification (nested vectors) as the oracle.
       Hash-table internals, tag records, expression lists and the parsers' failure paths have no ownership
       model: they are covered by the runtime ledger below only.
Tie / runtime: the library's own allocator seam (Memory::Allocate / Deallocate call MemoryRecord
       when QENTEM_Q_TEST_H is defined; cpp/ledger.hpp keeps a pointer set).  Drivers built with
       -DVERIF_LEDGER=1 print per case ONLY the verdict
           L:<allocations>:<unknown-or-double releases>:<blocks handed out twice>:<live after the case>
       and a correct case prints L:n:0:0:0.  ASan (double free, use after free) and LeakSanitizer
       stay on as the supporting search.  Families:
         seq    C14 histories (Array<int>, Array<String>, String, StringStream, StringView)
         nested Array<Node> with nested Array<Node>: = / += whose source lives inside the destination (D52)
         nestedops  the same container through explicit operations at explicit locations (the model's operations)
         value  C12 Value histories (copy, move, own-member assignment, Merge, Remove, Compress, pointers)
         htab   C13 hash-table histories (resize, remove, rename, merge by move, sort, copy)
         json   valid documents and every kind of rejected text (prefixes, damaged brackets, soup)
         tmpl   templates: well-formed, mutated / unterminated, token soup, boundary shapes
         cache  tag-cache lifetimes: parse, copy, move, append, clear, reuse for renders, destroy
       The number of allocations is a diagnostic only (policy, not contract)."""
import concurrent.futures as cf
import json
import os
import random
import re

import vlib
from vlib import fmt_list, parse_list

PROP = "C16"
PROP_V = "Properties_C16.v"
OK_RE = re.compile(r"^L:(\d+):0:0:0$")
L_RE = re.compile(r"^L:(\d+):(\d+):(\d+):(-?\d+)$")

# name -> (binary name, source, extra defines, extra flags)
DRIVERS = {
    "seq": ("drv_ledger_seq", "drv_ledger_seq.cpp", [], []),
    "nested": ("drv_nested_ledger", "drv_nested.cpp", [], []),
    "nestedops": ("drv_ledger_nested_ledger", "drv_ledger_nested.cpp", [], []),
    "value": ("drv_value_ledger", "drv_value.cpp", [], []),
    "htab": ("drv_htab_ledger", "drv_htab.cpp", [], []),
    "json": ("drv_json_ledger", "drv_json.cpp", [], []),
    "tmpl": ("drv_tmpl_ledger", "drv_tmpl.cpp", ["QENTEM_SSE2=1"], ["-msse2"]),
    "cache": ("drv_ledger_cache", "drv_ledger_cache.cpp", [], []),
}
FORMATS = {
    "seq": "<kind ai|as|s|t|v> <width> <op;op;...>   (cpp/drv_seq.cpp)",
    "nested": "script of choices a,b,c,...: tree shape, then (op, index) pairs   (cpp/drv_nested.cpp: Array<Node> with nested Array<Node>; D52 shapes)",
    "nestedops": "<op;op;...> on Array<Node>: P/<d>/<id>/<g> push, M/<d>/<s> d=Move(s), C/<d>/<s> d=s, A/<d>/<s>/<g> d+=s, B/<d>/<s>/<g> d+=Move(s); locations 0 = a, 0.i.0 = a[i].kids   (cpp/drv_ledger_nested.cpp, coq/LedgerNestedModel.v)",
    "value": "<mode> <history>   (cpp/drv_value.cpp, ocaml/value.ml)",
    "htab": "T <inst> <keys k0/k1/..> <ops>   (cpp/drv_htab.cpp)",
    "json": "<kind P|X|S|R> <width> <units | tree>   (cpp/drv_json.cpp)",
    "tmpl": "<width> <mode 0 fresh | 1 through a reused cache> <template units> <json units>   (cpp/drv_tmpl.cpp)",
    "cache": "<width> <script> <template0 units> <template1 units> <json units>   (cpp/drv_ledger_cache.cpp)",
}


def build(fam):
    name, src, defs, extra = DRIVERS[fam]
    return vlib.build_cpp(name, src, defines=["VERIF_LEDGER=1"] + defs, extra=extra)


def build_all():
    fams = list(DRIVERS)
    with cf.ThreadPoolExecutor(max_workers=4) as ex:
        res = list(ex.map(build, fams))
    return {f: r for f, r in zip(fams, res)}


# ---------------------------------------------------------------- running
def ok(res):
    return OK_RE.match(res) is not None


def _bisect_exit(exe, lines, found, limit=3):
    """the process printed a verdict for every line but left with a sanitizer report
    (a leak the ledger did not see): find single cases that reproduce it"""
    if len(found) >= limit:
        return
    rc, out, err = vlib.run_lines(exe, [], lines, timeout=600)
    if rc == 0 and len([o for o in out if L_RE.match(o)]) >= len(lines):
        return
    if len(lines) == 1:
        found.append((lines[0], vlib.sanitizer_summary(err), err[-2500:]))
        return
    h = len(lines) // 2
    _bisect_exit(exe, lines[:h], found, limit)
    _bisect_exit(exe, lines[h:], found, limit)


def run_ledger(exe, lines, shards=None, case_timeout=60):
    """returns (results in order, reports): a result is the verdict line, 'CRASH <tag>' when the case
    killed the process (sanitizer abort, signal, timeout) or 'EXIT <tag>' when only the exit-time
    leak check complained; reports = {case: stderr tail}"""
    if not lines:
        return [], {}
    shards = shards or min(vlib.NPROC, 8, max(1, len(lines) // 150))
    size = (len(lines) + shards - 1) // shards
    chunks = [lines[i:i + size] for i in range(0, len(lines), size)]
    reports = {}

    def work(ch):
        res = []
        todo = ch
        crashes = 0
        exit_bad = []
        while todo:
            rc, out, err = vlib.run_lines(exe, [], todo, timeout=900)
            # only complete verdict lines count (a killed process leaves an empty or partial last line)
            good = 0
            while good < len(out) and L_RE.match(out[good]):
                good += 1
            out = out[:good]
            if len(out) >= len(todo):
                res.extend(out[:len(todo)])
                if rc != 0:
                    exit_bad.append(list(todo))
                break
            k = len(out)
            res.extend(out)
            # confirm on the single case (a timeout of the whole chunk must not be blamed on it)
            rc1, out1, err1 = vlib.run_lines(exe, [], [todo[k]], timeout=case_timeout)
            if rc1 == 0 and len(out1) >= 1 and L_RE.match(out1[0]):
                res.append(out1[0])
            else:
                res.append("CRASH " + vlib.sanitizer_summary(err1))
                reports[todo[k]] = err1[-2500:]
                crashes += 1
            todo = todo[k + 1:]
            if crashes >= 12 and todo:
                res.extend(["SKIPPED"] * len(todo))
                break
        return res, exit_bad

    results = []
    exit_chunks = []
    with cf.ThreadPoolExecutor(max_workers=len(chunks)) as ex:
        for r, eb in ex.map(work, chunks):
            results.extend(r)
            exit_chunks.extend(eb)
    if exit_chunks:
        found = []
        for ch in exit_chunks:
            good = [c for c in ch if c not in reports]
            _bisect_exit(exe, good, found)
        idx = {}
        for n, c in enumerate(lines):
            idx.setdefault(c, n)
        for (c, tag, err) in found:
            if c in idx and ok(results[idx[c]]):
                results[idx[c]] = "EXIT " + tag
                reports[c] = err
    return results, reports


def run_one(exe, case):
    r, rep = run_ledger(exe, [case], shards=1)
    return r[0], rep.get(case, "")


# ---------------------------------------------------------------- generators (adapters over the other checks' generators)
def gen_seq(rng, tier, boost=1):
    import c14
    n = (600 if tier == "quick" else 3000) * boost
    plan = [("ai", 0, 3 * n), ("as", 0, 5 * n)]
    for w in range(3):
        plan += [("s", w, 2 * n), ("t", w, 2 * n)]
    plan.append(("v", 0, n // 4))
    cases = []
    dist = {}
    for kind, w, cnt in plan:
        for _ in range(cnt):
            nops = rng.choice([3, 6, 10, 20, 30, 45, 60])
            if kind in ("ai", "as"):
                ops = c14.gen_array(rng, kind, nops)
            elif kind == "s":
                ops = c14.gen_string(rng, w, nops)
            elif kind == "t":
                ops = c14.gen_stream(rng, w, nops)
            else:
                ops = c14.gen_view(rng, w, nops)
            cases.append("%s %d %s" % (kind, w, ";".join(ops)))
            dist["seq_" + kind] = dist.get("seq_" + kind, 0) + 1
    return c14.corpus_cases() + cases, dist


def gen_nested(rng, tier, boost=1):
    """Array<Node> whose elements own nested Array<Node>: the right-hand side of = / += lives inside the destination (D52)"""
    n = (3000 if tier == "quick" else 40000) * boost
    return [",".join(str(rng.randrange(0, 50)) for _ in range(rng.choice([12, 24, 40]))) for _ in range(n)], {"nested_scripts": n}


def _nested_paths(tree, base):
    out = [base]
    for i, (_id, kids) in enumerate(tree):
        out += _nested_paths(kids, base + [i, 0])
    return out


def _nested_get(tree, p):
    cur = tree
    for k in range(1, len(p) - 1, 2):
        if p[k] >= len(cur):
            return None
        cur = cur[p[k]][1]
    return cur


def _deep(t):
    return [[i, _deep(k)] for (i, k) in t]


def _size(t):
    return sum(1 + _size(k) for (_i, k) in t)


def gen_nested_history(rng, nops):
    """operations of coq/LedgerNestedModel.v over a python mirror (value semantics) that only serves to pick
    locations that resolve; d strictly inside s is never generated (outside the domain)"""
    tree = []
    ops = []
    nid = 0
    for _ in range(nops):
        paths = _nested_paths(tree, [0])
        d = rng.choice(paths)
        r = rng.random()
        fp = lambda q: ".".join(str(x) for x in q)
        if r < 0.45 or len(paths) < 2:
            if rng.random() < 0.05:
                d = d + [rng.randrange(4), 0]       # may not resolve: skipped on both sides
            nid += 1
            ops.append("P/%s/%d/%d" % (fp(d), nid, rng.randrange(2)))
            a = _nested_get(tree, d)
            if a is not None:
                a.append([nid, []])
            continue
        # prefer a source inside the destination (the D52 shapes), sometimes unrelated / equal
        inside = [q for q in paths if len(q) > len(d) and q[:len(d)] == d]
        s = rng.choice(inside) if inside and rng.random() < 0.7 else rng.choice(paths)
        if len(s) < len(d) and d[:len(s)] == s:
            d, s = s, d
        kind = rng.choice("MCAB") if _size(tree) < 40 else rng.choice("MMCB")
        g = rng.randrange(2)
        ops.append("%s/%s/%s" % (kind, fp(d), fp(s)) + ("/%d" % g if kind in "AB" else ""))
        da, sa = _nested_get(tree, d), _nested_get(tree, s)
        if da is None or sa is None:
            continue
        if kind == "M":
            sub = sa[:]
            del sa[:]
            da2 = _nested_get(tree, d)
            da2[:] = sub
        elif kind == "C":
            da[:] = _deep(sa)
        elif kind == "A":
            da.extend(_deep(sa))
        else:
            sub = sa[:]
            del sa[:]
            _nested_get(tree, d).extend(sub)
    return ops


def gen_nestedops(rng, tier, boost=1):
    n = (3000 if tier == "quick" else 40000) * boost
    cases = [";".join(gen_nested_history(rng, rng.choice([4, 8, 14, 22, 30]))) for _ in range(n)]
    return cases, {"nested_op_histories": n}


def gen_value(rng, tier, boost=1):
    import c12
    n = (6000 if tier == "quick" else 40000) * boost
    cases = []
    for i in range(n):
        ops = c12.gen_history(rng, 12 if i % 3 == 0 else 50)
        cases.append("12 " + ";".join(ops))
    corp = [c for c in c12.corpus_cases("C12") if len(c.split(" ")) == 2]
    return corp + cases, {"value_histories": n, "value_corpus": len(corp)}


def gen_htab(rng, tier, boost=1):
    import c13
    # collision alphabets need the implementation's hash: taken from the plain C13 driver when it builds
    groups, hashes = {}, {}
    exe, msg = vlib.build_cpp("drv_htab", "drv_htab.cpp")
    if exe is not None:
        pool = c13.candidate_keys(rng)
        out, _cr = vlib.run_sharded(exe, [], ["H " + c13.fmt_key(k) for k in pool], shards=4)
        for k, o in zip(pool, out):
            if o.isdigit():
                hashes[k] = int(o)
        groups = c13.collision_groups(hashes)
    n = (6000 if tier == "quick" else 30000) * boost
    cases = []
    dist = {"htab_inst0": 0, "htab_inst1": 0, "htab_inst2": 0}
    for _ in range(n):
        inst = rng.choice([0, 1, 1, 2])
        keys = c13.pick_alphabet(rng, groups, hashes)
        maxops = 60 if tier == "quick" or rng.random() < 0.8 else 300
        nops = rng.choice([maxops, rng.randrange(1, maxops + 1), rng.randrange(1, 16)])
        ops, _nt = c13.gen_history(rng, len(keys), nops, inst, keys)
        cases.append(c13.make_case(inst, keys, ops))
        dist["htab_inst%d" % inst] += 1
    corp = [c for c in c13.corpus_cases() if c.startswith("T ")]
    return corp + cases, dist


def gen_json(rng, tier, boost=1):
    import jsoncommon as jc
    cases = []
    dist = {"json_text": 0, "json_valid": 0, "json_damaged": 0, "json_tree": 0}
    for _ in range((6000 if tier == "quick" else 60000) * boost):
        w = rng.randrange(4)
        cases.append("P %d %s" % (w, fmt_list(jc.gen_text(rng, w))))
        dist["json_text"] += 1
    for _ in range((150 if tier == "quick" else 1500) * boost):
        w = rng.randrange(4)
        v, out = jc.gen_doc(rng, w, maxlen=rng.choice([30, 60, 200]))
        cases.append("P %d %s" % (w, fmt_list(jc.gen_ws(rng) + out.u + jc.gen_ws(rng))))
        dist["json_valid"] += 1
        # every proper prefix (truncation), one-unit suffixes, closing brackets swapped / removed, separators blanked
        for c, tag in jc.damaged_cases(rng, w, out, full=len(out.u) <= 80):
            cases.append("P" + c[1:])
            dist["json_damaged"] += 1
    for _ in range((1000 if tier == "quick" else 8000) * boost):
        cases.append(jc.s_case(rng, rng.randrange(4), True))
        dist["json_tree"] += 1
    corp = []
    for p in ("C05", "C06", "C07", "C08"):
        corp += [c for c in jc.corpus_cases(p) if c[:1] in "PXGSR"]
    return corp + cases, dist


def _tmpl_texts(rng, n):
    import tmplgen as g
    out = []
    dist = {"tmpl_grammar": 0, "tmpl_mutated": 0, "tmpl_soup": 0, "tmpl_prefix": 0}
    for _ in range(n):
        r = rng.random()
        if r < 0.3:
            t = g.print_nodes(g.gen_nodes(rng, [], 0))
            dist["tmpl_grammar"] += 1
        elif r < 0.65:
            t = g.print_nodes(g.gen_nodes(rng, [], 0))
            for _k in range(rng.choice([1, 1, 2, 3])):
                t = g.mutate(rng, t)
            dist["tmpl_mutated"] += 1
        elif r < 0.85:
            # unterminated: a well-formed template cut at a random place (tags dropped at the end of parse)
            t = g.print_nodes(g.gen_nodes(rng, [], 0))
            t = t[:rng.randrange(len(t) + 1)]
            dist["tmpl_prefix"] += 1
        else:
            t = g.token_soup(rng, rng.randrange(1, 25))
            dist["tmpl_soup"] += 1
        out.append(t)
    return out, dist


def gen_tmpl(rng, tier, boost=1):
    import tmplgen as g
    import tparse
    texts, dist = _tmpl_texts(rng, (5000 if tier == "quick" else 40000) * boost)
    cases = []
    for t in texts:
        cases.append(g.case_line(rng.choice([0, 0, 1, 2, 3]), rng.choice([0, 1]), t, g.gen_root(rng)))
    bt = tparse.boundary_texts()
    if tier == "quick":
        bt = [t for t in bt if len(t) < 6000]
    root = g.gen_root(random.Random(5))
    for k, t in enumerate(bt):
        # deep nestings iterate the root at every level: a one-member root keeps the work linear (as in c01.py)
        v = {"a": "x"} if t.count("<loop") > 50 else {"a": "x", "v": 1, "list": [1, [2]], "obj": {"k": 1}}
        # (mode 1 renders a two-member value as well: exponential in the loop depth)
        cases.append(g.case_line(k % 4, 0 if t.count("<loop") > 50 else 1, t, v))
    dist["tmpl_boundary"] = len(bt)
    # every prefix of a few templates that use all tag kinds
    full = ["<loop set=\"items\" value=\"v\" group=\"g\" sort=\"ascend\">{var:v[name]}{math:1+{var:n1}}<if case=\"{var:n2}>0\">a{svar:svp, {var:a}, {raw:b}}<else if case=\"1\">b<else>c</if></loop>{if case=\"{var:t}\" true=\"{var:s1}x\" false=\"{raw:s1}\"}",
            "<if case=\"1\"><loop value=\"v\">{var:v}<if case=\"0\">{math:(1+2)*3}<else>{svar:svp, {math:1}}</if></loop><else>{if case=\"0\" true=\"a\"}</if>"]
    for t in full:
        for k in range(len(t)):
            cases.append(g.case_line(0, k & 1, t[:k], root))
            dist["tmpl_prefix"] += 1
    return cases, dist


CACHE_OPS = [("P", 14), ("Q", 3), ("R", 14), ("G", 10), ("F", 2), ("C", 10), ("K", 6), ("M", 7), ("V", 5), ("A", 4), ("B", 3), ("L", 4),
             ("T", 3), ("D", 2), ("Z", 3), ("E", 2), ("X", 2), ("Y", 3), ("W", 3), ("O", 3), ("N", 2), ("S", 1)]


def gen_cache_script(rng, nops):
    names = [x[0] for x in CACHE_OPS]
    ws = [x[1] for x in CACHE_OPS]
    ops = ["P:%d:%d" % (rng.randrange(3), rng.randrange(2))]
    for _ in range(nops):
        c = rng.choices(names, ws)[0]
        i, j = rng.randrange(3), rng.randrange(3)
        if c in ("P", "Q"):
            ops.append("%s:%d:%d" % (c, i, rng.randrange(2)))
        elif c == "R":
            ops.append("R:%d:%d" % (i, rng.randrange(3)))
        elif c == "G":
            ops.append("G:%d:%d:%d" % (i, rng.randrange(2), rng.randrange(3)))
        elif c == "F":
            ops.append("F:%d:%d" % (rng.randrange(2), rng.randrange(3)))
        elif c in ("C", "K", "M", "V", "A", "B"):
            ops.append("%s:%d:%d" % (c, i, j))
        elif c in ("L", "T", "E"):
            ops.append("%s:%d" % (c, i))
        elif c in ("D", "Z"):
            ops.append("%s:%d:%d" % (c, i, rng.choice([0, 1, 1, 2, 3, 8])))
        elif c in ("X", "Y", "O", "N"):
            ops.append("%s:%d:%d" % (c, i, rng.randrange(4)))
        elif c == "W":
            ops.append("W:%d:%d:%d:%d" % (i, rng.randrange(4), j, rng.randrange(4)))
        else:
            ops.append("S:%d" % rng.randrange(2))
    return ops


def gen_cache(rng, tier, boost=1):
    import tmplgen as g
    n = (5000 if tier == "quick" else 25000) * boost
    texts, dist0 = _tmpl_texts(rng, 2 * n)
    cases = []
    for k in range(n):
        w = rng.choice([0, 0, 1, 2, 3])
        t0, t1 = texts[2 * k], texts[2 * k + 1]
        if rng.random() < 0.3:
            t1 = rng.choice(["{math:1+2*{var:n1}}", "({var:a}+1)*2==4&&1", "1+", "<if case=\"1\">", "x"])
        script = gen_cache_script(rng, rng.choice([3, 6, 10, 16, 25]))
        l0 = g.case_line(w, 0, t0, g.gen_root(rng)).split(" ")
        l1 = g.case_line(w, 0, t1, {}).split(" ")
        cases.append("%d %s %s %s %s" % (w, ";".join(script), l0[2], l1[2], l0[3]))
    return cases, {"cache_scripts": n}


GENS = [("seq", gen_seq), ("nested", gen_nested), ("nestedops", gen_nestedops), ("value", gen_value), ("htab", gen_htab), ("json", gen_json), ("tmpl", gen_tmpl), ("cache", gen_cache)]


def corpus_cases():
    """corpus/C16/cases.txt: '<family> <case line>'"""
    res = []
    p = os.path.join(vlib.ROOT, "corpus", PROP, "cases.txt")
    if os.path.exists(p):
        for line in open(p):
            line = line.strip()
            if line and not line.startswith("#"):
                fam, _, case = line.partition(" ")
                if fam in DRIVERS and case:
                    res.append((fam, case))
    return res


# ---------------------------------------------------------------- minimisation
def splitter(fam, case):
    """(units, join): the case as a list of removable units"""
    tk = case.split(" ")
    if fam == "seq":
        return [t for t in tk[2].split(";") if t], lambda u: " ".join(tk[:2] + [";".join(u) if u else "-"])
    if fam == "nested":
        return parse_list(case), lambda u: fmt_list(u) if u else "0"
    if fam == "nestedops":
        return [t for t in case.split(";") if t], lambda u: ";".join(u) if u else "P/9/1/0"
    if fam == "value":
        return tk[1].split(";"), lambda u: tk[0] + " " + (";".join(u) if u else "-")
    if fam == "htab":
        return (tk[3].split(";") if tk[3] != "-" else []), lambda u: " ".join(tk[:3] + [";".join(u) if u else "-"])
    if fam == "json":
        if tk[0] in ("P", "X", "G"):
            return parse_list(tk[2]), lambda u: " ".join([tk[0], tk[1], fmt_list(u)])
        return None, None
    if fam == "tmpl":
        return parse_list(tk[2]), lambda u: " ".join(tk[:2] + [fmt_list(u)] + tk[3:])
    if fam == "cache":
        return [t for t in tk[1].split(";") if t], lambda u: " ".join([tk[0], ";".join(u) if u else "L:0"] + tk[2:])
    return None, None


def minimise(fam, exe, case):
    units, join = splitter(fam, case)
    if not units:
        return case

    def fails(u):
        r, _e = run_one(exe, join(u))
        return not ok(r) and r != "SKIPPED"

    if not fails(units):
        return case
    small = vlib.shrink_list(units, fails, max_steps=200)
    c = join(small)
    if fam == "cache":
        # second pass: shrink template 0 as well
        tk = c.split(" ")
        u0 = parse_list(tk[2])

        def fails0(u):
            r, _e = run_one(exe, " ".join(tk[:2] + [fmt_list(u)] + tk[3:]))
            return not ok(r) and r != "SKIPPED"

        if u0 and fails0(u0):
            c = " ".join(tk[:2] + [fmt_list(vlib.shrink_list(u0, fails0, max_steps=120))] + tk[3:])
    return c


def text_of(units):
    return "".join(chr(u) if 32 <= u < 127 else "\\x%02x" % u if u < 256 else "\\u{%x}" % u for u in units)


def explain(res):
    m = L_RE.match(res)
    if not m:
        return "the case did not finish: " + res
    a, u, d, l = (int(x) for x in m.groups())
    why = []
    if u:
        why.append("%d release(s) of a block that is not live (released twice, or never allocated)" % u)
    if d:
        why.append("%d block(s) handed out while still on the ledger" % d)
    if l > 0:
        why.append("%d block(s) still live after every object of the case is gone (leak)" % l)
    if l < 0:
        why.append("%d block(s) allocated before the case were released by it" % -l)
    return "; ".join(why) if why else "ok"


# ---------------------------------------------------------------- proof stage
def proof_stage(rep):
    res = {"ok": False, "theorems": [], "log": ""}
    if not os.path.exists(os.path.join(vlib.COQ, PROP_V)):
        res["log"] = "coq/%s is missing" % PROP_V
        return res
    okm, mlog = vlib.coq_make([PROP_V + "o", "Extract_ledger.vo"])
    res["log"] = mlog[-5000:]
    # the audit covers the files Properties_C16.v is built from (other components' files are audited by their own checks;
    # Print Assumptions below is the kernel's own answer for these theorems)
    audit = [a for a in vlib.coq_audit() if a.startswith(("coq/Seq", "coq/Ledger", "coq/Properties_C16", "coq/Properties_C14"))]
    if audit:
        res["log"] += "\nAUDIT: forbidden constructs:\n" + "\n".join(audit)
        okm = False
    if okm:
        thms, alog = vlib.coq_assumptions(PROP_V)
        if thms is None:
            okm = False
            res["log"] += alog[-3000:]
        else:
            res["theorems"] = thms
            if any(not a.startswith("Closed under the global context") for _n, a in thms):
                res["log"] += "\nsome theorem depends on an axiom: %s" % thms
                okm = False
    res["ok"] = okm
    return res


TRUSTED = vlib.TRUSTED_BASE_COMMON[:2] + [
    "coq/SeqModel.v as the model of Array.hpp / String.hpp / StringStream.hpp (tied to the C++ by the C14 correspondence run); coq/LedgerModel.v adds only observers (owners, live blocks, destroy_all) and does not change the step functions",
    "coq/LedgerValueModel.v as the ownership model of Value.hpp / HArray.hpp / HashTable.hpp (hand-written from the code after D29, D40v, D42v, D43v, D52, D63); extracted (coq/Extract_ledgervalue.v, ocaml/ledgervalue.ml) and run against the real Value<char> (cpp/drv_ledger_valuemodel.cpp) on the same histories: see value_model_correspondence",
    "coq/HtabLedgerModel.v as the ownership model of HashTable.hpp / HArray.hpp / HList.hpp storage, key and value tokens (hand-written from the code as it stands; which item a key names is abstracted to key names, capacity to a grow flag); the same operation families are exercised on the real code by the 'htab' ledger family",
    "cpp/ledger.hpp + the QENTEM_Q_TEST_H seam of Include/Memory.hpp: every Memory::Allocate / Deallocate of the library passes through it (grep: the only ::operator new / delete of Include/ are there)",
    "C++ drivers under /verif/cpp (the interpreters of the C12/C13/C14/C05/C01 checks, rebuilt with -DVERIF_LEDGER=1; cpp/drv_ledger_cache.cpp), g++ 12 with ASan/LSan/UBSan, tools/*.py generators",
]


def check(tier):
    rep = vlib.Report(PROP, tier, "proof")
    rng = random.Random(rep.seed * 6151 + 16)
    st = proof_stage(rep)
    theorems = st["theorems"]
    proof_ok = st["ok"]
    checker = "cd coq && make Properties_C16.vo (coqc 8.16.1, full .vo build); coqc -Q . Qv Properties_C16.v for Print Assumptions"
    base_cov = {"obligations": max(1, len(theorems)), "discharged": len(theorems) if proof_ok else 0, "checker_cmd": checker, "trusted_base": TRUSTED}

    exes = build_all()
    broken = [(f, m) for f, (e, m) in exes.items() if e is None]
    if broken:
        rep.violation({"broken": ["ledger driver of family '%s' (%s) does not build against the current tree" % (f, DRIVERS[f][1]) for f, _m in broken],
                       "log": broken[0][1][-3000:]}, no_input=True)
        rep.cov = base_cov
        return rep.finish()

    # protocol: when the proof side is broken and no failing input is known yet, the search is enlarged
    boost = 1 if proof_ok else 4
    dist = {}
    per_family = {}
    total = 0
    nontrivial = 0
    found_input = False
    samples = []
    corp = corpus_cases()
    for fam, gen in GENS:
        exe = exes[fam][0]
        frng = random.Random(rng.randrange(1 << 30))
        cases, d = gen(frng, tier, boost)
        cases = [c for (f, c) in corp if f == fam] + cases
        dist.update(d)
        results, reports = run_ledger(exe, cases)
        allocs = 0
        with_alloc = 0
        bad = []
        for c, r in zip(cases, results):
            m = OK_RE.match(r)
            if m:
                a = int(m.group(1))
                allocs += a
                if a:
                    with_alloc += 1
            elif r != "SKIPPED":
                bad.append((c, r))
        total += len(cases)
        nontrivial += with_alloc
        per_family[fam] = {"cases": len(cases), "cases_with_allocations": with_alloc, "allocations_total": allocs,
                           "verdict_failures": len(bad), "crashes": sum(1 for _c, r in bad if r.startswith("CRASH")),
                           "exit_reports": sum(1 for _c, r in bad if r.startswith("EXIT"))}
        samples.append("%s %s" % (fam, cases[len(cases) // 2][:300]))
        seen = set()
        for (c, r) in bad[:40]:
            if len(seen) >= 2:
                break
            small = minimise(fam, exe, c)
            if small in seen:
                continue
            seen.add(small)
            found_input = True
            rr, err = run_one(exe, small)
            if ok(rr):
                rr, err, small = r, reports.get(c, ""), c
            tk = small.split(" ")
            d = {"component": "ledger/" + fam, "family": fam, "case": small, "format": FORMATS[fam], "observed_impl": rr,
                 "verdict_format": "L:<allocations>:<unknown-or-double releases>:<handed out twice>:<live after every object is gone>",
                 "oracle": "fails: " + explain(rr), "sanitizer": vlib.sanitizer_summary(err) if err else None, "stderr_tail": err[-1500:] if err else None,
                 "original_case": c[:3000] if c != small else None, "broken": None if proof_ok else PROP_V + "o"}
            if fam == "tmpl":
                d["template_text"] = text_of(parse_list(tk[2]))
            if fam == "cache":
                d["template0_text"] = text_of(parse_list(tk[2]))
                d["template1_text"] = text_of(parse_list(tk[3]))
            if fam == "json" and tk[0] in "PXG":
                d["text"] = text_of(parse_list(tk[2]))
            rep.violation(d)

    # correspondence of the nested-array ownership model (coq/LedgerNestedModel.v, extracted) with the real
    # Array<Node>: contents after every step: I = implementation, M = ownership model, S = value-semantics specification
    corr = {"cases": 0, "oracle_failures": 0, "model_impl_mismatches": 0}
    pexe, pmsg = vlib.build_cpp("drv_ledger_nested", "drv_ledger_nested.cpp")
    mexe, mmsg = vlib.build_ocaml("ledger")
    if pexe is None or mexe is None:
        rep.violation({"broken": ["cpp/drv_ledger_nested.cpp or the extracted model (coq/Extract_ledger.v, ocaml/ledger.ml) does not build"],
                       "log": ((pmsg if pexe is None else mmsg) or "")[-3000:]}, no_input=True)
    else:
        crng = random.Random(rng.randrange(1 << 30))
        ccases, _cd = gen_nestedops(crng, tier, boost)
        ccases = [c for (f, c) in corp if f == "nestedops"] + ccases
        r = vlib.differential("ledger", pexe, ccases)
        corr = {"cases": len(ccases), "oracle_failures": len(r.oracle_fail), "model_impl_mismatches": len(r.mismatch), "crashes": len(r.crashes)}
        total += len(ccases)

        def shrink_corr(c, pred):
            def fails(u):
                if not u:
                    return False
                return pred(vlib.differential("ledger", pexe, [";".join(u)]))
            return ";".join(vlib.shrink_list(c.split(";"), fails, max_steps=150))

        for (c, i, m, tag) in r.oracle_fail[:2]:
            small = shrink_corr(c, lambda rr: bool(rr.oracle_fail))
            rr = vlib.differential("ledger", pexe, [small])
            ii, mm = (rr.oracle_fail[0][1], rr.oracle_fail[0][2]) if rr.oracle_fail else (i, m)
            found_input = True
            rep.violation({"component": "ledger/nestedops (contents)", "family": "nestedops", "case": small, "format": FORMATS["nestedops"],
                           "observed_impl": ii[:2000], "model": mm[:2000], "oracle": "fails: contents after some step differ from nested vectors with value semantics (or the run crashed)",
                           "model_agrees_with_impl": tag == "same"})
        if not r.oracle_fail and (r.mismatch or r.bad):
            c0 = (r.mismatch or r.bad)[0]
            small = shrink_corr(c0[0], lambda rr: bool(rr.mismatch or rr.bad)) if r.mismatch else c0[0]
            rep.violation({"broken": ["correspondence LedgerNestedModel.nstep vs Array<Node> (cpp/drv_ledger_nested.cpp) differs: the ownership model reports an error or other contents where the implementation meets the specification"],
                           "first_mismatch": {"case": small, "impl": c0[1][:1500], "model": c0[2][:1500]}, "searched_cases": len(ccases)}, no_input=True)

    # correspondence of the hash-table ownership model (coq/HtabLedgerModel.v, extracted) with HArray / HList:
    # live allocations and what the pool owns after every operation (tools/props/htabledger.py)
    import htabledger
    hrng = random.Random(rng.randrange(1 << 30))
    hr = htabledger.correspond(hrng, tier, boost)
    hcorr = {"cases": hr.get("n", 0), "mismatches": hr.get("n_mismatch", len(hr.get("mismatches", []))), "distribution": hr.get("distribution", {}),
             "samples": hr.get("samples", [])}
    total += hr.get("n", 0)
    model_only = []
    for m in hr.get("mismatches", []):
        if "broken" in m:
            rep.violation({"broken": [m["broken"]], "log": (m.get("log") or "")[-3000:]}, no_input=True)
            continue
        what = m.get("what") or ""
        direct = ("released an unknown" in what) or ("allocations live but the pool owns" in what) or ("after destroying the pool" in what) or m.get("impl", "").startswith("CRASH")
        if direct:
            found_input = True
            rep.violation({"component": "ledger/htabledger", "family": "htabledger", "case": m["case"], "model_case": m.get("model_case"),
                           "format": "<kind 0 HArray<String,String> | 1 HArray<String,unsigned> | 2 HList<String>> <tables> <op;op;...>  (cpp/drv_htabledger.cpp)",
                           "observed_impl": m.get("impl"), "model": m.get("model"), "oracle": "fails: " + what, "original_case": m.get("original_case")})
        else:
            model_only.append(m)
    if model_only and not found_input:
        m = model_only[0]
        rep.violation({"broken": ["correspondence HtabLedgerModel.lstep vs HArray / HList (cpp/drv_htabledger.cpp) differs: " + (m.get("what") or "")],
                       "first_mismatch": {"case": m["case"], "model_case": m.get("model_case"), "impl": m.get("impl"), "model": m.get("model")},
                       "searched_cases": hr.get("n", 0)}, no_input=True)

    # correspondence of the Value-tree ownership model (coq/LedgerValueModel.v, extracted) with Value<char>:
    # live allocations and what the pool owns after every operation (tools/props/ledgervalue.py)
    import ledgervalue
    vrng = random.Random(rng.randrange(1 << 30))
    vr = ledgervalue.correspond(vrng, tier, boost)
    vcorr = {"cases": vr.get("n", 0), "mismatches": vr.get("n_mismatch", len(vr.get("mismatches", []))), "distribution": vr.get("distribution", {}),
             "samples": vr.get("samples", [])}
    total += vr.get("n", 0)
    vmodel_only = []
    for m in vr.get("mismatches", []):
        if "broken" in m:
            rep.violation({"broken": [m["broken"]], "log": (m.get("log") or "")[-3000:]}, no_input=True)
            continue
        what = m.get("what") or ""
        direct = ("released an unknown" in what) or ("allocations live but the pool owns" in what) or ("after destroying the pool" in what) or ("did not finish" in what) or m.get("impl", "").startswith("CRASH")
        if direct:
            found_input = True
            rep.violation({"component": "ledger/ledgervalue", "family": "ledgervalue", "case": m["case"], "model_case": m.get("model_case"),
                           "format": "<variables> <op;op;...>  (cpp/drv_ledger_valuemodel.cpp)",
                           "observed_impl": m.get("impl"), "model": m.get("model"), "oracle": "fails: " + what, "original_case": m.get("original_case")})
        else:
            vmodel_only.append(m)
    if vmodel_only and not found_input:
        m = vmodel_only[0]
        rep.violation({"broken": ["correspondence LedgerValueModel.vstep vs Value<char> (cpp/drv_ledger_valuemodel.cpp) differs: " + (m.get("what") or "")],
                       "first_mismatch": {"case": m["case"], "model_case": m.get("model_case"), "impl": m.get("impl"), "model": m.get("model")},
                       "searched_cases": vr.get("n", 0)}, no_input=True)

    if not found_input and not proof_ok:
        rep.violation({"broken": ["coq/Properties_C16.vo no longer builds or is not closed (ledger theorems c16_* not re-established)"],
                       "coq_log": st["log"][-3000:], "searched_cases": total}, no_input=True)

    rep.cov = dict(base_cov)
    rep.cov.update({
        "theorems": [{"name": n, "assumptions": a} for n, a in theorems],
        "evaluations": total,
        "distinct_nontrivial": nontrivial,
        "rule": "every case of six families (C14 container histories; C12 Value histories; C13 hash-table histories; JSON texts: random / soup / valid documents with every prefix, bracket damage, separator damage, one-unit suffixes / trees built through the API and reparsed; templates: grammar, mutated, cut, soup, boundary shapes, every prefix of two all-tag templates, fresh and through a reused cache; tag-cache scripts of 3..25 operations over three caches and two templates) is run through the driver built with the allocator-seam ledger under ASan+LSan+UBSan; oracle per case: verdict L:n:0:0:0 and no sanitizer report. non-trivial = the case allocated at least one block",
        "samples": samples[:6],
        "input_distribution": dist,
        "per_family": per_family,
        "nested_model_correspondence": corr,
        "htab_model_correspondence": hcorr,
        "value_model_correspondence": vcorr,
        "allocation_counts_are": "diagnostic only (how many blocks a container holds is policy, not contract)",
        "oracle_failures": sum(v["verdict_failures"] for v in per_family.values()),
    })
    rep.assumptions = [
        "the theorems are about (1) the block-heap model coq/SeqModel.v (Array<int>, String, StringStream; the model of the C14 theorems) with the observers of coq/LedgerModel.v (2) the ownership model of Value trees coq/LedgerValueModel.v, (3) nested Array<Node> coq/LedgerNestedModel.v and (4) the storage / key / value ownership model of the hash table coq/HtabLedgerModel.v; Array<String> elements, tag records, expression lists and the JSON / template parsers' failure paths are NOT modelled: for them C16 rests on the runtime ledger + sanitizers reported here (finite search)",
        "nested-array model: tied to the C++ by the correspondence run reported under nested_model_correspondence (contents after every step: implementation = extracted ownership model = extracted value-semantics specification; finite); that the model's contents equal the specification for ALL histories is tested, not proved; d strictly inside s (assigning / appending a container into one of its own parts) is outside the domain",
        "hash-table ownership model: tied to the C++ by the correspondence run reported under htab_model_correspondence (after every operation: live allocations = ids the model owns, tables with storage / keys / values owning a block equal the model's, no bad release, nothing live that the pool does not own; 0 live after the pool is destroyed); the model's growth flag is taken from what the C++ did (capacity changed), the copy-of-empty flag from the value type; finite",
        "Value model: tied to the C++ by the correspondence run reported under value_model_correspondence (after every operation: live allocations = ids the model owns; objects with storage / keys / arrays with storage / strings owning a block equal the model's split; no bad release; nothing live that the pool does not own; 0 live after every variable is destroyed); the model's flags are taken from what the C++ did (grow = the capacity of the target changed; re = the code's own condition for this level of Compress, evaluated by the driver); finite",
        "Value model: targets are value positions (variable, array element, value of an item); moving a value into one of its own members and Merge / append-of-a-value between a value and its own member or ancestor are outside the domain (no-ops in the model, skipped by the drivers); Value::Compress is the model's one-level OCompress applied at the node and then at every container child (the driver reports the levels); `*d += *s` on two objects is OMerge; `*d = *s` with d = s is a no-op",
        "whether a destructor really runs, and use after release, are decided by the C++ runtime: covered by ASan / LSan on the generated cases, not by the theorems",
        "the ledger sees the library's allocator seam (Memory::Allocate / Deallocate); blocks adopted from or detached to the caller are allocated / released by the driver through the same seam",
        "the tree is /repo with the lifetime repairs D19, D27, D29, D40v, D50, D51, D52, D72, D80 applied (KNOWN_FINDINGS.txt)",
    ]
    return rep.finish()


def replay(path):
    d = json.load(open(path))
    case = d.get("case")
    fam = d.get("family")
    if case and fam == "htabledger":
        import htabledger
        exe, msg = htabledger.build()
        mexe, mmsg = vlib.build_ocaml("htabledger")
        if exe is None or mexe is None:
            print("driver or extracted model does not build:", (msg or mmsg or "")[-2000:])
            return 1
        tk = case.split(" ")
        ops = [] if tk[2] == "-" else [tuple([o.split(":")[0]] + [int(x) for x in o.split(":")[1:]]) for o in tk[2].split(";")]
        r = htabledger.run_cases(exe, mexe, [(int(tk[0]), int(tk[1]), ops)])[0]
        print("family: htabledger\ncase:", case, "\nimpl:", r[3], "\nmodel:", r[4], "\nverdict:", r[5] or "agree, nothing live at the end")
        return 0 if r[5] is None else 1
    if case and fam == "ledgervalue":
        import ledgervalue
        exe, msg = ledgervalue.build()
        mexe, mmsg = vlib.build_ocaml("ledgervalue")
        if exe is None or mexe is None:
            print("driver or extracted model does not build:", (msg or mmsg or "")[-2000:])
            return 1
        n, ops = ledgervalue.parse_case(case)
        r = ledgervalue.run_cases(exe, mexe, [(n, ops)])[0]
        print("family: ledgervalue\ncase:", case, "\nmodel case:", r[5], "\nimpl:", r[2], "\nmodel:", r[3], "\nverdict:", r[4] or "agree, nothing live at the end")
        return 0 if r[4] is None else 1
    if not case or fam not in DRIVERS:
        print("replay names a broken obligation, not an input:", d.get("broken"))
        return 1
    if str(d.get("component", "")).endswith("(contents)"):
        pexe, _m = vlib.build_cpp("drv_ledger_nested", "drv_ledger_nested.cpp")
        r = vlib.differential("ledger", pexe, [case])
        print("case:", case)
        for (c, i, m, tag) in r.oracle_fail:
            print("impl:", i, "\nmodel:", m, "\noracle: FAIL")
            return 1
        for (c, i, m) in r.mismatch:
            print("impl:", i, "\nmodel:", m, "\noracle: ok, model differs")
            return 1
        print("oracle ok, model agrees")
        return 0
    exe, msg = build(fam)
    if exe is None:
        print("driver does not build:", msg[-2000:])
        return 1
    r, err = run_one(exe, case)
    print("family:", fam, "\ncase:", case, "\nverdict:", r, "\n" + explain(r))
    if err:
        print(err[-2500:])
    return 0 if ok(r) else 1
