"""C09 -- text to number: integers exact, reals within one ulp, out-of-range rejected.

Proof (partial, coq/Properties_C09.v): integer numerals exact with the right
kind incl. the 2^63 / 2^64 boundaries, consumed length, malformed numerals
rejected, sign incl. -0, table lemmas.  The one-ulp claim for reals is a
Definition (tested, not proved): differential run of the real code against the
extracted model (bit for bit) and against the exact-rational oracle of
coq/DigitModelSpec.v (correctly rounded value by cross-multiplication)."""
import itertools
import json
import random

import vlib
from props import digitlib as dl

PROP = "C09"
PROP_V = "Properties_C09.v"


def exact_decimal(mant, e2):
    """decimal numeral (digits, possibly with e-k) of mant * 2^e2, exact"""
    if e2 >= 0:
        return str(mant << e2)
    k = -e2
    return "%se-%d" % (mant * 5 ** k, k)


def tie_numerals(rng):
    """exact midpoint between two adjacent doubles and its two neighbours in the last digit"""
    e = rng.randrange(1, 2046) if rng.random() < 0.7 else rng.randrange(700, 1400)
    m = rng.getrandbits(52) | (1 << 52)
    e2 = e - 1075
    if e2 - 1 < -330 or e2 > 330:
        e2 = rng.randrange(-330, 330)
    s = exact_decimal(2 * m + 1, e2 - 1)
    res = [s]
    # perturb the last mantissa digit
    if "e" in s:
        mm, ee = s.split("e")
    else:
        mm, ee = s, None
    for dlt in (-1, 1):
        v = str(int(mm) + dlt)
        res.append(v + ("e" + ee if ee else ""))
    # the same with a trailing long tail of digits
    res.append(mm + "0" * rng.randrange(1, 30) + "1" + ("e" + str(int(ee) - 0) if ee else "")) if False else None
    return [r for r in res if r]


def with_dot(rng, digits, exp):
    """write digits * 10^exp with a decimal point somewhere and a compensating exponent"""
    n = len(digits)
    pos = rng.randrange(1, n + 1)
    if pos == n:
        s = digits
        e = exp
    else:
        s = digits[:pos] + "." + digits[pos:]
        e = exp + (n - pos)
    form = rng.random()
    if e == 0 and form < 0.7:
        return s
    es = rng.choice(["e", "E"]) + (rng.choice(["", "+"]) if e >= 0 else "") + str(e)
    return s + es


def gen_cases(rng, tier, boost=1):
    out = []
    dist = {}

    def add(cls, text, w=None):
        if w is None:
            w = rng.choice([0, 0, 0, 0, 1, 2])
        out.append("P %d %s" % (w, dl.units(text)))
        dist[cls] = dist.get(cls, 0) + 1

    scale = (1 if tier == "quick" else 25) * boost
    # boundaries of the integer kinds
    for base in (2 ** 63, 2 ** 64, 10 ** 19, 10 ** 20, 1844674407370955161 * 10, 2 ** 53, 0, 9, 10):
        for dlt in range(-12, 13):
            v = base + dlt
            if v < 0:
                continue
            for sg in ("", "-", "+"):
                add("int-boundary", sg + str(v))
                add("int-boundary-delim", sg + str(v) + rng.choice([",", "]", " ", "}", "x", "\x00", ";"]))
    for _ in range(600 * scale):
        n = rng.randrange(1, 41) if rng.random() < 0.9 else rng.randrange(41, 400)
        add("int-random", rng.choice(["", "", "-", "+"]) + dl.rand_digits(rng, n))
    # zero forms
    for z in ["0", "-0", "+0", "0.0", "-0.0", "0e5", "0E-5", "0.000e-3", "-0.0e+7", "0e999", "0.0e99999999999", "0.00", "-0e0", "0e", "0.0e", "0.e5", "0.0.0", "0e5e5"]:
        for w in (0, 1, 2):
            add("zero-forms", z, w)
    # short decimals with exponent
    for _ in range(1500 * scale):
        nd = rng.randrange(1, 18)
        add("short<=17", rng.choice(["", "-"]) + with_dot(rng, dl.rand_digits(rng, nd), rng.randrange(-345, 320)))
    # long mantissas (19-digit window, dropped digits)
    for _ in range(700 * scale):
        nd = rng.choice([18, 19, 20, 21, 22, rng.randrange(23, 60), rng.randrange(60, 400)])
        add("long-mantissa", rng.choice(["", "-"]) + with_dot(rng, dl.rand_digits(rng, nd), rng.randrange(-345 - nd, 320 - nd // 2)))
    # plain decimals ddd.ddd and 0.000ddd
    for _ in range(500 * scale):
        a = dl.rand_digits(rng, rng.randrange(1, 26))
        b = dl.rand_digits(rng, rng.randrange(1, 26), first_nonzero=False)
        add("ddd.ddd", rng.choice(["", "-"]) + a + "." + b)
        add("0.000ddd", "0." + "0" * rng.randrange(0, 30) + dl.rand_digits(rng, rng.randrange(1, 25), first_nonzero=False))
    # exact ties between adjacent doubles and their decimal neighbours
    for _ in range(350 * scale):
        for s in tie_numerals(rng):
            if len(s) <= 420:
                add("tie+-1", s)
    # doubles printed with 17 digits (must come back exactly or within an ulp)
    for _ in range(500 * scale):
        x = dl.bits_d(dl.rand_double_bits(rng) & ~(1 << 63))
        if x == x and x not in (float("inf"),):
            add("repr17", "%.17g" % x)
            add("repr-short", repr(x))
    # values within half an ulp below a power of two (the rounding carries out of the 53-bit
    # significand: the binary exponent must be bumped) and just above it, in every spelling:
    # fraction digits, negative exponent, long tails of nines
    for k in list(range(-40, 70)) + [rng.randrange(70, 1000) for _ in range(20 * scale)] + [rng.randrange(-1000, -40) for _ in range(20 * scale)]:
        top = (1 << 53) - 1                      # the double just below 2^k is top * 2^(k-53)
        for (m2, sh) in ((2 * top + 1, k - 54), (4 * top + 3, k - 55), (2 * top + 2, k - 54), (top, k - 53)):
            sdec = exact_decimal(m2, sh)
            if len(sdec) > 400:
                continue
            if "e" in sdec:
                mm, ee = sdec.split("e")
                ee = int(ee)
            else:
                mm, ee = sdec, 0
            # move the point inside the digits so that the numeral has a fraction part
            if len(mm) + ee >= 1 and ee < 0:
                pos = len(mm) + ee
                add("below-power-of-two", mm[:pos] + "." + mm[pos:])
            add("below-power-of-two", mm + ("e%d" % ee if ee else ""))
        if 0 <= k <= 62:
            add("below-power-of-two", str((1 << k) - 1) + "." + "9" * rng.choice([15, 16, 17, 18, 19, 20, 25, 40]))
            add("below-power-of-two", str((1 << k)) + "." + "0" * rng.choice([15, 17, 19, 25]) + "1")
            add("below-power-of-two", str(((1 << k) * 10 ** 17 - 1)) + "e-17")
    # exponents written with leading zeros (the exponent scanner must read the VALUE, however many digits spell it)
    for _ in range(250 * scale):
        m = rng.choice(["1", "25", "7.5", "%d.%s" % (rng.randrange(1, 10), dl.rand_digits(rng, rng.randrange(1, 18), False)), dl.rand_digits(rng, rng.randrange(1, 22))])
        ev = rng.choice([0, 1, 2, 5, 17, 22, 23, 40, 300, 308, 309, 324, 400, 99999])
        zs = rng.choice([1, 2, 5, 7, 8, 9, 10, 11, 12, 16, 20, 30])
        add("padded-exponent", rng.choice(["", "-"]) + m + rng.choice(["e", "E"]) + rng.choice(["", "+", "-", "-"]) + "0" * zs + str(ev))
    # overflow band and beyond
    for _ in range(300 * scale):
        m = "%d.%s" % (rng.randrange(1, 10), dl.rand_digits(rng, rng.randrange(1, 18), False))
        add("near-overflow", rng.choice(["", "-"]) + m + "e" + str(rng.choice([306, 307, 308, 308, 308, 309, 310, 311, 400, 5000])))
    for s in ["1.7976931348623157e308", "1.7976931348623158e308", "1.7976931348623159e308", "17976931348623157" + "0" * 292,
              "17976931348623158" + "0" * 292, "17976931348623159" + "0" * 292, "1.8e308", "7.999952e308", "1e309", "1e310", "9" * 309, "9" * 308, "1" + "0" * 308, "1" + "0" * 309,
              "1e4294967297", "1e-4294967297", "1e99999999999", "1e-99999999999", "0.1e310", "0." + "0" * 400 + "1e710", "1" + "0" * 400 + "e-100"]:
        add("overflow-fixed", s, 0)
        add("overflow-fixed", "-" + s, 0)
    # subnormal range and below
    for _ in range(300 * scale):
        m = "%d.%s" % (rng.randrange(1, 10), dl.rand_digits(rng, rng.randrange(1, 18), False))
        add("subnormal-range", rng.choice(["", "-"]) + m + "e-" + str(rng.randrange(300, 332)))
    for s in ["4.9406564584124654e-324", "2.4703282292062327e-324", "2.4703282292062328e-324", "2.4703282292062329e-324", "2e-324", "3e-324", "1e-323",
              "2.2250738585072014e-308", "2.2250738585072011e-308", "2.2250738585072009e-308", "4.708944e-326", "1e-325", "9.9e-325", "1e-330", "0." + "0" * 330 + "1"]:
        add("subnormal-fixed", s, 0)
    # malformed numerals of the named classes, and neighbours
    mal = ["00", "01", "-01", "007", "00.5", "-00", ".", "-.", "+.", ". ", ".e5", "1..2", "1.2.3", "1.5.", "0.0.0", "1..", "1e", "1E", "1e+", "1e-", "1.5e", "1.5e+", "1e+-5", "1e-+5", "1ee5",
           "12.5e3.2", "1e5e5", "-", "+", "", "e5", "+e1", "e+12", "abc", "1.e5", "5.", "100.", ".5", "+.5", "-.5", "0x1F", "0Xff", "0x", "1x", "0b1", "--1", "+-1", "1 2", " 1"]
    for s in mal:
        for w in (0, 1, 2):
            add("malformed+ext", s, w)
    for _ in range(200 * scale):
        s = rng.choice(mal)
        add("malformed-mixed", s + rng.choice(["", "0", "1", ".", "e", "5e5", ",", "x"]))
        add("leading-zeros", rng.choice(["", "-"]) + "0" * rng.randrange(1, 4) + dl.rand_digits(rng, rng.randrange(1, 10)) + rng.choice(["", ".5", "e3"]))
    # well-formed numeral followed by a delimiter / garbage
    for _ in range(400 * scale):
        body = with_dot(rng, dl.rand_digits(rng, rng.randrange(1, 25)), rng.randrange(-30, 30))
        add("delimited", rng.choice(["", "-"]) + body + rng.choice([",", "]", "}", " ", "x", "e", ".", "..", "e+", "E-x", "\n", ":", "/", "+1", "-1", "e5"]))
    # exhaustive short strings over the numeral alphabet (char)
    alpha = "01.e+-x5"
    maxlen = 4 if tier == "quick" else 5
    for n in range(1, maxlen + 1):
        for tup in itertools.product(alpha, repeat=n):
            add("exhaustive-short", "".join(tup), 0)
    # wide units that only look like digits after truncation to 8 bits
    for _ in range(150 * scale):
        w = rng.choice([1, 2])
        s = [ord(c) for c in with_dot(rng, dl.rand_digits(rng, rng.randrange(1, 12)), rng.randrange(-5, 5))]
        k = rng.randrange(len(s))
        s[k] = s[k] + 256 * rng.randrange(1, 200)
        out.append("P %d %s" % (w, ",".join(map(str, s))))
        dist["wide-lookalike"] = dist.get("wide-lookalike", 0) + 1
    return out, dist


def nontrivial(c):
    u = c.split(" ")[2]
    return u != "-" and len(u.split(",")) >= 2


def check(tier):
    rep = vlib.Report(PROP, tier, "proof")
    rng = random.Random(rep.seed)
    st = vlib.proof_stage(rep, PROP_V, [dl.COMP], tables=dl.TABLES, clean=False)
    proof_ok = st["ok"]
    theorems = st["theorems"]
    exe = dl.build_driver(rep, PROP)
    if exe is None:
        rep.cov = {"obligations": max(1, len(theorems)), "discharged": 0, "checker_cmd": "make -C coq " + PROP_V + "o", "trusted_base": dl.TRUSTED}
        return rep.finish()
    listed = dl.known_classes(PROP)
    cases, dist = gen_cases(rng, tier, 1 if proof_ok else 4)
    cases = dl.corpus_cases(PROP) + cases
    run = dl.run_cases(exe, cases)
    cnt, mism, fails = dl.judge(PROP, rep, run, proof_ok, listed)
    if not fails and mism and tier == "quick":
        more, _ = gen_cases(random.Random(rep.seed + 1000), tier, 4)
        run2 = dl.run_cases(exe, more)
        cnt2, mism2, fails2 = dl.judge(PROP, rep, run2, proof_ok, listed)
        fails += fails2
        mism += mism2
        for k in cnt:
            cnt[k] += cnt2[k]
        cases += more
    dl.report(PROP, rep, cnt, mism, fails, proof_ok, st, PROP_V + "o")
    # second opinion: how often strtod and the implementation differ in bits (diagnostic)
    sd_diff = 0
    for (c, full, i, m, code, ref) in run.rows:
        if ";sd=" in full and i.startswith("1:"):
            if full.split(";sd=")[1].split(":")[0] != i.split(":")[1]:
                sd_diff += 1
    # measurement: how many negative-power cases lie inside the class proved to be within one ulp
    # (c09_neg_power_one_ulp_guarded).  (mantissa, exponent) are derived from the numeral by the rule the
    # parser follows for numerals of at most 19 significant digits: m = the digits without the point,
    # e = fraction length - written exponent; the guard itself is the extracted DigitProofsAccNeg.pnt_guard.
    import re as _re
    qs = []
    for c in cases:
        tk = c.split(" ")
        if tk[0] != "P" or tk[2] == "-":
            continue
        try:
            txt = "".join(chr(int(x)) for x in tk[2].split(","))
        except ValueError:
            continue
        mm = _re.fullmatch(r"[+-]?(\d+)(?:\.(\d+))?(?:[eE]([+-]?\d+))?", txt)
        if not mm:
            continue
        ip, fp, ex = mm.group(1), mm.group(2) or "", int(mm.group(3) or 0)
        if len(ip) > 1 and ip[0] == "0":
            continue
        digs = (ip + fp).lstrip("0")
        if not digs or len(digs) > 19 or abs(ex) > 100000:
            continue
        eff = len(fp) - ex
        if eff > 0:
            qs.append("Q %s %d" % (digs, eff))
    guard_in = guard_n = 0
    if qs:
        mexe, _m = vlib.build_ocaml(dl.COMP)
        if mexe:
            outq, _c = vlib.run_sharded(mexe, [], [q + " x" for q in qs])
            guard_n = len(outq)
            guard_in = sum(1 for o in outq if o.startswith("1 "))
    rep.cov = {
        "negative_power_cases_measured": guard_n,
        "negative_power_cases_inside_proved_one_ulp_class": guard_in,
        "obligations": len(theorems) if theorems else 1,
        "discharged": len(theorems) if proof_ok else 0,
        "checker_cmd": "cd coq && make %so (coqc 8.16.1) ; coqc -Q . Qv %s for Print Assumptions" % (PROP_V, PROP_V),
        "trusted_base": dl.TRUSTED,
        "theorems": [{"name": n, "assumptions": a} for n, a in theorems],
        "evaluations": len(cases),
        "distinct_nontrivial": len({c for c in cases if nontrivial(c)}),
        "rule": "numerals of every form: integers around 2^63 / 2^64 / 10^19 / 10^20 with and without sign and delimiter, random integers up to 400 digits, zero forms, 1-17 digit decimals with exponents -345..320, mantissas of 18..400 digits, ddd.ddd, 0.000ddd, exact ties between adjacent doubles and their +-1 decimal neighbours, %.17g / repr of sampled doubles, the overflow band 1e306..1e5000, subnormals down to 1e-332, malformed numerals (leading zeros, lone / repeated dot, empty exponent), delimited numerals, every string of length <= 4 over '01.e+-x5', wide units that look like digits modulo 256; char / char16_t / char32_t. non-trivial = at least two code units",
        "samples": [cases[0], cases[len(cases) // 2], cases[-1]],
        "input_distribution": dist,
        "traces_validated_against_impl": len(run.rows),
        "oracle_failures": cnt["oracle_fail"],
        "known_finding_cases": cnt["known"],
        "model_impl_mismatches": cnt["mismatch"],
        "crashes": cnt["crash"],
        "impl_vs_strtod_bit_differences (diagnostic; within-one-ulp results are allowed)": sd_diff,
    }
    rep.assumptions = [
        "theorems are about coq/DigitModel.v; the C++ is tied by gen/Tables_digit.v and the finite differential run reported here",
        "one ulp is PROVED for the positive power-of-ten scaling (c09_pos_power_one_ulp: every mantissa < 2^64, every exponent; exact when m*5^e < 2^53; >= 2^1024 rejected); the negative-power path has the generic scaled-integer bound (c09_neg_power_scaled_bound) and one ulp inside the guard pnt_guard (c09_neg_power_one_ulp_guarded; the evidence reports how many generated cases are inside); NOT proved: negative-power numerals outside the guard, the offset bookkeeping that yields (mantissa, exponent) from the text, correct rounding (false: ties go up) -- these are tested against the exact-rational oracle",
        "requires findings/D28, D43, D44, D45 applied to /repo",
    ]
    return rep.finish()


def replay(path):
    d = json.load(open(path))
    case = d.get("case") or (d.get("first_mismatch") or {}).get("case")
    if not case:
        print("replay names a broken obligation, not an input:", d.get("broken"))
        return 1
    exe, msg = vlib.build_cpp("drv_digit", "drv_digit.cpp")
    run = dl.run_cases(exe, [case])
    (c, full, i, m, code, ref) = run.rows[0]
    print("case:", case, "\ntext:", dl.text_of(case.split(" ")[2]), "\nimpl (kind:bits:consumed):", full, "\nmodel:", m, "\noracle code:", code)
    return 0 if (code == 1 and i == m) else 1
