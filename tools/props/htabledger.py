"""htabledger -- correspondence of the HashTable ownership model (coq/HtabLedgerModel.v, extracted by
coq/Extract_htabledger.v, glue ocaml/htabledger.ml) with Include/HashTable.hpp / HArray.hpp / HList.hpp.

Both sides run the SAME operation history on a pool of n tables.
  C++    cpp/drv_htabledger.cpp, built with -DVERIF_LEDGER=1 (cpp/ledger.hpp: the library's own MemoryRecord seam):
         after EVERY operation the number of live allocations (relative to the empty pool), what the pool
         structurally owns (tables with storage, keys owning a block, values owning a block), the capacity of
         the target table before / after, and the number of bad releases; at the end the count after the pool
         is destroyed.
  model  after EVERY operation the number of owned ids, storage blocks, key tokens, value tokens; "E" for
         Error UAF; at the end the ids still live after l_destroy_all.
The model's flags are DERIVED FROM WHAT THE C++ DID:
  g   (this operation reallocates the target's storage) = the target's Capacity() changed during the operation
      (insert / get: expand doubles; Expect / merge: the new capacity exceeds the old one -- a growth never keeps
      the capacity).  A table without storage always allocates in the model, as in the code (capacity 0 -> 2).
  ce  (the copy of a value that owns nothing owns a block) = 1 for String values (kind 0), else 0.
Compared per operation: live allocations = model's owned ids; (S, K, V) = model's (blocks, keys, values);
no bad release; live = S + K + V (nothing is live that the pool does not own); final = 0 on both sides.
Pool kinds: 0 HArray<String,String> (every value owns one block: no Get, whose default value would be an empty
String), 1 HArray<String,unsigned> (values own nothing; Get and operator[](Key&&)), 2 HList<String>.

  correspond(rng, tier, boost) -> dict(n, mismatches, distribution, samples)
  python3 tools/props/htabledger.py [seed] [n]
"""
import os
import random
import sys

sys.path.insert(0, os.path.dirname(os.path.dirname(os.path.abspath(__file__))))
sys.path.insert(0, os.path.dirname(os.path.abspath(__file__)))
import vlib

KINDS = ["I", "G", "R", "X", "N", "Z", "E", "C", "L", "T", "V", "S", "P", "M", "A", "B", "D"]
NAMES = {"I": "insert", "G": "get", "R": "remove", "X": "remove_index", "N": "rename", "Z": "resize", "E": "expect", "C": "compress",
         "L": "clear", "T": "reset", "V": "reserve", "S": "sort", "P": "copy", "M": "move", "A": "merge_copy", "B": "merge_move",
         "D": "destroy"}


def build():
    return vlib.build_cpp("drv_htabledger", "drv_htabledger.cpp", defines=["VERIF_LEDGER=1"])


class Mirror:
    """a rough mirror of the pool (key names per table, tombstone counts): only to aim the generator at the
    interesting arguments (existing / missing names, sizes); never used for a verdict"""

    def __init__(self, n):
        self.t = [[] for _ in range(n)]      # slot list: key name or None (tombstone)

    def live(self, i):
        return [k for k in self.t[i] if k is not None]


def gen_history(rng, kind, n, nops):
    m = Mirror(n)
    ops = []
    nk = rng.choice([3, 5, 8, 12])
    w = {"I": 24, "G": 8 if kind == 1 else 0, "R": 10, "X": 4, "N": 8, "Z": 4, "E": 3, "C": 3, "L": 1, "T": 1, "V": 2, "S": 3,
         "P": 5, "M": 4, "A": 7, "B": 9, "D": 2}
    names = list(w.keys())
    ws = [w[k] for k in names]
    for _ in range(nops):
        c = rng.choices(names, ws)[0]
        i = rng.randrange(n) if rng.random() < 0.97 else n          # rarely a table that does not exist
        j = rng.randrange(n) if rng.random() < 0.9 else i            # sometimes i = j (self assignment / self merge)
        ti = m.t[i] if i < n else []
        lv = [k for k in ti if k is not None]
        k = rng.choice(lv) if (lv and rng.random() < 0.4) else rng.randrange(nk)
        if c == "I":
            ops.append(("I", i, k))
            if i < n and k not in lv:
                ti.append(k)
        elif c == "G":
            ops.append(("G", i, k, rng.randrange(2)))
            if i < n and k not in lv:
                ti.append(k)
        elif c == "R":
            ops.append(("R", i, k))
            if i < n and k in lv:
                ti[ti.index(k)] = None
        elif c == "X":
            x = rng.randrange(0, len(ti) + 2)
            ops.append(("X", i, x))
            if i < n and x < len(ti):
                ti[x] = None
        elif c == "N":
            k2 = rng.choice(lv) if (lv and rng.random() < 0.35) else rng.randrange(nk)   # onto an existing / a missing name
            ops.append(("N", i, k, k2))
            if i < n and k in lv and k2 not in lv:
                ti[ti.index(k)] = k2
        elif c == "Z":
            x = rng.choice([0, 1, max(0, len(ti) - 1), max(0, len(ti) - 2), len(ti), len(ti) + 3, rng.randrange(0, 12)])  # also below the size
            ops.append(("Z", i, x))
            if i < n:
                m.t[i] = [q for q in ti[:x] if q is not None]
        elif c == "E":
            ops.append(("E", i, rng.choice([0, 1, 2, 5, 9, 17])))
            # may or may not compact: the mirror only aims, it keeps the slots
        elif c == "C":
            ops.append(("C", i))
            if i < n:
                m.t[i] = lv
        elif c in ("L", "T"):
            ops.append((c, i))
            if i < n:
                m.t[i] = []
        elif c == "V":
            ops.append(("V", i, rng.choice([0, 1, 2, 4, 9])))
            if i < n:
                m.t[i] = []
        elif c == "S":
            ops.append(("S", i))
            if i < n:
                m.t[i] = [None] * (len(ti) - len(lv)) + sorted(lv)
        elif c == "P":
            ops.append(("P", i, j))
            if i < n and j < n and i != j:
                m.t[i] = m.live(j)
        elif c == "M":
            ops.append(("M", i, j))
            if i < n and j < n and i != j:
                m.t[i] = m.t[j]
                m.t[j] = []
        elif c in ("A", "B"):
            ops.append((c, i, j))
            if i < n and j < n and i != j:
                for q in m.live(j):
                    if q not in m.live(i):
                        m.t[i].append(q)
                if c == "B":
                    m.t[j] = []
        elif c == "D":
            ops.append(("D", i))
            if i < n:
                m.t[i] = []
    return ops


def cpp_line(kind, n, ops):
    return "%d %d %s" % (kind, n, ";".join(":".join(str(x) for x in o) for o in ops) if ops else "-")


def model_line(kind, n, ops, grows):
    """fill in the model's flags: g from the capacities the C++ reported, hv / ce from the pool kind"""
    hv = 1 if kind == 0 else 0
    ce = 1 if kind == 0 else 0
    out = []
    for o, g in zip(ops, grows):
        c = o[0]
        g = 1 if g else 0
        if c == "I":
            out.append("I:%d:%d:%d:%d" % (o[1], o[2], hv, g))
        elif c == "G":
            out.append("G:%d:%d:%d:%d" % (o[1], o[2], o[3], g))
        elif c == "E":
            out.append("E:%d:%d" % (o[1], g))
        elif c == "P":
            out.append("P:%d:%d:%d" % (o[1], o[2], ce))
        elif c == "A":
            out.append("A:%d:%d:%d:%d" % (o[1], o[2], g, ce))
        elif c == "B":
            out.append("B:%d:%d:%d" % (o[1], o[2], g))
        else:
            out.append(":".join(str(x) for x in o))
    return "%d %s" % (n, ";".join(out) if out else "-")


def parse_impl(s):
    """-> (steps [(live, S, K, V, capb, capa, bad)], final) or None"""
    try:
        body, fin = s.rsplit("|", 1)
        steps = [] if body == "-" else [tuple(int(x) for x in t.split(",")) for t in body.split(";")]
        return steps, int(fin)
    except ValueError:
        return None


def parse_model(s):
    try:
        body, fin = s.rsplit("|", 1)
        steps = [] if body == "-" else [None if t == "E" else tuple(int(x) for x in t.split(",")) for t in body.split(";")]
        return steps, (None if fin == "E" else int(fin))
    except ValueError:
        return None


def judge(ops, impl, model):
    """-> None when the two sides agree, else a description of the first disagreement"""
    pi, pm = parse_impl(impl), parse_model(model)
    if pi is None:
        return "driver output unusable: " + impl[:200]
    if pm is None:
        return "model output unusable: " + model[:200]
    (si, fi), (sm, fm) = pi, pm
    if len(si) != len(ops) or len(sm) != len(ops):
        return "step count differs (impl %d, model %d, ops %d)" % (len(si), len(sm), len(ops))
    for n, (a, b) in enumerate(zip(si, sm)):
        op = ":".join(str(x) for x in ops[n])
        if b is None:
            return "step %d (%s): the model reports Error UAF" % (n, op)
        if a[6] != 0:
            return "step %d (%s): the C++ released an unknown / already released block or was handed a live block (%d)" % (n, op, a[6])
        if a[0] != b[0]:
            return "step %d (%s): live allocations %d, model owns %d ids" % (n, op, a[0], b[0])
        if (a[1], a[2], a[3]) != (b[1], b[2], b[3]):
            return "step %d (%s): pool owns (storage, keys, values) = %s, model %s" % (n, op, (a[1], a[2], a[3]), (b[1], b[2], b[3]))
        if a[0] != a[1] + a[2] + a[3]:
            return "step %d (%s): %d allocations live but the pool owns %d" % (n, op, a[0], a[1] + a[2] + a[3])
    if fi != 0:
        return "after destroying the pool %d allocations are still live" % fi
    if fm != 0:
        return "model: after l_destroy_all %s ids are live" % fm
    return None


def run_cases(exe, mexe, cases):
    """cases: (kind, n, ops) -> list of (kind, n, ops, impl, model, verdict)"""
    il = [cpp_line(k, n, ops) for (k, n, ops) in cases]
    impl, _cr = vlib.run_sharded(exe, [], il, timeout=600)
    ml = []
    for (k, n, ops), i in zip(cases, impl):
        p = parse_impl(i) if i and not i.startswith("CRASH") else None
        grows = [(st[4] != st[5]) for st in p[0]] if p and len(p[0]) == len(ops) else [False] * len(ops)
        ml.append(model_line(k, n, ops, grows))
    model, _ = vlib.run_sharded(mexe, [], ml, timeout=600)
    out = []
    for (k, n, ops), i, m, mline in zip(cases, impl, model, ml):
        out.append((k, n, ops, i, m, judge(ops, i, m), mline))
    return out


def gen_cases(rng, count, maxops):
    cases = []
    for _ in range(count):
        kind = rng.choice([0, 0, 1, 2])
        n = rng.choice([1, 2, 2, 3, 4])
        nops = rng.choice([maxops, maxops, rng.randrange(1, maxops + 1), rng.randrange(1, 12)])
        cases.append((kind, n, gen_history(rng, kind, n, nops)))
    return cases


FIXED = [
    # merge by move with overlapping keys (the key that is not adopted must be disposed), both growth cases
    (0, 2, [("I", 0, 7), ("I", 1, 7), ("B", 0, 1)]),
    (0, 2, [("I", 0, 1), ("I", 0, 2), ("I", 1, 2), ("I", 1, 3), ("I", 1, 4), ("B", 0, 1), ("B", 1, 0), ("D", 0)]),
    (2, 2, [("I", 0, 1), ("I", 1, 1), ("I", 1, 2), ("B", 0, 1), ("A", 1, 0), ("B", 1, 0)]),
    # rename onto an existing / a missing name, from a missing name
    (0, 1, [("I", 0, 1), ("I", 0, 2), ("N", 0, 1, 2), ("N", 0, 1, 3), ("N", 0, 9, 4), ("N", 0, 3, 3)]),
    # resize below the size (items beyond are disposed), with tombstones; compress; sort with tombstones
    (0, 1, [("I", 0, 1), ("I", 0, 2), ("I", 0, 3), ("I", 0, 4), ("R", 0, 2), ("Z", 0, 2), ("I", 0, 5), ("R", 0, 1), ("S", 0), ("X", 0, 0), ("X", 0, 1), ("C", 0), ("Z", 0, 0)]),
    # self assignment, self move, self merges, a table that does not exist
    (0, 2, [("I", 0, 1), ("P", 0, 0), ("M", 0, 0), ("A", 0, 0), ("B", 0, 0), ("I", 2, 1), ("P", 0, 2), ("P", 1, 0), ("M", 1, 0), ("M", 0, 1)]),
    # values that own nothing: Get / operator[], copies
    (1, 2, [("G", 0, 1, 0), ("G", 0, 1, 1), ("G", 0, 2, 1), ("I", 0, 2), ("P", 1, 0), ("A", 1, 0), ("B", 1, 0), ("R", 1, 1)]),
    (0, 2, [("V", 0, 4), ("E", 0, 9), ("E", 0, 0), ("I", 0, 1), ("L", 0), ("T", 0), ("V", 1, 0), ("P", 0, 1), ("I", 1, 3), ("R", 1, 3), ("P", 0, 1), ("A", 0, 1)]),
]


def correspond(rng, tier, boost=1):
    ok, log = vlib.coq_make(["Extract_htabledger.vo"])
    if not ok:
        return {"n": 0, "mismatches": [{"broken": "coq/Extract_htabledger.vo does not build", "log": log[-2000:]}], "distribution": {}, "samples": []}
    exe, msg = build()
    if exe is None:
        return {"n": 0, "mismatches": [{"broken": "cpp/drv_htabledger.cpp does not build", "log": msg}], "distribution": {}, "samples": []}
    mexe, mmsg = vlib.build_ocaml("htabledger")
    if mexe is None:
        return {"n": 0, "mismatches": [{"broken": "extracted ownership model does not build", "log": mmsg}], "distribution": {}, "samples": []}
    count = (1500 if tier == "quick" else 20000) * boost
    maxops = 40 if tier == "quick" else 80
    cases = list(FIXED) + gen_cases(rng, count, maxops)
    res = run_cases(exe, mexe, cases)
    dist = {NAMES[k]: 0 for k in KINDS}
    dist.update({"kind0_HArray_String_String": 0, "kind1_HArray_String_unsigned": 0, "kind2_HList_String": 0, "steps": 0,
                 "self_i_eq_j": 0, "growth_steps": 0})
    for (k, n, ops, i, m, v, ml) in res:
        dist[["kind0_HArray_String_String", "kind1_HArray_String_unsigned", "kind2_HList_String"][k]] += 1
        dist["steps"] += len(ops)
        for o in ops:
            dist[NAMES[o[0]]] += 1
            if o[0] in "PMAB" and o[1] == o[2]:
                dist["self_i_eq_j"] += 1
        p = parse_impl(i)
        if p:
            dist["growth_steps"] += sum(1 for st in p[0] if st[4] != st[5])
    bad = [r for r in res if r[5] is not None]
    out = {"n": len(res), "n_mismatch": len(bad), "mismatches": [], "distribution": dist,
           "samples": [cpp_line(r[0], r[1], r[2])[:300] for r in res[len(res) // 2: len(res) // 2 + 3]]}
    for r in bad[:3]:
        small = minimise(exe, mexe, r)
        out["mismatches"].append({"case": cpp_line(small[0], small[1], small[2]), "model_case": small[6], "what": small[5],
                                  "impl": small[3][:1500], "model": small[4][:1500], "original_case": cpp_line(r[0], r[1], r[2])[:3000]})
    return out


def minimise(exe, mexe, r):
    kind, n = r[0], r[1]

    def fails(ops):
        return run_cases(exe, mexe, [(kind, n, list(ops))])[0][5] is not None

    small = vlib.shrink_list(list(r[2]), fails, max_steps=200)
    return run_cases(exe, mexe, [(kind, n, small)])[0]


def main():
    seed = int(sys.argv[1]) if len(sys.argv) > 1 else 1
    count = int(sys.argv[2]) if len(sys.argv) > 2 else 1500
    rng = random.Random(seed)
    ok, log = vlib.coq_make(["Extract_htabledger.vo"])
    if not ok:
        print(log[-3000:])
        return 2
    exe, msg = build()
    if exe is None:
        print(msg)
        return 2
    mexe, mmsg = vlib.build_ocaml("htabledger")
    if mexe is None:
        print(mmsg)
        return 2
    cases = list(FIXED) + gen_cases(rng, count, int(os.environ.get("HTABLEDGER_MAXOPS", "40")))
    res = run_cases(exe, mexe, cases)
    bad = [r for r in res if r[5] is not None]
    dist = {}
    for r in res:
        for o in r[2]:
            dist[NAMES[o[0]]] = dist.get(NAMES[o[0]], 0) + 1
    print("cases", len(res), "steps", sum(len(r[2]) for r in res), "mismatches", len(bad))
    print("operation kinds:", " ".join("%s=%d" % (k, dist.get(k, 0)) for k in NAMES.values()))
    seen = set()
    for r in bad:
        if len(seen) >= int(os.environ.get("HTABLEDGER_SHOW", "3")):
            break
        s = minimise(exe, mexe, r)
        line = cpp_line(s[0], s[1], s[2])
        if line in seen:
            continue
        seen.add(line)
        print("---- case ", line)
        print("     model", s[6])
        print("     what ", s[5])
        print("     impl ", s[3][:400])
        print("     model", s[4][:400])
    return 1 if bad else 0


if __name__ == "__main__":
    sys.exit(main())
