"""C17 -- rendering is pure: cached, repeated and concurrent renders are identical.

Partial (DESIGN.md C17).  Proved on the model (Properties_C17.v): a render only
appends; any sequence of renders through one tag tree with different values and
pre-filled streams equals the concatenation of fresh renders, each being the
documented expansion; N threads sharing text and tag list under any schedule
(one top-level tag per step) each end with their own fresh render (TmplThreads.v).  Tied to the code and extended to what the model cannot
exhibit (the value / text / cache are not modified; data races) by running,
per generated template: fresh render vs. a cache reused three times (other
value, pre-filled stream) with value and text compared before/after (ASan
build), and 8 threads (16 in thorough) sharing one parsed tag array and one
value under ThreadSanitizer.  The schedules explored are those the runs
happen to see: a test, not a proof."""
import json
import random

import vlib
from vlib import fmt_list
import c02

PROP = "C17"


def targeted_cases(rng):
    """every nesting of a sorting / grouping loop inside another loop, over sets that belong to the
    CALLER's value: sort and group must work on private copies whatever the enclosing loop did"""
    import tmplast as ta
    out = []
    outers = [("items", "g", 0), ("items", "name", 1), ("items", "val", 2), ("items", "", 0), ("obj", "", 2), ("list", "", 0), (None, "", 0)]   # (arrays of objects are never sorted: their order is not documented)
    inners = [("list", "", 1), ("list", "", 2), ("obj", "", 1), ("obj", "", 2), ("items", "g", 1), ("items", "name", 0), (None, "", 1)]
    for (oset, ogroup, osort) in outers:
        for (iset, igroup, isort) in inners:
            for _ in range(2):
                root, sortable = ta.gen_root(rng)
                root["list"] = rng.sample([5, 1, 4, 2, 3, 9, 0], rng.randrange(2, 6))
                root["obj"] = {k: 1 for k in rng.sample(["zz", "b", "a", "k2", "Key", "m"], rng.randrange(2, 5))}
                if not root["items"]:
                    root["items"] = [{"name": "y", "val": 2, "g": "q"}, {"g": "p", "name": "x", "val": 1}, {"val": 2, "g": "q", "name": "x"}]
                inner = ("l", ta.P(iset) if iset else None, "n", igroup, isort, [("v", ta.P("n")), ("t", ",")])
                body = [("t", "["), ("v", ta.P("o")), ("t", ":"), inner, ("t", "]")]
                ast = [("l", ta.P(oset) if oset else None, "o", ogroup, osort, body), ("t", "|"),
                       ("l", ta.P("list"), "p", "", 0, [("v", ta.P("p")), ("t", ";")])]
                out.append(c02.Case(rng.choice([0, 0, 1, 2, 3]), ast, root, 1))
    return out


def check(tier):
    rep = vlib.Report(PROP, tier, "proof")
    rng = random.Random(rep.seed)
    st = vlib.proof_stage(rep, "Properties_C17.v", ["tmpl"],
                          tables=(("Tables", "gentables.cpp"), ("Tables_digit", "gentables_digit.cpp"), ("Tables_tmplfmt", "gentables_tmplfmt.cpp")))
    exe, msg = c02.build("sse2")
    texe, tmsg = vlib.build_cpp("drv_tmpl17", "drv_tmpl17.cpp", san="thread")
    if exe is None or texe is None:
        rep.violation({"broken": "driver does not build against the current tree", "log": (msg if exe is None else tmsg)}, no_input=True)
        rep.cov = {"obligations": 1, "discharged": 0, "checker_cmd": "make -C coq Properties_C17.vo", "trusted_base": vlib.TRUSTED_BASE_COMMON}
        return rep.finish()
    boost = 1 if st["ok"] else 4
    n = (1500 if tier == "quick" else 20000) * boost
    cases = targeted_cases(rng) + c02.gen_cases(rng, n, plain_share=0.02, mode=1)
    results, crashes = c02.run_cases(exe, cases)
    # results: impl output carries ",!<bits>" when a cached / repeated render or the value/text differed
    impure = []
    clean_results = []
    for (c, p, i, m, v) in results:
        if ",!" in i:
            impure.append((c, p, i, m))
        clean_results.append((c, p, i, m, v))
    found = 0
    for (c, p, i, m) in impure[:3]:
        def pred(cc):
            r, _ = c02.run_cases(exe, [cc])
            return ",!" in r[0][2]
        small = c02.shrink_case(exe, c, pred)
        r, _ = c02.run_cases(exe, [small])
        (sc, sp, si, sm, sv) = r[0]
        tail = si.rsplit(",!", 1)[1] if ",!" in si else "0"
        d_over = tail.startswith("o") or ",!o" in si
        try:
            bits = int(tail.lstrip("o"))
        except ValueError:
            bits = 0
        d = c02.replay_dict(sc, sp, si, sm, sv)
        d["impurity_bits"] = bits
        if d_over:
            d["overload_disagreement"] = "a ,!o<bits> marker: the convenience overloads (1: Render(content, value, stream); 2: Render<Stream>(content, length, value); 4: Render<Stream>(content, value); 8: JSON::Parse(content)) on NUL-terminated copies differ from the primary calls"
        d["meaning"] = "1: render through a fresh cache differs from the fresh render; 2: cache reused with another value differs from that value's fresh render; 4: render into a pre-filled stream disturbed the prefix or differs; 8: the value changed; 16: the template text changed; 32: render through a copy of the cache (copy-constructed / copy-assigned), or through the original after it was copied, differs; 64: render through the moved cache differs"
        rep.violation(d)
        found += 1
    nfail, nmis = 0, 0
    if not found:
        nfail, nmis = c02.decide(rep, exe, clean_results, st["ok"], st["log"])
    # threads
    nthreads = 8 if tier == "quick" else 16
    tcases = cases[: (400 if tier == "quick" else 4000)]
    mexe, _ = vlib.build_ocaml("tmpl")
    printed, _ = vlib.run_sharded(mexe, [], ["p 2 %d %s" % (c.w, c.a) for c in tcases])
    tl = ["%d %d %s %s" % (c.w, nthreads, p, fmt_list([ord(x) for x in c.j])) for c, p in zip(tcases, printed)]
    timpl, tcr = vlib.run_sharded(texe, [], tl, shards=4, timeout=1200)
    races = 0
    for c, p, r in zip(tcases, printed, timpl):
        if r.startswith("CRASH") or ",!" in r:
            races += 1
            if races <= 2 and not rep.violations:
                rep.violation({"component": "Template::Render concurrent", "width": c.w, "threads": nthreads, "template": c02.txt(p), "template_units": p,
                               "value_json": c.j, "observed": r[:300], "oracle": "all concurrent renders byte-identical to the fresh render and ThreadSanitizer silent",
                               "tsan": (tcr[0][1][-1500:] if tcr else "")})
    theorems = st["theorems"]
    rep.cov = {
        "obligations": len(theorems) if theorems else 1,
        "discharged": len(theorems) if st["ok"] else 0,
        "checker_cmd": "cd coq && make Properties_C17.vo (coqc 8.16.1) ; coqc -Q . Qv Properties_C17.v for Print Assumptions",
        "trusted_base": vlib.TRUSTED_BASE_COMMON + [
            "partial: purity and schedule-independence (tag granularity) are proved for the Gallina renderer (by construction a function of text, tag tree and value: a step cannot write the shared part); non-modification of the C++ value/text/cache and data-race freedom are TESTED (ASan build with before/after comparison; ThreadSanitizer with %d threads), schedules are whatever the runs see" % nthreads],
        "theorems": [{"name": a, "assumptions": b} for a, b in theorems],
        "evaluations": len(cases) + len(tcases),
        "distinct_nontrivial": len({c.a + "#" + c.v for c in cases if c02.nontrivial(c)}),
        "rule": "templates from the C02 generator (all tag kinds incl. sort/group which work on private copies); per template: fresh render, cache reused 3x (same value, other value, pre-filled stream), value Stringify and template text compared before/after; first %d templates also rendered by %d threads x 3 renders sharing one tag array and one value under TSan; non-trivial = contains a tag" % (len(tcases), nthreads),
        "samples": [{"template": c02.txt(results[k][1])[:300]} for k in (0, len(results) // 2)],
        "traces_validated_against_impl": len(cases),
        "cache_or_value_changes": len(impure),
        "thread_runs": len(tcases),
        "threads": nthreads,
        "thread_disagreements_or_tsan_reports": races,
        "oracle_failures": nfail,
        "model_impl_mismatches": nmis,
    }
    rep.assumptions = ["thread schedules are sampled, not enumerated", "the tag cache is compared through its renders, not field by field"]
    return rep.finish()


def replay(path):
    return c02.replay(path)
