"""Template / value generators shared by C01, C02, C17.

AST (python tuples), the same shape as coq/TmplModel.v `tnode`:
  ("text", units)                      literal text without tag openers
  ("var", path) / ("raw", path)        path = (name, [idx...])   name/idx are strings
  ("math", exprtext)
  ("svar", path, [sub...])             sub in var/raw/math
  ("iif", casetext, [true nodes], [false nodes] or None)
  ("if", [(casetext or None, [nodes])...])      first case has casetext; None = <else>
  ("loop", setpath or None, valuename or None, group or None, sort or None, [nodes])
"""
import json
import random

NAMES = ["a", "b", "n1", "n2", "s1", "s2", "list", "obj", "items", "t", "f", "nul", "r1", "zz", "k1", "deep"]
LOOPVARS = ["item", "v", "row", "e1", "x_y"]
TEXTS = ["", " ", "abc", "x y", "\n", "A&B", "1 < 2", "-", "[0]", "q'", '"', "..", "é", "tail ", "=", "a}b", "(", "%"]


def gen_value(rng, depth=0):
    r = rng.random()
    if depth >= 3 or r < 0.45:
        c = rng.randrange(9)
        if c == 0:
            return rng.choice(["", "abc", "x&y", "<b>", "10", "2.5", "-3", "true", "a b", "é", "{0} and {1}", "v={0}"])
        if c == 1:
            return rng.choice([0, 1, 2, 3, 7, 10, 255, 1000, 4294967296])
        if c == 2:
            return -rng.choice([1, 2, 5, 100])
        if c == 3:
            return rng.choice([0.5, 1.5, 2.25, 3.0, -0.75, 10.125, 100.5])
        if c == 4:
            return True
        if c == 5:
            return False
        if c == 6:
            return None
        return rng.choice(["k", "zz", "5", "word"])
    if r < 0.72:
        return [gen_value(rng, depth + 1) for _ in range(rng.randrange(0, 5))]
    d = {}
    for _ in range(rng.randrange(0, 5)):
        d[rng.choice(NAMES + ["0", "1", "x&", "ky"])] = gen_value(rng, depth + 1)
    return d


def gen_root(rng):
    d = {}
    for n in NAMES:
        if rng.random() < 0.8:
            d[n] = gen_value(rng, 1)
    # typed anchors so that most references resolve
    d.setdefault("n1", 7)
    d["n2"] = rng.choice([0, 1, 3, 10])
    d["s1"] = rng.choice(["abc", "x<y", "", "10"])
    d["t"] = True
    d["f"] = False
    d["nul"] = None
    d["r1"] = rng.choice([2.5, 0.25, 3.0])
    d["list"] = [gen_value(rng, 2) for _ in range(rng.randrange(0, 4))]
    d["obj"] = {k: gen_value(rng, 2) for k in rng.sample(["k1", "k2", "zz", "a"], rng.randrange(0, 4))}
    d["items"] = [{"name": rng.choice(["x", "y", "z"]), "val": rng.randrange(5), "g": rng.choice(["p", "q"])} for _ in range(rng.randrange(0, 4))]
    d["svp"] = rng.choice(["{0} and {1}", "v={0}", "no subs", "{2}{0}", "x{", "{0", "a{9}b"])
    if rng.random() < 0.3:
        return [gen_value(rng, 1) for _ in range(rng.randrange(0, 4))]
    return d


def gen_path(rng, scope):
    if scope and rng.random() < 0.6:
        name = rng.choice(scope)
    else:
        name = rng.choice(NAMES + ["svp", "missing", "0", "1"])
    idx = []
    while rng.random() < 0.3 and len(idx) < 3:
        idx.append(rng.choice(["0", "1", "2", "name", "val", "k1", "zz", "g", "x", "9"]))
    return (name, idx)


def path_text(p):
    return p[0] + "".join("[" + i + "]" for i in p[1])


OPS = ["+", "-", "*", "/", "%", "^", "==", "!=", "<", ">", "<=", ">=", "&&", "||", "&", "|"]


def gen_expr(rng, scope, depth=0):
    def operand():
        r = rng.random()
        if r < 0.45:
            return str(rng.choice([0, 1, 2, 3, 4, 5, 7, 10, 100]))
        if r < 0.55:
            return rng.choice(["0.5", "2.5", "1.25"])
        if r < 0.85:
            return "{var:" + path_text(gen_path(rng, scope)) + "}"
        if depth < 2:
            return "(" + gen_expr(rng, scope, depth + 1) + ")"
        return "1"
    n = rng.choice([1, 1, 2, 2, 3, 4])
    s = operand()
    for _ in range(n - 1):
        sp = rng.choice(["", " "])
        s += sp + rng.choice(OPS) + sp + operand()
    return s


def gen_nodes(rng, scope, depth, n=None):
    nodes = []
    n = n if n is not None else rng.randrange(1, 5)
    for _ in range(n):
        r = rng.random()
        if r < 0.3 or depth >= 4:
            nodes.append(("text", rng.choice(TEXTS)))
        elif r < 0.45:
            nodes.append(("var", gen_path(rng, scope)))
        elif r < 0.52:
            nodes.append(("raw", gen_path(rng, scope)))
        elif r < 0.62:
            nodes.append(("math", gen_expr(rng, scope)))
        elif r < 0.68:
            subs = []
            for _ in range(rng.randrange(0, 3)):
                k = rng.random()
                subs.append(("var", gen_path(rng, scope)) if k < 0.5 else ("raw", gen_path(rng, scope)) if k < 0.8 else ("math", gen_expr(rng, scope)))
            nodes.append(("svar", (rng.choice(["svp", "s1", "missing"]), []), subs))
        elif r < 0.76:
            def inl():
                out = []
                for _ in range(rng.randrange(0, 3)):
                    k = rng.random()
                    out.append(("text", rng.choice(["", "yes", "no ", "a b", "-"])) if k < 0.5 else ("var", gen_path(rng, scope)) if k < 0.8 else ("raw", gen_path(rng, scope)))
                return out
            nodes.append(("iif", gen_expr(rng, scope), inl(), inl() if rng.random() < 0.7 else None))
        elif r < 0.88:
            cases = [(gen_expr(rng, scope), gen_nodes(rng, scope, depth + 1))]
            while rng.random() < 0.4 and len(cases) < 4:
                cases.append((gen_expr(rng, scope), gen_nodes(rng, scope, depth + 1)))
            if rng.random() < 0.5:
                cases.append((None, gen_nodes(rng, scope, depth + 1)))
            nodes.append(("if", cases))
        else:
            lv = rng.choice(LOOPVARS + [None])
            if lv in scope:
                lv = None
            setp = gen_path(rng, scope) if rng.random() < 0.8 else None
            if setp is not None and rng.random() < 0.6:
                setp = (rng.choice(["list", "obj", "items", "deep"] + scope[-1:]), setp[1][:1] if rng.random() < 0.3 else [])
            group = rng.choice([None, None, None, "g", "name", "val"])
            sort = rng.choice([None, None, "ascend", "descend"])
            inner = gen_nodes(rng, scope + ([lv] if lv else []), depth + 1)
            nodes.append(("loop", setp, lv, group, sort, inner))
    return nodes


def print_nodes(nodes, rng=None):
    q = '"'
    out = []
    for nd in nodes:
        k = nd[0]
        if k == "text":
            out.append(nd[1])
        elif k == "var":
            out.append("{var:" + path_text(nd[1]) + "}")
        elif k == "raw":
            out.append("{raw:" + path_text(nd[1]) + "}")
        elif k == "math":
            out.append("{math:" + nd[1] + "}")
        elif k == "svar":
            out.append("{svar:" + path_text(nd[1]) + "".join(", " + print_nodes([s]) for s in nd[2]) + "}")
        elif k == "iif":
            s = "{if case=" + q + nd[1] + q + " true=" + q + print_nodes(nd[2]) + q
            if nd[3] is not None:
                s += " false=" + q + print_nodes(nd[3]) + q
            out.append(s + "}")
        elif k == "if":
            s = ""
            for i, (c, body) in enumerate(nd[1]):
                if i == 0:
                    s += "<if case=" + q + c + q + ">"
                elif c is None:
                    s += "<else>"
                else:
                    s += "<else if case=" + q + c + q + ">"
                s += print_nodes(body)
            out.append(s + "</if>")
        elif k == "loop":
            s = "<loop"
            if nd[1] is not None:
                s += " set=" + q + path_text(nd[1]) + q
            if nd[2] is not None:
                s += " value=" + q + nd[2] + q
            if nd[3] is not None:
                s += " group=" + q + nd[3] + q
            if nd[4] is not None:
                s += " sort=" + q + nd[4] + q
            out.append(s + ">" + print_nodes(nd[5]) + "</loop>")
    return "".join(out)


TOKENS = ["{var:", "{raw:", "{math:", "{svar:", "{if", "}", "<loop", "</loop>", "<if", "</if>", "<else", "<else if", "<elseif",
          " case=\"", " case='", " true=\"", " false=\"", " set=\"", " value=\"", " group=\"", " sort=\"ascend\"", " sort=\"descend\"",
          "\"", "'", ">", "/>", "a", "v", "n1", "list", "obj", "items", "[0]", "[", "]", "1", "0", " ", "+", "-", "*", "/", "%", "^",
          "==", "&&", "||", "(", ")", ",", "{", "<", "=", "\n", "x", "{0}", "2.5", "^"]


def token_soup(rng, n):
    return "".join(rng.choice(TOKENS) for _ in range(n))


def mutate(rng, s):
    if not s:
        return s
    r = rng.random()
    i = rng.randrange(len(s))
    if r < 0.3:
        return s[:i]                                   # truncation
    if r < 0.5:
        j = min(len(s), i + rng.choice([1, 1, 2, 5]))
        return s[:i] + s[j:]                            # deletion
    if r < 0.65:
        return s[:i] + rng.choice(TOKENS) + s[i:]       # insertion of a token
    if r < 0.8:
        j = rng.randrange(len(s))
        a, b = min(i, j), max(i, j)
        return s[:a] + s[b:] + s[a:b]                   # move a slice to the end
    if r < 0.9:
        return s[:i] + s[i:i + 8] + s[i:]               # duplication
    return s[:i] + rng.choice("{}<>/\"'=[] ") + s[i + 1:]  # one unit replaced


def units(s):
    return [ord(c) for c in s]


def case_line(w, mode, tmpl, value):
    from vlib import fmt_list
    t = units(tmpl)
    if w == 0:
        t = [u if u < 256 else 63 for u in t]
    j = json.dumps(value, ensure_ascii=True, separators=(",", ":"))
    return "%d %d %s %s" % (w, mode, fmt_list(t), fmt_list(units(j)))
