"""trender -- correspondence of the renderer model (coq/TrenderModel.v, instance coq/TrenderInst.v) with
Template.hpp render*/getValue.

Both sides parse the same text and render it with the same value; expression evaluation is taken out of the
comparison: the driver cpp/drv_trender.cpp overwrites every non-empty expression array of the parsed tree with
a constant that depends on the tag's offset, the model instance evaluates to the same constant.  Compared: the
complete OUTPUT (literal slices, echoed tags, values, keys, escaped pieces, loop bodies, if branches, inline-if
slices, super-variable phrases).  Texts: the generators of tparse.py (grammar, mutations, token soup, boundary
shapes, printed well-formed ASTs of tmplast); values: a fixed small tree and the roots tmplast generates.

  correspond(rng, tier, boost) -> dict(n, mismatches, errors, samples, distribution)
  python3 tools/props/trender.py [seed] [n]
"""
import json
import os
import random
import sys

sys.path.insert(0, os.path.dirname(os.path.dirname(os.path.abspath(__file__))))
sys.path.insert(0, os.path.dirname(os.path.abspath(__file__)))
import vlib
from vlib import fmt_list
import tmplast as ta
import tparse

FIXED = {"a": "x", "b": "<y>&", "v": 1, "n1": 7, "list": [3, 1, 2], "obj": {"k2": "q", "k1": "p"}, "a]": {"k": 1}, "s1": "abc",
         "items": [{"name": "x", "g": "p"}, {"name": "y", "g": "q"}, {"name": "z", "g": "p"}], "phrase": "{0} and {1}{9}{", "t": True, "nul": None}

EXTRA = ["{var:a]}", "{var:a][}", "{var:obj[k1]}", "{var:list[1]}", "{var:list[1]x}", "{var:obj[k1][}", "{var:items[0][name]}", "{var:[0]}", "{var:a[]}",
         "<loop value=\"v\">{var:v}-</loop>", "<loop set=\"obj\" value=\"v\">{var:v}</loop>", "<loop set=\"obj\" value=\"v\" sort=\"descend\">{var:v}{var:q}</loop>",
         "<loop set=\"items\" value=\"it\" group=\"g\"><loop set=\"it\" value=\"e\">{var:e[name]}</loop>;</loop>", "<loop set=\"list\" value=\"v]\">{var:v]}</loop>",
         "<loop set=\"list\" value=\"v\" sort=\"ascend\">{var:v}{raw:v}{math:1}</loop>", "{svar:phrase, {var:a}, {raw:b}}", "{svar:phrase, {math:1}, {var:zz}}",
         "{svar:a, {var:a}}", "{if case=\"1\" true=\"{var:a}\" false=\"{var:b}\"}", " {if case=\"1\" true=\"{var:a}\" false=\"{var:b}\"}",
         "{if case=\"1\" false=\"{var:b}\" true=\"{var:a}\"}", " {if case=\"1\" false=\"{var:b}{math:2}\" true=\"{var:a}\"}", "{if case=\"1\" true=\"x}y\"}", " {if case=\"1\" true=\"x}y\"}",
         "<if case=\"1\">A<else>B</if>", " <if case=\"1\">A<else>B</if>", "  <if case=\"1\">A<else if case=\"1\">B<else>C</if>", "<if case=\"1\">A<elseif case=\"0\">B</if>",
         "<loop value=\"v\"><if case=\"1\">{var:v}</if></loop>", "<loop value=\"a\"><loop value=\"b\">{var:a}{var:b}</loop></loop>", "<loop set=\"a]\" value=\"v\">{var:v}</loop>"]


def build():
    return vlib.build_cpp("drv_trender", "drv_trender.cpp", defines=["QENTEM_SSE2=1"], extra=["-msse2"])


def run_cases(exe, mexe, cases, auto=2):
    """cases: (w, text, cls, value) -> list of (w, text, cls, value, impl, model)"""
    il, ml = [], []
    for (w, t, c, v) in cases:
        u = fmt_list(tparse.units_of(t, w))
        j = json.dumps(v, ensure_ascii=True, separators=(",", ":"))
        il.append("%d %s %s" % (w, u, fmt_list([ord(x) for x in j])))
        ml.append("%d %d %s %s" % (w, auto, u, "|".join(ta.ser_value(v))))
    # a shard that exceeds the time limit is re-run case by case; a case that exceeds CASE_TIMEOUT becomes "CRASH TIMEOUT"
    # on that side, i.e. a mismatch (a finding candidate), never a hang
    limit = max(SHARD_TIMEOUT, len(cases) // 20)
    impl, crashes = vlib.run_sharded(exe, [], il, timeout=limit, case_timeout=CASE_TIMEOUT)
    model, _ = vlib.run_sharded(mexe, [], ml, timeout=limit, case_timeout=CASE_TIMEOUT)
    out = []
    for (w, t, c, v), i, m in zip(cases, impl, model):
        if i == "":
            i = "CRASH (no output: sanitizer abort)"
        out.append((w, t, c, v, i, m.rsplit(" ", 1)[0]))
    return out


CASE_TIMEOUT = 20
SHARD_TIMEOUT = 300
WORK_BOUND = 4000      # bound on fan-out ** (number of <loop in the text): nested loops repeat their body fan-out times each
SMALL2 = {"a": "x", "b": "y"}
SMALL1 = {"a": "x"}


def fan_out(v):
    """the largest number of members of a container in the value (what one loop can iterate over)"""
    if isinstance(v, dict):
        return max([len(v)] + [fan_out(x) for x in v.values()] + [1])
    if isinstance(v, list):
        return max([len(v)] + [fan_out(x) for x in v] + [1])
    return 1


def bounded_value(t, v):
    """the value itself when rendering [t] with it stays within WORK_BOUND body repetitions, else a smaller one"""
    loops = t.count("<loop")          # an upper bound of the nesting depth (unclosed / abandoned loops included)
    for cand in (v, SMALL2, SMALL1):
        f = fan_out(cand)
        if f <= 1 or loops == 0 or f ** min(loops, 64) <= WORK_BOUND:
            return cand
    return SMALL1


def gen_cases(rng, n, with_boundary=True, maxlen=9000):
    texts = tparse.resolve_asts(rng, tparse.gen_texts(rng, n))
    if with_boundary:
        texts = [(rng.choice([0, 1, 2, 3]), t, "boundary") for t in tparse.boundary_texts() + EXTRA if len(t) < maxlen] + texts
    cases = []
    for (w, t, c) in texts:
        if rng.random() < 0.6:
            v = FIXED
        else:
            v, sortable = ta.gen_root(rng)
            if "sort" in t and not sortable:
                v = FIXED           # TmplModel.sort_set orders naturals / strings / object keys only (C02 domain)
        cases.append((w, t, c, bounded_value(t, v)))
    return cases


def correspond(rng, tier, boost=1):
    exe, msg = build()
    if exe is None:
        return {"n": 0, "mismatches": [{"broken": "cpp/drv_trender.cpp does not build", "log": msg}], "errors": [], "samples": [], "distribution": {}}
    mexe, mmsg = vlib.build_ocaml("trender")
    if mexe is None:
        return {"n": 0, "mismatches": [{"broken": "extracted renderer model does not build", "log": mmsg}], "errors": [], "samples": [], "distribution": {}}
    n = (3000 if tier == "quick" else 100000) * boost
    res = run_cases(exe, mexe, gen_cases(rng, n, True, 9000 if tier == "quick" else 100000))
    dist = {}
    mism, errs = [], []
    unevaluated = 0
    for r in res:
        dist[r[2]] = dist.get(r[2], 0) + 1
        if r[5].startswith("CRASH") and not r[4].startswith("CRASH"):
            # the extracted model could not be evaluated on this case (OCaml stack / time limit on texts of
            # tens of thousands of units): that says nothing about the implementation -- counted, not judged
            unevaluated += 1
            continue
        if r[5].startswith("RERR"):
            errs.append(r)
        elif r[4] != r[5]:
            mism.append(r)
    dist["model_unevaluated"] = unevaluated
    out = {"n": len(res), "mismatches": [], "errors": [], "distribution": dist, "samples": [r[1][:200] for r in res[len(res) // 2: len(res) // 2 + 3]],
           "n_mismatch": len(mism), "n_error": len(errs)}
    for lst, key in ((mism, "mismatches"), (errs, "errors")):
        for r in lst[:3]:
            out[key].append({"width": r[0], "text": r[1][:2000], "text_units": fmt_list(tparse.units_of(r[1], r[0]))[:8000], "class": r[2],
                             "value_json": json.dumps(r[3]), "impl": r[4][:1500], "model": r[5][:1500]})
    return out


def txt(u):
    if u in ("-", ""):
        return ""
    try:
        return "".join(chr(int(x)) for x in u.split(","))
    except ValueError:
        return u


def main():
    seed = int(sys.argv[1]) if len(sys.argv) > 1 else 1
    n = int(sys.argv[2]) if len(sys.argv) > 2 else 3000
    rng = random.Random(seed)
    for (name, src) in tparse.TABLES + (("Tables", "gentables.cpp"),):
        ok, ch, msg = vlib.gen_tables(name, src)
        if not ok:
            print(msg)
            return 2
    ok, log = vlib.coq_make(["Extract_trender.vo", "Extract_tparse.vo", "Extract_tmpl.vo"])
    if not ok:
        print(log[-3000:])
        return 2
    exe, msg = build()
    if exe is None:
        print(msg)
        return 2
    mexe, mmsg = vlib.build_ocaml("trender")
    if mexe is None:
        print(mmsg)
        return 2
    res = run_cases(exe, mexe, gen_cases(rng, n, os.environ.get("TPARSE_BOUNDARY", "1") == "1", int(os.environ.get("TPARSE_MAXLEN", "9000"))))
    bad = [r for r in res if r[4] != r[5]]
    errs = [r for r in res if r[5].startswith("RERR")]
    dist = {}
    for r in res:
        dist[r[2]] = dist.get(r[2], 0) + 1
    print("cases", len(res), "mismatches", len(bad), "model errors", len(errs), "nonliteral", sum(1 for r in res if txt(r[5]) != r[1]), dist)

    def still(u, w, v, kind):
        r = run_cases(exe, mexe, [(w, "".join(u), "min", v)])[0]
        return r[5].startswith("RERR") if kind == "error" else r[4] != r[5]
    shown = 0
    seen = set()
    for (w, t, c, v, i, m) in bad:
        if shown >= int(os.environ.get("TPARSE_SHOW", "4")):
            break
        kind = "error" if m.startswith("RERR") else "mismatch"
        s = "".join(vlib.shrink_list(list(t), lambda u: still(u, w, v, kind), max_steps=250)) if len(t) < 3000 else t
        if s in seen:
            continue
        seen.add(s)
        shown += 1
        r = run_cases(exe, mexe, [(w, s, c, v)])[0]
        print("---- class", c, "width", w, "text", repr(s), "value", json.dumps(v)[:300])
        print("impl ", repr(txt(r[4]))[:600])
        print("model", repr(txt(r[5]))[:600])
    return 1 if bad else 0


if __name__ == "__main__":
    sys.exit(main())
