"""C12 -- a Value behaves as an abstract JSON document under every operation sequence.

Proof: coq/Properties_C12.v (refinement of the Value model to the document
       specification, per operation and lifted to all histories by induction).
Tie:   gen/Tables_value.v (ValueType / QNumberType enums, JSON keywords) and a
       differential run of cpp/drv_value.cpp (the real Value<char>, ASan+UBSan)
       against the extracted model; the extracted *specification* (run_spec on
       documents) judges the implementation's trace.

A history is first passed through the extracted planner: positional
operations on an object that holds a removed entry (slot numbers are not
contractual there) are replaced by no-ops, for the model and the real code
alike."""
import json
import os
import random

import vlib

PROP = "C12"
COMP = "value"
PROP_V = "Properties_C12.v"
TABLES = (("Tables_value", "gentables_value.cpp"),)

KEYS = [[97], [98], [], [107, 0, 120], [107, 101, 121, 49], [34, 113], [233], [107], [49], [50]]
NUMSTR = ["12", "-3", "2.5", "0.25", "-0.75", "0", "7", "100", "-100.25", "10.75", "999999999", "-1", "1", "0.5"]
WORDS = ["true", "false", "null", "abc", "", "a\0b", "k\"\\/", "z", "\xe9t\xe9", "a b", "tru", "What?"]


# wide instances (char16_t / char32_t): extra keys and string units beyond 255; set while the
# cases for that width are generated
_WIDE = 0
WIDE_KEYS = {16: [[0x20AC], [0xD83D, 0xDE00], [0x100, 0], [0xFFFF], [0x3B1, 0x3B2], [0x61, 0x300]],
             32: [[0x1F600], [0x10FFFF], [0x20AC, 0x1F4A9], [0x110000], [0xFFFFFFFF], [0x61, 0x1F600, 0]]}
WIDE_UNITS = {16: [0x20AC, 0xD83D, 0xDE00, 0xFFFF, 0x100, 0x22, 0x5C, 0x30, 0x661], 32: [0x1F600, 0x10FFFF, 0x110000, 0xFFFFFFFF, 0x20AC, 0x22, 0x39, 0x1D7CF]}
WIDTH_CHAR = {0: "char", 16: "char16_t", 32: "char32_t"}


def pick_key(rng):
    if _WIDE and rng.random() < 0.4:
        return rng.choice(WIDE_KEYS[_WIDE])
    return rng.choice(KEYS)  # narrow


def enc_str(units):
    return ",".join([str(len(units))] + [str(u) for u in units])


def s_units(s):
    return [ord(c) & 255 for c in s]


def enc_target(t):
    var, path = t
    out = [str(var), str(len(path))]
    for st in path:
        if st[0] == "K":
            out.append("0," + enc_str(st[1]))
        else:
            out.append("1,%d" % st[1])
    return ",".join(out)


def rnd_real(rng):
    """a real as a number of 256ths: exact quarters (as before), dyadics k/8, k/16, k/128, k/256 (exact
    decimal text of at most 8 fraction digits, integer part below 10^6) and neighbours that differ only
    beyond the second decimal"""
    r = rng.random()
    if r < 0.4:
        return 64 * rng.choice([rng.randrange(-4000, 4000), 10, -6, 1, 3, 4, 0, 2 ** 30 + 1, -(2 ** 29) - 3])
    if r < 0.8:
        den = rng.choice([8, 16, 128, 256])
        return (256 // den) * rng.randrange(-den * 1000, den * 1000)
    if r < 0.9:
        return rng.choice([288, 289, 256, 257, 258, 640, 641, -288, -289, 2, 1, 32, 255, 256 * 999999 + 255])
    base = 256 * rng.randrange(-50, 50) + rng.choice([0, 32, 64, 128])
    return base + rng.choice([0, 1, 2, 3])


def rnd_scalar(rng, allow_real=True, simple_str=False):
    r = rng.random()
    if r < 0.08:
        return "0"
    if r < 0.16:
        return "1"
    if r < 0.24:
        return "2"
    if r < 0.42:
        n = rng.choice([0, 1, 2, 7, 12, rng.randrange(1000), 4294967296, 9223372036854775808, 18446744073709551615, 999999999999999, 1000000000000000])
        return "3,%d" % n
    if r < 0.56:
        z = rng.choice([-1, -3, 5, -rng.randrange(1, 1000), rng.randrange(1000), -9223372036854775807, 9223372036854775807, -4294967297])
        return "4,%d" % z
    if r < 0.70 and allow_real:
        return "5,%d" % rnd_real(rng)
    if simple_str:
        s = rng.choice(["x", "ab", "1", "2", "k1", "true", "null", "Zz9"])
        return "6," + enc_str(s_units(s))
    if _WIDE and rng.random() < 0.3:
        return "6," + enc_str([rng.choice(WIDE_UNITS[_WIDE] + [97, 49]) for _ in range(rng.randrange(0, 5))])
    r2 = rng.random()
    if r2 < 0.4:
        s = rng.choice(NUMSTR)
    elif r2 < 0.8:
        s = rng.choice(WORDS)
    else:
        s = "".join(rng.choice("abk\0\"\\/ z?\xe9") for _ in range(rng.randrange(0, 6)))
    return "6," + enc_str(s_units(s))


class Shadow:
    """very rough memory of which child steps exist under each variable, only to
    make generated paths resolve often; correctness never depends on it"""

    def __init__(self):
        self.steps = {0: [], 1: [], 2: []}

    def note(self, t, st):
        lst = self.steps[t[0]]
        lst.append((tuple(map(tuple_step, t[1])), st))
        if len(lst) > 12:
            lst.pop(0)

    def target(self, rng):
        var = rng.randrange(3)
        r = rng.random()
        if r < 0.5 or not self.steps[var]:
            return (var, [])
        pre, st = rng.choice(self.steps[var])
        path = [untuple_step(x) for x in pre] + [st]
        if rng.random() < 0.3 and len(path) > 1:
            path = path[:-1]
        if len(path) > 3:
            path = path[:3]
        return (var, path)


def tuple_step(st):
    return (st[0], tuple(st[1])) if st[0] == "K" else (st[0], st[1])


def untuple_step(st):
    return ("K", list(st[1])) if st[0] == "K" else ("I", st[1])


def gen_history(rng, maxlen):
    n = rng.randrange(1, maxlen + 1)
    sh = Shadow()
    ops = []
    for _ in range(n):
        t = sh.target(rng)
        t2 = sh.target(rng)
        if rng.random() < 0.6:
            while t2[0] == t[0]:
                t2 = sh.target(rng)
        r = rng.random()
        v = rng.randrange(0, 60)
        if r < 0.07:
            ops.append("1,%s,%s,%d" % (enc_target(t), rnd_scalar(rng), v))
        elif r < 0.25:
            k = pick_key(rng)
            p = rnd_scalar(rng) if rng.random() < 0.85 else "7"
            ops.append("2,%s,%s,%s,%d" % (enc_target(t), enc_str(k), p, v))
            sh.note(t, ("K", k))
        elif r < 0.36:
            i = rng.choice([0, 0, 1, 1, 2, 3, 5])
            p = rnd_scalar(rng) if rng.random() < 0.85 else "7"
            ops.append("3,%s,%d,%s,%d" % (enc_target(t), i, p, v))
            sh.note(t, ("I", i))
        elif r < 0.45:
            ops.append("4,%s,%s,%d" % (enc_target(t), rnd_scalar(rng), v))
            sh.note(t, ("I", rng.randrange(3)))
        elif r < 0.53:
            ops.append("5,%s,%s,%d" % (enc_target(t), enc_target(t2), rng.randrange(2)))
            sh.note(t, ("I", rng.randrange(3)))
        elif r < 0.59:
            ops.append("6,%s,%s,%d" % (enc_target(t), enc_target(t2), rng.randrange(2)))
        elif r < 0.63:
            k = pick_key(rng)
            ops.append("7,%s,%s,%s" % (enc_target(t), enc_str(k), enc_target(t2)))
            sh.note(t, ("K", k))
        elif r < 0.71:
            ops.append("8,%s,%s,%d" % (enc_target(t), enc_str(pick_key(rng)), v))
        elif r < 0.76:
            ops.append("9,%s,%d" % (enc_target(t), rng.choice([0, 1, 2, 3])))
        elif r < 0.78:
            ops.append("10,%s" % enc_target(t))
        elif r < 0.82:
            ops.append("11,%s" % enc_target(t))
            if rng.random() < 0.3:
                ops.append("17,%s" % enc_target(t))       # an object compressed to nothing has no storage
        elif r < 0.88:
            if rng.random() < 0.25:
                t2 = t if rng.random() < 0.5 else (t[0], t[1][: rng.randrange(0, len(t[1]) + 1)])
            ops.append("12,%s,%s,%d" % (enc_target(t), enc_target(t2), rng.randrange(2)))
        elif r < 0.93:
            if rng.random() < 0.25:
                t2 = t if rng.random() < 0.4 else (t[0], t[1] + [("K", pick_key(rng))])
            ops.append("13,%s,%s,%d" % (enc_target(t), enc_target(t2), rng.randrange(2)))
        elif r < 0.945:
            ops.append("14,%s,%d" % (enc_target(t), rng.choice([0, 1, 2, 3, 9])))
        elif r < 0.96:
            ops.append("15,%s,%d" % (enc_target(t), rng.choice([0, 1, 2, 3, 9])))
        elif r < 0.97:
            nn = rng.choice(["3,%d" % rng.randrange(100), "4,-%d" % rng.randrange(1, 100), "5,%d" % rng.randrange(-50, 50)])
            ops.append("16,%s,%s,%s" % (enc_target(t), nn, rnd_scalar(rng)))
        elif r < 0.98:
            # t = ValueType::k / Value tmp{k[, size]}; every kind except ValuePtr
            ops.append("20,%s,%d,%d" % (enc_target(t), rng.choice([0, 2, 3, 4, 5, 6, 7, 8, 9, 10]), rng.randrange(30)))
            if rng.random() < 0.6:
                ops.append("17,%s" % enc_target(t))       # the getters on an empty value of that kind
        elif r < 0.99:
            ops.append("21,%s,%s,%d" % (enc_target(t), enc_target(t2), rng.randrange(8)))
        elif r < 0.995:
            ops.append("22,%s,%s,%d" % (enc_target(t), enc_target(t2), rng.randrange(8)))
            sh.note(t, ("I", rng.randrange(3)))
        else:
            ops.append("17,%s" % enc_target(t))
        if rng.random() < 0.12:
            ops.append("17,%s" % enc_target(sh.target(rng)))
    return ops[:maxlen]


def gen_cases(rng, tier, boost=1, wide=0, frac=1.0):
    global _WIDE
    _WIDE = wide
    n = int((5000 if tier == "quick" else 60000) * boost * frac)
    cases = []
    dist = {"short": 0, "long": 0}
    for i in range(n):
        if i % 3 == 0:
            ops = gen_history(rng, 12)
            dist["short"] += 1
        else:
            ops = gen_history(rng, 50)
            dist["long"] += 1
        cases.append("12 " + ";".join(ops))
    _WIDE = 0
    return cases, dist


def corpus_cases(prop):
    res = []
    p = os.path.join(vlib.ROOT, "corpus", prop, "cases.txt")
    if os.path.exists(p):
        for line in open(p):
            line = line.strip()
            if line and not line.startswith("#"):
                res.append(line)
    return res


def wild_eq(i, m):
    """model/spec text m may contain '?' standing for a run of digits"""
    if "?" not in m:
        return i == m
    parts = m.split("?")
    pos = 0
    for k, part in enumerate(parts):
        if not i.startswith(part, pos):
            return False
        pos += len(part)
        if k < len(parts) - 1:
            q = pos
            while q < len(i) and i[q].isdigit():
                q += 1
            if q == pos:
                return False
            pos = q
    return pos == len(i)


def plan(cases):
    mexe, msg = vlib.build_ocaml(COMP)
    if mexe is None:
        raise RuntimeError("extracted model does not build: " + msg)
    out, cr = vlib.run_sharded(mexe, ["plan"], cases)
    res = []
    for c, o in zip(cases, out):
        res.append(o if not o.startswith("BADCASE") and not o.startswith("CRASH") else c)
    return res


def nontrivial(case):
    """a history is non-trivial when it has a two-value operation, a removal or a compress"""
    for op in case.split(" ")[1].split(";"):
        if op.split(",")[0] in ("5", "6", "7", "8", "9", "11", "12", "13", "18", "21", "22"):
            return True
    return False


def minimise(exe, case, want_oracle_fail):
    mode, h = case.split(" ")
    ops = h.split(";")

    def fails(cand):
        if not cand:
            return False
        c = plan([mode + " " + ";".join(cand)])[0]
        r = vlib.differential(COMP, exe, [c], eq=wild_eq)
        return bool(r.oracle_fail) if want_oracle_fail else bool(r.oracle_fail or r.mismatch)

    small = vlib.shrink_list(ops, fails, max_steps=150)
    return plan([mode + " " + ";".join(small)])[0]


def explain(case, impl, model):
    """first differing step of two traces"""
    a = impl.split("/")
    b = model.split("/")
    ops = case.split(" ")[1].split(";")
    for k in range(max(len(a), len(b))):
        x = a[k] if k < len(a) else "<missing>"
        y = b[k] if k < len(b) else "<missing>"
        if not wild_eq(x, y):
            return {"step": k, "op": ops[k] if k < len(ops) else None, "impl_step": x[:600], "expected_step": y[:600]}
    return None


def run_check(prop, prop_v, tier, gen, what, rule, extra_assumptions=()):
    rep = vlib.Report(prop, tier, "proof")
    rng = random.Random(rep.seed)
    st = vlib.proof_stage(rep, prop_v, [COMP], tables=TABLES)
    theorems = st["theorems"]
    proof_ok = st["ok"]
    checker = "cd coq && make %s  (coqc 8.16.1, full .vo build) ; coqc -Q . Qv %s for Print Assumptions" % (prop_v + "o", prop_v)
    tb = vlib.TRUSTED_BASE_COMMON + [
        "tools/gentables_value.cpp (enum values, JSON keywords)",
        "modelled: Include/Value.hpp (Value<char>) as patched by findings/D12,D17,D29,D40,D42,D43,D44; objects at the slot-list level that C13 proves for HArray; real->text on dyadics q/256 (at most 8 fraction digits, exact), string->number on canonical numerals with .25/.5/.75 fractions (C09/C10 own the rest); JSON escaping compared as a text skeleton (C08 owns the escaper)",
    ]

    exe, msg = vlib.build_cpp("drv_value", "drv_value.cpp")
    if exe is None or not st["extract_ok"]:
        rep.violation({"broken": "cpp/drv_value.cpp or the extracted model does not build against the current tree", "log": (msg or "") + st["log"][-2000:]}, no_input=True)
        rep.cov = {"obligations": max(1, len(theorems)), "discharged": 0, "checker_cmd": checker, "trusted_base": tb}
        return rep.finish()

    boost = 1 if proof_ok else 4
    cases, dist = gen(rng, tier, boost)
    cases = corpus_cases(prop) + cases
    cases = plan(cases)
    r = vlib.differential(COMP, exe, cases, eq=wild_eq)
    # second pass with the library's own growth policy (hook off): sparse writes inside spare
    # capacity and other Size() < Capacity() paths do not exist under exact-fit growth
    exe_nh, msg_nh = vlib.build_cpp("drv_value_nohook", "drv_value.cpp", hook=False)
    if exe_nh is not None:
        r_nh = vlib.differential(COMP, exe_nh, cases[: max(1500, len(cases) // 2)], eq=wild_eq)
        have = set(c for (c, i, m, t) in r.oracle_fail)
        r.oracle_fail += [x for x in r_nh.oracle_fail if x[0] not in have]
        have = set(c for (c, i, m) in r.mismatch)
        r.mismatch += [x for x in r_nh.mismatch if x[0] not in have]
        r.crashes += r_nh.crashes
        r.n += r_nh.n

    # the other character widths: a share of the same histories plus histories whose keys and
    # strings use code units beyond 255 (lone surrogates, U+10FFFF, 0xFFFFFFFF)
    exe_of = {}
    width_of = {}
    wide_n = {}
    for w in (16, 32):
        exe_w, msg_w = vlib.build_cpp("drv_value_c%d" % w, "drv_value.cpp", defines=["VERIF_CHAR=" + WIDTH_CHAR[w]])
        if exe_w is None:
            rep.violation({"broken": "cpp/drv_value.cpp does not build for " + WIDTH_CHAR[w], "log": msg_w}, no_input=True)
            continue
        wcases, wdist = gen(rng, tier, boost, wide=w, frac=0.12)
        share = cases[:: 8]
        cases_w = share + plan(wcases)
        wide_n[w] = len(cases_w)
        r_w = vlib.differential(COMP, exe_w, cases_w, eq=wild_eq)
        for x in r_w.oracle_fail + r_w.mismatch:
            exe_of.setdefault(x[0], exe_w)
            width_of.setdefault(x[0], w)
        have = set(c for (c, i, m, t) in r.oracle_fail)
        r.oracle_fail += [x for x in r_w.oracle_fail if x[0] not in have]
        have = set(c for (c, i, m) in r.mismatch)
        r.mismatch += [x for x in r_w.mismatch if x[0] not in have]
        r.crashes += r_w.crashes
        r.bad += r_w.bad
        r.n += r_w.n
        for k2, v2 in wdist.items():
            dist["c%d_%s" % (w, k2)] = v2

    found_input = False
    seen = set()
    exe_char = exe
    for (c, i, m, tag) in r.oracle_fail[:50]:
        if len(seen) >= 3:
            break
        exe = exe_of.get(c, exe_char)
        small = minimise(exe, c, True)
        if small in seen:
            continue
        seen.add(small)
        found_input = True
        rr = vlib.differential(COMP, exe, [small], eq=wild_eq)
        ii, mm, tg = (rr.oracle_fail[0][1], rr.oracle_fail[0][2], rr.oracle_fail[0][3]) if rr.oracle_fail else (i, m, tag)
        san = [x[1][-1500:] for x in rr.crashes][:1]
        if ii == "" or ii.startswith("CRASH"):
            rc1, out1, err1 = vlib.run_lines(exe, [], [small], timeout=120)
            san = [vlib.sanitizer_summary(err1), err1[-1500:]]
            mm = vlib.differential(COMP, exe, [small], eq=wild_eq, impl_args=()).oracle_fail and mm
        rep.violation({"component": "value", "case": small, "format": "<mode> <history>  (ocaml/value.ml)",
                       "first_difference": explain(small, ii, mm), "observed_impl": ii[:3000], "model": mm[:3000],
                       "oracle": "fails: " + what, "model_agrees_with_impl": tg == "same",
                       "width": WIDTH_CHAR[width_of.get(c, 0)],
                       "sanitizer": san,
                       "broken": None if proof_ok else prop_v + "o"})
    if not found_input and (r.mismatch or not proof_ok or r.bad):
        whatb = []
        if not proof_ok:
            whatb.append("coq/%so no longer builds (theorems not re-established)" % prop_v)
        if r.mismatch:
            whatb.append("correspondence ValueModel.run_model vs Value<char> differs")
        if r.bad:
            whatb.append("driver output malformed")
        ex = None
        if r.mismatch:
            c0, i0, m0 = r.mismatch[0]
            exe = exe_of.get(c0, exe_char)
            small = minimise(exe, c0, False)
            rr = vlib.differential(COMP, exe, [small], eq=wild_eq)
            if rr.mismatch:
                c0, i0, m0 = rr.mismatch[0]
            ex = {"case": c0, "width": WIDTH_CHAR[width_of.get(r.mismatch[0][0], 0)], "first_difference": explain(c0, i0, m0)}
        elif r.bad:
            ex = {"case": r.bad[0][0], "impl": r.bad[0][1][:500], "model": r.bad[0][2][:500]}
        rep.violation({"broken": whatb, "first_mismatch": ex, "coq_log": st["log"][-3000:] if not proof_ok else "",
                       "searched_cases": len(cases)}, no_input=True)

    steps = sum(c.count(";") + 1 for c in cases)
    rep.cov = {
        "obligations": len(theorems) if theorems else 1,
        "discharged": len(theorems) if proof_ok else 0,
        "checker_cmd": checker,
        "trusted_base": tb,
        "theorems": [{"name": n, "assumptions": a} for n, a in theorems],
        "evaluations": len(cases),
        "operation_steps": steps,
        "distinct_nontrivial": len({c for c in cases if nontrivial(c)}),
        "rule": rule,
        "samples": [cases[0][:400], cases[len(cases) // 2][:400], cases[-1][:400]],
        "input_distribution": dist,
        "traces_validated_against_impl": r.n,
        "cases_char16_t": wide_n.get(16, 0),
        "cases_char32_t": wide_n.get(32, 0),
        "oracle_failures": len(r.oracle_fail),
        "model_impl_mismatches": len(r.mismatch),
        "crashes": len(r.crashes),
    }
    rep.assumptions = [
        "the theorems are about coq/ValueModel.v; the C++ is tied by gen/Tables_value.v and by the differential run reported here (finite)",
        "Value<char> on every history, Value<char16_t> and Value<char32_t> on a share plus histories with wide code units; LP64 little-endian; the tree is /repo with findings D12, D17, D29, D40, D42, D43 applied",
        "histories never alias a value with its own member except in the assignment operators (copy/move from a member, copy from an ancestor); ValueType::ValuePtr is never assigned as a kind and the comparison operators are not exercised (== across kinds is C15's D4)",
    ] + list(extra_assumptions)
    return rep.finish()


def check(tier):
    return run_check(
        PROP, PROP_V, tier, gen_cases,
        "the trace of public reads differs from the abstract JSON document specification (run_spec)",
        "seeded random histories of 1..50 operations (23 operation families, every overload variant) over 3 variables and their members up to depth 3, keys incl. empty / NUL / quote, payloads of every kind incl. 64-bit extremes, reals that are exact dyadics with at most 8 fraction bits (k/4, k/8, k/16, k/128, k/256; integer part below 10^6 for the fine ones; pairs that differ only beyond the second decimal) and numeric / keyword strings; after every step all three variables are dumped through the public getters and Stringify; every READ additionally calls the getters that each kind answers with nothing (GetValue by index / key / view, First, Last, GetKey, SetKeyCharAndLength, CopyKeyByIndexTo, StringStorage, GetStringView, Length on kinds they do not apply to), the non-const GetString / GetObject / GetArray overloads and the three routes to the JSON text (Stringify(stream), the String-returning Stringify(precision), operator<<) -- these are overloads or alternative routes of observations the model already predicts, so they are checked for agreement with those (a disagreement prints '!tag' into the trace, which the model never prints); non-trivial = has a two-value operation, removal or compress")


def replay(path):
    d = json.load(open(path))
    case = d.get("case")
    if not case:
        print("replay names a broken obligation, not an input:", d.get("broken"), d.get("first_mismatch"))
        return 1
    width = d.get("width", "char")
    if width == "char":
        exe, msg = vlib.build_cpp("drv_value", "drv_value.cpp")
    else:
        exe, msg = vlib.build_cpp("drv_value_c%d" % (16 if width == "char16_t" else 32), "drv_value.cpp", defines=["VERIF_CHAR=" + width])
    case = plan([case])[0]
    r = vlib.differential(COMP, exe, [case], eq=wild_eq)
    print("case:", case, "width:", width)
    for (c, i, m, tag) in r.oracle_fail:
        print("oracle: FAIL", json.dumps(explain(c, i, m), indent=1))
        return 1
    for (c, i, m) in r.mismatch:
        print("oracle ok, model differs", json.dumps(explain(c, i, m), indent=1))
        return 1
    print("oracle ok, model agrees")
    return 0
