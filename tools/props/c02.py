"""C02 -- rendering a well-formed template yields exactly the documented expansion.

Proof (coq/Properties_C02.v): the implementation layer (tag tree with offsets,
slice renderer: TmplRender.v) equals the reference interpreter `expand`
(TmplModel.v) for every AST.  The real parser is tied by the correspondence
run only: the C++ parses and renders the printed text of generated ASTs and is
judged by the extracted `expand` (S) and compared with `render_ast` (M)."""
import json
import os
import random

import vlib
from vlib import fmt_list
import tmplast as ta

PROP = "C02"
DRV = "drv_tmpl"
SIMD = {"sse2": ["QENTEM_SSE2=1"], "scalar": [], "avx2": ["QENTEM_AVX2=1"]}


def build(simd="sse2"):
    extra = ["-msse2"] if simd == "sse2" else (["-mavx2"] if simd == "avx2" else [])
    return vlib.build_cpp(DRV + ("" if simd == "sse2" else "_" + simd), "drv_tmpl.cpp", defines=SIMD[simd], extra=extra)


def txt(u):
    if u in ("-", ""):
        return ""
    try:
        return "".join(chr(int(x)) for x in u.split(","))
    except ValueError:
        return u


class Case:
    def __init__(self, w, ast, root, mode=0):
        self.w, self.ast, self.root, self.mode = w, ast, root, mode
        self.a = "|".join(ta.ser_nodes(ast))
        self.v = "|".join(ta.ser_value(root))
        self.j = ta.json_text(root)


def gen_cases(rng, n, plain_share=0.08, mode=0):
    cases = []
    for _ in range(n):
        w = rng.choice([0, 0, 1, 2, 3])
        if rng.random() < plain_share:
            # text without tags renders to itself: arbitrary units except the two tag openers
            maxu = [255, 65535, 0x10FFFF, 0x10FFFF][w]
            s = "".join(chr(rng.choice([rng.randrange(1, 128), rng.randrange(1, min(maxu, 0x2FF)), 125, 62, 34, 39, 38, 10])) for _ in range(rng.randrange(0, 60)))
            s = s.replace("{", "(").replace("<", "(")
            root, _s = ta.gen_root(rng)
            cases.append(Case(w, [("t", s)] if s else [], root, mode))
        else:
            ast, root = ta.gen_case(rng)
            cases.append(Case(w, ast, root, mode))
    return cases


def targeted_cases(rng):
    """the loop variable (of the innermost and of an enclosing loop, plain and indexed) in EVERY position that holds an
    expression -- {math:}, inline-if case, <if case>, every <else if case> -- with cases whose outcome depends on it"""
    P = ta.P
    EQ, NE, LT, GT, ADD, MUL = 3, 4, 5, 6, 0, 2
    out = []

    def x(name, idx=()):
        return ("x", P(name, idx))

    def chain(var, k1, k2, k3):
        return ("f", ("b", EQ, var, ("n", k1)), [("t", "one")],
                [(("b", EQ, var, ("n", k2)), [("t", "two"), ("v", var[1])]), (("b", GT, var, ("n", k3)), [("t", "big")]), (None, [("t", "other")])])

    for _ in range(3):
        root, _sortable = ta.gen_root(rng)
        root["list"] = rng.sample([1, 2, 3, 4, 5, 7], rng.randrange(2, 6))
        root["items"] = [{"name": "x", "val": 1, "g": "p"}, {"g": "q", "name": "y", "val": 2}, {"val": 5, "g": "p", "name": "z"}][: rng.randrange(1, 4)]
        a, b, c = rng.choice([1, 2]), rng.choice([2, 3, 4]), rng.choice([2, 4])
        asts = [
            [("l", P("list"), "v", "", 0, [chain(x("v"), a, b, c), ("t", ",")])],
            [("l", P("list"), "v", "", 0, [("l", P("list"), "e1", "", 0, [
                ("f", ("b", EQ, x("v"), x("e1")), [("t", "=")], [(("b", LT, x("v"), x("e1")), [("t", "<")]), (("b", GT, x("v"), ("n", c)), [("t", ">")]), (None, [("t", "!")])])]), ("t", ";")])],
            [("l", P("list"), "v", "", 0, [("m", ("b", ADD, ("b", MUL, x("v"), ("n", 10)), x("n1"))), ("t", " "),
                                           ("i", ("b", GT, x("v"), ("n", b)), [("t", "big")], [("t", "small"), ("v", P("v"))]), ("t", ",")])],
            [("l", P("items"), "item", "", 0, [chain(x("item", ["val"]), a, b, c), ("t", "/")])],
            [("f", ("b", EQ, x("n1"), ("n", 987)), [("t", "x")], [(("b", EQ, x("n1"), x("n1")), [("l", P("list"), "v", "", 0, [chain(x("v"), a, b, c)])])])],
            [("l", P("list"), "v", "", 0, [("f", ("b", GT, x("v"), ("n", 0)), [("l", P("list"), "row", "", 0, [
                ("f", ("b", EQ, x("row"), ("n", 99)), [("t", "no")], [(("b", LT, x("v"), x("row")), [("t", "L"), ("v", P("v"))]), (("b", EQ, x("row"), x("v")), [("t", "E")])])])], [])])],
            [("l", P("items"), "item", "g", 0, [("l", P("item"), "row", "", 0, [chain(x("row", ["val"]), a, b, c)]), ("t", "|")])],
        ]
        # unsigned results in [2^63, 2^64): printed as naturals wherever a math tag may stand
        root["big"] = 18446744073709551615
        root["b63"] = 9223372036854775808
        asts += [
            [("m", ("b", ADD, x("big"), ("n", 0))), ("t", " "), ("v", P("big")), ("t", " "), ("r", P("b63")), ("t", " "), ("m", ("b", ADD, ("n", 9223372036854775807), ("n", 1)))],
            [("l", P("list"), "v", "", 0, [("m", ("b", ADD, x("b63"), x("v"))), ("t", ",")])],
            [("i", ("b", GT, x("n1"), ("n", 0)), [("m", ("b", MUL, x("b63"), ("n", 1))), ("t", "!")], [("m", ("b", ADD, x("big"), ("n", 0)))])],
            [("f", ("b", EQ, x("big"), x("big")), [("m", ("b", ADD, ("b", MUL, ("n", 4611686018427387904), ("n", 3)), ("n", 5)))], [(None, [("t", "ne")])])],
            # comparisons and truth tests on naturals >= 2^63 (D90)
            [("i", ("b", GT, x("big"), ("n", 1)), [("t", "gt")], [("t", "no")]), ("i", ("b", LT, ("n", 1), x("b63")), [("t", "lt")], [("t", "no")]),
             ("m", ("b", GT, x("b63"), x("n1"))), ("m", ("b", LT, x("b63"), x("big"))), ("i", x("big"), [("t", "T")], [("t", "F")])],
            [("l", P("list"), "v", "", 0, [("f", ("b", GT, x("big"), x("v")), [("t", "g")], [(None, [("t", "l")])])])],
        ]
        for ast in asts:
            out.append(Case(rng.choice([0, 0, 1, 2, 3]), ast, root, 0))
    return out


def run_cases(exe, cases, auto=2):
    """returns list of (case, printed, impl, model, verdict)"""
    mexe, msg = vlib.build_ocaml("tmpl")
    if mexe is None:
        raise RuntimeError("extracted template model does not build: " + msg)
    printed, _ = vlib.run_sharded(mexe, [], ["p %d %d %s" % (auto, c.w, c.a) for c in cases])
    cl = ["%d %d %s %s" % (c.w, c.mode, p, fmt_list([ord(x) for x in c.j])) for c, p in zip(cases, printed)]
    impl, crashes = vlib.run_sharded(exe, [], cl)
    # a ",!<marker>" suffix (C17 impurity bits, ",!o<bits>" = a convenience overload disagrees with the primary call) is not
    # part of the rendered text: the text before it is judged, and the marker itself makes the case a failure
    jl = ["j %d %d %s %s %s" % (auto, c.w, c.a, c.v, (i.split(" ")[0].split(",!")[0] or "-")) for c, i in zip(cases, impl)]
    res, _ = vlib.run_sharded(mexe, [], jl)
    out = []
    for c, p, i, r in zip(cases, printed, impl, res):
        parts = r.rsplit(" ", 1)
        if len(parts) != 2 or parts[1] not in ("0", "1"):
            out.append((c, p, i, r, None))
        else:
            out.append((c, p, i, parts[0], parts[1] == "1" and ",!" not in i))
    return out, crashes


def shrink_case(exe, c, pred):
    """greedy structural shrinking of the AST: delete nodes at any depth while pred(case) holds"""
    def variants(nodes):
        for k in range(len(nodes)):
            yield nodes[:k] + nodes[k + 1:]
        for k, n in enumerate(nodes):
            kind = n[0]
            subs = []
            if kind == "s":
                subs = [(2, n[2])]
            elif kind == "i":
                subs = [(2, n[2])] + ([(3, n[3])] if n[3] is not None else [])
            elif kind == "l":
                subs = [(5, n[5])]
            elif kind == "f":
                subs = [(2, n[2])]
                for mi, (e, b) in enumerate(n[3]):
                    for vb in variants(b):
                        more = list(n[3])
                        more[mi] = (e, vb)
                        yield nodes[:k] + [n[:3] + (more,)] + nodes[k + 1:]
                if n[3]:
                    yield nodes[:k] + [n[:3] + (n[3][:-1],)] + nodes[k + 1:]
            for (pos, sl) in subs:
                for vs in variants(sl):
                    nn = list(n)
                    nn[pos] = vs
                    yield nodes[:k] + [tuple(nn)] + nodes[k + 1:]
            if kind in ("l", "f", "i"):
                # replace the container by its body
                body = n[5] if kind == "l" else n[2]
                yield nodes[:k] + list(body) + nodes[k + 1:]
    cur = c
    steps = 0
    progress = True
    while progress and steps < 150:
        progress = False
        for cand in variants(cur.ast):
            steps += 1
            if steps > 150:
                break
            cc = Case(cur.w, ta.merge_text(cand), cur.root, cur.mode)
            if pred(cc):
                cur = cc
                progress = True
                break
    # shrink the value: drop root members
    if isinstance(cur.root, dict):
        for k in list(cur.root.keys()):
            cand = {a: b for a, b in cur.root.items() if a != k}
            cc = Case(cur.w, cur.ast, cand, cur.mode)
            if pred(cc):
                cur = cc
    return cur


def replay_dict(c, p, i, m, verdict, note=""):
    return {"component": "template", "width": c.w, "template": txt(p), "template_units": p, "value_json": c.j,
            "ast_tokens": c.a, "value_tokens": c.v, "mode": c.mode,
            "observed_impl": txt(i) if not i.startswith("CRASH") else i, "model_render_ast": txt(m),
            "oracle": "impl output == expand ast value : %s" % verdict,
            "note": note + (" ; marker ,!o<bits>: the overloads Render(content, value, stream) (1), Render<Stream>(content, length, value) (2), Render<Stream>(content, value) (4), JSON::Parse(content) (8) on NUL-terminated copies disagree with the primary calls" if ",!o" in i else "")}


def nontrivial(c):
    """non-trivial: the AST holds at least one tag (not only literal text)"""
    return any(n[0] != "t" for n in c.ast)


def decide(rep, exe, results, proof_ok, proof_log, label=""):
    found = 0
    fails = [(c, p, i, m, v) for (c, p, i, m, v) in results if v is False]
    mism = [(c, p, i, m, v) for (c, p, i, m, v) in results if v is True and i != m]
    bad = [(c, p, i, m, v) for (c, p, i, m, v) in results if v is None]
    shown = set()
    for (c, p, i, m, v) in fails[:40]:
        if found >= 3:
            break

        def pred(cc):
            r, _ = run_cases(exe, [cc])
            return r[0][4] is False
        small = shrink_case(exe, c, pred)
        r, _ = run_cases(exe, [small])
        (sc, sp, si, sm, sv) = r[0]
        if sp in shown:
            continue
        shown.add(sp)
        found += 1
        rep.violation(replay_dict(sc, sp, si, sm, sv, label + ("; proof obligations broken" if not proof_ok else "")))
    if not found and (mism or bad or not proof_ok):
        what = []
        if not proof_ok:
            what.append("coq/Properties_%s.vo no longer builds" % rep.prop)
        if mism:
            what.append("correspondence TmplRender.render_ast vs Template::Render differs while the oracle is satisfied")
        if bad:
            what.append("driver output malformed: " + str(bad[0][3])[:200])
        rep.violation({"broken": what, "coq_log": proof_log[-3000:] if not proof_ok else "",
                       "first_mismatch": replay_dict(*mism[0]) if mism else None}, no_input=True)
    return len(fails), len(mism)


def check(tier):
    rep = vlib.Report(PROP, tier, "proof")
    rng = random.Random(rep.seed)
    import tparse
    st = vlib.proof_stage(rep, "Properties_C02.v", ["tmpl", "tparse", "tfull"], tables=(("Tables", "gentables.cpp"),) + tuple(tparse.TABLES))
    exe, msg = build("sse2")
    if exe is None:
        rep.violation({"broken": "cpp/drv_tmpl.cpp does not build against the current tree", "log": msg}, no_input=True)
        rep.cov = {"obligations": 1, "discharged": 0, "checker_cmd": "make -C coq Properties_C02.vo", "trusted_base": vlib.TRUSTED_BASE_COMMON}
        return rep.finish()
    boost = 1 if st["ok"] else 4
    n = (2500 if tier == "quick" else 40000) * boost
    cases = targeted_cases(rng) + gen_cases(rng, n)
    results, crashes = run_cases(exe, cases)
    nfail, nmis = decide(rep, exe, results, st["ok"], st["log"])
    builds = ["sse2"]
    if tier == "thorough" and not rep.violations:
        for simd in ("scalar", "avx2"):
            e2, m2 = build(simd)
            if e2 is None:
                rep.notes.append("build %s failed: %s" % (simd, m2[-300:]))
                continue
            sub = cases[: len(cases) // 4]
            r2, _ = run_cases(e2, sub)
            f2, m2_ = decide(rep, e2, r2, True, "", label="build " + simd)
            nfail += f2
            nmis += m2_
            builds.append(simd)
    # how many generated ASTs satisfy the hypothesis of the end-to-end theorem c02_full_loops
    # (as generated, and projected onto its fragment), and whether the extracted pipeline of the
    # theorem (parser model + renderer model on jv) equals `expand` on them -- a test of the theorem
    wfstat = {}
    try:
        import tfull
        a = tfull.count_wf(random.Random(rep.seed), 300 if tier == "quick" else 5000, projected=False)
        b = tfull.count_wf(random.Random(rep.seed), 300 if tier == "quick" else 5000, projected=True)
        wfstat = {"as_generated": {k: a.get(k) for k in ("n", "wf", "n_bad")}, "projected_to_fragment": {k: b.get(k) for k in ("n", "wf", "n_bad")}}
        if a.get("n_bad") or b.get("n_bad"):
            rep.violation({"broken": "extracted pipeline of c02_full_loops (parse_model + render_model on jv) differs from expand on a well-formed AST",
                           "detail": json.dumps((a.get("bad") or b.get("bad"))[:1])[:1500]}, no_input=True)
    except Exception as ex:      # the statistic is diagnostic; the theorem itself is checked by the proof stage
        wfstat = {"error": str(ex)[:300]}
    kinds = {}
    for c in cases:
        for nd in c.ast:
            kinds[nd[0]] = kinds.get(nd[0], 0) + 1
    theorems = st["theorems"]
    rep.cov = {
        "obligations": len(theorems) if theorems else 1,
        "discharged": len(theorems) if st["ok"] else 0,
        "checker_cmd": "cd coq && make Properties_C02.vo (coqc 8.16.1) ; coqc -Q . Qv Properties_C02.v for Print Assumptions",
        "trusted_base": vlib.TRUSTED_BASE_COMMON + [
            "modelled: Template.hpp render* functions as TmplRender.v (offset/slice renderer over a tag tree); abstractions: paths/expressions kept as AST inside tags, loop items found by name instead of by level",
            "NOT modelled (correspondence only): Template.hpp parse() / Finder -- the C++ parses the printed text of each generated AST and its output is compared with the extracted reference interpreter",
            "expression fragment: exact integers, one operator per parenthesis level (precedence is C04's subject); reals: arbitrary finite doubles as values (bit pattern from the model of Digit::StringToNumber, text from the model of Digit::NumberToString at the template's precision/format; GroupBy names with the default format), not inside expressions"],
        "theorems": [{"name": a, "assumptions": b} for a, b in theorems],
        "evaluations": len(cases),
        "distinct_nontrivial": len({c.a + "#" + c.v for c in cases if nontrivial(c)}),
        "rule": "ASTs generated from the documented grammar (all tag kinds, nesting <= 4, sort/group, index paths, unresolved references) x generated value trees, printed by the Coq printer, four character widths; non-trivial = contains at least one tag; distinct by (AST, value)",
        "samples": [{"template": txt(results[k][1])[:300], "value": results[k][0].j[:200]} for k in (0, len(results) // 2, len(results) - 1)],
        "top_level_node_kinds": kinds,
        "widths": {str(w): sum(1 for c in cases if c.w == w) for w in range(4)},
        "simd_builds": builds,
        "wf_template_statistics": wfstat,
        "traces_validated_against_impl": len(cases),
        "oracle_failures": nfail,
        "model_impl_mismatches": nmis,
        "crashes": len(crashes),
    }
    rep.assumptions = ["theorem is about the Gallina renderer; parser + renderer of the C++ are tied by the differential run reported here",
                       "well-formedness respected by the generator: see tools/props/tmplast.py header"]
    return rep.finish()


def replay(path):
    d = json.load(open(path))
    if "ast_tokens" not in d:
        print("replay names a broken obligation, not an input:", d.get("broken"))
        return 1
    exe, msg = build("sse2")
    c = Case(d["width"], [], {}, d.get("mode", 0))
    c.a, c.v, c.j = d["ast_tokens"], d["value_tokens"], d["value_json"]
    r, _ = run_cases(exe, [c])
    (cc, p, i, m, v) = r[0]
    print("template:", repr(txt(p)))
    print("value:", c.j)
    print("impl:", repr(txt(i)) if not i.startswith("CRASH") else i)
    print("model:", repr(txt(m)))
    print("oracle (impl == expand):", v)
    return 0 if (v and i == m) else 1
