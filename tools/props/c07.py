"""C07 -- JSON parsing is all-or-nothing.

Proof: coq/Properties_C07.v.
Tie:   for generated container documents: the document itself (must parse to its value), every
       proper prefix, one-unit suffixes over a 20-symbol alphabet, every closing bracket swapped or
       removed, every separator blanked -- all of the latter must give Undefined.
       D92: texts whose strings hold a LONE high surrogate escape followed by 0..8 ordinary units, with later
       strings that begin with ] } , : or an escaped quote: the text and ALL its proper prefixes must give
       Undefined (before the repair a proper prefix such as ["\\uD800abcde","] was accepted).
       D93: texts with a backslash-u escape of 0..3 hexadecimal digits followed by a non-hex unit / the closing quote /
       the end of the text, in either half of a pair: the text and ALL its proper prefixes must give Undefined
       (before the repair ["\\u1","abcd"] and ["\\u00zz"] were accepted)."""
from vlib import fmt_list
from props import jsoncommon as jc

PROP = "C07"


def gen(rng, tier, boost):
    cases = []
    dist = {"document": 0, "prefix": 0, "suffix": 0, "bracket": 0, "separator": 0}
    ndoc = (600 if tier == "quick" else 8000) * boost
    for _ in range(ndoc):
        w = rng.randrange(4)
        v, out = jc.gen_doc(rng, w, maxlen=rng.choice([20, 40, 60, 200]))
        cases.append(jc.g_case(w, v, out))
        dist["document"] += 1
        for c, tag in jc.damaged_cases(rng, w, out, full=(tier != "quick" or len(out.u) <= 80)):
            cases.append(c)
            dist[tag] += 1
    lone = jc.lone_surrogate_cases(rng, (lambda r: [r.randrange(4)]) if tier == "quick" else (lambda r: range(4)), "X", full=(tier != "quick"))
    cases.extend(lone)
    dist["lone_surrogate"] = len(lone)
    short = jc.short_hex_cases(rng, (lambda r: [r.randrange(4)]) if tier == "quick" else (lambda r: range(4)), "X", full=(tier != "quick"))
    cases.extend(short)
    dist["short_hex"] = len(short)
    nh = (1500 if tier == "quick" else 30000) * boost
    for _ in range(nh):
        cases.append(jc.h_case(rng, rng.randrange(4)))
    dist["stream_history"] = nh
    return cases, dist


def check(tier):
    return jc.run_check(PROP, tier, gen, "Properties_C07.v",
                        "a damaged document (proper prefix, trailing non-whitespace unit, closing bracket swapped/removed, separator blanked) gives Undefined; the intact document gives its value; a text with an unpaired high surrogate escape and every proper prefix of it give Undefined (D92); likewise a text with a backslash-u escape of fewer than four hexadecimal digits (D93)",
                        "generated container documents (<= 200 units, nesting <= 8) with all their proper prefixes, 2x20 one-unit suffixes, bracket and separator damage; texts with a lone high surrogate escape (0..8 ordinary units behind it, later strings beginning with ] } , : or an escaped quote) with all their prefixes; texts with a backslash-u escape of 0..3 hexadecimal digits (first escape and second half of a pair) with all their prefixes; four widths; non-trivial = distinct texts")


def replay(path):
    return jc.replay(path)
