"""C11 -- every finite double survives format(17 digits) then parse bit-for-bit
(and every float survives 9 digits).

No unbounded theorem is possible here (it would need an error analysis of two
heuristic algorithms); the statement is kept as a Definition in
coq/Properties_C11.v together with the model-level facts that are provable
(integers below 2^53 through the integer paths, specials).  The check is the
correspondence run: real code vs extracted model on the intermediate text and
the parse result, and the bit-equality oracle; the thorough tier adds a C++
sweep over all 2^32 floats and a large uniform sample of doubles."""
import json
import os
import random

import vlib
from props import digitlib as dl

PROP = "C11"
PROP_V = "Properties_C11.v"


def gen_cases(rng, tier, boost=1):
    cases = []
    dist = {"double": 0, "float": 0, "special": 0}
    for b in dl.SPECIAL_D:
        if (b >> 52) & 0x7FF != 0x7FF:
            cases.append("R %d %d" % (rng.randrange(3), b))
            dist["special"] += 1
    for b in dl.SPECIAL_F:
        if (b >> 23) & 0xFF != 0xFF:
            cases.append("S %d %d" % (rng.randrange(3), b))
            dist["special"] += 1
    # every binade of the double once with a random mantissa, once with the edges
    for e in range(0, 2047):
        cases.append("R 0 %d" % ((e << 52) | rng.getrandbits(52)))
        if e % 4 == 0 or tier != "quick":
            cases.append("R 0 %d" % ((e << 52) | rng.choice([0, 1, (1 << 52) - 1])))
        dist["double"] += 1
    for e in range(0, 255):
        cases.append("S 0 %d" % ((e << 23) | rng.getrandbits(23)))
        cases.append("S 0 %d" % ((e << 23) | rng.choice([0, 1, (1 << 23) - 1])))
        dist["float"] += 2
    # short mantissas m * 2^k over every binary exponent (17 / 9 digits sit just below a limb step of realToString)
    import math as _m
    ns = (1500 if tier == "quick" else 40000) * boost
    for _ in range(ns):
        m = rng.randrange(1, 1024) | 1
        k = rng.randrange(-1074, 971 - m.bit_length())
        cases.append("R 0 %d" % dl.dbits(_m.ldexp(float(m), k)))
        dist["double"] += 1
        m = rng.randrange(1, 1024) | 1
        k = rng.randrange(-149, 128 - m.bit_length())
        cases.append("S 0 %d" % dl.fbits(_m.ldexp(float(m), k)))
        dist["float"] += 1
    nd = (5000 if tier == "quick" else 200000) * boost
    nf = (2500 if tier == "quick" else 100000) * boost
    for _ in range(nd):
        cases.append("R %d %d" % (rng.choice([0, 0, 0, 1, 2]), dl.rand_double_bits(rng)))
        dist["double"] += 1
    for _ in range(nf):
        cases.append("S %d %d" % (rng.choice([0, 0, 1, 2]), dl.rand_float_bits(rng)))
        dist["float"] += 1
    return cases, dist


SWEEP_SRC = r"""
// all 2^32 floats (finite ones): format(9, Default) -> parse -> (float) must be the same bits;
// plus N uniform doubles: format(17) -> parse -> same bits.  No sanitizers, -O2, threads.
#include <new>
#include <cstdio>
#include <cstdlib>
#include <cstring>
#include <cstdint>
#include <string>
#include <thread>
#include <vector>
#include <atomic>
#include "Digit.hpp"
#include "StringStream.hpp"
using namespace Qentem;
static double back(const StringStream<char> &ss, bool &ok) {
    QNumber64 q; SizeT off = 0; QNumberType t = Digit::StringToNumber(q, ss.First(), off, ss.Length());
    ok = (off == ss.Length());
    if (t == QNumberType::Real) return q.Real;
    if (t == QNumberType::Natural) return (double)q.Natural;
    if (t == QNumberType::Integer) return (double)q.Integer;
    ok = false; return 0;
}
int main(int argc, char **argv) {
    unsigned nth = (unsigned)atoi(argv[1]); uint64_t stride = strtoull(argv[2], nullptr, 10); uint64_t ndbl = strtoull(argv[3], nullptr, 10); uint64_t seed = strtoull(argv[4], nullptr, 10);
    std::atomic<uint64_t> badf{0}, badd{0}, nf{0}, ndone{0};
    std::vector<std::thread> th;
    std::vector<std::string> first(nth);
    for (unsigned t = 0; t < nth; t++) th.emplace_back([&, t]() {
        StringStream<char> ss; uint64_t lf = 0, lb = 0;
        for (uint64_t b = t * stride; b < (1ULL << 32); b += nth * stride) {
            uint32_t u = (uint32_t)b; if (((u >> 23) & 0xFF) == 0xFF) continue;
            float f; memcpy(&f, &u, 4); ss.Clear();
            Digit::NumberToString(ss, f, Digit::RealFormatInfo{9U, Digit::RealFormatType::Default});
            bool ok; double d = back(ss, ok); float g = (float)d; uint32_t v; memcpy(&v, &g, 4); lf++;
            if (!ok || v != u) { lb++; if (first[t].empty()) first[t] = "S_0_" + std::to_string(u); }
        }
        nf += lf; badf += lb;
        uint64_t s = seed * 0x9E3779B97F4A7C15ULL + t + 1, ld = 0, lbd = 0;
        for (uint64_t i = 0; i < ndbl / nth; i++) {
            s ^= s << 13; s ^= s >> 7; s ^= s << 17; uint64_t b = s; if (((b >> 52) & 0x7FF) == 0x7FF) continue;
            double x; memcpy(&x, &b, 8); ss.Clear();
            Digit::NumberToString(ss, x, Digit::RealFormatInfo{17U, Digit::RealFormatType::Default});
            bool ok; double d = back(ss, ok); uint64_t v; memcpy(&v, &d, 8); ld++;
            if (!ok || v != b) { lbd++; if (first[t].empty()) first[t] = "R_0_" + std::to_string(b); }
        }
        ndone += ld; badd += lbd;
    });
    for (auto &x : th) x.join();
    std::string f; for (auto &x : first) if (!x.empty()) { f = x; break; }
    printf("floats=%llu bad_floats=%llu doubles=%llu bad_doubles=%llu first=%s\n", (unsigned long long)nf.load(), (unsigned long long)badf.load(),
           (unsigned long long)ndone.load(), (unsigned long long)badd.load(), f.empty() ? "-" : f.c_str());
    return 0;
}
"""


def sweep(rep, tier):
    """C++-side sweep (no model): quick = every 4096th float + 200k doubles; thorough = all floats + 20M doubles."""
    src = os.path.join(vlib.BUILD, "c11_sweep.cpp")
    exe = os.path.join(vlib.BUILD, "c11_sweep")
    key = vlib.tree_hash([vlib.INC], SWEEP_SRC)
    if not (os.path.exists(exe) and os.path.exists(exe + ".key") and open(exe + ".key").read() == key):
        open(src, "w").write(SWEEP_SRC)
        rc, out, err = vlib.run([vlib.CXX, "-std=c++17", "-O2", "-pthread", "-I" + vlib.INC, src, "-o", exe], timeout=600)
        if rc != 0:
            return None, "sweep does not compile: " + err[-1500:]
        open(exe + ".key", "w").write(key)
    args = ["4", "4099", "200000", str(rep.seed)] if tier == "quick" else ["6", "1", "20000000", str(rep.seed)]
    rc, out, err = vlib.run([exe] + args, timeout=7200)
    if rc != 0:
        return None, "sweep failed: " + err[-500:]
    kv = dict(x.split("=") for x in out.strip().split(" "))
    return kv, out.strip()


def check(tier):
    rep = vlib.Report(PROP, tier, "proof")
    rng = random.Random(rep.seed)
    st = vlib.proof_stage(rep, PROP_V, [dl.COMP], tables=dl.TABLES, clean=False)
    proof_ok = st["ok"]
    theorems = st["theorems"]
    exe = dl.build_driver(rep, PROP)
    if exe is None:
        rep.cov = {"obligations": max(1, len(theorems)), "discharged": 0, "checker_cmd": "make -C coq " + PROP_V + "o", "trusted_base": dl.TRUSTED}
        return rep.finish()
    listed = dl.known_classes(PROP)
    cases, dist = gen_cases(rng, tier, 1 if proof_ok else 4)
    cases = dl.corpus_cases(PROP) + cases
    run = dl.run_cases(exe, cases)
    cnt, mism, fails = dl.judge(PROP, rep, run, proof_ok, listed)
    kv, line = sweep(rep, tier)
    extra = []
    if kv is None:
        rep.notes.append(line)
        rep.violation({"broken": "the C++ round-trip sweep (tools/props/c11.py SWEEP_SRC) does not build or run against the current tree", "log": line}, no_input=True)
    else:
        rep.notes.append("C++ sweep: " + line)
        if kv.get("first", "-") != "-":
            c = kv["first"].replace("_", " ")
            r2 = dl.run_cases(exe, [c])
            cnt2, mism2, fails2 = dl.judge(PROP, rep, r2, proof_ok, listed)
            fails += fails2
            mism += mism2
    dl.report(PROP, rep, cnt, mism, fails, proof_ok, st, PROP_V + "o")
    rep.cov = {
        "obligations": len(theorems) if theorems else 1,
        "discharged": len(theorems) if proof_ok else 0,
        "checker_cmd": "cd coq && make %so (coqc 8.16.1) ; coqc -Q . Qv %s for Print Assumptions" % (PROP_V, PROP_V),
        "trusted_base": dl.TRUSTED,
        "theorems": [{"name": n, "assumptions": a} for n, a in theorems],
        "evaluations": len(cases) + (int(kv["floats"]) + int(kv["doubles"]) if kv else 0),
        "distinct_nontrivial": len(set(cases)),
        "rule": "model-compared cases: every binade of double and float (random and edge mantissas), uniform bit patterns, 10^k and 2^k +- 3 ulp, subnormals, largest finite, +-0, decimal-looking values, integers; char / char16_t / char32_t; intermediate text and parse result compared with the extracted model, bit equality judged by DigitModelSpec.c11_double_oracle / c11_float_oracle. C++-only sweep (no model): " + ("every 4099th float and 200k uniform doubles" if tier == "quick" else "ALL 2^32 float bit patterns (finite ones) and 20M uniform doubles"),
        "samples": [cases[0], cases[len(cases) // 2], cases[-1]],
        "input_distribution": dist,
        "traces_validated_against_impl": len(run.rows),
        "oracle_failures": cnt["oracle_fail"],
        "model_impl_mismatches": cnt["mismatch"],
        "crashes": cnt["crash"],
        "sweep": kv,
    }
    rep.assumptions = [
        "NO unbounded theorem: the round trip over all doubles is a Definition (c11_roundtrip_all); it is tested, not proved",
        "float sweep: exhaustive over a finite domain in the thorough tier, on the C++ side only (a test)",
        "requires the C09 / C10 patches (findings/D28, D33, D41..D46) applied to /repo",
    ]
    return rep.finish()


def replay(path):
    d = json.load(open(path))
    case = d.get("case") or (d.get("first_mismatch") or {}).get("case")
    if not case:
        print("replay names a broken obligation, not an input:", d.get("broken"))
        return 1
    exe, msg = vlib.build_cpp("drv_digit", "drv_digit.cpp")
    run = dl.run_cases(exe, [case])
    (c, full, i, m, code, ref) = run.rows[0]
    print("case:", case, "\nimpl text|parse:", dl.text_of(i.split("|")[0]), i.split("|")[-1], "\nmodel:", m, "\noracle code:", code)
    return 0 if (code == 1 and i == m) else 1
