"""C01 -- rendering any template text with any value is memory-safe and terminates.

Partial (DESIGN.md C01): proved in Coq (Properties_C01.v) for the scanner the
parser is built on (Finder::Next: no out-of-bounds read, progress, equals the
structural specification; the parser's main loop consumes at most |text|
matches) and tied to the C++ Finder by a differential run.  The parser and
renderer as a whole are NOT modelled for malformed input: for them this check
is a sanitizer search (ASan+UBSan, exact-size buffers, exact-fit growth hook)
over grammar templates, their mutations, token soup and boundary shapes."""
import json
import random

import vlib
from vlib import fmt_list
import tmplgen as g
import c02
import tparse
import trender

PROP = "C01"


def boundary_templates(rng):
    """shapes aimed at the narrow fields of Tags.hpp and at the parser's look-aheads"""
    out = []
    for n in (254, 255, 256, 257, 511, 512):
        out.append("{var:" + "a" * n + "}")
        out.append("{raw:" + "b" * n + "[0]}")
        out.append("{svar:" + "c" * n + ", {var:a}}")
        out.append("<loop value=\"" + "v" * n + "\">{var:" + "v" * n + "}</loop>")
        out.append("<loop set=\"" + "s" * n + "\" value=\"v\">{var:v}</loop>")
    for n in (65530, 65535, 65536, 65540):
        out.append("{if case=\"1\" true=\"" + "t" * n + "\" false=\"f\"}")
        out.append("{if case=\"0\" true=\"t\" false=\"" + "f" * n + "{var:a}\"}")
        out.append("<loop value=\"v\"  " + " " * n + ">{var:v}</loop>")
    for d in (200, 255, 256, 257, 300):
        out.append("<if case=\"1\">" * d + "<loop value=\"v\">{var:v}</loop>" + "</if>" * d)
        out.append("<loop value=\"v\">" * d + "{var:v}" + "</loop>" * d)
        out.append("<loop set=\"a\">" * d + "x")
    out += ["{", "}", "<", "{var:", "{var:}", "{raw:}", "{math:}", "{math:", "{svar:", "{svar:}", "{if", "{if }", "{if case", "{if case=", "{if case=\"",
            "{if case=\"1", "{if case=\"1\"", "{if case=\"1\" true=", "{if case=\"1\" true=\"", "{if case=\"1\" true=\"x", "<loop", "<loop>", "<loop ", "<loop value",
            "<loop value=", "<loop value=\"", "<loop value=\"v", "<loop value=\"v\"", "<loop value=\"v\">", "</loop>", "<if", "<if ", "<if case", "<if case=\"1", "<if case=\"1\"",
            "<if case=\"1\">", "</if>", "<else", "<else>", "<else if", "<if case=\"1\"><else", "<if case=\"1\"><else if", "<if case=\"1\"><else if case=\"", "{math:1+}", "{math:+}",
            "{math:(}", "{math:)}", "{math:(1}", "{math:1|}", "{math:1&}", "{math:1=}", "{math:1!}", "{math:1<}", "{math:1>}", "{math:{var:}", "{math:{var:a}", "{var:a[}", "{var:a[]}",
            "{var:[0]}", "{var:a[0][}", "{var:a]}", "{var:]}", "{math:5 % 0}", "{math:5 / 0}", "{math:2 ^ 0.5}", "{math:0.5 / 100}", "{math:9223372036854775807 + 1}",
            "{math:-9223372036854775808 % -1}", "{math:1e400}", "{math:0x}", "{svar:a, }", "{svar:a,,}", "{svar:, {var:a}}"]
    # loop heads in every attribute order, with set / value / group names that are prefixes of one another
    # (the loop-variable lookup matches by prefix; value= before set= resolves the set against ... what?)
    import itertools
    attrs = {"set": ["items", "item", "list", "v", "obj"], "value": ["item", "items", "v", "lis", "o"], "group": ["g", "item"], "sort": ["ascend", "descend"]}
    for order in itertools.permutations(["set", "value", "group", "sort"]):
        for k in (2, 3, 4):
            names = order[:k]
            for pick in range(3):
                head = " ".join('%s="%s"' % (a, attrs[a][(pick + i) % len(attrs[a])]) for i, a in enumerate(names))
                vname = attrs["value"][(pick + names.index("value")) % 5] if "value" in names else "v"
                out.append("<loop " + head + ">{var:" + vname + "}{var:" + vname + "[name]}</loop>")
    out += ['<loop value="item" set="items">{var:item}</loop>', '<loop value="v" set="v">{var:v}</loop>', '<loop value="items" set="items">{var:items}</loop>',
            '<loop set="list" value="v"><loop value="v1" set="v1x">{var:v1}</loop><loop value="w" set="v">{var:w}</loop></loop>',
            '<loop set="items" value="it"><loop value="it2" set="it2[name]">{var:it2}</loop><loop value="x" set="it">{var:x}</loop></loop>']
    # a loop at nesting level 6..12 inside an enclosing loop with several items: the loop-slot array grows while the
    # enclosing loop is still iterating (every open <loop>, <if>, {svar:} and inline {if} counts as a level)
    for d in (1, 2, 3, 6, 7, 8, 9, 12, 17):
        out.append('<loop set="list" value="a">' + '<if case="1">' * d + '<loop set="list" value="b">.</loop>' + "</if>" * d + "{var:a}</loop>")
        out.append('<loop set="list" value="a">' + '<if case="1">' * d + '<loop set="obj" value="b"><loop set="list" value="c">{var:c}</loop>{var:b}</loop>' + "</if>" * d + "{var:a};</loop>")
        out.append('<loop set="list" value="a">{svar:a, ' + '{var:a}' + '}' + '<if case="1">' * d + '{if case="1" true="<loop>" false="{var:a}"}<loop set="list" value="b">{var:b}{var:a}</loop>' + "</if>" * d + "</loop>")
    # findings/D91: Level is 8 bits wide.  An inner loop under 254..257 open <if> inside an enclosing loop: up to 255 open
    # tags it is a loop with Level = its depth; deeper it is left as text (its </loop> then closes nothing).  Before the fix
    # the inner loop at depth 256 shared slot 0 with the enclosing loop (wrong item, use after free with sort=).
    for d in (253, 254, 255, 256, 257):
        out.append('<loop set="list" value="a">' + '<if case="1">' * d + '<loop set="obj" value="b">{var:b}</loop>' + "</if>" * d + "{var:a};</loop>")
        out.append('<loop set="list" value="a">' + '<if case="1">' * d + '<loop set="list" value="b" sort="descend">{var:b}</loop>' + "</if>" * d + "{var:a};</loop>")
        out.append('<if case="1">' * (d + 1) + '<loop set="list" value="b" sort="ascend">{var:b}<loop value="c">{var:c}</loop></loop>' + "</if>" * (d + 1))
    # sub tags of an inline if that cross the closing quote of their value, quotes inside tag names
    out += ['{if case="1" true="{var:a"}}', '{if case="1" true="{var:a"} false="b"}', '{if case="0" true="t" false="{raw:a"}}', '{if case="1" true="x{math:1+1"}y"}',
            '{if case="1" true="{var:a" false="{var:b"}}', "{if case='1' true='{var:a'}}", '{if case="1" false="{var:a}" true="{var:b"}"}', '{if case="1" true="{svar:a, {var:b"}}"}',
            '<loop set="list" value="v">{if case="1" true="{var:v"}}</loop>', '{if case="1" true="{var:a}{var:b"}}x', '{if case="{var:a"}" true="t"}']
    # arithmetic that must not trap: real operands at the int64 boundaries under % / ^ with divisors around -1 and 0
    for left in ("(0 - 4611686018427387904) * 2.0", "(0 - 9223372036854775807) - 1.5 + 0.5", "4611686018427387904 * 2.0", "18446744073709551615 * 1.0", "{var:rmin}", "{var:rmax}"):
        for op in ("%", "/", "^"):
            for right in ("(0 - 1)", "(0 - 1.5)", "(0 - 0.5)", "0", "(0 * (0 - 1.5))", "1", "{var:m1}", "{var:mz}"):
                out.append("{math:" + left + " " + op + " " + right + "}")
    out += ['{if case="{var:rmin} % {var:m1}" true="t" false="f"}', '<if case="({var:rmin} % (0-1)) == 0">a<else>b</if>']
    # super variables without a usable name (empty, or of 256 / 512 units: the 8-bit length is 0) inside open blocks,
    # followed by closing braces: nothing may be popped that the tag did not push
    for nm in ("", "n" * 256, "n" * 512, " "):
        for body in (",}", ",{var:a}}", ", {var:v}, {raw:a}}", "}", ",}}", ",{math:1+1}}x}"):
            sv = "{svar:" + nm + body
            out += ['<if case="1">' + sv + "x}</if>y", '<loop set="list" value="v">' + sv + "{var:v}}</loop>z", '<if case="1"><loop set="list" value="v">' + sv + "}</loop></if>",
                    '{if case="1" true="' + sv + '" false="f"}', sv, '<if case="0">a<else>' + sv + "}</if>"]
    # every proper prefix of complete templates of each tag kind (truncation at every offset)
    full = ['x{var:a[0][k]}y', '{raw:list[1]}', '{math:1 + {var:v} * (2 - 1) >= 3 && 1}', '{svar:a, {var:v}, {raw:a}, {math:1+1}}',
            '{if case="{var:v} == 1" true="T{var:a}" false="F{raw:a}"}', "{if case='1' true='y'}",
            '<if case="{var:v} > 0">A<else if case="1 != 2">B<elseif case="0" />C<else />D</if>',
            '<if case="1">a<else if case="{var:a}">b<else>c</if>',
            '<loop set="list" value="item" sort="descend">{var:item}<loop set="obj" value="o" group="k">{var:o}</loop></loop>',
            '<loop value="v">{if case="{var:v}" true="{var:v}"}<if case="{var:v}">{math:{var:v}+1}</if></loop>']
    for t in full:
        for k in range(1, len(t)):
            out.append(t[:k])
    return out


def gen_fuzz(rng, n):
    cases = []
    dist = {"grammar": 0, "mutated": 0, "soup": 0}
    for _ in range(n):
        root = g.gen_root(rng)
        r = rng.random()
        if r < 0.3:
            t = g.print_nodes(g.gen_nodes(rng, [], 0))
            dist["grammar"] += 1
        elif r < 0.8:
            t = g.print_nodes(g.gen_nodes(rng, [], 0))
            for _k in range(rng.choice([1, 1, 2, 3])):
                t = g.mutate(rng, t)
            dist["mutated"] += 1
        else:
            t = g.token_soup(rng, rng.randrange(1, 25))
            dist["soup"] += 1
        cases.append((rng.choice([0, 0, 1, 2, 3]), t, root))
    return cases, dist


def lines_of(cases, mode=0):
    return [g.case_line(w, mode, t, v) for (w, t, v) in cases]


def check(tier):
    rep = vlib.Report(PROP, tier, "proof")
    rng = random.Random(rep.seed)
    st = vlib.proof_stage(rep, "Properties_C01.v", ["finder", "tparse", "trender"], tables=tuple(tparse.TABLES))
    exe, msg = c02.build("sse2")
    if exe is None:
        rep.violation({"broken": "cpp/drv_tmpl.cpp does not build against the current tree", "log": msg}, no_input=True)
        rep.cov = {"obligations": 1, "discharged": 0, "checker_cmd": "make -C coq Properties_C01.vo", "trusted_base": vlib.TRUSTED_BASE_COMMON}
        return rep.finish()
    boost = 1 if st["ok"] else 4

    # ---- (a) Finder: model / spec / implementation on the same texts
    nf = (4000 if tier == "quick" else 60000) * boost
    ftexts = []
    for _ in range(nf):
        r = rng.random()
        if r < 0.6:
            t = g.token_soup(rng, rng.randrange(0, 14))
        elif r < 0.9:
            t = g.mutate(rng, g.print_nodes(g.gen_nodes(rng, [], 0)))
        else:
            t = "".join(rng.choice("{}<>/:varwmthsiflopel ") for _ in range(rng.randrange(0, 40)))
        ftexts.append((rng.randrange(4), t))
    flines = ["%d 3 %s -" % (w, fmt_list([ord(c) for c in t])) for (w, t) in ftexts]
    fimpl, fcr = vlib.run_sharded(exe, [], flines)
    mexe, mmsg = vlib.build_ocaml("finder")
    fed = ["%d %s %s" % (w, fmt_list([ord(c) for c in t]), i.split(" ")[0]) for (w, t), i in zip(ftexts, fimpl)]
    fres, _ = vlib.run_sharded(mexe, [], fed) if mexe else ([], [])
    f_fail, f_mis = [], []
    for (w, t), i, r in zip(ftexts, fimpl, fres):
        parts = r.rsplit(" ", 1)
        if len(parts) != 2:
            f_mis.append((w, t, i, r))
        elif parts[1] != "1":
            f_fail.append((w, t, i, parts[0]))
        elif parts[0] != i:
            f_mis.append((w, t, i, parts[0]))
    for (w, t, i, m) in f_fail[:2]:
        def still(u, w=w):
            tt = "".join(u)
            o, _ = vlib.run_sharded(exe, [], ["%d 3 %s -" % (w, fmt_list([ord(c) for c in tt]))], shards=1)
            rr, _ = vlib.run_sharded(mexe, [], ["%d %s %s" % (w, fmt_list([ord(c) for c in tt]), o[0].split(" ")[0])], shards=1)
            return not rr[0].endswith(" 1")
        small = "".join(vlib.shrink_list(list(t), still, max_steps=200))
        rep.violation({"component": "Finder::Next", "width": w, "text": small, "observed_impl_matches": i, "model": m,
                       "oracle": "match list differs from the structural specification (first tag word at or after the cursor)"})

    # ---- (a2) the parser model: tag trees of the real parser vs TparseModel on arbitrary texts
    pr = tparse.correspond(rng, tier, boost)
    for e in pr["errors"][:2]:
        # the model predicts an out-of-contract access for this text: a C01 finding in the real parser
        rep.violation({"component": "Template.hpp::parse (model outcome Error)", "width": e.get("width"), "text": e.get("text"), "text_units": e.get("text_units"),
                       "model": e.get("model", "")[:500], "impl_tree": e.get("impl", "")[:500],
                       "oracle": "the parser model must not reach an Error outcome (c01_parse_safe no longer describes the code)"})

    # ---- (a3) the renderer model: complete output of parse + render, model vs C++, on arbitrary texts
    # (expression evaluation is replaced by the same constant on both sides; values: fixed tree + generated roots)
    rr = trender.correspond(rng, tier, boost)
    for e in rr["errors"][:2]:
        rep.violation({"component": "Template.hpp render (model outcome RError)", "detail": json.dumps(e)[:1500],
                       "oracle": "the renderer model must not reach an error outcome (c01_render_all_safe no longer describes the code)"})

    # ---- (b) safety search over the whole parser + renderer
    n = (6000 if tier == "quick" else 150000) * boost
    cases, dist = gen_fuzz(rng, n)
    bt = tparse.boundary_texts()      # c01.boundary_templates plus the narrow-field shapes of the parser
    # deep nestings iterate the root at every level: a one-member root keeps the work linear
    bcases = [(rng.choice([0, 1, 2, 3]), t, ({"a": "x"} if t.count("<loop") > 50 else {"a": "x", "v": 1, "list": [1, [2], 3], "obj": {"k": 1, "k2": "z"}, "items": [{"name": "n", "g": "p"}, {"g": "q", "name": "m"}], "item": [4, 5],
                                                                                                      "rmin": -9223372036854775808.0, "rmax": 9223372036854775808.0, "m1": -1, "mz": -0.0})) for t in bt]
    bcases += [(0, t, [[1, 2], {"a": 1}, "s"]) for t in bt[:40] if t.count("<loop") < 50]
    allcases = bcases + cases
    impl, crashes = vlib.run_sharded(exe, [], lines_of(allcases), timeout=600)
    groups = {}
    for (w, t, v), r in zip(allcases, impl):
        if r.startswith("CRASH"):
            groups.setdefault(r, []).append((w, t, v))
    nviol = 0
    for tag, lst in sorted(groups.items(), key=lambda kv: -len(kv[1])):
        if nviol >= 4:
            break
        w, t, v = min(lst, key=lambda x: len(x[1]))

        def crash(u, w=w, v=v, tag=tag):
            o, _ = vlib.run_sharded(exe, [], [g.case_line(w, 0, "".join(u), v)], shards=1)
            return bool(o) and o[0] == tag
        small = "".join(vlib.shrink_list(list(t), crash, max_steps=250)) if len(t) < 3000 else t
        v2 = v
        if isinstance(v, dict):
            for k in list(v.keys()):
                cand = {a: b for a, b in v2.items() if a != k}
                if crash(list(small), v=cand):
                    v2 = cand
        nviol += 1
        rep.violation({"component": "Template::Render", "width": w, "template": small if len(small) < 2000 else small[:200] + "...(%d units)" % len(small),
                       "template_units": fmt_list([ord(c) for c in small]), "value_json": json.dumps(v2), "sanitizer": tag,
                       "occurrences_in_this_run": len(lst), "oracle": "rendering must return normally without a sanitizer report"})
    # other builds
    builds = ["sse2"]
    extra_runs = 0
    if not rep.violations:
        todo = [("off", None)] + ([("scalar", None), ("avx2", None)] if tier == "thorough" else [])
        for name, _x in todo:
            if name == "off":
                e2, m2 = vlib.build_cpp("drv_tmpl_off", "drv_tmpl.cpp", defines=["QENTEM_AUTO_ESCAPE_HTML=0", "QENTEM_SSE2=1"], extra=["-msse2"])
            else:
                e2, m2 = c02.build(name)
            if e2 is None:
                rep.notes.append("build %s failed" % name)
                continue
            sub = allcases[: max(1500, len(allcases) // 5)]
            i2, c2 = vlib.run_sharded(e2, [], lines_of(sub), timeout=1800)
            extra_runs += len(sub)
            builds.append(name)
            bad = [(x, r) for x, r in zip(sub, i2) if r.startswith("CRASH")]
            if bad:
                (w, t, v), r = bad[0]
                rep.violation({"component": "Template::Render", "build": name, "width": w, "template": t[:2000], "template_units": fmt_list([ord(c) for c in t]),
                               "value_json": json.dumps(v), "sanitizer": r, "oracle": "rendering must return normally without a sanitizer report"})
    if not rep.violations and (f_mis or not st["ok"] or pr["mismatches"] or rr["mismatches"]):
        what = []
        if rr["mismatches"]:
            what.append("correspondence TrenderModel.render_model vs Template::Render differs (rendered output): " + json.dumps(rr["mismatches"][0])[:1200])
        if pr["mismatches"]:
            what.append("correspondence TparseModel.parse_model vs TemplateCore::Parse differs (tag trees): " + json.dumps(pr["mismatches"][0])[:1200])
        if not st["ok"]:
            what.append("coq/Properties_C01.vo no longer builds (Finder theorems not re-established)")
        if f_mis:
            what.append("correspondence FinderModel.next vs Finder::Next differs while the specification is met: " + repr(f_mis[0])[:300])
        rep.violation({"broken": what, "coq_log": st["log"][-3000:] if not st["ok"] else ""}, no_input=True)

    theorems = st["theorems"]
    distinct = len({(w, t) for (w, t, v) in allcases if any(x in t for x in ("{", "<"))})
    rep.cov = {
        "obligations": len(theorems) if theorems else 1,
        "discharged": len(theorems) if st["ok"] else 0,
        "checker_cmd": "cd coq && make Properties_C01.vo (coqc 8.16.1) ; coqc -Q . Qv Properties_C01.v for Print Assumptions",
        "trusted_base": vlib.TRUSTED_BASE_COMMON + [
            "modelled and proved: Finder::Next (FinderModel.v, %d texts compared) and the whole of Template.hpp::parse incl. the attribute scanners and the reads of the expression parser (TparseModel.v; tag trees compared field by field on %d texts)" % (len(ftexts), pr.get("n", 0)),
            "renderer modelled (TrenderModel.v, every slice / index / start id checked; proved never to fail on parse's trees for an abstract value type); its complete output compared with the C++ on %d cases with expression evaluation replaced by a constant on both sides" % rr.get("n", 0),
            "abstract in the renderer theorem (not covered by it): the value side (lookup, FastStringToNumber, GroupBy, Sort, CopyValueTo, number formatting) and expression evaluation incl. its own getValue calls -- these are C12/C13/C15/C18/C10/C04; array capacity / reallocation and everything the model cannot exhibit is covered by the sanitizer search (a test): g++ ASan+UBSan, exact-size input buffers, exact-fit growth hook QENTEM_VERIF"],
        "theorems": [{"name": a, "assumptions": b} for a, b in theorems],
        "evaluations": len(allcases) + len(ftexts) + extra_runs + pr.get("n", 0) + rr.get("n", 0),
        "distinct_nontrivial": distinct,
        "rule": "templates from the documented grammar, 1-3 mutations of them (truncation, deletion, token insertion, slice move, duplication, unit replacement), token soup, boundary shapes (255/256-unit names, 65535-unit inline-if values, nesting 200-300, every prefix of every tag head), x generated value trees, 4 widths; non-trivial = contains a tag opener; distinct by (width, text)",
        "samples": [allcases[0][1][:120], cases[0][1][:300], cases[len(cases) // 2][1][:300]],
        "input_distribution": dict(dist, boundary=len(bcases), finder_texts=len(ftexts)),
        "builds": builds,
        "sanitizer_reports": {k: len(v) for k, v in groups.items()},
        "parser_model_texts": pr.get("n", 0), "parser_model_nonempty_trees": pr.get("distinct_nonempty_trees", 0),
        "parser_model_mismatches": pr.get("n_mismatch", len(pr["mismatches"])), "parser_model_errors": pr.get("n_error", len(pr["errors"])),
        "parser_model_distribution": pr.get("distribution", {}),
        "renderer_model_cases": rr.get("n", 0), "renderer_model_mismatches": rr.get("n_mismatch", len(rr["mismatches"])), "renderer_model_errors": rr.get("n_error", len(rr["errors"])),
        "renderer_model_distribution": rr.get("distribution", {}),
        "finder_spec_failures": len(f_fail),
        "finder_model_mismatches": len(f_mis),
    }
    rep.assumptions = ["partial: whole-parser safety is searched, not proved", "stack depth / timing are runtime quantities outside the model"]
    return rep.finish()


def replay(path):
    d = json.load(open(path))
    if "template_units" not in d and "text" not in d:
        print("replay names a broken obligation, not an input:", d.get("broken"))
        return 1
    exe, msg = c02.build("sse2")
    if "text" in d:
        o, _ = vlib.run_sharded(exe, [], ["%d 3 %s -" % (d["width"], fmt_list([ord(c) for c in d["text"]]))], shards=1)
        print("impl matches:", o)
        return 1
    line = "%d 0 %s %s" % (d["width"], d["template_units"], fmt_list([ord(c) for c in d["value_json"]]))
    rc, out, err = vlib.run_lines(exe, [], [line])
    print("rc", rc, "out", out[:1])
    print("\n".join(l for l in err.split("\n") if "ERROR" in l or "SUMMARY" in l or "runtime error" in l))
    return 0 if rc == 0 else 1
