"""C20 -- code points encode to standard UTF-8/16/32 and \\u escapes decode to them.

Proof: coq/Properties_C20.v.  The encoder facts (UTF-8, UTF-16) and three
       arithmetic facts about \\uXXXX are finite sweeps over the whole domain
       (coq/UniSweep*.v, vm_compute, lifted with forall_bits_spec); UTF-32, the hex
       text, and everything about strings (any neighbours, any number of escapes)
       are symbolic / by induction.
Tie:   gen/Tables_uni.v (digit and JSON notation characters of the current headers)
       + the real Unicode::ToUTF (char, char16_t, char32_t, wchar_t) on ALL 1,112,064 scalar values and the
       real JSON::Parse of ["\\uXXXX"] / ["\\uD8xx\\uDCxx"] on ALL of them (lower, upper,
       mixed case with neighbours), compared with the extracted model and judged by
       the extracted specification oracle (cpp/drv_uni.cpp, ocaml/uni.ml).

Quick tier: the C++ side is exhaustive everywhere.  Direct encoding is judged by the
extracted oracle on every code point.  The JSON results are (a) compared, for every
code point, with the oracle-approved direct encoding of the same code point (string
comparison, neighbours added) -- any difference is then handed to the oracle as an
individual case -- and (b) judged by the extracted model/oracle on every 7th code
point (phase from the seed) and on all range boundaries +-2.
Thorough tier: the extracted model and oracle run on every code point as well.

Model = code with /verif/findings/D11_high_surrogate_range.patch and
D92_lone_high_surrogate_swallows_quote.patch and D93_short_hex_escape_accepted.patch applied
(every \\uXXXX group needs four hexadecimal digits; a high surrogate joins only with a
following \\u / \\U escape; otherwise the parse fails)."""
import json
import os
import random
import time

import vlib
from vlib import fmt_list, parse_list

PROP = "C20"
COMP = "uni"
WIDTHS = (1, 2, 4, 5)      # character kinds: char, char16_t, char32_t (= sizeof), 5 = wchar_t (encoder by sizeof(wchar_t))
TOPS = {1: 0xFF, 2: 0xFFFF, 4: 0x10FFFF, 5: 0x10FFFF}   # TOPS[5] is set from gen/Tables_uni.v (uni_sizeof_wc)
NW = len(WIDTHS)
TOP = 0x110000
BLOCK = 4096
LOWER, UPPER = 0, 15

# range boundaries of the encodings, of the surrogate block and of the D8xx/D9xx.. high surrogates
EDGES = [0, 0x7F, 0x80, 0x7FF, 0x800, 0xFFF, 0x1000, 0xD7FF, 0xE000, 0xFFFF, 0x10000, 0x103FF, 0x10400,
         0x1FFFF, 0x20000, 0x3FFFF, 0x40000, 0x4FFFF, 0x50000, 0x7FFFF, 0x80000, 0x8FFFF, 0x90000,
         0xCFFFF, 0xD0000, 0xFFFFF, 0x100000, 0x10FC00, 0x10FFFF]


def scalar(cp):
    return 0 <= cp < TOP and not (0xD800 <= cp <= 0xDFFF)


def boundary_cps():
    s = set()
    for e in EDGES:
        for d in range(-2, 3):
            if scalar(e + d):
                s.add(e + d)
    return sorted(s)


def count_range(lo, hi, step):
    return sum(1 for cp in range(lo, hi, step) if not 0xD800 <= cp <= 0xDFFF)


def eq(i, mo):
    """range lines answer '=' when all code points agree; single cases print the model's units"""
    if mo[:1] in ("=", "M", "S") and not mo[:1].isdigit():
        return mo == "="
    return i == mo


def corpus_cases():
    res = []
    p = os.path.join(vlib.ROOT, "corpus", PROP, "cases.txt")
    if os.path.exists(p):
        for line in open(p):
            line = line.strip()
            if line and not line.startswith("#"):
                res.append(line)
    return res


def plain_units(rng, w, n):
    """neighbours: units that UnEscape copies (no quote, backslash, LF, TAB, CR), valid for the width"""
    top = TOPS[w]
    out = []
    while len(out) < n:
        r = rng.random()
        if r < 0.5:
            u = rng.randrange(32, 127)
        elif r < 0.6:
            u = rng.choice([0x75, 0x55, 0x64, 0x44, 0x38, 0x2F, 0x30, 0x66, 0x46, 1, 8, 12, 0x7F, 0x80, top])
        else:
            u = rng.randrange(1, top + 1)
        if u in (34, 92, 10, 9, 13, 0):
            continue
        out.append(u)
    return out


NONHEX = [71, 103, 122, 32, 47, 58, 64, 96, 45, 120]      # G g z space / : @ ` - x


def raw_surrogate_cases(rng, n):
    """T cases (model / implementation agreement, outside the property):
    D92 -- a high surrogate escape followed by 0..8 ordinary units or by another kind of escape
    (fails), by \\u / \\U and four arbitrary units (a pair if the four are hexadecimal digits --
    whatever their value -- else fails), or standing at the end of the text;
    D93 -- an escape whose group has only 0..3 hexadecimal digits before a unit that is not
    one (or before the end of the text), as a single escape, as the first and as the second
    half of a pair (fails)"""
    out = []

    def hexdigits(k):
        return [rng.choice([48, 49, 57, 65, 70, 97, 102, 100, 68, 56]) for _ in range(k)]

    def short_group():
        d = rng.randrange(0, 4)
        return hexdigits(d) + [rng.choice(NONHEX)] + hexdigits(rng.randrange(0, 3))

    for _ in range(n):
        w = rng.choice(WIDTHS)
        hi = rng.randrange(0xD800, 0xDC00)
        u = lambda: rng.choice([117, 117, 85])
        esc = [92, u()] + [ord(c) for c in (rng.choice(["%04x", "%04X"]) % hi)]
        kind = rng.randrange(9)
        if kind == 0:
            tail = plain_units(rng, w, rng.randrange(0, 9))
        elif kind == 1:
            tail = [92, rng.choice([110, 114, 116, 98, 102, 47, 92, 34])] + plain_units(rng, w, rng.randrange(0, 7))
        elif kind == 2:
            four = [rng.choice([48, 57, 65, 70, 97, 102, 71, 103, 32, 45] + plain_units(rng, w, 3)) for _ in range(4)]
            tail = [92, u()] + four + plain_units(rng, w, rng.randrange(0, 4))
        elif kind == 3:
            tail = []
        elif kind == 4:
            # one or two units short of a second escape, or u/U without the backslash
            tail = rng.choice([[92], [117], [85, 100, 99, 48, 48], [92, 117], [92, 117, 100], [92, 117, 100, 99, 48],
                               [47, 117, 100, 99, 48, 48], [92, 120, 100, 99, 48, 48]])
        elif kind == 5:
            # D93: single escape with a short digit group, then text or the end of the text
            esc = [92, u()] + (short_group() if rng.random() < 0.7 else hexdigits(rng.randrange(0, 4)))
            tail = plain_units(rng, w, rng.randrange(0, 5)) if rng.random() < 0.6 else []
        elif kind == 6:
            # D93: second half short
            tail = [92, u()] + (short_group() if rng.random() < 0.7 else hexdigits(rng.randrange(0, 4)))
            tail += plain_units(rng, w, rng.randrange(0, 5)) if rng.random() < 0.6 else []
        elif kind == 7:
            # D93: first half short, a complete second escape behind it
            esc = [92, u()] + [ord(c) for c in ("%04x" % hi)][:rng.randrange(0, 4)] + [rng.choice(NONHEX)]
            tail = [92, u()] + [ord(c) for c in "dc00"] + plain_units(rng, w, rng.randrange(0, 3))
        else:
            # four hexadecimal digits in the second half, any value: a pair
            tail = [92, u()] + hexdigits(4) + plain_units(rng, w, rng.randrange(0, 4))
        pre = plain_units(rng, w, rng.randrange(0, 3))
        out.append("T %d %s" % (w, fmt_list(pre + esc + tail)))
    return out


def expand_range_line(line, cp):
    """the single case behind code point cp of a range line"""
    tk = line.split(" ")
    if tk[1] == "E":
        return "E %s %d" % (tk[2], cp)
    return "J %s %s %s %d %s %s" % (tk[2], tk[3], tk[4], cp, tk[8], tk[9])


def check(tier):
    rep = vlib.Report(PROP, tier, "proof")
    rng = random.Random(rep.seed)
    st = vlib.proof_stage(rep, "Properties_C20.v", [COMP], tables=(("Tables_uni", "gentables_uni.cpp"),))
    if not st["ok"] and st.get("tables_ok", True) and not st.get("audit"):
        # one retry: a loaded machine (memory limit, timeout) must not be mistaken for a broken proof
        vlib.log("C20 proof stage failed, retrying once")
        st = vlib.proof_stage(rep, "Properties_C20.v", [COMP], tables=(("Tables_uni", "gentables_uni.cpp"),))
    theorems = st["theorems"]
    proof_ok = st["ok"]
    try:
        import re
        m = re.search(r"uni_sizeof_wc : N := (\d+)", open(os.path.join(vlib.COQ, "gen", "Tables_uni.v")).read())
        TOPS[5] = {1: 0xFF, 2: 0xFFFF}.get(int(m.group(1)), 0x10FFFF)
    except Exception:
        pass
    checker = "cd coq && make Properties_C20.vo  (coqc 8.16.1, full .vo build incl. the UniSweep*.vo sweeps) ; coqc -Q . Qv Properties_C20.v for Print Assumptions"
    tb = vlib.TRUSTED_BASE_COMMON + [
        "tools/gentables_uni.cpp (digit / JSON notation characters of the current headers)",
        "modelled: Unicode::ToUTF (3 widths; wchar_t takes the one of its size, gen/Tables_uni.v uni_sizeof_wc), Digit::HexStringToNumber, JSONUtils::UnEscape (complete) and the string case of JSON parseValue; the array wrapper [\"...\"] of the test documents is tied by the differential run only",
        "offsets/lengths < 2^32 (SizeT) assumed in the model of UnEscape",
    ]

    vlib.log("C20 proof stage %s (%d theorems) %.1fs" % ("ok" if proof_ok else "BROKEN", len(theorems), time.time() - rep.t0))
    exe, msg = vlib.build_cpp("drv_uni", "drv_uni.cpp")
    if exe is None:
        rep.violation({"broken": "cpp/drv_uni.cpp does not build against the current tree", "log": msg}, no_input=True)
        rep.cov = {"obligations": max(1, len(theorems)), "discharged": 0, "checker_cmd": checker, "trusted_base": tb}
        return rep.finish()

    full = (tier == "thorough") or not proof_ok      # extracted model on every code point
    shards = 4 if tier == "quick" else 8
    step = 1 if full else 7
    phase = rep.seed % 7
    dist = {}
    violations_cases = []     # (single case, impl, model, tag)
    mismatches = []           # (single case, impl, model)
    crashes = 0
    evaluations = 0

    # ---- A. direct encoding: every scalar value, four character types, C++ and extracted model/oracle
    e_lines = ["R E %d %d %d 1" % (w, lo, min(lo + BLOCK, TOP)) for w in WIDTHS for lo in range(0, TOP, BLOCK)]
    e_impl, e_cr = vlib.run_sharded(exe, [], e_lines, shards=shards)
    crashes += len(e_cr)
    mexe, mmsg = vlib.build_ocaml(COMP)
    if mexe is None:
        rep.violation({"broken": "extracted model (coq/model_uni.ml + ocaml/uni.ml) does not build", "log": mmsg}, no_input=True)
        rep.cov = {"obligations": max(1, len(theorems)), "discharged": 0, "checker_cmd": checker, "trusted_base": tb}
        return rep.finish()
    fed = [c + " " + (i.split(" ")[0] if i.startswith("CRASH") else i) for c, i in zip(e_lines, e_impl)]
    e_model, _ = vlib.run_sharded(mexe, [], fed, shards=shards)
    n_e = NW * (TOP - 2048)
    dist["encode_exhaustive"] = n_e
    evaluations += n_e
    suspects = []
    e_blob = {}
    for c, i, m in zip(e_lines, e_impl, e_model):
        tk = c.split(" ")
        e_blob[(int(tk[2]), int(tk[3]))] = i
        if m != "= 1":
            cp = int(m[1:].split(":")[0]) if m[:1] in "MS" and m[1:2].isdigit() else int(tk[3])
            suspects.append(expand_range_line(c, cp))

    vlib.log("C20 direct encoding, exhaustive both sides: %.1fs" % (time.time() - rep.t0))
    # ---- B. JSON escapes, C++ exhaustive: lower, upper, mixed case with neighbours
    configs = [(LOWER, LOWER, [], []), (UPPER, UPPER, [], [])]
    j_lines = []
    for w in WIDTHS:
        cfgs = list(configs)
        k1, k2 = rng.randrange(32), rng.randrange(32)
        cfgs.append((k1, k2, plain_units(rng, w, rng.randrange(1, 4)), plain_units(rng, w, rng.randrange(1, 4))))
        if tier != "quick":
            for _ in range(2):
                cfgs.append((rng.randrange(32), rng.randrange(32), plain_units(rng, w, rng.randrange(0, 6)), plain_units(rng, w, rng.randrange(0, 6))))
        for (k1, k2, pre, post) in cfgs:
            for lo in range(0, TOP, BLOCK):
                j_lines.append("R J %d %d %d %d %d 1 %s %s" % (w, k1, k2, lo, min(lo + BLOCK, TOP), fmt_list(pre), fmt_list(post)))
    j_impl, j_cr = vlib.run_sharded(exe, [], j_lines, shards=shards)
    crashes += len(j_cr)
    n_j = 0
    for c, i in zip(j_lines, j_impl):
        tk = c.split(" ")
        w, lo, hi = int(tk[2]), int(tk[5]), int(tk[6])
        n_j += count_range(lo, hi, 1)
        pre, post = tk[8], tk[9]
        ref = e_blob.get((w, lo), "")
        if pre != "-" or post != "-":
            ref = ";".join((pre + "," if pre != "-" else "") + e + ("," + post if post != "-" else "") for e in ref.split(";"))
        if i != ref:
            a, b = i.split(";"), ref.split(";")
            cps = [cp for cp in range(lo, hi) if not 0xD800 <= cp <= 0xDFFF]
            bad = [cps[x] for x in range(min(len(a), len(b), len(cps))) if a[x] != b[x]]
            if not bad:
                bad = [cps[0]] if cps else []
            for cp in bad[:3]:
                suspects.append(expand_range_line(c, cp))
    dist["json_cpp_exhaustive"] = n_j
    evaluations += n_j

    vlib.log("C20 JSON escapes, C++ exhaustive: %.1fs" % (time.time() - rep.t0))
    # ---- C. JSON escapes through the extracted model and oracle: sampled (quick) or exhaustive
    d_lines = []
    for c in j_lines:
        tk = c.split(" ")
        if step == 1:
            d_lines.append(c)
        elif int(tk[5]) % (BLOCK * step) == 0:
            lo = int(tk[5])
            tk2 = list(tk)
            tk2[5], tk2[6], tk2[7] = str(lo + phase), str(min(lo + BLOCK * step, TOP)), str(step)
            d_lines.append(" ".join(tk2))
    n_d = sum(count_range(int(c.split(" ")[5]), int(c.split(" ")[6]), int(c.split(" ")[7])) for c in d_lines)
    dist["json_model_oracle_ranges"] = n_d
    # boundaries +-2, all widths, both cases and a mixed one, alone and with neighbours; corpus; suspects
    singles = corpus_cases()
    for w in WIDTHS:
        for cp in boundary_cps():
            singles.append("E %d %d" % (w, cp))
            for (k1, k2) in ((LOWER, LOWER), (UPPER, UPPER), (rng.randrange(32), rng.randrange(32))):
                singles.append("J %d %d %d %d - -" % (w, k1, k2, cp))
            singles.append("J %d %d %d %d %s %s" % (w, rng.randrange(32), rng.randrange(32), cp,
                                                    fmt_list(plain_units(rng, w, 2)), fmt_list(plain_units(rng, w, 2))))
    nrand = 3000 if tier == "quick" else 60000
    for _ in range(nrand):
        w = rng.choice(WIDTHS)
        cp = rng.randrange(TOP)
        if not scalar(cp):
            continue
        singles.append("J %d %d %d %d %s %s" % (w, rng.randrange(32), rng.randrange(32), cp,
                                                fmt_list(plain_units(rng, w, rng.randrange(0, 5))),
                                                fmt_list(plain_units(rng, w, rng.randrange(0, 5)))))
    raw = raw_surrogate_cases(rng, 400 if tier == "quick" else 6000)
    dist["raw_lone_high_surrogate_cases"] = len(raw)
    singles += raw
    dist["single_cases"] = len(singles)
    dist["suspects_from_exhaustive_cpp"] = len(suspects)
    allc = d_lines + singles + suspects
    allc = [x for k in range(16) for x in allc[k::16]]      # spread the heavy range lines over the shards
    r = vlib.differential(COMP, exe, allc, eq=eq)
    crashes += len(r.crashes)
    evaluations += n_d + len(singles) + len(suspects)

    def single_of(c, mo):
        if c.startswith("R "):
            cp = int(mo[1:].split(":")[0]) if mo[1:2].isdigit() else int(c.split(" ")[5 if c.split(" ")[1] == "J" else 3])
            return expand_range_line(c, cp)
        return c

    todo_s = [single_of(c, m) for (c, i, m, tag) in r.oracle_fail]
    todo_m = [single_of(c, m) for (c, i, m) in r.mismatch]
    seen = set()
    found_input = False
    if todo_s or todo_m:
        def cp_of(c):
            tk = c.split(" ")
            return (tk[0] != "E", int(tk[2] if tk[0] == "E" else tk[4]) if tk[0] in "EJ" else 0)
        rr = vlib.differential(COMP, exe, sorted(dict.fromkeys(todo_s + todo_m), key=cp_of), eq=eq)
        for (c, i, m, tag) in rr.oracle_fail:
            # prefer the same code point without neighbours when that fails too
            tk = c.split(" ")
            small = c
            if tk[0] == "J" and (tk[5] != "-" or tk[6] != "-"):
                c2 = " ".join(tk[:5] + ["-", "-"])
                r2 = vlib.differential(COMP, exe, [c2], eq=eq)
                if r2.oracle_fail:
                    small, i, m = c2, r2.oracle_fail[0][1], r2.oracle_fail[0][2]
            key = (small.split(" ")[0], small.split(" ")[1], i == "FAIL", len(i.split(",")))
            if key in seen or len(seen) >= 6:
                continue
            seen.add(key)
            found_input = True
            tk = small.split(" ")
            cp = int(tk[2] if tk[0] == "E" else tk[4])
            rep.violation({"component": "uni", "case": small,
                           "format": "E <w> <cp>  |  J <w> <k1> <k2> <cp> <pre> <post>  (w = character kind: 1 char, 2 char16_t, 4 char32_t, 5 wchar_t; k = 16:'U', 8..1: upper-case hex digit 1..4)",
                           "code_point": "U+%04X" % cp, "observed_impl": i, "model": m,
                           "oracle": "fails: the result is not the standard encoding of the code point (with its neighbours)",
                           "model_agrees_with_impl": tag == "same", "original_case": c,
                           "broken": None if proof_ok else "Properties_C20.vo"})
        mismatches = rr.mismatch
    if not found_input and (mismatches or todo_m or not proof_ok or r.bad):
        what = []
        if not proof_ok:
            what.append("coq/Properties_C20.vo no longer builds (theorems c20_* not re-established)")
        if mismatches or todo_m:
            what.append("correspondence UniModel (to_utf / parse_string_value) vs Unicode::ToUTF / JSON::Parse differs")
        if r.bad:
            what.append("driver output malformed")
        ex = None
        if mismatches:
            ex = {"case": mismatches[0][0], "impl": mismatches[0][1], "model": mismatches[0][2]}
        elif todo_m:
            ex = {"case": todo_m[0]}
        rep.violation({"broken": what, "first_mismatch": ex, "coq_log": st["log"][-3000:] if not proof_ok else "",
                       "searched_cases": evaluations}, no_input=True)

    rep.cov = {
        "obligations": len(theorems) if theorems else 1,
        "discharged": len(theorems) if proof_ok else 0,
        "checker_cmd": checker,
        "trusted_base": tb,
        "theorems": [{"name": n, "assumptions": a} for n, a in theorems],
        "evaluations": evaluations,
        "distinct_nontrivial": n_e - NW * 128 + n_j,
        "rule": "every scalar value (1,112,064) x 4 character types (char, char16_t, char32_t, wchar_t) through Unicode::ToUTF, judged by the extracted oracle; every scalar value x 4 character types x {lower, upper, random mixed case with random plain neighbours%s} through JSON::Parse of [\"..\\uXXXX..\"], compared per code point with the oracle-approved direct encoding; extracted model+oracle on %s of the JSON cases plus all encoding-range / surrogate-block boundaries +-2 and seeded random cases; non-trivial = code point >= 0x80 for direct encoding (multi-unit or width-dependent), every JSON escape" % (
            "" if tier == "quick" else ", 2 more mixed configurations", "every code point" if step == 1 else "every 7th code point (phase = seed mod 7)"),
        "samples": [e_lines[0], j_lines[len(j_lines) // 2], singles[-1] if singles else ""],
        "input_distribution": dist,
        "traces_validated_against_impl": evaluations,
        "oracle_failures": len(r.oracle_fail),
        "model_impl_mismatches": len(r.mismatch),
        "crashes": crashes,
        "exhaustive_domain": "1112064 scalar values x 4 character types (char, char16_t, char32_t, wchar_t)",
        "model_oracle_step": step,
    }
    rep.assumptions = [
        "the theorems are about coq/UniModel.v; the C++ is tied by gen/Tables_uni.v and by the differential run reported here (exhaustive on the property's finite domain on the C++ side)",
        "character types: char, char16_t, char32_t and wchar_t (kind 5: the encoder of its size, 4 bytes on LP64) on LP64 little-endian",
        "lone or reversed surrogates and malformed escapes are outside the property (corpus cases check model/implementation agreement only)",
        "the model describes /repo with findings/D11_high_surrogate_range.patch, D92_lone_high_surrogate_swallows_quote.patch and D93_short_hex_escape_accepted.patch applied",
    ]
    return rep.finish()


def replay(path):
    d = json.load(open(path))
    case = d.get("case")
    if not case:
        print("replay names a broken obligation, not an input:", d.get("broken"))
        return 1
    exe, msg = vlib.build_cpp("drv_uni", "drv_uni.cpp")
    r = vlib.differential(COMP, exe, [case], eq=eq)
    print("case:", case)
    for (c, i, m, tag) in r.oracle_fail:
        print("impl:", i, "\nmodel:", m, "\noracle: FAIL")
        return 1
    for (c, i, m) in r.mismatch:
        print("impl:", i, "\nmodel:", m, "\noracle: ok, model differs")
        return 1
    print("oracle ok, model agrees")
    return 0
