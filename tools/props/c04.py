"""C04 -- expression evaluation equals exact arithmetic with the documented precedence.

Proof: coq/Properties_C04.v (precedence theorem for every item list, rank table
       refines the documented levels, integer fragment exact, no trap).
Tie:   gen/Tables_expr.v (operator ranks = QOperation values, symbols, tag constants)
       + differential run of cpp/drv_expr.cpp (ParseExpressions+Evaluate, {math:},
       {if}, <if>) against the extracted model (parser + flat-list evaluator +
       typed arithmetic with SpecFloat doubles) and the extracted ORACLE: exact
       evaluation (Z / exact fractions) of the GENERATED tree, which never goes
       through the flat-list model or the parser."""
import json
import os
import random
from fractions import Fraction

import vlib

PROP = "C04"
COMP = "expr"

# operator id (= rank in the pinned code), symbol; the generator's own table (NOT read
# from the headers: a change of the ranks in the headers must show as a violation)
OPS = {1: "||", 2: "&&", 3: "==", 4: "!=", 5: ">=", 6: "<=", 7: ">", 8: "<", 9: "|", 10: "&",
       11: "+", 12: "-", 13: "*", 14: "/", 15: "%", 16: "^"}
ARITH = [11, 12, 13, 14, 15, 16]
ALL = list(range(1, 17))
B62 = 1 << 62
B52 = 1 << 52


class Out(Exception):
    """outside the domain the generator wants (overflow, inexact where not allowed, ...)"""


# ---------------------------------------------------------------------------
# generator-side exact evaluation (only steers generation; the verdict is the Coq oracle's)

def is_dyadic53(q):
    d = q.denominator
    if d & (d - 1):
        return False
    n = abs(q.numerator)
    while n and n % 2 == 0:
        n //= 2
    return n.bit_length() <= 53 and d.bit_length() <= 60


class Ctx:
    def __init__(self, env, allow_inexact=False, relaxed=False):
        self.env = env
        self.allow_inexact = allow_inexact
        self.relaxed = relaxed          # classification of a given case: no magnitude limits
        self.inexact = False
        self.novalue = False
        self.events = set()

    def chk_int(self, z):
        if abs(z) >= B62 and not self.relaxed:
            raise Out()
        return ("int", z)

    def chk_nat(self, z):
        # a Natural operand may lie anywhere below 2^64 (D90); from 2^62 up it is only used by
        # comparisons, && / ||, == / != and as the whole expression (see pe)
        if z < 0 or z >= (1 << 64):
            raise Out()
        return ("int", z)

    def chk_real(self, q):
        q = Fraction(q)
        if abs(q) >= B52 and not self.relaxed:
            raise Out()
        if not is_dyadic53(q):
            if not self.allow_inexact:
                raise Out()
            self.inexact = True
        return ("real", q)


def numeral_value(cx, s):
    """python reading of the restricted numerals; None when s is not a numeral"""
    import re
    if re.fullmatch(r"(0|[1-9][0-9]*)", s):
        return cx.chk_nat(int(s))
    if re.fullmatch(r"-?(0|[1-9][0-9]*)", s):
        return cx.chk_int(int(s))
    if re.fullmatch(r"-?(0|[1-9][0-9]*)(\.[0-9]+)?([eE][+-]?[0-9]+)?", s):
        return cx.chk_real(Fraction(s))
    if re.fullmatch(r"-?(0|[1-9][0-9]*)\.", s) and s not in ("-0.",):
        return cx.chk_real(Fraction(s[:-1]))      # "12." is the real 12
    if re.fullmatch(r"[+-]?0[xX].*", s) or re.fullmatch(r"[+.].*|-\..*", s) or re.fullmatch(r"-?[0-9]+\.[eE].*", s):
        raise Out()                               # hex, "+5", ".5", "5.e1": numerals outside the exact sub-language
    return None


def var_number(cx, v):
    k = v[0]
    if k == "n":
        return cx.chk_nat(v[1])
    if k == "i":
        return cx.chk_int(v[1])
    if k == "r":
        return cx.chk_real(Fraction(v[1]) * Fraction(2) ** v[2])
    if k == "t":
        return ("int", 1)
    if k in ("f", "z"):
        return ("int", 0)
    if k == "s":
        return numeral_value(cx, v[1])
    return None


def var_text(v):
    k = v[0]
    if k == "s":
        return v[1]
    return {"t": "true", "f": "false", "z": "null"}.get(k)


def pe_leaf(cx, ctx, t):
    k = t[0]
    if k == "n":
        return cx.chk_nat(t[1])
    if k == "i":
        return cx.chk_int(t[1])
    if k == "d":
        return cx.chk_real(t[1])
    if k == "t":
        if ctx in (3, 4):
            return ("text", t[1], None)
        raise Out()
    if k == "v":
        v = cx.env.get(t[1])
        if ctx in (3, 4):
            if v is None:
                return None
            if v[0] in ("n", "i", "r"):
                return var_number(cx, v)
            s = var_text(v)
            if s is None:
                return None
            return ("text", s, v)
        num = var_number(cx, v) if v is not None else None
        if num is not None:
            return num
        if ctx == 0:
            return ("int", 1 if (v is not None and v[0] == "s" and len(v[1]) > 0) else 0)
        return None
    raise AssertionError(k)


def trunc(q):
    return (abs(q.numerator) // q.denominator) * (1 if q >= 0 else -1)


def pe(cx, ctx, t):
    k = t[0]
    if k == "p":
        r = pe(cx, 0, t[1])
        if r is None or r[0] == "text":
            return None
        return r
    if k != "o":
        return pe_leaf(cx, ctx, t)
    op = t[1]
    a = pe(cx, op, t[2])
    if a is None:
        return None
    b = pe(cx, op, t[3])
    if b is None:
        return None
    if op in (3, 4):
        if a[0] == "text" and b[0] == "text":
            return ("int", int((a[1] == b[1]) != (op == 4)))

        def force(x):
            if x[0] != "text":
                return x
            if x[2] is None:
                return None
            return var_number(cx, x[2])
        a = force(a)
        b = force(b)
        if a is None or b is None:
            return None
        if (a[0] == "real" or b[0] == "real") and cx.inexact:
            raise Out()
        return ("int", int((Fraction(a[1]) == Fraction(b[1])) != (op == 4)))
    if a[0] == "text" or b[0] == "text":
        raise Out()
    if (not cx.relaxed) and op in (9, 10, 11, 12, 13, 14, 15, 16) and ((a[0] == "int" and abs(a[1]) >= B62) or (b[0] == "int" and abs(b[1]) >= B62)):
        raise Out()              # arithmetic on a Natural from 2^62 up: outside the no-overflow domain
    real = a[0] == "real" or b[0] == "real"
    x, y = Fraction(a[1]), Fraction(b[1])
    if op == 11:
        return cx.chk_real(x + y) if real else cx.chk_int(a[1] + b[1])
    if op == 12:
        if cx.inexact:
            raise Out()          # no cancellation on rounded values
        return cx.chk_real(x - y) if real else cx.chk_int(a[1] - b[1])
    if op == 13:
        return cx.chk_real(x * y) if real else cx.chk_int(a[1] * b[1])
    if op == 14:
        if y == 0:
            return None
        return cx.chk_real(x / y)
    if cx.inexact:
        raise Out()              # discrete operators only on exact values
    if op == 15:
        xi, yi = trunc(x), trunc(y)
        if yi == 0:
            return None
        r = abs(xi) % abs(yi)
        return cx.chk_int(r if xi >= 0 else -r)
    if op == 16:
        if x.denominator != 1 or y.denominator != 1:
            if (y.denominator != 1 and abs(y) < 1) or (y.denominator == 1 and abs(x) < 1):
                return None
            raise Out()          # KF class: truncation of a non-integer operand
        xi, n = int(x), int(y)
        if xi == 0:
            if n < 0:
                raise Out()      # KF class: zero to a negative power
            return ("int", 0)    # 0^0: the code answers 0; the oracle does not judge it
        if abs(n) > 62 and abs(xi) > 1:
            raise Out()
        if abs(xi) == 1:
            n = n % 2 if n >= 0 else -(2 - (n % 2))
        if n >= 0:
            return cx.chk_int(xi ** n)
        if xi < 0 and n % 2 == 0:
            cx.events.add("negpow")      # KF-C04-negpow: the code negates the reciprocal here
        p = xi ** (-n)
        if abs(p) >= B52:
            raise Out()
        return cx.chk_real(Fraction(1, p))
    if op in (9, 10):
        xi, yi = trunc(x), trunc(y)
        return cx.chk_int((xi & yi) if op == 10 else (xi | yi))
    if op == 8:
        return ("int", int(x < y))
    if op == 6:
        return ("int", int(x <= y))
    if op == 7:
        return ("int", int(x > y))
    if op == 5:
        return ("int", int(x >= y))
    if op == 2:
        return ("int", int(x > 0 and y > 0))
    if op == 1:
        return ("int", int(x > 0 or y > 0))
    raise AssertionError(op)


def py_eval(tree, env, allow_inexact=False):
    cx = Ctx(env, allow_inexact)
    r = pe(cx, 0, tree)
    if r is not None and r[0] == "text":
        r = None
    return r, cx.inexact


# ---------------------------------------------------------------------------
# printing

def needs_paren(parent_op, child, right):
    if child[0] != "o":
        return False
    c = child[1]
    if c < parent_op:
        return True
    if c == parent_op and right:
        return True
    return False


def sp(rng):
    return rng.choice(["", "", " ", " ", " ", "  "])


def show(rng, t, spaced=True):
    k = t[0]
    if k == "n":
        return str(t[1])
    if k == "i":
        return str(t[1])
    if k == "d":
        return t[2]
    if k == "t":
        return t[1]
    if k == "v":
        return "{var:" + t[1] + "}"
    if k == "p":
        a, b = (sp(rng), sp(rng)) if spaced else ("", "")
        return "(" + a + show(rng, t[1], spaced) + b + ")"
    op = t[1]
    l = show(rng, t[2], spaced)
    r = show(rng, t[3], spaced)
    a, b = (sp(rng), sp(rng)) if spaced else (" ", " ")
    return l + a + OPS[op] + b + r


def parenthesise(rng, t, extra=0.0):
    """insert the parentheses the ranks require (as 'p' nodes) and, with
    probability extra, redundant ones around numeric operands / sub-expressions"""
    k = t[0]
    if k == "p":
        return ("p", parenthesise(rng, t[1], extra))
    if k != "o":
        if extra and k in ("n", "i", "d") and rng.random() < extra / 2:
            return ("p", t)
        return t
    op = t[1]
    out = [None, None]
    for idx, ch in enumerate((t[2], t[3])):
        c = parenthesise(rng, ch, extra)
        if needs_paren(op, ch, idx == 1) or (extra and ch[0] == "o" and rng.random() < extra):
            c = ("p", c)
        out[idx] = c
    return ("o", op, out[0], out[1])


def ser_tree(t):
    k = t[0]
    if k == "n":
        return "n%d" % t[1]
    if k == "i":
        return "i%d" % t[1]
    if k == "d":
        return "d%d_%d" % (t[1].numerator, t[1].denominator)
    if k == "t":
        return "t" + ".".join(str(ord(c)) for c in t[1])
    if k == "v":
        return "v" + t[1]
    if k == "p":
        return "p/" + ser_tree(t[1])
    return "o%d/%s/%s" % (t[1], ser_tree(t[2]), ser_tree(t[3]))


def ser_env(env):
    if not env:
        return "-"
    ent = []
    for name, v in sorted(env.items()):
        k = v[0]
        if k in ("n", "i"):
            ent.append("%s:%s:%d" % (name, k, v[1]))
        elif k == "r":
            ent.append("%s:r:%d_%d" % (name, v[1], v[2]))
        elif k == "s":
            ent.append("%s:s:%s" % (name, ".".join(str(ord(c)) for c in v[1]) if v[1] else "-"))
        else:
            ent.append("%s:%s" % (name, k))
    return ";".join(ent)


def mk_case(text, env, tree):
    return "%s %s %s" % (",".join(str(ord(c)) for c in text) if text else "-", ser_env(env), ser_tree(tree))


# ---------------------------------------------------------------------------
# generation

DECS = ["0.5", "1.5", "2.25", "0.25", "10.75", "3.0", "2.0", "0.125", "7.5", "100.5", "1e3", "25e1", "5e-1",
        "2E2", "1.5e1", "75e-2", "-0.5", "-2.25", "-1.5", "-3.0", "4.0", "1e0", "12.5"]
INEXACT_DECS = ["0.1", "0.2", "0.3", "1.1", "2.7", "3.14", "0.7", "1e-1", "33e-2"]
TEXTS = ["abc", "a", "true", "false", "null", "xyz", "Qentem", "ab", "abd", "x1"]
# values of variables only (never literal operands): text that STARTS like a numeral but is not
# entirely one -- it is text, not a numeric string -- and numerals with a trailing dot
PREFIX_TEXTS = ["12abc", "3 apples", "7 ", " 7", "1.5x", "-4x", "1 2", "5e", "0x1G", "+5x", "1..2", "1-2",
                "1e5x", "01", "12a", "5e+", "1.2.3", "0.5.", "2 ", "10/2", "3+4", "1,5", "- 3", "12 abc", "00"]
DOT_NUMERALS = ["12.", "5.", "0.", "-3."]


def rand_env(rng):
    env = {
        "n": ("n", rng.choice([0, 1, 2, 3, 5, 7, 10, 12, 100, rng.randrange(0, 1000)])),
        "m": ("n", rng.choice([0, 1, 2, 4, 9, rng.randrange(0, 50)])),
        "i": ("i", -rng.choice([1, 2, 3, 5, 8, rng.randrange(1, 200)])),
        "r": ("r", rng.choice([1, 3, 5, -3, 7, 9, 21]), rng.choice([-1, -2, -3, 0, 1])),
        "ns": ("s", str(rng.choice([0, 1, 2, 12, 40, rng.randrange(0, 300)]))),
        "ni": ("s", str(-rng.choice([1, 3, 12, rng.randrange(1, 90)]))),
        "nr": ("s", rng.choice(["1.5", "0.5", "2.25", "-0.5", "1e2", "10.0"])),
        "s": ("s", rng.choice(TEXTS)),
        "u": ("s", rng.choice(TEXTS)),
        "e": ("s", ""),
        "px": ("s", rng.choice(PREFIX_TEXTS)),
        "py": ("s", rng.choice(PREFIX_TEXTS)),
        "pd": ("s", rng.choice(DOT_NUMERALS)),
        "big": ("n", (1 << 64) - 1),
        "b63": ("n", 1 << 63),
        "bw": ("n", rng.choice([(1 << 63) + 1, (1 << 64) - 2, rng.randrange(1 << 63, 1 << 64)])),
        "t": ("t",), "f": ("f",), "z": ("z",), "a": ("a",),
    }
    # drop some so that they are missing
    for k in list(env):
        if rng.random() < 0.08:
            del env[k]
    return env


NUMVARS = ["n", "m", "i", "r", "ns", "ni", "nr", "t", "f", "z", "pd"]
ALLVARS = NUMVARS + ["s", "u", "e", "a", "q", "px", "py", "pd"]


def rand_num_leaf(rng, allow_var=True, inexact=False, small=False):
    r = rng.random()
    if r < 0.45:
        if small:
            return ("n", rng.choice([0, 1, 2, 3, 4, 5, 7, 10]))
        return ("n", rng.choice([0, 1, 2, 3, 4, 5, 6, 7, 8, 9, 10, 12, 16, 31, 100, 255, 1000, rng.randrange(0, 100000),
                                 rng.randrange(0, 1 << 40)]))
    if r < 0.57:
        return ("i", -rng.choice([1, 2, 3, 5, 7, 10, 64, rng.randrange(1, 5000)]))
    if r < 0.78:
        s = rng.choice(INEXACT_DECS if (inexact and rng.random() < 0.6) else DECS)
        return ("d", Fraction(s), s)
    if allow_var:
        return ("v", rng.choice(NUMVARS if rng.random() < 0.85 else ALLVARS))
    return ("n", rng.randrange(0, 20))


def rand_op(rng, arith_bias=0.6):
    if rng.random() < arith_bias:
        return rng.choice(ARITH)
    return rng.choice(ALL)


def rand_pos_leaf(rng):
    r = rng.random()
    if r < 0.4:
        return ("n", rng.choice([1, 2, 3, 5, 7, 9, 10, 11, 100, rng.randrange(1, 1000)]))
    if r < 0.85:
        s = rng.choice(INEXACT_DECS + ["0.5", "1.5", "2.25", "1e3"])
        return ("d", Fraction(s), s)
    return ("v", rng.choice(["n", "m", "ns"]))


def rand_tree(rng, depth, inexact=False):
    if depth == 0 or rng.random() < 0.15:
        return rand_pos_leaf(rng) if inexact else rand_num_leaf(rng)
    op = rand_op(rng) if not inexact else rng.choice([11, 13, 14, 14])
    if op in (3, 4) and rng.random() < 0.5:
        # equality with text / variable operands
        def side():
            r = rng.random()
            if r < 0.35:
                return ("t", rng.choice(TEXTS))
            if r < 0.8:
                return ("v", rng.choice(ALLVARS))
            return rand_num_leaf(rng)
        return ("o", op, side(), side())
    l = rand_tree(rng, depth - 1, inexact)
    if op == 16:
        r = rng.choice([("n", rng.choice([0, 1, 2, 3, 4, 5])), ("i", -rng.choice([1, 2, 3])), ("d", Fraction(2), "2.0"),
                        ("v", "m"), rand_tree(rng, max(0, depth - 2))])
    else:
        r = rand_tree(rng, depth - 1, inexact)
    return ("o", op, l, r)


def climb(items, rank=lambda o: o):
    """textbook precedence climbing on [(operand, op-after)], generator's own copy"""
    pos = [0]

    def parse(minp):
        left = items[pos[0]][0]
        while True:
            op = items[pos[0]][1]
            if op == 0 or rank(op) < minp:
                return left
            pos[0] += 1
            right = parse(rank(op) + 1)
            left = ("o", op, left, right)
    return parse(1)


def accept(tree, env, allow_inexact=False):
    try:
        r, inex = py_eval(tree, env, allow_inexact)
    except Out:
        return None
    return (r, inex)


def gen_cases(rng, tier, boost=1):
    cases = []
    dist = {"adjacent_ops": 0, "random_trees": 0, "equality": 0, "kind_pairs": 0, "trailing_prefix": 0, "prefix_text": 0, "wide_naturals": 0, "int64_boundary_reals": 0, "inexact": 0, "single": 0, "novalue": 0}
    nov = [0]

    def emit(tree, env, cls, extra=0.25, allow_inexact=False):
        a = accept(tree, env, allow_inexact)
        if a is None:
            return False
        if a[0] is None:
            if nov[0] * 6 > len(cases) + 30:
                return False      # keep "no value" results below ~1/6
            nov[0] += 1
            dist["novalue"] += 1
        pt = parenthesise(rng, tree, extra)
        # the evaluation of the parenthesised tree is the same except that written
        # parentheses force variables to numbers: re-check
        a2 = accept(pt, env, allow_inexact)
        if a2 is None:
            return False
        text = sp(rng) + show(rng, pt) + sp(rng)
        cases.append(mk_case(text, env, pt))
        dist[cls] += 1
        return True

    # 1. every ordered pair of adjacent operators followed by a third operator (shape of D1)
    reps = (2 if tier == "quick" else 8) * boost
    thirds = ALL if tier != "quick" or boost > 1 else None
    for o1 in ALL:
        for o2 in ALL:
            o3s = thirds if thirds else rng.sample(ALL, 5)
            for o3 in o3s:
                done = 0
                tries = 0
                while done < reps and tries < 40 * reps:
                    tries += 1
                    env = rand_env(rng)
                    n_ops = rng.choice([3, 3, 3, 4, 5])
                    ops = [o1, o2, o3] + [rng.choice(ALL) for _ in range(n_ops - 3)]
                    if rng.random() < 0.3:
                        ops = [rng.choice(ALL)] + ops
                    items = []
                    for j in range(len(ops) + 1):
                        prev = ops[j - 1] if j > 0 else 0
                        if prev == 16:
                            leaf = ("n", rng.choice([0, 1, 2, 3]))
                        else:
                            leaf = rand_num_leaf(rng, small=True)
                            if rng.random() < 0.12 and j < len(ops) + 1:
                                leaf = ("p", rand_tree(rng, 2))
                        items.append((leaf, ops[j] if j < len(ops) else 0))
                    tree = climb(items)
                    # undo the generator-inserted 'p' leaves: parenthesise() re-inserts what is needed
                    if emit(strip_p(tree), env, "adjacent_ops", extra=rng.choice([0, 0, 0.2])):
                        done += 1

    # 2. random trees, depth <= 5
    n = (4000 if tier == "quick" else 200000) * boost
    made = 0
    tries = 0
    while made < n and tries < 30 * n:
        tries += 1
        if emit(rand_tree(rng, rng.choice([1, 2, 2, 3, 3, 4, 5])), rand_env(rng), "random_trees", extra=rng.choice([0, 0.2, 0.5])):
            made += 1

    # 3. equality / variable kinds: every kind of variable against every kind of operand
    n = (1200 if tier == "quick" else 40000) * boost
    made = 0
    tries = 0
    while made < n and tries < 30 * n:
        tries += 1
        env = rand_env(rng)

        def side():
            r = rng.random()
            if r < 0.3:
                return ("t", rng.choice(TEXTS))
            if r < 0.75:
                return ("v", rng.choice(ALLVARS))
            if r < 0.85:
                return ("p", ("v", rng.choice(ALLVARS)))
            return rand_tree(rng, 1)
        t = ("o", rng.choice([3, 4]), side(), side())
        r = rng.random()
        if r < 0.3:
            t = ("o", rng.choice([1, 2, 11, 13, 3, 4, 8]), t, rand_tree(rng, 1))
        elif r < 0.5:
            t = ("o", rng.choice([1, 2, 11, 13, 3, 4, 7]), rand_tree(rng, 1), t)
        if emit(strip_p_keep_var(t), env, "equality", extra=rng.choice([0, 0.2])):
            made += 1

    # 4. single operands (the lone-variable rule) and fully parenthesised ones
    for _ in range((150 if tier == "quick" else 1500) * boost):
        env = rand_env(rng)
        leaf = ("v", rng.choice(ALLVARS)) if rng.random() < 0.7 else rand_num_leaf(rng)
        t = leaf
        for _ in range(rng.choice([0, 0, 1, 2])):
            t = ("p", t)
        emit(t, env, "single", extra=0)

    # 6. every operator on every pair of operand kinds, values close to each other
    #    (type promotion and the comparison boundaries)
    def kind_leaf(env):
        k = rng.choice(["nat", "int", "real", "realint", "vn", "vi", "vr", "vns", "vni", "vnr", "vt", "vz", "sub"])
        small = rng.choice([0, 1, 2, 3])
        if k == "nat":
            return ("n", small)
        if k == "int":
            return ("i", -rng.choice([1, 2, 3]))
        if k == "real":
            s = rng.choice(["0.5", "1.5", "2.5", "-0.5", "-1.5", "0.25"])
            return ("d", Fraction(s), s)
        if k == "realint":
            s = rng.choice(["0.0", "1.0", "2.0", "3.0", "-1.0", "-2.0", "1e0", "2e0", "30e-1"])
            return ("d", Fraction(s), s)
        if k == "vn":
            env["n"] = ("n", small)
            return ("v", "n")
        if k == "vi":
            env["i"] = ("i", -rng.choice([1, 2, 3]))
            return ("v", "i")
        if k == "vr":
            env["r"] = ("r", rng.choice([1, 2, 3, 4, 6, -2, -3, 0]), -1)
            return ("v", "r")
        if k == "vns":
            env["ns"] = ("s", str(small))
            return ("v", "ns")
        if k == "vni":
            env["ni"] = ("s", str(-rng.choice([1, 2, 3])))
            return ("v", "ni")
        if k == "vnr":
            env["nr"] = ("s", rng.choice(["0.5", "1.5", "2.0", "-1.0", "1e0"]))
            return ("v", "nr")
        if k == "vt":
            return ("v", rng.choice(["t", "f"]))
        if k == "vz":
            return ("v", "z")
        return ("o", rng.choice([11, 12, 13]), ("n", small), ("n", rng.choice([0, 1, 2])))
    n = (1600 if tier == "quick" else 100000) * boost
    made = 0
    tries = 0
    while made < n and tries < 30 * n:
        tries += 1
        env = rand_env(rng)
        for k in ("t", "f", "z"):
            env[k] = (k,)
        t = ("o", rng.choice(ALL), kind_leaf(env), kind_leaf(env))
        if rng.random() < 0.3:
            t = ("o", rng.choice(ALL), t, kind_leaf(env))
        if emit(t, env, "kind_pairs", extra=rng.choice([0, 0, 0.3])):
            made += 1

    # 7. D80: texts that END in a one-character operator prefix, the if forms quoted with operator
    #    characters (the unit after the text is then the second half of a two-character operator);
    #    and well-formed expressions under the same quotes
    tails = [">", "<", "!", "|", "&", "=", "+", "-", "*", "/", "%", "^"]
    quotes = ['"', "'", "=", "|", "&", "<", "!"]
    for _ in range((300 if tier == "quick" else 6000) * boost):
        env = rand_env(rng)
        tries = 0
        while True:
            tries += 1
            t = rand_tree(rng, rng.choice([0, 1, 2]))
            if accept(t, env) is not None or tries > 50:
                break
        if tries > 50:
            continue
        pt = parenthesise(rng, t, 0)
        if accept(pt, env) is None:
            continue
        body = show(rng, pt)
        wellformed = rng.random() < 0.3
        tail = rng.choice(tails)
        if tail in "+-" and not (body.rstrip()[-1:].isdigit() or body.rstrip()[-1:] in (")", "}")):
            continue       # a sign after literal text is part of the text, not an operator
        text = body if wellformed else body + rng.choice(["", "", " "]) + tail + rng.choice(["", "", " "])
        qs = [q for q in quotes if q not in text]
        if not qs:
            continue
        q = rng.choice(qs)
        cases.append("Q%d:%s %s %s" % (ord(q), ",".join(str(ord(c)) for c in text), ser_env(env), ser_tree(pt) if wellformed else "x"))
        dist["trailing_prefix"] += 1

    # 8. variables holding text with a numeric PREFIX ("12abc", "3 apples", "7 "): they are text, so
    #    arithmetic / comparisons on them have no value, == compares the text, alone they are "non-empty"
    made = 0
    tries = 0
    n = (500 if tier == "quick" else 8000) * boost
    while made < n and tries < 30 * n:
        tries += 1
        env = rand_env(rng)
        env["px"] = ("s", rng.choice(PREFIX_TEXTS))
        pv = ("v", rng.choice(["px", "px", "py"]))
        if "py" not in env:
            env["py"] = ("s", rng.choice(PREFIX_TEXTS))
        r = rng.random()
        other = rand_num_leaf(rng, small=True)
        if r < 0.35:
            t = ("o", rng.choice(ALL), pv, other) if rng.random() < 0.5 else ("o", rng.choice(ALL), other, pv)
        elif r < 0.55:
            t = ("o", rng.choice([3, 4]), pv, rng.choice([("v", "px"), ("v", "py"), ("v", "ns"), ("n", 12), ("n", 7), ("t", "abc"), ("p", pv)]))
        elif r < 0.7:
            t = pv if rng.random() < 0.5 else ("p", pv)
        elif r < 0.85:
            t = ("o", rng.choice(ALL), ("o", rng.choice(ARITH), pv, other), rand_num_leaf(rng, small=True))
        else:
            t = ("o", rng.choice([1, 2]), ("p", pv), other)
        nov_before = nov[0]
        nov[0] = 0            # this class is mostly "no value" on purpose: exempt from the quota
        okc = emit(strip_p(t), env, "prefix_text", extra=rng.choice([0, 0.2]))
        nov[0] = nov_before + (nov[0] if okc else 0)
        if okc:
            made += 1

    # 9. D90: Naturals in [2^63, 2^64) as operands of comparisons, && / ||, == / !=, alone and in parentheses
    #    (literals, variables, a numeric string), against naturals, negative and positive integers, reals
    def wide_leaf(env):
        r = rng.random()
        if r < 0.35:
            return ("n", rng.choice([1 << 63, (1 << 64) - 1, (1 << 63) + 1, (1 << 64) - 2, rng.randrange(1 << 63, 1 << 64)]))
        if r < 0.8:
            return ("v", rng.choice(["big", "b63", "bw"]))
        env["bs"] = ("s", str(rng.choice([(1 << 64) - 1, 1 << 63, rng.randrange(1 << 63, 1 << 64)])))
        return ("v", "bs")

    def narrow_leaf(env):
        r = rng.random()
        if r < 0.3:
            return ("n", rng.choice([0, 1, 2, 9223372036854775807, (1 << 62) + 5, rng.randrange(0, 1000)]))
        if r < 0.55:
            return ("i", -rng.choice([1, 2, 9223372036854775807, (1 << 62) + 1, rng.randrange(1, 1000)]))
        if r < 0.7:
            s = rng.choice(["0.5", "1.5", "-0.5", "2.0", "-2.25", "1e3"])
            return ("d", Fraction(s), s)
        if r < 0.85:
            env["i"] = ("i", -rng.choice([1, 3, 9223372036854775807]))
            return ("v", rng.choice(["i", "n", "r", "t", "z"]))
        return wide_leaf(env)
    CMPS = [5, 6, 7, 8, 3, 4, 1, 2]
    n = (600 if tier == "quick" else 12000) * boost
    made = 0
    tries = 0
    while made < n and tries < 30 * n:
        tries += 1
        env = rand_env(rng)
        for k, v in (("big", (1 << 64) - 1), ("b63", 1 << 63)):
            env[k] = ("n", v)
        if "bw" not in env:
            env["bw"] = ("n", rng.randrange(1 << 63, 1 << 64))
        r = rng.random()
        w = wide_leaf(env)
        if r < 0.12:
            t = w if rng.random() < 0.6 else ("p", w)
        elif r < 0.62:
            o = narrow_leaf(env)
            t = ("o", rng.choice(CMPS), w, o) if rng.random() < 0.5 else ("o", rng.choice(CMPS), o, w)
        elif r < 0.8:
            t = ("o", rng.choice(CMPS), ("o", rng.choice(CMPS), w, narrow_leaf(env)), ("o", rng.choice(CMPS), narrow_leaf(env), wide_leaf(env)))
        else:
            t = ("o", rng.choice([11, 12, 13]), ("o", rng.choice(CMPS), w, narrow_leaf(env)), rand_num_leaf(rng, small=True))
        if emit(strip_p(t), env, "wide_naturals", extra=rng.choice([0, 0.2])):
            made += 1

    # 10. reals at the int64 boundaries on either side of % / ^ (seeded C04_r7m2: a real left operand
    #     holding -2^63 and a divisor truncating to -1).  Built directly (the steering evaluator keeps
    #     reals below 2^52); the oracle judges what is defined, the model is compared everywhere the
    #     C++ has no undefined double -> int64 conversion (model answer ERR:ub: not compared).
    B63 = 1 << 63
    benv = {"rmin": ("r", -1, 63), "rmax": ("r", 1, 63), "rlo": ("r", -4503599627370497, 11),
            "rin": ("r", -9007199254740991, 10), "rip": ("r", 9007199254740991, 10), "rhi": ("r", 4503599627370497, 11),
            "r64": ("r", 1, 64), "rm64": ("r", -1, 64), "r62": ("r", 1, 62), "rm62": ("r", -1, 62),
            "imin": ("i", -B63), "imax": ("i", B63 - 1), "nb63": ("n", B63),
            "dm1": ("i", -1), "drm1": ("r", -1, 0), "dr15": ("r", -3, -1), "dr05": ("r", -1, -1), "dz": ("n", 0), "d1": ("n", 1)}
    two = ("d", Fraction(2), "2.0")
    lefts = [("v", k) for k in ("rmin", "rmax", "rlo", "rin", "rip", "rhi", "r64", "rm64", "r62", "rm62", "imin", "imax", "nb63")] + [
        ("o", 13, ("p", ("o", 12, ("n", 0), ("n", 1 << 62))), two),          # (0 - 2^62) * 2.0 = -2^63
        ("o", 13, ("n", 1 << 62), two),                                          # 2^62 * 2.0 = 2^63
        ("o", 14, ("p", ("o", 12, ("n", 0), ("n", B63 - 1024))), ("d", Fraction(1), "1.0")),
        ("d", Fraction(10 ** 19), "1e19"), ("d", Fraction(-10 ** 19), "-1e19"),
        ("i", -(B63 - 1)), ("n", B63), ("n", (1 << 64) - 1)]
    neg_out = [("v", "rmin"), ("v", "rlo"), ("v", "rm64"), lefts[13], ("d", Fraction(-10 ** 19), "-1e19")]
    partners = [("i", -1), ("d", Fraction(-3, 2), "-1.5"), ("d", Fraction(-1, 2), "-0.5"), ("n", 0), ("d", Fraction(0), "-0.0"),
                ("n", 1), ("n", 2), ("n", 3), ("i", -2), ("d", Fraction(1), "1.0"), ("d", Fraction(-1), "-1.0"),
                ("v", "dm1"), ("v", "drm1"), ("v", "dr15"), ("v", "dr05"), ("v", "dz"), ("v", "d1")]
    reps_b = 1 if tier == "quick" else 4
    for _ in range(reps_b * boost):
        for L in lefts:
            for P in partners:
                for op in (15, 14, 16):
                    if op == 16 and (L in neg_out or L == ("v", "imin")):
                        continue      # operator^= negates: -INT64_MIN is signed overflow (outside the no-overflow clause; UBSan aborts)
                    for t in (("o", op, L, P), ("o", op, P, L)):
                        pt = parenthesise(rng, t, 0)
                        cases.append(mk_case(sp(rng) + show(rng, pt) + sp(rng), benv, pt))
                        dist["int64_boundary_reals"] += 1

    # 5. real arithmetic with inexact intermediates (+ * / only): model must agree bit for bit,
    #    oracle within 2^-40
    n = (400 if tier == "quick" else 20000) * boost
    made = 0
    tries = 0
    while made < n and tries < 30 * n:
        tries += 1
        if emit(rand_tree(rng, rng.choice([1, 2, 3]), inexact=True), rand_env(rng), "inexact", extra=0.2, allow_inexact=True):
            made += 1
    return cases, dist


def strip_p(t):
    """remove 'p' nodes (parenthesise() re-creates the required ones) except around a lone variable"""
    k = t[0]
    if k == "p":
        inner = strip_p(t[1])
        if inner[0] == "v":
            return ("p", inner)
        return inner
    if k == "o":
        return ("o", t[1], strip_p(t[2]), strip_p(t[3]))
    return t


def strip_p_keep_var(t):
    return strip_p(t)


# ---------------------------------------------------------------------------

def corpus_cases():
    res = []
    p = os.path.join(vlib.ROOT, "corpus", PROP, "cases.txt")
    if os.path.exists(p):
        for line in open(p):
            line = line.strip()
            if line and not line.startswith("#"):
                res.append(line)
    return res


def case_text(case):
    u = case.split(" ")[0]
    if u.startswith("Q"):
        u = u.split(":", 1)[1]
    return "" if u == "-" else "".join(chr(int(x)) for x in u.split(","))


def nontrivial(case):
    """non-trivial: at least two operators (so that a precedence decision is taken)"""
    return case.split(" ")[2].count("o") >= 2


def parse_env_tok(tok):
    env = {}
    if tok == "-":
        return env
    for ent in tok.split(";"):
        f = ent.split(":")
        k = f[1]
        if k in ("n", "i"):
            env[f[0]] = (k, int(f[2]))
        elif k == "r":
            m, e = f[2].split("_")
            env[f[0]] = ("r", int(m), int(e))
        elif k == "s":
            env[f[0]] = ("s", "" if f[2] == "-" else "".join(chr(int(x)) for x in f[2].split(".")))
        else:
            env[f[0]] = (k,)
    return env


def kf_class(case):
    """known-finding class of a case (decided on the generated tree, not on the outputs)"""
    tk = case.split(" ")
    try:
        tree = fix_dec(parse_tree_tok(tk[2]))
        cx = Ctx(parse_env_tok(tk[1]), True, True)
        try:
            pe(cx, 0, tree)
        except Out:
            pass
        if "negpow" in cx.events:
            return "KF-C04-negpow"
    except Exception:
        pass
    return None


# tree <-> token helpers for minimisation
def parse_tree_tok(tok):
    toks = tok.split("/")
    pos = [0]

    def go():
        t = toks[pos[0]]
        pos[0] += 1
        c = t[0]
        if c == "o":
            l = go()
            r = go()
            return ("o", int(t[1:]), l, r)
        if c == "p":
            return ("p", go())
        if c == "n" or c == "i":
            return (c, int(t[1:]))
        if c == "d":
            a, b = t[1:].split("_")
            q = Fraction(int(a), int(b))
            return ("d", q, None)
        if c == "t":
            return ("t", "".join(chr(int(x)) for x in t[1:].split(".")))
        return ("v", t[1:])
    return go()


def subtrees(t):
    if t[0] == "o":
        yield t[2]
        yield t[3]
        for s in subtrees(t[2]):
            yield s
        for s in subtrees(t[3]):
            yield s
    elif t[0] == "p":
        yield t[1]
        for s in subtrees(t[1]):
            yield s


def dec_text(q):
    # a short decimal text for a dyadic fraction
    s = "%.12f" % float(q)
    s = s.rstrip("0")
    if s.endswith("."):
        s += "0"
    return s


def fix_dec(t):
    k = t[0]
    if k == "d" and t[2] is None:
        return ("d", t[1], dec_text(t[1]))
    if k == "p":
        return ("p", fix_dec(t[1]))
    if k == "o":
        return ("o", t[1], fix_dec(t[2]), fix_dec(t[3]))
    return t


def canonical_case(tree, envtok):
    """deterministic single-space print of a (parenthesised) tree"""
    class R:
        def choice(self, xs):
            return xs[0]

        def random(self):
            return 1.0
    text = show(R(), tree, spaced=False)
    return "%s %s %s" % (",".join(str(ord(c)) for c in text), envtok, ser_tree(tree))


def minimise(exe, case, want_oracle_fail):
    tk = case.split(" ")
    if tk[2] == "x" or tk[0].startswith("Q"):
        return case          # ill-formed text / special quote: kept as generated
    try:
        tree = fix_dec(parse_tree_tok(tk[2]))
    except Exception:
        return case

    def fails(c):
        r = vlib.differential(COMP, exe, [c])
        return bool(r.oracle_fail) if want_oracle_fail else bool(r.oracle_fail or r.mismatch)

    best = case
    cand0 = canonical_case(tree, tk[1])
    if fails(cand0):
        best = cand0
    else:
        return case
    cur = tree
    improved = True
    steps = 0
    while improved and steps < 60:
        improved = False
        for s in subtrees(cur):
            steps += 1
            if s[0] not in ("o", "p"):
                continue
            c = canonical_case(s, tk[1])
            if fails(c):
                cur = s
                best = c
                improved = True
                break
    return best


THEOREMS_FILE = "Properties_C04.v"


def check(tier):
    rep = vlib.Report(PROP, tier, "proof")
    rng = random.Random(rep.seed)
    st = vlib.proof_stage(rep, THEOREMS_FILE, [COMP], tables=(("Tables_expr", "gentables_expr.cpp"),))
    theorems = st["theorems"]
    proof_ok = st["ok"]
    tb = vlib.TRUSTED_BASE_COMMON + [
        "tools/gentables_expr.cpp (operator ranks, symbols, tag constants from the current headers)",
        "modelled: Template.hpp getOperation, isExpression, parseValue, parseExpressions, evaluate, GetExpressionValue, evaluateExpression, isEqual; QExpression.hpp typed arithmetic; doubles as Coq SpecFloat (prec 53, emax 1024)",
        "numerals: only the exact sub-language of Digit::StringToNumber (C09 owns the scanner); getValue: plain names only",
        "tools/props/c04.py: generator, printing of trees with the pinned rank table",
    ]

    exe, msg = vlib.build_cpp("drv_expr", "drv_expr.cpp")
    if exe is None:
        rep.violation({"broken": "cpp/drv_expr.cpp does not build against the current tree", "log": msg}, no_input=True)
        rep.cov = {"obligations": max(1, len(theorems)), "discharged": 0, "checker_cmd": "make -C coq Properties_C04.vo", "trusted_base": tb}
        return rep.finish()

    boost = 1 if proof_ok else 4
    cases, dist = gen_cases(rng, tier, boost)
    cases = corpus_cases() + cases
    res = vlib.differential(COMP, exe, cases)
    # where the model answers ERR:ub the C++ performs an undefined double -> int64 conversion (operand of % ^ & |
    # outside the 64-bit range): nothing defined to compare with.  A crash there is still reported.
    def undefined(i, m):
        # a real trap (SIGFPE, ASan) is reported; UBSan's own report of the undefined step is the expected outcome
        return m.startswith("ERR:ub") and (not i.startswith("CRASH") or "UBSan" in i)
    ub_skipped = [x for x in res.mismatch if undefined(x[1], x[2])] + [x for x in res.oracle_fail if undefined(x[1], x[2])]
    res.mismatch = [x for x in res.mismatch if not undefined(x[1], x[2])]
    res.oracle_fail = [x for x in res.oracle_fail if not undefined(x[1], x[2])]

    found_input = False
    seen = set()
    listed = {k.get("id"): k for k in vlib.known_findings(PROP)}
    unlisted = []
    for (c, i, m, tag) in res.oracle_fail:
        kf = kf_class(c)
        if kf and kf in listed and tag == "same":
            # recorded genuine defect, reproduced exactly by the pinned model
            rep.known_finding(kf, "site=%s witness=%r" % (listed[kf].get("site", "?"), case_text(c).strip()))
        else:
            unlisted.append((c, i, m, tag))
    for (c, i, m, tag) in unlisted[:300]:
        if len(seen) >= 5:
            break
        small = minimise(exe, c, True)
        if small in seen:
            continue
        seen.add(small)
        found_input = True
        rr = vlib.differential(COMP, exe, [small])
        ii, mm = (rr.oracle_fail[0][1], rr.oracle_fail[0][2]) if rr.oracle_fail else (i, m)
        if ii == "":
            ii, mm = i, m        # the driver died on the single case (sanitizer abort): keep the sharded run's CRASH tag
        rep.violation({"component": "expr", "case": small, "expression": case_text(small),
                       "format": "<expr units> <env> <tree>; impl/model token = eval|math|inline-if|if-block",
                       "observed_impl": ii, "model": mm,
                       "oracle": "fails: exact evaluation of the generated tree (spec_eval) differs from the implementation",
                       "original_case": c, "original_expression": case_text(c),
                       "model_agrees_with_impl": tag == "same",
                       "broken": None if proof_ok else "Properties_C04.vo"})
    mism = res.mismatch
    if not found_input and (mism or not proof_ok or res.bad):
        what = []
        if not proof_ok:
            what.append("coq/Properties_C04.vo no longer builds (theorems c04_* not re-established)")
        if mism:
            what.append("correspondence ExprModel.parse_eval vs TemplateCore::ParseExpressions/Evaluate/Render differs")
        if res.bad:
            what.append("driver output malformed")
        ex = None
        if mism:
            small = minimise(exe, mism[0][0], False)
            rr = vlib.differential(COMP, exe, [small])
            if rr.mismatch:
                ex = {"case": small, "expression": case_text(small), "impl": rr.mismatch[0][1], "model": rr.mismatch[0][2]}
            else:
                ex = {"case": mism[0][0], "expression": case_text(mism[0][0]), "impl": mism[0][1], "model": mism[0][2]}
        if res.bad and not ex:
            ex = {"case": res.bad[0][0], "impl": res.bad[0][1], "model": res.bad[0][2]}
        rep.violation({"broken": what, "first_mismatch": ex, "coq_log": st["log"][-3000:] if not proof_ok else "",
                       "searched_cases": len(cases)}, no_input=True)

    nt = len({c for c in cases if nontrivial(c)})
    rep.cov = {
        "obligations": len(theorems) if theorems else 1,
        "discharged": len(theorems) if proof_ok else 0,
        "checker_cmd": "cd coq && make Properties_C04.vo  (coqc 8.16.1, full .vo build) ; coqc -Q . Qv Properties_C04.v for Print Assumptions",
        "trusted_base": tb,
        "theorems": [{"name": n, "assumptions": a} for n, a in theorems],
        "evaluations": len(cases),
        "distinct_nontrivial": nt,
        "rule": "generated expression trees (depth <= 5) over 16 operators, literals (naturals up to 2^64-1, negatives, dyadic decimals, exponent forms), variables of 15 kinds incl. missing; printed with random spacing and redundant parentheses; every ordered pair of adjacent operators followed by a third; each through ParseExpressions+Evaluate, {math:}, {if}, <if>; non-trivial = at least two operators",
        "samples": [case_text(cases[0]), case_text(cases[len(cases) // 2]), case_text(cases[-1])],
        "input_distribution": dist,
        "traces_validated_against_impl": len(cases),
        "oracle_failures": len(res.oracle_fail),
        "oracle_failures_outside_known_findings": len(unlisted),
        "model_impl_mismatches": len(mism),
        "undefined_conversions_not_compared": len(ub_skipped),
        "crashes": len(res.crashes),
    }
    rep.assumptions = [
        "the theorems are about coq/ExprModel.v (the code after findings/D1 and findings/D14); the C++ is tied by gen/Tables_expr.v and by the differential run reported here (finite)",
        "char instantiation, LP64; results within 64 bits (|x| < 2^63); reals: exact dyadic values are compared exactly, rounded ones bit for bit with the SpecFloat model and within 2^-40 of the exact value",
    ]
    return rep.finish()


def replay(path):
    d = json.load(open(path))
    case = d.get("case")
    if not case:
        print("replay names a broken obligation, not an input:", d.get("broken"))
        fm = d.get("first_mismatch")
        if fm and fm.get("case"):
            case = fm["case"]
        else:
            return 1
    exe, msg = vlib.build_cpp("drv_expr", "drv_expr.cpp")
    r = vlib.differential(COMP, exe, [case])
    print("expression:", case_text(case))
    print("case:", case)
    for (c, i, m, tag) in r.oracle_fail:
        print("impl:", i, "\nmodel:", m, "\noracle: FAIL")
        return 1
    for (c, i, m) in r.mismatch:
        print("impl:", i, "\nmodel:", m, "\noracle: ok, model differs")
        return 1
    print("oracle ok, model agrees")
    return 0
