"""ledgervalue -- correspondence of the Value-tree ownership model (coq/LedgerValueModel.v, extracted by
coq/Extract_ledgervalue.v, glue ocaml/ledgervalue.ml) with Include/Value.hpp (HArray / Array / String underneath).

Both sides run the SAME operation history (the model's vocabulary vop) on a pool of n Value<char> variables.
  C++    cpp/drv_ledger_valuemodel.cpp, built with -DVERIF_LEDGER=1 (cpp/ledger.hpp: the library's own MemoryRecord
         seam): after EVERY operation the number of live allocations (relative to the empty pool), what the pool
         structurally owns (objects with storage, keys owning a block, arrays with storage, strings owning a block),
         the capacity of the target container before / after, the number of bad releases; at the end the count
         after the pool is destroyed.
  model  after EVERY operation the number of owned ids and the split (object storage, key blocks, array blocks,
         string blocks); "E" for Error UAF; at the end the ids still live after destroy_all_values.
The model's flags are DERIVED FROM WHAT THE C++ DID (two passes: first the C++, then the model):
  grow  (I, A, V, M: the operation reallocates the target's storage) = the target's Capacity() changed
  re    (C: this level of Compress reallocates) = the condition of the code evaluated by the driver before the call:
        array: number of defined elements != Capacity(); object: tombstones present or no item left
  Value::Compress is recursive; the model's OCompress is one level: the driver reports the levels Compress will
  visit (pre-order, paths after the compaction of the ancestors) and the history given to the model has one
  OCompress per level; only the state after the last level is compared.
  `*d += *s` on two objects is Merge in the code: the model is given OMerge for it.
  `*d = *s` with d = s does nothing in the code (this == &val): the model is given a no-op.
Compared per operation: live allocations = model's owned ids; (objects, keys, arrays, strings) = the model's split;
no bad release; live = objects + keys + arrays + strings (nothing is live that the pool does not own);
final = 0 on both sides.  Every block count is compared: strings are built so that the counts are determined
(length 0 = a String without storage, otherwise one block; every key owns one block).

  correspond(rng, tier, boost) -> dict(n, n_mismatch, mismatches, distribution, samples)
  python3 tools/props/ledgervalue.py [seed] [n]
"""
import copy
import os
import random
import sys

sys.path.insert(0, os.path.dirname(os.path.dirname(os.path.abspath(__file__))))
sys.path.insert(0, os.path.dirname(os.path.abspath(__file__)))
import vlib

NAMES = {"S": "set_scalar", "T": "set_string", "Q": "set_pointer", "I": "get_or_create_member", "A": "append_scalar",
         "V": "append_value", "G": "assign", "M": "merge", "R": "remove_index", "C": "compress", "Z": "reset"}


def build():
    return vlib.build_cpp("drv_ledger_valuemodel", "drv_ledger_valuemodel.cpp", defines=["VERIF_LEDGER=1"])


def fp(p):
    return ".".join(str(x) for x in p)


# ---------------------------------------------------------------- a rough mirror, only to aim the generator
# value: ["u"] | ["s"] | ["p"] | ["t"] | ["a", [values]] | ["o", [slot]]   slot: [key, value] or None
def m_resolve(pool, p):
    if not p or p[0] >= len(pool):
        return None
    cur = pool[p[0]]
    k = 1
    while k < len(p):
        if cur[0] == "o":
            if k + 1 >= len(p) or p[k + 1] != 0 or p[k] >= len(cur[1]) or cur[1][p[k]] is None:
                return None
            cur = cur[1][p[k]][1]
            k += 2
        elif cur[0] == "a":
            if p[k] >= len(cur[1]):
                return None
            cur = cur[1][p[k]]
            k += 1
        else:
            return None
    return cur


def m_paths(v, base, out, depth=0):
    out.append(base)
    if depth > 4:
        return
    if v[0] == "o":
        for i, sl in enumerate(v[1]):
            if sl is not None:
                m_paths(sl[1], base + [i, 0], out, depth + 1)
    elif v[0] == "a":
        for i, e in enumerate(v[1]):
            m_paths(e, base + [i], out, depth + 1)


def m_set(v, new):
    v[:] = new


def m_size(v):
    if v[0] == "o":
        return 1 + sum(m_size(sl[1]) for sl in v[1] if sl is not None)
    if v[0] == "a":
        return 1 + sum(m_size(e) for e in v[1])
    return 1


def m_compress(v):
    if v[0] == "a":
        v[1][:] = [e for e in v[1] if e[0] != "u"]
        for e in v[1]:
            m_compress(e)
    elif v[0] == "o":
        v[1][:] = [sl for sl in v[1] if sl is not None]
        for sl in v[1]:
            m_compress(sl[1])


def is_prefix(p, q):
    return len(p) <= len(q) and q[:len(p)] == p


def gen_history(rng, n, nops):
    pool = [["u"] for _ in range(n)]
    ops = []
    w = {"S": 4, "T": 12, "Q": 2, "I": 22, "A": 12, "V": 8, "G": 14, "M": 12, "R": 8, "C": 4, "Z": 2}
    names = list(w.keys())
    ws = [w[k] for k in names]
    nk = rng.choice([3, 5, 8])
    for _ in range(nops):
        paths = []
        for i, v in enumerate(pool):
            m_paths(v, [i], paths)
        conts = [p for p in paths if m_resolve(pool, p)[0] in ("a", "o")]
        c = rng.choices(names, ws)[0]
        t = rng.choice(conts) if (conts and rng.random() < 0.6) else rng.choice(paths)
        if rng.random() < 0.03:
            t = t + [rng.randrange(3)] + ([0] if rng.random() < 0.5 else [])      # may not resolve: skipped on both sides
        tv = m_resolve(pool, t)
        if c == "S":
            ops.append(("S", fp(t)))
            if tv is not None:
                m_set(tv, ["s"])
        elif c == "T":
            ops.append(("T", fp(t), rng.choice([0, 1, 3, 9, 40])))
            if tv is not None:
                m_set(tv, ["t"])
        elif c == "Q":
            ops.append(("Q", fp(t), rng.randrange(n)))
            if tv is not None:
                m_set(tv, ["p"])
        elif c == "I":
            key = rng.randrange(nk)
            ops.append(("I", fp(t), key))
            if tv is not None:
                if tv[0] != "o":
                    m_set(tv, ["o", []])
                if not any(sl is not None and sl[0] == key for sl in tv[1]):
                    tv[1].append([key, ["u"]])
        elif c == "A":
            ops.append(("A", fp(t)))
            if tv is not None:
                if tv[0] != "a":
                    m_set(tv, ["a", []])
                tv[1].append(["s"])
        elif c == "R":
            k = rng.randrange(0, 6)
            if tv is not None and tv[0] in ("a", "o") and tv[1] and rng.random() < 0.8:
                k = rng.randrange(len(tv[1]))
            ops.append(("R", fp(t), k))
            if tv is not None and tv[0] == "a" and k < len(tv[1]):
                tv[1][k] = ["u"]
            if tv is not None and tv[0] == "o" and k < len(tv[1]):
                tv[1][k] = None
        elif c == "C":
            ops.append(("C", fp(t)))
            if tv is not None:
                m_compress(tv)
        elif c == "Z":
            ops.append(("Z", fp(t)))
            if tv is not None:
                m_set(tv, ["u"])
        else:
            # two targets: prefer a source inside the destination (own member), an ancestor, or another variable
            r = rng.random()
            inside = [p for p in paths if len(p) > len(t) and is_prefix(t, p)]
            above = [p for p in paths if len(p) < len(t) and is_prefix(p, t)]
            if c == "G" and inside and r < 0.35:
                s = rng.choice(inside)
            elif c == "G" and above and r < 0.5:
                s = rng.choice(above)
            else:
                s = rng.choice(paths)
            mv = rng.randrange(2)
            ops.append((c, fp(t), fp(s), mv))
            sv = m_resolve(pool, s)
            if tv is None or sv is None or m_size(sv) + m_size(tv) > 60:
                if tv is not None and sv is not None:
                    ops.pop()          # keep the trees small
                continue
            related = is_prefix(t, s) or is_prefix(s, t)
            if c == "G":
                if mv:
                    if is_prefix(s, t) and len(s) < len(t):
                        continue
                    sub = copy.deepcopy(sv)
                    m_set(sv, ["u"])
                    tv2 = m_resolve(pool, t)
                    if tv2 is not None:
                        m_set(tv2, sub)
                elif t != s:
                    m_set(tv, copy.deepcopy(sv))
            elif not related:
                both_obj = tv[0] == "o" and sv[0] == "o"
                if c == "V" and not both_obj:
                    if tv[0] != "a":
                        m_set(tv, ["a", []])
                    tv[1].append(copy.deepcopy(sv))
                    if mv:
                        m_set(sv, ["u"])
                else:
                    if tv[0] == "u":
                        m_set(tv, ["a", []])
                    if tv[0] == "a" and sv[0] == "a":
                        tv[1].extend(copy.deepcopy(e) for e in sv[1] if e[0] != "u")
                    elif tv[0] == "o" and sv[0] == "o":
                        for sl in sv[1]:
                            if sl is None:
                                continue
                            hit = [x for x in tv[1] if x is not None and x[0] == sl[0]]
                            if hit:
                                hit[0][1] = copy.deepcopy(sl[1])
                            else:
                                tv[1].append(copy.deepcopy(sl))
                    if mv:
                        m_set(sv, ["u"])
    return ops


# ---------------------------------------------------------------- lines
def cpp_line(n, ops):
    return "%d %s" % (n, ";".join(":".join(str(x) for x in o) for o in ops) if ops else "-")


def parse_impl(s):
    """-> (steps [(live, obj, key, arr, str, capb, capa, bad, info)], final) or None"""
    try:
        body, fin = s.rsplit("|", 1)
        steps = []
        if body != "-":
            for t in body.split(";"):
                f = t.split(",", 8)
                steps.append(tuple(int(x) for x in f[:8]) + (f[8],))
        return steps, int(fin)
    except (ValueError, IndexError):
        return None


def model_ops(n, ops, steps):
    """the model's history with the flags filled in from the C++ run; returns (model op strings, index of the
    model step that corresponds to the end of each C++ operation)"""
    out = []
    ends = []
    noop = "Z:%d" % (n + 7)
    for o, st in zip(ops, steps):
        c = o[0]
        g = 1 if st[5] != st[6] else 0
        info = st[8]
        if c in ("S", "Z"):
            out.append("%s:%s" % (c, o[1]))
        elif c in ("T", "Q", "R"):
            out.append("%s:%s:%d" % (c, o[1], o[2]))
        elif c == "I":
            out.append("I:%s:%d:%d" % (o[1], o[2], g))
        elif c == "A":
            out.append("A:%s:%d" % (o[1], g))
        elif c == "G":
            out.append(noop if (o[3] == 0 and o[1] == o[2]) else "G:%s:%s:%d" % (o[1], o[2], o[3]))
        elif c == "V":
            out.append("%s:%s:%s:%d:%d" % ("M" if info == "o" else "V", o[1], o[2], o[3], g))
        elif c == "M":
            out.append("M:%s:%s:%d:%d" % (o[1], o[2], o[3], g))
        elif c == "C":
            if info in ("-", "k"):
                out.append(noop if info == "k" else "C:%s:0" % o[1])
            else:
                for lv in info.split("+"):
                    p, re = lv.split("*")
                    out.append("C:%s:%s" % (p, re))
        ends.append(len(out) - 1)
    return out, ends


def parse_model(s):
    try:
        body, fin = s.rsplit("|", 1)
        steps = [] if body == "-" else [None if t == "E" else tuple(int(x) for x in t.split(",")) for t in body.split(";")]
        return steps, (None if fin == "E" else int(fin))
    except ValueError:
        return None


def judge(ops, impl, model, ends):
    """-> None when the two sides agree, else a description of the first disagreement"""
    pi, pm = parse_impl(impl), parse_model(model)
    if pi is None:
        return "driver output unusable: " + impl[:200]
    if pm is None:
        return "model output unusable: " + model[:200]
    (si, fi), (sm, fm) = pi, pm
    if len(si) != len(ops):
        return "step count differs (impl %d, ops %d)" % (len(si), len(ops))
    for n, a in enumerate(si):
        op = ":".join(str(x) for x in ops[n])
        if ends[n] >= len(sm):
            return "step %d (%s): the model history is shorter than expected" % (n, op)
        first = ends[n - 1] + 1 if n else 0
        if any(sm[q] is None for q in range(first, ends[n] + 1)):
            return "step %d (%s): the model reports Error UAF" % (n, op)
        b = sm[ends[n]]
        if a[7] != 0:
            return "step %d (%s): the C++ released an unknown / already released block or was handed a live block (%d)" % (n, op, a[7])
        if a[0] != a[1] + a[2] + a[3] + a[4]:
            return "step %d (%s): %d allocations live but the pool owns %d" % (n, op, a[0], a[1] + a[2] + a[3] + a[4])
        if a[0] != b[0]:
            return "step %d (%s): live allocations %d, model owns %d ids" % (n, op, a[0], b[0])
        if a[1:5] != b[1:5]:
            return "step %d (%s): pool owns (objects, keys, arrays, strings) = %s, model %s" % (n, op, a[1:5], b[1:5])
    if fi != 0:
        return "after destroying the pool %d allocations are still live" % fi
    if fm != 0:
        return "model: after destroy_all_values %s ids are live" % fm
    return None


def run_cases(exe, mexe, cases):
    """cases: (n, ops) -> list of (n, ops, impl, model, verdict, model line)"""
    il = [cpp_line(n, ops) for (n, ops) in cases]
    impl, _cr = vlib.run_sharded(exe, [], il, timeout=600)
    ml, allends = [], []
    for (n, ops), i in zip(cases, impl):
        p = parse_impl(i) if i and not i.startswith("CRASH") else None
        if p and len(p[0]) == len(ops):
            mo, ends = model_ops(n, ops, p[0])
        else:
            mo, ends = [], []
        ml.append("%d %s" % (n, ";".join(mo) if mo else "-"))
        allends.append(ends)
    model, _ = vlib.run_sharded(mexe, [], ml, timeout=600)
    out = []
    for (n, ops), i, m, mline, ends in zip(cases, impl, model, ml, allends):
        if i.startswith("CRASH") or parse_impl(i) is None or len(parse_impl(i)[0]) != len(ops):
            out.append((n, ops, i, m, "the C++ run did not finish: " + i[:200], mline))
        else:
            out.append((n, ops, i, m, judge(ops, i, m, ends), mline))
    return out


def gen_cases(rng, count, maxops):
    cases = []
    for _ in range(count):
        n = rng.choice([1, 2, 2, 3, 3])
        nops = rng.choice([maxops, maxops, rng.randrange(1, maxops + 1), rng.randrange(1, 12)])
        cases.append((n, gen_history(rng, n, nops)))
    return cases


FIXED = [
    # assignment from an own member by copy and by move (D40), copy from an ancestor
    (1, [("I", "0", 1), ("T", "0.0.0", 9), ("I", "0", 2), ("A", "0.1.0"), ("A", "0.1.0"), ("T", "0.1.0.1", 3), ("G", "0", "0.1.0", 0), ("G", "0", "0.1", 1), ("G", "0", "0", 0), ("G", "0", "0", 1)]),
    (2, [("I", "0", 1), ("I", "0", 2), ("T", "0.1.0", 5), ("G", "0.0.0", "0", 0), ("G", "1", "0.0.0", 1), ("G", "0.1.0", "0", 1), ("C", "0")]),
    # merge by move / by copy with a colliding and a new key; tombstones; growth
    (2, [("I", "0", 1), ("T", "0.0.0", 4), ("I", "1", 1), ("T", "1.0.0", 6), ("I", "1", 2), ("A", "1.1.0"), ("R", "1", 5), ("M", "0", "1", 1)]),
    (2, [("I", "0", 1), ("I", "0", 2), ("I", "0", 3), ("R", "0", 1), ("I", "1", 2), ("T", "1.0.0", 2), ("M", "0", "1", 0), ("M", "1", "0", 1), ("C", "1"), ("V", "0", "1", 0), ("V", "0", "1", 1)]),
    # arrays: removed elements stay Undefined, Merge takes the defined ones, Compress drops them; type mismatch resets the source
    (3, [("A", "0"), ("A", "0"), ("T", "0.1", 7), ("A", "0"), ("R", "0", 0), ("M", "1", "0", 0), ("M", "2", "0", 1), ("C", "2"), ("T", "1", 3), ("M", "1", "2", 1), ("V", "1", "0", 1)]),
    (2, [("A", "0"), ("A", "0.0"), ("A", "0.0"), ("R", "0.0", 0), ("R", "0.0", 1), ("I", "0.0", 4), ("C", "0"), ("R", "0", 0), ("C", "0"), ("Q", "1", 0), ("G", "0", "1", 0), ("V", "0", "1", 0), ("Z", "0")]),
    (1, [("T", "0", 0), ("G", "0", "0", 0), ("A", "0"), ("T", "0.0", 0), ("V", "0", "0.0", 0), ("S", "0.7"), ("I", "0.0.0", 1), ("R", "0", 9)]),
]


def correspond(rng, tier, boost=1):
    ok, log = vlib.coq_make(["Extract_ledgervalue.vo"])
    if not ok:
        return {"n": 0, "mismatches": [{"broken": "coq/Extract_ledgervalue.vo does not build", "log": log[-2000:]}], "distribution": {}, "samples": []}
    exe, msg = build()
    if exe is None:
        return {"n": 0, "mismatches": [{"broken": "cpp/drv_ledger_valuemodel.cpp does not build", "log": msg}], "distribution": {}, "samples": []}
    mexe, mmsg = vlib.build_ocaml("ledgervalue")
    if mexe is None:
        return {"n": 0, "mismatches": [{"broken": "extracted Value ownership model does not build", "log": mmsg}], "distribution": {}, "samples": []}
    count = (1500 if tier == "quick" else 20000) * boost
    maxops = 40 if tier == "quick" else 80
    cases = list(FIXED) + gen_cases(rng, count, maxops)
    res = run_cases(exe, mexe, cases)
    dist = {v: 0 for v in NAMES.values()}
    dist.update({"steps": 0, "skipped_steps": 0, "growth_steps": 0, "assign_from_own_member": 0, "assign_from_ancestor": 0,
                 "by_move": 0, "by_copy": 0, "append_value_on_two_objects": 0, "compress_levels": 0})
    for (n, ops, i, m, v, ml) in res:
        dist["steps"] += len(ops)
        p = parse_impl(i)
        for k, o in enumerate(ops):
            dist[NAMES[o[0]]] += 1
            if o[0] in "GVM":
                dist["by_move" if o[3] else "by_copy"] += 1
                d, s = o[1].split("."), o[2].split(".")
                if o[0] == "G" and len(s) > len(d) and s[:len(d)] == d:
                    dist["assign_from_own_member"] += 1
                if o[0] == "G" and len(s) < len(d) and d[:len(s)] == s:
                    dist["assign_from_ancestor"] += 1
            if p and k < len(p[0]):
                st = p[0][k]
                dist["skipped_steps"] += 1 if st[8] == "k" else 0
                dist["growth_steps"] += 1 if st[5] != st[6] else 0
                dist["append_value_on_two_objects"] += 1 if st[8] == "o" else 0
                if o[0] == "C" and st[8] not in ("-", "k"):
                    dist["compress_levels"] += st[8].count("+") + 1
    bad = [r for r in res if r[4] is not None]
    out = {"n": len(res), "n_mismatch": len(bad), "mismatches": [], "distribution": dist,
           "samples": [cpp_line(r[0], r[1])[:300] for r in res[len(res) // 2: len(res) // 2 + 3]]}
    for r in bad[:3]:
        small = minimise(exe, mexe, r)
        out["mismatches"].append({"case": cpp_line(small[0], small[1]), "model_case": small[5], "what": small[4],
                                  "impl": small[2][:1500], "model": small[3][:1500], "original_case": cpp_line(r[0], r[1])[:3000]})
    return out


def minimise(exe, mexe, r):
    n = r[0]

    def fails(ops):
        return run_cases(exe, mexe, [(n, list(ops))])[0][4] is not None

    small = vlib.shrink_list(list(r[1]), fails, max_steps=200)
    return run_cases(exe, mexe, [(n, small)])[0]


def parse_case(case):
    tk = case.split(" ")
    ops = []
    if tk[1] != "-":
        for o in tk[1].split(";"):
            f = o.split(":")
            c = f[0]
            if c in ("S", "A", "C", "Z"):
                ops.append((c, f[1]))
            elif c in ("T", "Q", "I", "R"):
                ops.append((c, f[1], int(f[2])))
            else:
                ops.append((c, f[1], f[2], int(f[3])))
    return int(tk[0]), ops


def main():
    seed = int(sys.argv[1]) if len(sys.argv) > 1 else 1
    count = int(sys.argv[2]) if len(sys.argv) > 2 else 1500
    rng = random.Random(seed)
    ok, log = vlib.coq_make(["Extract_ledgervalue.vo"])
    if not ok:
        print(log[-3000:])
        return 2
    exe, msg = build()
    if exe is None:
        print(msg)
        return 2
    mexe, mmsg = vlib.build_ocaml("ledgervalue")
    if mexe is None:
        print(mmsg)
        return 2
    cases = list(FIXED) + gen_cases(rng, count, int(os.environ.get("LEDGERVALUE_MAXOPS", "40")))
    res = run_cases(exe, mexe, cases)
    bad = [r for r in res if r[4] is not None]
    dist = {}
    for r in res:
        for o in r[1]:
            dist[NAMES[o[0]]] = dist.get(NAMES[o[0]], 0) + 1
    print("cases", len(res), "steps", sum(len(r[1]) for r in res), "mismatches", len(bad))
    print("operation kinds:", " ".join("%s=%d" % (k, dist.get(k, 0)) for k in NAMES.values()))
    seen = set()
    for r in bad:
        if len(seen) >= int(os.environ.get("LEDGERVALUE_SHOW", "3")):
            break
        s = minimise(exe, mexe, r)
        line = cpp_line(s[0], s[1])
        if line in seen:
            continue
        seen.add(line)
        print("---- case ", line)
        print("     model", s[5])
        print("     what ", s[4])
        print("     impl ", s[2][:400])
        print("     model", s[3][:400])
    return 1 if bad else 0


if __name__ == "__main__":
    sys.exit(main())
