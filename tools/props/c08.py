"""C08 -- Stringify then Parse returns the same tree, and the text is valid JSON.

Proof: coq/Properties_C08.v.
Tie:   trees built through the public Value API (removed members, Undefined members, pointer
       members, empty containers, strings over all code units, integers at the boundaries,
       reals): text, reparsed dump, second text.  Oracle: reparsed = normalize(tree), fixed
       point, and the text is accepted by the extracted RFC 8259 recogniser."""
from props import jsoncommon as jc

PROP = "C08"


def gen(rng, tier, boost):
    cases = []
    dist = {"tree_no_reals": 0, "tree_with_reals": 0}
    n = (30000 if tier == "quick" else 500000) * boost
    for k in range(n):
        w = rng.randrange(4)
        c = jc.s_case(rng, w, reals=(k % 4 == 0))
        cases.append(c)
        dist["tree_with_reals" if c.startswith("R") else "tree_no_reals"] += 1
    return cases, dist


def check(tier):
    return jc.run_check(PROP, tier, gen, "Properties_C08.v",
                        "reparsed dump = dump(normalize tree), second stringify = first, text accepted by the RFC 8259 recogniser",
                        "random trees of depth <= 5 built through the Value API: removed / Undefined members, pointers, empty containers, strings over all code units "
                        "(NUL, controls, quote, backslash, lone surrogates, maximal unit), unsigned / signed boundary integers, doubles (every 4th tree); four widths; non-trivial = distinct trees")


def replay(path):
    return jc.replay(path)
