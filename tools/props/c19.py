"""C19 -- BigInt holds the exact mathematical integer after every operation that fits.

Proof: coq/Properties_C19.v (model coq/BigIntModel.v = Include/BigInt.hpp after the
       repairs D6-D10, D31).  For every word width, word count and history: every operation
       of the model keeps the invariant, holds the exact integer and returns the exact
       remainder / bit index / predicate (induction over the word list and the history);
       the 128/64 division helper is proved for every half width (Knuth D, one-digit estimate).
Tie:   differential run of cpp/drv_bigint.cpp (real BigInt<uint8|16|32|64, 64..2048> and the
       DoubleSize helpers, ASan+UBSan) against the extracted model, judged by the extracted
       exact-integer oracle (BigIntModel.oracle)."""
import json
import os
import random

import vlib

PROP = "C19"
COMP = "bigint"
COMBOS = {8: [64, 72, 256, 2048], 16: [64, 120, 1024], 32: [64, 96, 256, 2048], 64: [64, 128, 192, 256, 1000, 2048]}
HELPERS = [(8, 8), (16, 16), (32, 32), (64, 64), (32, 64), (16, 64), (8, 64)]
# (t, 64) with t < 64: the split algorithms of DoubleSize<., 64U> re-instantiated on t-bit words (t/2-bit halves);
# t = 16 and t = 8 through the driver's promotion-free word type Narrow<>
QUICK_D8 = [1, 2, 3, 7, 8, 9, 15, 16, 17, 127, 128, 129, 131, 193, 254, 255]


def nwords(w, nbits):
    return (nbits + w - 1) // w


def ctz(v):
    return (v & -v).bit_length() - 1


# ---------------------------------------------------------------------------
# python mirror of the specification, used ONLY to generate histories whose
# preconditions hold (the judgement is done by the extracted Coq oracle)


def py_spec(w, n, v, op):
    """returns (new value, fits/precondition ok)"""
    lim = 1 << (w * n)
    bw = 1 << w
    f = op.split(".")
    c = f[0]
    a = [int(x) for x in f[1:]]

    def fit(x):
        return (x, x < lim)

    if c in "SKV":
        return fit(a[1]) if a[1] < (1 << a[0]) else (v, False)
    if c == "E":
        return (v // a[0], True) if 0 < a[0] < bw else (v, False)
    if c in "WYZ":
        return (v, True)
    if c == "U":
        if not (a[0] < n and a[1] < bw):
            return (v, False)
        sh = w * a[0]
        nv = v - (((v >> sh) & (bw - 1)) << sh) + (a[1] << sh)
        top = (nv.bit_length() - 1) // w if nv else 0
        return (nv, a[2] == top)
    if c == "A":
        return fit(v + a[1]) if a[1] < (1 << a[0]) else (v, False)
    if c == "B":
        return (v - a[1], True) if (a[1] < (1 << a[0]) and a[1] <= v) else (v, False)
    if c == "O":
        return (v | a[1], True) if (a[1] < (1 << a[0]) and a[1] < lim) else (v, False)
    if c == "N":
        return (v & a[1], True) if (a[1] < (1 << a[0]) and a[1] < lim) else (v, False)
    if c == "P":
        return fit(v + (a[0] << (w * a[1]))) if a[0] < bw else (v, False)
    if c == "Q":
        x = a[0] << (w * a[1])
        return (v - x, True) if (a[0] < bw and x <= v and a[1] < n) else (v, False)
    if c == "M":
        return fit(v * a[0]) if a[0] < bw else (v, False)
    if c == "D":
        return (v // a[0], True) if 0 < a[0] < bw else (v, False)
    if c == "L":
        return fit(v << a[0])
    if c == "R":
        return (v >> a[0], True)
    if c in "FG":
        return (v, v != 0)
    if c == "C":
        return (v, a[0] < bw)
    if c == "T":
        return (v, True)
    if c == "X":
        return (0, True)
    return (v, False)


def valid_history(w, nbits, ops, allow_last_unfit=True):
    n = nwords(w, nbits)
    v = 0
    for k, op in enumerate(ops):
        v2, ok = py_spec(w, n, v, op)
        if not ok:
            # only an overflowing (not a precondition-violating) last operation is tolerated
            return allow_last_unfit and k == len(ops) - 1 and op[0] in UNFIT_KINDS and safe_unfit(w, n, op)
        v = v2
    return True


UNFIT_KINDS = "SAPMLKVBQU"


def safe_unfit(w, n, op):
    """an operation outside the property (overflow, underflow, SetIndex to a wrong but in-range word) that is
    still defined behaviour: allowed as the LAST step, where model and code must agree and the oracle is silent"""
    f = op.split(".")
    a = [int(x) for x in f[1:]]
    if f[0] in "SAKVB":
        return a[1] < (1 << a[0]) and a[0] <= w * n
    if f[0] in "PQ":
        return a[0] < (1 << w) and a[1] < n
    if f[0] == "U":
        return a[0] < n and a[1] < (1 << w) and a[2] < n
    if f[0] == "M":
        return a[0] < (1 << w)
    return f[0] == "L"


def operand(rng, bits):
    m = rng.randrange(10)
    full = (1 << bits) - 1
    if m == 0:
        return 0
    if m == 1:
        return 1
    if m == 2:
        return full
    if m == 3:
        return 1 << rng.randrange(bits)
    if m == 4:
        return rng.getrandbits(bits) | (1 << (bits - 1))
    if m == 5:
        return (rng.getrandbits(bits) | (1 << (bits - 1)) | 1) & full
    if m == 6:
        return rng.randrange(1, 12)
    if m == 7:
        return full - rng.randrange(0, 3)
    if m == 8:
        return (1 << rng.randrange(bits)) - 1
    return rng.getrandbits(bits)


def gen_history(rng, w, nbits, maxlen=40):
    n = nwords(w, nbits)
    total = w * n
    lim = 1 << total
    v = 0
    ops = []
    nsteps = rng.choice([3, 6, 10, 16, 24, 32, 40, 40])
    nsteps = min(nsteps, maxlen)
    wides = [b for b in (8, 16, 32, 64)]
    tries = 0
    while len(ops) < nsteps and tries < 400:
        tries += 1
        k = rng.choice("SAAABBBOONNPQMMMDDDLLLRRFGCTKXEVWYZUU" if v else "SSAAOPMLLRCTKSNVWYZUB")
        ow = rng.choice(wides)
        if rng.random() < 0.4:
            ow = w
        if k in "SKV":
            op = "%s.%d.%d" % (k, ow, operand(rng, ow))
        elif k in "WYZ":
            op = k
        elif k == "U":
            topw = (v.bit_length() - 1) // w if v else 0
            i = min(n - 1, rng.choice([0, topw, topw, topw + 1, n - 1, rng.randrange(n)]))
            x = operand(rng, w)
            if rng.random() < 0.3:
                x = 0
            sh = w * i
            nv = v - (((v >> sh) & ((1 << w) - 1)) << sh) + (x << sh)
            kk = (nv.bit_length() - 1) // w if nv else 0
            if rng.random() < 0.03:
                kk = rng.randrange(n)          # a wrong index: outside the property, only as the last step
            op = "U.%d.%d.%d" % (i, x, kk)
        elif k == "A":
            x = operand(rng, ow)
            op = "A.%d.%d" % (ow, x)
        elif k == "B":
            x = operand(rng, ow)
            r = rng.random()
            if x > v and r < 0.04:
                pass                            # an underflow: outside the property, only as the last step
            elif x > v or r < 0.15:
                if v < (1 << ow) and r < 0.5:
                    x = v
                else:
                    x = min(x, v) if r < 0.8 else (v & ((1 << ow) - 1))
                    if x > v:
                        x = 0
            op = "B.%d.%d" % (ow, x)
        elif k in "ON":
            op = "%s.%d.%d" % (k, ow, operand(rng, ow))
        elif k == "P":
            op = "P.%d.%d" % (operand(rng, w), rng.choice([0, 0, 1, n - 1, rng.randrange(n)]))
        elif k == "Q":
            top = (v.bit_length() - 1) // w if v else 0
            i = rng.choice([0, top, rng.randrange(top + 1)])
            x = operand(rng, w)
            if (x << (w * i)) > v:
                x = (v >> (w * i)) & ((1 << w) - 1) if rng.random() < 0.7 else 1
            op = "Q.%d.%d" % (x, i)
        elif k == "M":
            op = "M.%d" % operand(rng, w)
        elif k in "DE":
            d = operand(rng, w)
            if d == 0:
                d = rng.choice([1, 2, 3, 10, (1 << w) - 1, (1 << (w - 1)) + 1])
            op = "%s.%d" % (k, d)
        elif k == "L":
            room = total - v.bit_length() if v else total + 8
            r = rng.randrange(8)
            if r == 0:
                s = room
            elif r == 1:
                s = (room // w) * w
            elif r == 2:
                s = rng.choice([w - 1, w, w + 1, 1, 2 * w])
            elif r == 3:
                s = rng.randrange(0, max(1, room + 1))
            elif r == 4:
                s = (rng.randrange(0, max(1, room + 1)) // w) * w
            elif r == 5:
                s = rng.randrange(0, total + 10)
            else:
                s = rng.randrange(0, min(room, 3 * w) + 1)
            op = "L.%d" % s
        elif k == "R":
            bl = v.bit_length()
            r = rng.randrange(7)
            if r == 0:
                s = rng.randrange(0, total + 10)
            elif r == 1:
                s = (rng.randrange(0, bl + 1) // w) * w
            elif r == 2:
                s = rng.choice([w - 1, w, w + 1, 1, bl, max(0, bl - 1)])
            else:
                s = rng.randrange(0, bl + 2)
            op = "R.%d" % s
        elif k == "C":
            x = operand(rng, w)
            if rng.random() < 0.4:
                x = v & ((1 << w) - 1)
            op = "C.%d" % x
        elif k == "T":
            op = "T.%d" % rng.choice([8, 16, 32, 64])
        else:
            op = k
        v2, ok = py_spec(w, n, v, op)
        if ok:
            ops.append(op)
            v = v2
        elif rng.random() < (0.5 if op[0] in "BU" else 0.04) and op[0] in UNFIT_KINDS and safe_unfit(w, n, op):
            ops.append(op)      # an overflowing last step: model and code must still agree, the oracle is silent
            break
    return ops


SCENARIOS = [
    # carry / borrow chains across every word, zero handling, the defect replays
    lambda w, n: ["S.%d.1" % w, "L.%d" % (w * (n - 1)), "B.%d.1" % w, "A.%d.1" % w, "B.%d.1" % w, "F", "G", "C.0"],
    lambda w, n: ["L.%d" % w, "L.%d" % (w * n), "R.%d" % w, "M.0", "C.0", "X", "L.%d" % (w + 3), "C.0"],
    lambda w, n: ["S.%d.1" % w, "L.%d" % w, "M.0", "C.5", "A.%d.7" % w],
    lambda w, n: ["S.%d.1" % w, "L.%d" % w, "O.%d.3" % w, "N.%d.1" % w, "A.%d.%d" % (w, (1 << w) - 1), "T.64"],
    lambda w, n: ["S.%d.1" % w, "L.%d" % (2 * w if n > 2 else w), "O.%d.4" % w, "F", "G"],
    lambda w, n: ["S.64.%d" % ((1 << 64) - 1), "N.64.%d" % 0xFF00FF, "T.64", "A.64.%d" % ((1 << 64) - 1)] if w * n > 64 else ["S.64.%d" % ((1 << 64) - 1), "N.64.%d" % 0xFF00FF, "T.64"],
    lambda w, n: ["S.%d.7" % w, "L.%d" % w, "O.%d.5" % w, "K.%d.9" % w, "A.%d.%d" % (w, (1 << w) - 1)],
    lambda w, n: ["S.%d.%d" % (w, (1 << (w - 2)) + 1), "L.%d" % w, "O.%d.%d" % (w, 1 << (w - 1)), "D.%d" % ((1 << (w - 1)) + 1)],
    lambda w, n: ["S.%d.%d" % (w, (1 << w) - 1), "M.%d" % ((1 << w) - 1), "D.%d" % ((1 << w) - 1), "D.%d" % ((1 << w) - 1)],
    lambda w, n: ["S.%d.1" % w, "L.%d" % (w * n - 1), "R.%d" % (w * n - 1), "L.%d" % (w - 1), "L.1", "R.%d" % w],
    # move / copy construction and assignment, /=, Storage()+SetIndex
    lambda w, n: ["S.%d.7" % w, "L.%d" % w, "O.%d.5" % w, "W", "Y", "Z", "V.%d.9" % w, "A.%d.%d" % (w, (1 << w) - 1), "W"],
    lambda w, n: ["S.%d.%d" % (w, (1 << w) - 1), "M.%d" % ((1 << w) - 1), "E.%d" % ((1 << w) - 1), "E.3", "U.1.3.1", "U.1.0.0", "C.0"] if n > 1 else ["S.%d.9" % w, "E.3", "U.0.0.0", "C.0"],
    lambda w, n: ["U.%d.1.%d" % (n - 1, n - 1), "B.%d.1" % w, "W", "U.%d.0.%d" % (n - 1, max(0, n - 2)), "F", "G", "Y"] if n > 2 else ["U.0.5.0", "W", "Y"],
]


def half_set(h, rng=None, extra=0):
    """boundary half-words: the carry structure of the split algorithms depends on the halves"""
    b = {0, 1, 2, 3, (1 << (h - 1)) - 1, 1 << (h - 1), (1 << (h - 1)) + 1, (1 << h) - 2, (1 << h) - 1}
    b = {x for x in b if 0 <= x < (1 << h)}
    if rng is not None:
        for _ in range(extra):
            b.add(rng.getrandbits(h))
    return sorted(b)


def split_cases(rng, tier):
    """(a) every double-word helper instantiation on operands assembled from boundary half-words:
           Multiply: all (aH, aL, bH, bL) in B^4 (9^4 = 6561 for h >= 4) plus 2000 pairs over B + 3 random halves;
           Divide: divisor in B^2 \ {0}, high word in B^2 below the divisor, low word in L^2 (L = B in the thorough
           tier, {0, 1, 2^(h-1), 2^h-1} in the quick tier);
       (b) the split algorithms at 8-bit words (4-bit halves): Multiply exhaustively (65536 pairs); Divide exhaustively
           over (high, low) for the divisors of QUICK_D8 in the quick tier (every divisor: thorough tier, chunked)."""
    cases = []
    counts = {"a_mul": 0, "a_div": 0, "b_mul8": 0, "b_div8": 0}
    for (t, hw) in HELPERS:
        if (t, hw) == (8, 64):
            continue
        h = t // 2
        B = half_set(h)
        word = lambda hi, lo: (hi << h) | lo
        words = [word(x, y) for x in B for y in B]
        for a in words:
            for m in words:
                cases.append("M %d %d %d %d" % (t, hw, a, m))
                counts["a_mul"] += 1
        BR = half_set(h, rng, 3)
        for _ in range(2000):
            cases.append("M %d %d %d %d" % (t, hw, word(rng.choice(BR), rng.choice(BR)), word(rng.choice(BR), rng.choice(BR))))
            counts["a_mul"] += 1
        L = B if tier != "quick" else sorted({0, 1, 1 << (h - 1), (1 << h) - 1})
        lows = [word(x, y) for x in L for y in L]
        for d in words:
            if d == 0:
                continue
            for hi in words:
                if hi >= d:
                    continue
                for lo in lows:
                    cases.append("D %d %d %d %d %d" % (t, hw, hi, lo, d))
                    counts["a_div"] += 1
    for a in range(256):
        for m in range(256):
            cases.append("M 8 64 %d %d" % (a, m))
            counts["b_mul8"] += 1
    for d in QUICK_D8:
        for hi in range(d):
            for lo in range(256):
                cases.append("D 8 64 %d %d %d" % (hi, lo, d))
                counts["b_div8"] += 1
    return cases, counts


def div8_chunks():
    """thorough tier: DoubleSize<Narrow<uint8>, 64U>::Divide on EVERY (high, low, divisor) with high < divisor"""
    chunk = []
    for d in range(1, 256):
        if d in QUICK_D8:
            continue
        for hi in range(d):
            for lo in range(256):
                chunk.append("D 8 64 %d %d %d" % (hi, lo, d))
        if len(chunk) > 900000:
            yield chunk
            chunk = []
    if chunk:
        yield chunk


def helper_cases(rng, count):
    cases = []
    for (t, hw) in HELPERS:
        full = (1 << t) - 1
        for _ in range(count):
            a, m = operand(rng, t), operand(rng, t)
            cases.append("M %d %d %d %d" % (t, hw, a, m))
            d = operand(rng, t)
            r = rng.random()
            if r < 0.35:
                d = (rng.getrandbits(t) | (1 << (t - 1)) | 1) & full      # odd, top bit set (overflow branch)
            elif r < 0.45:
                d = (1 << (t - 1)) + rng.randrange(0, 4)
            if d == 0:
                d = 1
            hi = min(d - 1, rng.choice([0, d - 1, d // 2, d // 2 + 1, rng.randrange(d), rng.randrange(d)]))
            lo = operand(rng, t)
            if rng.random() < 0.3:
                lo = rng.choice([d - 1, full, (full - d) & full, 1 << (t - 1)])
            cases.append("D %d %d %d %d %d" % (t, hw, hi, lo, d))
        # the D8 replay scaled to this width
        cases.append("D %d %d %d %d %d" % (t, hw, (1 << (t - 2)) + 1, 1 << (t - 1), (1 << (t - 1)) + 1))
    return cases


def gen_cases(rng, tier, boost=1):
    cases = []
    dist = {"scenario": 0, "history": 0, "helper": 0}
    for w, widths in COMBOS.items():
        for nb in widths:
            n = nwords(w, nb)
            for sc in SCENARIOS:
                ops = sc(w, n)
                # keep the longest valid prefix
                while ops and not valid_history(w, nb, ops, allow_last_unfit=False):
                    ops = ops[:-1]
                if ops:
                    cases.append("S %d %d %s" % (w, nb, ";".join(ops)))
                    dist["scenario"] += 1
    nh = (12000 if tier == "quick" else 150000) * boost
    combos = [(w, nb) for w, ws in COMBOS.items() for nb in ws]
    for i in range(nh):
        w, nb = combos[i % len(combos)]
        big = nwords(w, nb) > 64
        ops = gen_history(rng, w, nb, maxlen=(16 if big else 40))
        if ops:
            cases.append("S %d %d %s" % (w, nb, ";".join(ops)))
            dist["history"] += 1
    hc = helper_cases(rng, (1500 if tier == "quick" else 40000) * boost)
    dist["helper"] = len(hc)
    sc, counts = split_cases(rng, tier)
    dist["helper_split"] = counts
    return cases + hc + sc, dist


def corpus_cases():
    res = []
    p = os.path.join(vlib.ROOT, "corpus", PROP, "cases.txt")
    if os.path.exists(p):
        for line in open(p):
            line = line.strip()
            if line and not line.startswith("#"):
                res.append(line)
    return res


def nontrivial(case):
    """a history is non-trivial when the value spans more than one word at some step and at
    least three value-changing operations are applied; a helper case when the operands exceed a half word"""
    tk = case.split(" ")
    if tk[0] == "S":
        w, nb = int(tk[1]), int(tk[2])
        n = nwords(w, nb)
        v = 0
        multi = False
        arith = 0
        for op in (tk[3].split(";") if tk[3] != "-" else []):
            v, ok = py_spec(w, n, v, op)
            if not ok:
                break
            if op[0] in "ABPQMDLRNOKEVU":
                arith += 1
            if v >> w:
                multi = True
        return multi and arith >= 3
    t = int(tk[1])
    return any(int(x) >> (t // 2) for x in tk[3:])


SENTINEL = "M 8 8 1 1"


def diff1(exe, case):
    """differential on ONE case; a sentinel line follows it because vlib.run_sharded only
    notices a crash when fewer lines than cases come back"""
    r = vlib.differential(COMP, exe, [case, SENTINEL])
    r.oracle_fail = [x for x in r.oracle_fail if x[0] == case]
    r.mismatch = [x for x in r.mismatch if x[0] == case]
    r.bad = [x for x in r.bad if x[0] == case]
    return r


def minimise(exe, case, want_oracle_fail):
    tk = case.split(" ")
    if tk[0] != "S":
        return case
    w, nb = int(tk[1]), int(tk[2])
    ops = tk[3].split(";")

    def fails(cand):
        if not cand or not valid_history(w, nb, cand):
            return False
        c = "S %d %d %s" % (w, nb, ";".join(cand))
        r = diff1(exe, c)
        return bool(r.oracle_fail) if want_oracle_fail else bool(r.oracle_fail or r.mismatch)

    small = vlib.shrink_list(ops, fails, max_steps=60)
    return "S %d %d %s" % (w, nb, ";".join(small))


TRUSTED = vlib.TRUSTED_BASE_COMMON + [
    "modelled (coq/BigIntModel.v): every member of BigInt<Number_T,Width> that touches storage_/index_ (operator= from a number, copy(), "
    "Add, Subtract, Multiply, Divide, ShiftLeft, ShiftRight, doOperation Set/Or/And/Add/Subtract in both overloads, FindFirstBit, FindLastBit, "
    "the comparison family, IsZero/NotZero/IsBig, the narrowing conversion, Clear, the copy and move constructors, move assignment, operator/=, SetIndex) and DoubleSize<.,8|16|32|64>::Multiply/Divide; "
    "Platform::FindFirstBit/FindLastBit are modelled as ctz / log2 (their contract); copy/move construction, move assignment (moved-from object = result of src.Clear()), operator/=, Storage()[i] = x; SetIndex(k) and the const read accessors are modelled and exercised",
    "the model describes the code after findings/D6,D7,D8,D9,D10,D31 patches",
]


def check(tier):
    rep = vlib.Report(PROP, tier, "proof")
    rng = random.Random(rep.seed)
    st = vlib.proof_stage(rep, "Properties_C19.v", [COMP], tables=(), clean=False)
    theorems = st["theorems"]
    proof_ok = st["ok"]

    exe, msg = vlib.build_cpp("drv_bigint", "drv_bigint.cpp")
    if exe is None:
        rep.violation({"broken": "cpp/drv_bigint.cpp does not build against the current tree", "log": msg}, no_input=True)
        rep.cov = {"obligations": max(1, len(theorems)), "discharged": 0, "checker_cmd": "make -C coq Properties_C19.vo", "trusted_base": TRUSTED}
        return rep.finish()

    all_cases = []
    found_input = False
    mism = []
    bad = []
    crashes = 0
    n_oracle_fail = 0
    dist_total = {}
    seen = set()
    for attempt in range(2):
        boost = 1 if attempt == 0 else 4
        if attempt == 0 and not proof_ok:
            boost = 4
        cases, dist = gen_cases(rng, tier, boost)
        if attempt == 0:
            cases = corpus_cases() + cases
        for k, v in dist.items():
            if isinstance(v, dict):
                t = dist_total.setdefault(k, {})
                for k2, v2 in v.items():
                    t[k2] = t.get(k2, 0) + v2
            else:
                dist_total[k] = dist_total.get(k, 0) + v
        all_cases += cases
        # stage A: corpus + fixed scenarios (cheap; a crashing tree is reported from here without
        # paying for a line-by-line rerun of thousands of histories), stage B: the rest
        nA = sum(1 for c in cases if c.startswith("S ")) - dist["history"] if attempt == 0 else 0
        r = vlib.differential(COMP, exe, cases[:nA]) if nA > 0 else vlib.DiffResult()
        if not r.oracle_fail:
            rb = vlib.differential(COMP, exe, cases[nA:])
            r.oracle_fail += rb.oracle_fail
            r.mismatch += rb.mismatch
            r.bad += rb.bad
            r.crashes += rb.crashes
        else:
            rep.notes.append("stage A (corpus + scenarios) already fails; generated histories not run")
        crashes += len(r.crashes)
        n_oracle_fail += len(r.oracle_fail)
        # shortest failing histories first; at most 6 minimisations
        for (c, i, m, tag) in sorted(r.oracle_fail, key=lambda t: len(t[0]))[:6]:
            if len(seen) >= 4:
                break
            small = minimise(exe, c, True)
            if small in seen:
                continue
            seen.add(small)
            found_input = True
            rr = diff1(exe, small)
            ii, mm = (rr.oracle_fail[0][1], rr.oracle_fail[0][2]) if rr.oracle_fail else (i, m)
            rep.violation({"component": "bigint", "case": small,
                           "format": "S <word bits> <Width_T> <ops ;-separated>  |  M/D <word bits> <helper width> operands",
                           "observed_impl": ii[:2000], "model": mm[:2000],
                           "oracle": "fails: some step's words / Index() / returned value differ from the exact integer result",
                           "original_case": c[:2000], "model_agrees_with_impl": tag == "same",
                           "broken": None if proof_ok else "Properties_C19.vo"})
        mism += r.mismatch
        bad += r.bad
        if found_input or not (mism or bad or not proof_ok):
            break
        # S ok everywhere but tie/proof broken: enlarge the search once

    # thorough tier: the 128/64 split division at 8-bit words on EVERY (high, low, divisor), in chunks
    sweep8 = 0
    if tier == "thorough" and not found_input:
        for chunk in div8_chunks():
            rc = vlib.differential(COMP, exe, chunk)
            sweep8 += len(chunk)
            crashes += len(rc.crashes)
            n_oracle_fail += len(rc.oracle_fail)
            mism += rc.mismatch[:3]
            bad += rc.bad[:3]
            if rc.oracle_fail:
                c, i, m, tag = rc.oracle_fail[0]
                found_input = True
                rep.violation({"component": "bigint", "case": c, "format": "D <word bits> <helper width> <high> <low> <divisor>",
                               "observed_impl": i, "model": m, "oracle": "fails: remainder / quotient differ from exact division",
                               "model_agrees_with_impl": tag == "same", "broken": None if proof_ok else "Properties_C19.vo"})
                break
        dist_total.setdefault("helper_split", {})["b_div8_thorough_extra"] = sweep8

    if not found_input and (mism or bad or not proof_ok):
        what = []
        if not proof_ok:
            what.append("coq/Properties_C19.vo no longer builds (theorems c19_* not re-established)")
        if mism:
            what.append("correspondence BigIntModel.run_ops / mul2 / div2 vs Include/BigInt.hpp differs")
        if bad:
            what.append("driver output malformed")
        ex = None
        if mism:
            small = minimise(exe, mism[0][0], False)
            rr = diff1(exe, small)
            if rr.mismatch:
                ex = {"case": small, "impl": rr.mismatch[0][1][:2000], "model": rr.mismatch[0][2][:2000]}
            else:
                ex = {"case": mism[0][0][:2000], "impl": mism[0][1][:2000], "model": mism[0][2][:2000]}
        elif bad:
            ex = {"case": bad[0][0][:2000], "impl": bad[0][1][:500], "model": bad[0][2][:500]}
        rep.violation({"broken": what, "first_mismatch": ex, "coq_log": st["log"][-3000:] if not proof_ok else "",
                       "searched_cases": len(all_cases)}, no_input=True)

    distinct = set(all_cases)
    nt = sum(1 for c in distinct if nontrivial(c))
    steps = sum(len(c.split(" ")[3].split(";")) for c in all_cases if c.startswith("S "))
    rep.cov = {
        "obligations": len(theorems) if theorems else 1,
        "discharged": len(theorems) if proof_ok else 0,
        "checker_cmd": "cd coq && make Properties_C19.vo (coqc 8.16.1, full .vo build); coqc -Q . Qv Properties_C19.v for Print Assumptions",
        "trusted_base": TRUSTED,
        "theorems": [{"name": n, "assumptions": a} for n, a in theorems],
        "evaluations": len(all_cases) + sweep8,
        "distinct_nontrivial": nt,
        "rule": "operation histories (<= 40 steps; <= 16 for more than 64 words) on BigInt<uint8|16|32|64, W> for W in %s, operands biased to 0, 1, all-ones, single bits, "
                "2^k-1, top-bit(+odd) values, shifts biased to word multiples and to the exact room left; 13 fixed scenarios (carry/borrow chains, zero, the D6-D10/D31 replays, move/copy construction and assignment, /=, Storage()+SetIndex) "
                "per instantiation; DoubleSize Multiply/Divide on 8/16/32/64-bit words and the 64-bit split algorithms re-instantiated on 32-, 16- and 8-bit words (random + boundary operands, all pairs of boundary half-words, exhaustive at 8-bit words: see helper_strengthening); each history is generated so that "
                "every step's precondition holds and the result fits (python mirror), at most one last step outside the property (overflow, Subtract underflow, SetIndex to a wrong in-range word: defined behaviour, model = code compared, oracle silent); non-trivial = value spans > 1 word at some step and >= 3 "
                "value-changing operations (helpers: an operand above a half word); distinct = distinct case strings" % json.dumps(COMBOS),
        "samples": [all_cases[0][:400], all_cases[len(all_cases) // 3][:400], all_cases[-1][:400]],
        "input_distribution": dist_total,
        "proved_scope": "c19_step / c19_history / c19_model_passes_oracle cover every constructor of BigIntModel.op (c19_every_operation_covered): = += -= |= &= and "
                        "copy-assignment with operand types of at most one word or at least two words, Add/Subtract at a word index, *=, Divide, <<=, >>=, Clear, "
                        "FindFirstBit, FindLastBit, the comparison family / IsZero / NotZero / IsBig, the conversion operator; DoubleSize Multiply and Divide for every width "
                        "(the 64-bit variants generically in the half width); nothing is left to the correspondence run alone except the tie model <-> C++ itself",
        "history_steps": steps,
        "traces_validated_against_impl": len(all_cases) + sweep8,
        "helper_strengthening": "(a) ran: Multiply on all 9^4 pairs of boundary half-words {0,1,2,3,2^(h-1)-1,2^(h-1),2^(h-1)+1,2^h-2,2^h-1} (+2000 pairs with 3 random halves) "
                                "and Divide on boundary (high<divisor, low, divisor) triples for DoubleSize<uint8,8>, <uint16,16>, <uint32,32>, <uint64,64> and the 64-bit split "
                                "algorithms re-instantiated as DoubleSize<uint32,64> and DoubleSize<Narrow<uint16>,64>: %d multiply pairs, %d divide triples; "
                                "(b) ran: DoubleSize<Narrow<uint8>,64> (the same source at 8-bit words, 4-bit halves, promotion-free word type) Multiply on all 65536 pairs "
                                "(%d) and Divide on all (high<divisor, low) for %s: %d triples" % (
                                    dist_total.get("helper_split", {}).get("a_mul", 0), dist_total.get("helper_split", {}).get("a_div", 0),
                                    dist_total.get("helper_split", {}).get("b_mul8", 0),
                                    ("every divisor 1..255" if tier == "thorough" else "the divisors %s (every divisor in the thorough tier)" % QUICK_D8),
                                    dist_total.get("helper_split", {}).get("b_div8", 0) + sweep8),
        "oracle_failures": n_oracle_fail,
        "model_impl_mismatches": len(mism),
        "crashes": crashes,
    }
    rep.assumptions = [
        "the theorems are about coq/BigIntModel.v; the C++ is tied by the differential run reported here (finite)",
        "LP64 little-endian, SizeT32 indices; operand types are Qentem's SizeT8/16/32/64",
        "the property speaks only while every mathematical result fits the declared width and the operation's precondition holds (non-zero divisor, bit scans of non-zero values, operands within their type)",
    ]
    return rep.finish()


def replay(path):
    d = json.load(open(path))
    case = d.get("case")
    if not case:
        fm = d.get("first_mismatch") or {}
        case = fm.get("case")
        if not case:
            print("replay names a broken obligation, not an input:", d.get("broken"))
            return 1
    exe, msg = vlib.build_cpp("drv_bigint", "drv_bigint.cpp")
    if exe is None:
        print(msg)
        return 1
    r = diff1(exe, case)
    print("case:", case)
    for (c, i, m, tag) in r.oracle_fail:
        print("impl:", i, "\nmodel:", m, "\noracle: FAIL")
        return 1
    for (c, i, m) in r.mismatch:
        print("impl:", i, "\nmodel:", m, "\noracle: ok, model differs")
        return 1
    print("oracle ok, model agrees")
    return 0
