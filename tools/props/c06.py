"""C06 -- every RFC 8259 document parses to the value it denotes.

Proof: coq/Properties_C06.v.
Tie:   documents printed from generated concrete syntax trees (whitespace at every gap, every
       spelling of every character, integer / real numerals, duplicate keys, nesting <= 8,
       <= 200 units); oracle = extracted cdenote of the tree (independent of the parser model)."""
from props import jsoncommon as jc

PROP = "C06"


def gen(rng, tier, boost):
    cases = []
    dist = {"generated_doc": 0}
    n = (15000 if tier == "quick" else 250000) * boost
    for _ in range(n):
        w = rng.randrange(4)
        v, out = jc.gen_doc(rng, w, maxlen=rng.choice([40, 100, 200]))
        cases.append(jc.g_case(w, v, out, jc.gen_ws(rng), jc.gen_ws(rng)))
        dist["generated_doc"] += 1
    nh = (2000 if tier == "quick" else 40000) * boost
    for _ in range(nh):
        cases.append(jc.h_case(rng, rng.randrange(4)))
    dist["stream_history"] = nh
    return cases, dist


def check(tier):
    return jc.run_check(PROP, tier, gen, "Properties_C06.v",
                        "the dump of the parsed value equals the dump of cdenote(tree) (structure, member order, strings unit for unit, 64-bit integers exact, reals by kind)",
                        "documents printed from random concrete syntax trees: <= 200 units, nesting <= 8, all escape forms in both cases, surrogate pairs, "
                        "full Unicode range, duplicate keys, arbitrary whitespace, UTF-8/16/32; non-trivial = distinct documents")


def replay(path):
    return jc.replay(path)
