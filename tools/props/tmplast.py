"""Structured template generator for C02/C17: ASTs of coq/TmplModel.v `tnode`
and value trees of `jv`, their serialisation for the extracted model and the
JSON text for the C++ driver.

Well-formedness respected by the generator (documented restrictions, DESIGN.md C02):
  * names and indices contain no tag characters; indices into arrays are digit strings
  * a loop's value name is not a prefix of another variable name used in its body (unique names)
  * expression operands resolve to exact integers / booleans / null / strings (no reals inside expressions)
  * reals are arbitrary finite doubles (JSON cannot carry NaN / infinity); the model takes the numeral's text and the
    bits from its model of Digit::StringToNumber, exactly as the C++ takes them from JSON::Parse
  * sort only on objects or arrays of naturals / of strings; group only on arrays of objects carrying the key
"""
import json
import struct


def U(s):
    return "_" if len(s) == 0 else ".".join(str(ord(c)) for c in s)


# ---------- values ----------
def ser_value(v):
    if v is None:
        return ["Z"]
    if v is True:
        return ["T"]
    if v is False:
        return ["F"]
    if isinstance(v, int):
        return ["N", str(v)] if v >= 0 else ["I", str(v)]
    if isinstance(v, float):
        return ["R", U(json.dumps(v))]      # the numeral exactly as json_text prints it
    if isinstance(v, str):
        return ["S", U(v)]
    if isinstance(v, list):
        out = ["A", str(len(v))]
        for x in v:
            out += ser_value(x)
        return out
    out = ["O", str(len(v))]
    for k, x in v.items():
        out += [U(k)] + ser_value(x)
    return out


def json_text(v):
    return json.dumps(v, ensure_ascii=True, separators=(",", ":"))


STRS = ["abc", "x<y", "", "a&b", "10", "5", "it's", "Zed", "\"q\"", "tail ", "Tom &amp;", "&lt;", "x&gt;", "&quot;", "&am"]


def bits_to_float(b):
    return struct.unpack(">d", struct.pack(">Q", b))[0]


def gen_real(rng):
    """a finite double: the old quarter values, uniform bit patterns of moderate exponent, decimal ties at the template
    precision (x.xx5) and binary ties (x.125), large / small magnitudes, zeros, integers stored as doubles"""
    c = rng.randrange(10)
    if c == 0:
        return rng.choice([0.5, 1.5, 2.25, 3.0, -0.75, 10.25, 100.5, 0.0])
    if c <= 2:
        e = rng.randrange(1023 - 20, 1023 + 40)
        return bits_to_float((rng.getrandbits(1) << 63) | (e << 52) | rng.getrandbits(52))
    if c == 3:
        x = (rng.randrange(0, 200000) * 10 + 5) / 1000.0          # x.xx5: the nearest double lies just below / above the tie
        return -x if rng.random() < 0.3 else x
    if c == 4:
        return rng.choice([1, -1]) * (rng.randrange(0, 4000) + rng.choice([0.125, 0.375, 0.625, 0.875, 0.005, 0.015, 0.995, 0.994999, 0.9951]))
    if c == 5:
        return rng.choice([1e15, 1e16, 1e17, 123456789012345678.0, 1e21, 1e22, 9.87654321e25, 1.5e300, 1.7976931348623157e308,
                           2.0 ** 53, 2.0 ** 53 + 2, 2.0 ** 63, 2.0 ** 64, -1e19]) * rng.choice([1, 1, -1])
    if c == 6:
        return rng.choice([1e-5, 1.23e-7, 4.9e-3, 0.004999, 0.005, 0.0050001, 1e-300, 2.2250738585072014e-308, 9.99e-3, 0.0099, 0.00999999]) * rng.choice([1, -1])
    if c == 7:
        return rng.choice([0.0, -0.0, 1.0, -1.0, 3.0, 100.0, 255.0, 1000000.0, 4294967296.0, 9007199254740993.0])
    if c == 8:
        return round(rng.uniform(-1000, 1000), rng.choice([1, 2, 3, 4]))
    return rng.uniform(-10, 10) * 10 ** rng.randrange(-6, 12)


def gen_scalar(rng, for_expr=False):
    c = rng.randrange(8)
    if c == 0:
        return rng.choice(STRS)
    if c == 1:
        return rng.choice([0, 1, 2, 3, 7, 10, 255, 1000])
    if c == 2:
        return -rng.choice([1, 2, 5, 100])
    if c == 3 and not for_expr:
        return gen_real(rng)
    if c == 4:
        return True
    if c == 5:
        return False
    if c == 6:
        return None
    return rng.choice(["k", "zz", "word"])


def gen_root(rng):
    d = {}
    d["n1"] = rng.choice([0, 1, 2, 7, 10])
    d["n2"] = rng.choice([0, 1, 3, 10])
    d["neg"] = -rng.choice([1, 4])
    d["s1"] = rng.choice(STRS)
    d["s2"] = rng.choice(STRS)
    d["t"] = True
    d["f"] = False
    d["nul"] = None
    d["r1"] = gen_real(rng)
    # collections
    kind = rng.randrange(3)
    if kind == 0:
        d["list"] = [rng.choice([0, 1, 2, 5, 9, 12, 100]) for _ in range(rng.randrange(0, 6))]
    elif kind == 1:
        d["list"] = [rng.choice(["b", "a", "ab", "", "c", "B", "a<"]) for _ in range(rng.randrange(0, 6))]
    else:
        d["list"] = [gen_scalar(rng) for _ in range(rng.randrange(0, 5))]
    d["list_sortable"] = kind != 2
    keys = rng.sample(["k1", "k2", "zz", "a", "b&", "Key", ""], rng.randrange(0, 5))
    d["obj"] = {k: gen_scalar(rng) for k in keys}
    d["nested"] = {"in": {"x": rng.choice([1, 2, "deep"]), "arr": [rng.choice([4, "s"]), [1, 2]]}, "arr": [[1, 2], [3]], "o2": {"p": 1, "q": "two"}}
    npos = rng.randrange(0, 5)
    items = []
    gset = ["p", "q", "r&"] if rng.random() < 0.85 else [1.5, 0.1, 2.0, -0.0, 1e21, 0.30000000000000004]   # GroupBy names a group by the default real format
    for _ in range(npos):
        o = {"name": rng.choice(["x", "y", "z"]), "val": rng.randrange(4), "g": rng.choice(gset)}
        ks = list(o.keys())
        rng.shuffle(ks)     # the grouping key sits at any position
        items.append({k: o[k] for k in ks})
    d["items"] = items
    d["phrase"] = rng.choice(["{0} and {1}", "v={0}", "no subs", "{2}{0}", "a{9}b", "<{0}>", "{1}{1}", "&{0}"])
    sortable = d.pop("list_sortable")
    return d, sortable


# ---------- AST ----------
def P(name, idx=()):
    return (name, list(idx))


def ser_path(p):
    return [U(p[0]), str(len(p[1]))] + [U(i) for i in p[1]]


def ser_expr(e):
    if e[0] == "n":
        return ["n", str(e[1])]
    if e[0] == "x":
        return ["x"] + ser_path(e[1])
    return ["b", str(e[1])] + ser_expr(e[2]) + ser_expr(e[3])


def ser_nodes(ns):
    out = [str(len(ns))]
    for n in ns:
        k = n[0]
        if k == "t":
            out += ["t", U(n[1])]
        elif k in ("v", "r"):
            out += [k] + ser_path(n[1])
        elif k == "m":
            out += ["m"] + ser_expr(n[1])
        elif k == "s":
            out += ["s"] + ser_path(n[1]) + ser_nodes(n[2])
        elif k == "i":
            out += ["i"] + ser_expr(n[1]) + ser_nodes(n[2])
            if n[3] is None:
                out += ["0"]
            else:
                out += ["1"] + ser_nodes(n[3])
        elif k == "f":
            out += ["f"] + ser_expr(n[1]) + ser_nodes(n[2]) + [str(len(n[3]))]
            for (e, b) in n[3]:
                out += (["1"] + ser_expr(e) if e is not None else ["0"]) + ser_nodes(b)
        elif k == "l":
            out += ["l"] + (["1"] + ser_path(n[1]) if n[1] is not None else ["0"]) + [U(n[2]), U(n[3]), str(n[4])] + ser_nodes(n[5])
    return out


TEXTS = ["", " ", "abc", "x y", "\n", "A&B", "1 < 2", "-", "q'", "..", "tail ", "=", "(", "%", ": ", "</b>", "&amp;", "/>", " >", "->", ">", ">>", "/", "i>", "f>x"]
EXPR_NAMES = ["n1", "n2", "neg", "t", "f", "nul", "s1", "missing", "list", "obj"]
LOOPVARS = ["item", "v", "row", "e1", "xy"]


class Gen:
    def __init__(self, rng, root, sortable):
        self.rng = rng
        self.root = root
        self.sortable = sortable

    def path(self, scope):
        rng = self.rng
        r = rng.random()
        if scope and r < 0.55:
            lv, kind = rng.choice(scope)
            if kind == "item_obj":
                return P(lv, [rng.choice(["name", "val", "g", "zz"])]) if rng.random() < 0.8 else P(lv)
            if kind == "group":
                return P(lv, [rng.choice(["0", "1", "5"])] + ([rng.choice(["name", "val"])] if rng.random() < 0.7 else []))
            return P(lv) if rng.random() < 0.8 else P(lv, [rng.choice(["0", "x"])])
        if r < 0.75:
            return P(rng.choice(["n1", "n2", "neg", "s1", "s2", "t", "f", "nul", "r1", "missing", "phrase"]))
        if r < 0.85:
            return P("list", [rng.choice(["0", "1", "2", "7"])]) if rng.random() < 0.8 else P("list")
        if r < 0.93:
            return P("obj", [rng.choice(["k1", "k2", "zz", "a", "b&", "nokey"])])
        return rng.choice([P("nested", ["in", "x"]), P("nested", ["in", "arr", "0"]), P("nested", ["arr", "1", "0"]), P("nested", ["o2", "q"]),
                           P("nested", ["in", "arr", "1", "1"]), P("items", ["0", "name"]), P("nested", ["zz", "q"]), P("nested")])

    def expr(self, scope, depth=0):
        rng = self.rng

        def operand(d):
            r = rng.random()
            if r < 0.4:
                return ("n", rng.choice([0, 1, 2, 3, 4, 5, 7, 10, 100]))
            if r < 0.8 or d >= 2:
                names = list(EXPR_NAMES)
                for lv, kind in scope:
                    if kind == "scalar_int":
                        names += [lv, lv]
                nm = rng.choice(names)
                if nm == "list":
                    return ("x", P("list", [rng.choice(["0", "1", "9"])])) if self.sortable_int() else ("x", P("n1"))
                if nm == "obj":
                    return ("x", P("missing"))
                return ("x", P(nm))
            return self.expr(scope, d + 1)
        if depth == 0 and rng.random() < 0.25:
            # a single operand (incl. the "non-empty string" rule for a lone variable)
            if rng.random() < 0.5:
                return ("x", self.path_for_single(scope))
            return operand(2)
        op = rng.choice([0, 0, 1, 1, 2, 3, 3, 4, 5, 6, 7, 8, 9, 10])
        a, b = operand(depth), operand(depth)
        if op in (3, 4) and rng.random() < 0.3:
            # textual comparison: two string/bool/null variables
            a = ("x", P(rng.choice(["s1", "s2", "t", "nul"])))
            b = ("x", P(rng.choice(["s1", "s2", "f", "nul", "missing"])))
        return ("b", op, a, b)

    def sortable_int(self):
        l = self.root.get("list", [])
        return all(isinstance(x, int) and not isinstance(x, bool) for x in l)

    def path_for_single(self, scope):
        return P(self.rng.choice(["s1", "s2", "n1", "t", "f", "nul", "missing", "obj", "list", "neg"]))

    def inline_nodes(self, scope):
        rng = self.rng
        out = []
        for _ in range(rng.randrange(0, 4)):
            k = rng.random()
            if k < 0.45:
                out.append(("t", rng.choice(["", "yes", "no ", "a b", "-", "it's", "<i>"])))
            elif k < 0.8:
                out.append(("v", self.path(scope)))
            else:
                out.append(("r", self.path(scope)))
        # two adjacent text nodes would print as one text: merge
        return merge_text(out)

    def nodes(self, scope, depth, n=None):
        rng = self.rng
        out = []
        n = n if n is not None else rng.randrange(1, 5)
        for _ in range(n):
            r = rng.random()
            if r < 0.28 or depth >= 4:
                out.append(("t", rng.choice(TEXTS)))
            elif r < 0.45:
                out.append(("v", self.path(scope)))
            elif r < 0.53:
                out.append(("r", self.path(scope)))
            elif r < 0.63:
                out.append(("m", self.expr(scope)))
            elif r < 0.69:
                subs = []
                for _ in range(rng.randrange(0, 4)):
                    k = rng.random()
                    subs.append(("v", self.path(scope)) if k < 0.5 else ("r", self.path(scope)) if k < 0.8 else ("m", self.expr(scope)))
                out.append(("s", P(rng.choice(["phrase", "phrase", "s1", "missing", "t", "n1"])), subs))
            elif r < 0.77:
                out.append(("i", self.expr(scope), self.inline_nodes(scope), self.inline_nodes(scope) if rng.random() < 0.7 else None))
            elif r < 0.88:
                more = []
                while rng.random() < 0.4 and len(more) < 3:
                    more.append((self.expr(scope), self.nodes(scope, depth + 1)))
                if rng.random() < 0.5:
                    more.append((None, self.nodes(scope, depth + 1)))
                out.append(("f", self.expr(scope), self.nodes(scope, depth + 1), more))
            else:
                out.append(self.loop(scope, depth))
        return merge_text(out)

    def loop(self, scope, depth):
        rng = self.rng
        used = [lv for lv, _ in scope]
        free = [x for x in LOOPVARS if not any(x.startswith(u) or u.startswith(x) for u in used)]
        lv = rng.choice(free) if free and rng.random() < 0.9 else ""
        choice = rng.random()
        group, sort, kind = "", 0, "scalar"
        if scope and scope[-1][1] == "group" and rng.random() < 0.35:
            # a sorted, ungrouped loop over a member of the CALLER's value (or the root) nested in a
            # grouped loop: sort must work on a private copy whatever the parent did (C17)
            which = rng.random()
            if which < 0.45 and self.sortable:
                setp, kind = P("list"), ("scalar_int" if self.sortable_int() else "scalar")
            elif which < 0.85:
                setp = P("obj")
            else:
                setp = None
            sort = rng.choice([1, 2])
            inner_scope = scope + ([(lv, kind)] if lv else [])
            return ("l", setp, lv, "", sort, self.nodes(inner_scope, depth + 1))
        if scope and choice < 0.25:
            plv, pkind = scope[-1]
            if pkind == "group":
                setp, kind = P(plv), "item_obj"
            elif pkind == "item_obj":
                setp, kind = P(plv), "scalar"        # iterate the members of the item object
            else:
                setp, kind = P(plv), "scalar"
        elif choice < 0.45:
            setp = P("list")
            kind = "scalar_int" if self.sortable_int() else "scalar"
            if self.sortable and rng.random() < 0.5:
                sort = rng.choice([1, 2])
        elif choice < 0.62:
            setp = P("obj")
            if rng.random() < 0.5:
                sort = rng.choice([1, 2])
        elif choice < 0.85:
            setp, kind = P("items"), "item_obj"
            if rng.random() < 0.5:
                group = rng.choice(["g", "name", "val"])
                kind = "group"
                if rng.random() < 0.4:
                    sort = rng.choice([1, 2])
        elif choice < 0.93:
            setp = rng.choice([P("nested", ["arr"]), P("nested", ["in", "arr"]), P("nested", ["o2"]), P("missing"), P("n1"), P("nested", ["arr", "0"])])
        else:
            setp = None
        inner_scope = scope + ([(lv, kind)] if lv else [])
        return ("l", setp, lv, group, sort, self.nodes(inner_scope, depth + 1))


def merge_text(nodes):
    out = []
    for n in nodes:
        if n[0] == "t" and out and out[-1][0] == "t":
            out[-1] = ("t", out[-1][1] + n[1])
        else:
            out.append(n)
    return out


def gen_case(rng):
    root, sortable = gen_root(rng)
    g = Gen(rng, root, sortable)
    ast = g.nodes([], 0)
    return ast, root
