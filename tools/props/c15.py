"""C15 -- comparisons form a consistent order; every Sort returns an ordered permutation.

Proof: coq/Properties_C15.v (unbounded: all strings over N code units, all
       values without NaN, all lists for Memory::Sort with an arbitrary comparison).
Tie:   gen/Tables_cmp.v (ValueType enumerator values, signedness of the character
       types) + differential run of cpp/drv_cmp.cpp against the extracted model
       (coq/CmpModel.v) and the extracted specification oracles (lexicographic
       order, kind-then-content order with SpecFloat comparison for doubles,
       ordered /\\ permutation /\\ lookups for sorting).
The model describes the tree with findings/D3, D4, D5 applied."""
import itertools
import json
import os
import random
import struct

import vlib
from vlib import fmt_list, parse_list

PROP = "C15"
COMP = "cmp"
TABLES = (("Tables_cmp", "gentables_cmp.cpp"),)
WMAX = [255, 65535, 0x10FFFF, 0x7FFFFFFF]


def short_strings(alpha, maxlen=4):
    res = []
    for n in range(0, maxlen + 1):
        res += [list(t) for t in itertools.product(alpha, repeat=n)]
    return res


def dbits(x):
    return struct.unpack("<Q", struct.pack("<d", x))[0]


NAN_BITS = [0x7FF8000000000000, 0xFFF0000000000001, 0x7FF0000000000001]
DBL_POOL = [dbits(x) for x in (0.0, -0.0, 1.0, -1.0, 5.0, 2.5, -2.5, 1e300, -1e300, float("inf"), float("-inf"), 5e-324, -5e-324,
                               2.2250738585072014e-308, 1.7976931348623157e308)]
VAL_POOL = (["u", "n", "t", "f", "U0", "U5", "U7", "U9", "U18446744073709551615", "I-3", "I0", "I5", "I-9223372036854775808",
             "I9223372036854775807", "S-", "S97", "S97,98", "S98", "S97,98,99", "S200", "A0", "A2", "A3", "O0", "O1", "O2"]
            + ["D%d" % b for b in DBL_POOL])
VAL_NAN = ["D%d" % b for b in NAN_BITS]
PTR_POOL = ["P" + v for v in ("u", "n", "t", "U5", "U7", "U9", "I-3", "S97", "S97,98", "A2", "O1", "D%d" % dbits(1.0), "D%d" % dbits(-0.0), "f")]
PTR2_POOL = ["PPU7", "PPU9", "PPS97", "PPPn", "PPD%d" % NAN_BITS[0]]


def fmt_strs(l):
    return ";".join(fmt_list(s) for s in l) if l else "~"


def rand_units(rng, w, n, small=True):
    if small:
        base = [97, 98, 99, 0, 127, 128, 200, 255] if w == 0 else [97, 98, 99, 0, 128, 0x7FFF, 0x8000, 0xD800, 0xFFFF][: (9 if w else 8)]
        if w >= 2:
            base = base + [0x10000, 0x10FFFF, 0x7FFFFFFF] + ([0x80000000, 0xFFFFFFFF] if w == 2 else [])
        return [rng.choice(base) for _ in range(n)]
    mx = [255, 65535, 0xFFFFFFFF, 0x7FFFFFFF][w]
    return [rng.randrange(0, mx + 1) for _ in range(n)]


def related(rng, w, a):
    """a string sharing a (long) prefix with a"""
    r = rng.random()
    b = list(a)
    if r < 0.2:
        return b
    if r < 0.4:
        return b[: rng.randrange(0, len(b) + 1)]
    if r < 0.6:
        return b + rand_units(rng, w, rng.randrange(1, 4))
    if b:
        i = rng.randrange(len(b))
        b[i] = rand_units(rng, w, 1, small=rng.random() < 0.7)[0]
        if rng.random() < 0.3:
            b = b[: i + 1]
    return b


def gen_cases(rng, tier, boost=1):
    quick = (tier == "quick")
    cases = []
    dist = {}

    def add(kind, line):
        cases.append(line)
        dist[kind] = dist.get(kind, 0) + 1

    # ---- S: all pairs of strings of length <= 4 over a 3-symbol alphabet (121^2), char ----
    base = short_strings([97, 98, 99])
    for a in base:
        for b in base:
            add("S_exhaustive", "S 0 %s %s" % (fmt_list(a), fmt_list(b)))
    # other alphabets (signed char range, NUL, surrogates, top of range) and widths
    alts = [(0, [97, 200, 0]), (0, [127, 128, 255]), (1, [97, 0xD800, 0xFFFF]), (2, [0, 0x7FFFFFFF, 0x80000000]), (3, [97, 0x7FFFFFFF, 0x80000000]),
            (1, [97, 98, 99]), (2, [97, 98, 99])]
    for (w, al) in alts:
        ss = short_strings(al)
        pairs = [(a, b) for a in ss for b in ss]
        if quick and boost == 1:
            pairs = rng.sample(pairs, 2500)
        for a, b in pairs:
            add("S_alt", "S %d %s %s" % (w, fmt_list(a), fmt_list(b)))
    # random long strings with common prefixes
    for _ in range((3000 if quick else 60000) * boost):
        w = rng.choice([0, 0, 1, 2, 3])
        a = rand_units(rng, w, rng.choice([1, 2, 5, 8, 17, 40, 64]), small=rng.random() < 0.6)
        b = related(rng, w, a)
        if rng.random() < 0.5:
            a, b = b, a
        add("S_random", "S %d %s %s" % (w, fmt_list(a), fmt_list(b)))
    # ---- I: HAItem_T / HLItem_T pairs: all pairs of keys of length <= 3 over {a,b,c} in three widths + random related keys ----
    ibase = short_strings([97, 98, 99], 3)
    for w in (0, 1, 2):
        for a in ibase:
            for b in ibase:
                add("I_exhaustive", "I %d %s %s" % (w, fmt_list(a), fmt_list(b)))
    for _ in range((1500 if quick else 30000) * boost):
        w = rng.choice([0, 0, 1, 2, 3])
        a = rand_units(rng, w, rng.choice([0, 1, 2, 5, 8, 17]), small=rng.random() < 0.6)
        b = related(rng, w, a)
        if rng.random() < 0.5:
            a, b = b, a
        add("I_random", "I %d %s %s" % (w, fmt_list(a), fmt_list(b)))
    # ---- T: triples ----
    if quick and boost == 1:
        sel = [s for s in base if len(s) <= 2] + rng.sample([s for s in base if len(s) > 2], 27)   # 13 + 27 = 40
    else:
        sel = base
    for a in sel:
        fa = fmt_list(a)
        for b in sel:
            fb = fmt_list(b)
            for c in sel:
                add("T_exhaustive", "T 0 %s %s %s" % (fa, fb, fmt_list(c)))
    for _ in range((2000 if quick else 40000) * boost):
        w = rng.choice([0, 1, 2, 3])
        a = rand_units(rng, w, rng.choice([1, 2, 5, 8, 17]), small=rng.random() < 0.6)
        tr = [a, related(rng, w, a), related(rng, w, a)]
        rng.shuffle(tr)
        add("T_random", "T %d %s" % (w, " ".join(fmt_list(x) for x in tr)))
    # ---- V: all pairs of the value pool (every kind, pointers on either side) ----
    pool = VAL_POOL + VAL_NAN + PTR_POOL + PTR2_POOL
    for a in pool:
        for b in pool:
            add("V_pool", "V 0 %s %s" % (a, b))
    for _ in range((3000 if quick else 60000) * boost):
        def rv():
            r = rng.random()
            if r < 0.45:
                e = rng.choice([0, 1, 1022, 1023, 1024, 2046, 2047, rng.randrange(2048)])
                m = rng.choice([0, 1, (1 << 52) - 1, rng.randrange(1 << 52)])
                v = "D%d" % ((rng.randrange(2) << 63) | (e << 52) | m)
            elif r < 0.6:
                v = "U%d" % rng.choice([0, 1, (1 << 63) - 1, 1 << 63, (1 << 64) - 1, rng.randrange(1 << 64)])
            elif r < 0.75:
                v = "I%d" % rng.choice([0, -1, 1, -(1 << 63), (1 << 63) - 1, rng.randrange(-(1 << 63), 1 << 63)])
            elif r < 0.9:
                v = "S" + fmt_list(rand_units(rng, 0, rng.randrange(0, 4)))
            else:
                v = rng.choice(VAL_POOL)
            return "P" * rng.choice([0, 0, 0, 1, 2]) + v
        w = rng.choice([0, 0, 1, 2])
        a = rv()
        b = rv() if rng.random() < 0.7 else a
        if w != 0:
            a = a.replace("S200", "S97")
        add("V_random", "V %d %s %s" % (w, a, b))
    # ---- N / L: arrays of numbers ----
    for n in range(0, 6):
        for t in itertools.product([0, 1, 2], repeat=n):
            for d in (1, 0):
                add("N_exhaustive", "N %d %s" % (d, fmt_list(t)))

    def rand_nums(maxlen=12):
        n = rng.randrange(0, maxlen + 1)
        rg = rng.choice([3, 5, 20, 1 << 64])
        l = [rng.randrange(rg) for _ in range(n)]
        r = rng.random()
        if r < 0.15:
            l.sort()
        elif r < 0.3:
            l.sort(reverse=True)
        return l
    for _ in range((1500 if quick else 30000) * boost):
        add("N_random", "N %d %s" % (rng.randrange(2), fmt_list(rand_nums(12 if rng.random() < 0.9 else 60))))
    for _ in range((300 if quick else 5000) * boost):
        add("L_random", "L %d %s" % (rng.randrange(2), fmt_list(rand_nums())))
    # ---- R: arrays of strings (duplicates, prefixes, sorted, reversed) ----
    spool = short_strings([97, 98], 3) + [[97, 98, 99], [200], [97, 200], [0], [97, 0]]
    for _ in range((1500 if quick else 30000) * boost):
        w = rng.choice([0, 0, 1, 2, 3])
        n = rng.randrange(0, 13)
        l = [list(rng.choice(spool)) for _ in range(n)]
        if rng.random() < 0.2:
            l = [rand_units(rng, w, rng.randrange(0, 6)) for _ in range(n)]
        r = rng.random()
        key = (lambda s: [(u + 128) % 256 if w == 0 else u for u in s])
        if r < 0.15:
            l.sort(key=key)
        elif r < 0.3:
            l.sort(key=key, reverse=True)
        add("R_random", "R %d %d %s" % (rng.randrange(2), w, fmt_strs(l)))
    # ---- J: arrays of values of every kind (no NaN; pointers one level) ----
    jpool = VAL_POOL + PTR_POOL
    for _ in range((1500 if quick else 30000) * boost):
        n = rng.randrange(0, 13)
        sub = rng.sample(jpool, rng.randrange(1, len(jpool)))
        l = [rng.choice(sub) for _ in range(n)]
        add("J_random", "J %d %d %s" % (rng.randrange(2), rng.choice([0, 0, 1, 2]), ";".join(l) if l else "~"))
    # ---- H: hash array / object: inserts, overwrites, removals (tombstones), sort, lookups ----
    kpool = short_strings([97, 98], 3) + [[97, 98, 99], [200], [99]]
    for _ in range((1500 if quick else 30000) * boost):
        w = rng.choice([0, 0, 1, 2])
        via = rng.randrange(2)
        nk = rng.randrange(0, 13)
        keys = [list(rng.choice(kpool)) for _ in range(nk)]
        ops = ["%s=%d" % (fmt_list(k), rng.randrange(1, 1000)) for k in keys]
        style = rng.random()
        if style < 0.6 and keys:
            # removals after the last growth: tombstones are in the array when it is sorted
            for k in rng.sample(keys, rng.randrange(0, min(len(keys), 5) + 1)):
                ops.append(fmt_list(k) + "!")
            if rng.random() < 0.3:
                k = rng.choice(keys)
                ops.append("%s=%d" % (fmt_list(k), rng.randrange(1, 1000)))
        elif style < 0.8:
            mixed = ops + [fmt_list(rng.choice(kpool)) + "!" for _ in range(rng.randrange(0, 5))]
            rng.shuffle(mixed)
            ops = mixed
        if rng.random() < 0.15:
            # already sorted / reversed insertion order
            ks = sorted({tuple(k) for k in keys}, key=lambda s: [(u + 128) % 256 if w == 0 else u for u in s], reverse=rng.random() < 0.5)
            ops = ["%s=%d" % (fmt_list(k), rng.randrange(1, 1000)) for k in ks] + [o for o in ops if o.endswith("!")]
        queries = [list(k) for k in {tuple(k) for k in keys}] + [list(rng.choice(kpool)) for _ in range(3)] + [[100]]
        rng.shuffle(queries)
        add("H_random", "H %d %d %d %s %s" % (rng.randrange(2), w, via, ";".join(ops) if ops else "~", fmt_strs(queries)))
    return cases, dist


def corpus_cases():
    res = []
    p = os.path.join(vlib.ROOT, "corpus", PROP, "cases.txt")
    if os.path.exists(p):
        for line in open(p):
            line = line.strip()
            if line and not line.startswith("#"):
                res.append(line)
    return res


def nontrivial(case):
    """S: the two strings differ; T: not all three equal; V: always (a pair of values);
    N/L/R/J: at least two elements, not all equal; H: at least two distinct keys inserted."""
    tk = case.split(" ")
    k = tk[0]
    if k in ("S", "I"):
        return tk[2] != tk[3]
    if k == "T":
        return not (tk[2] == tk[3] == tk[4])
    if k == "V":
        return True
    if k in ("N", "L"):
        return len(set(tk[2].split(","))) >= 2
    if k in ("R", "J"):
        return len(set(tk[3].split(";"))) >= 2
    if k == "H":
        return len({o.split("=")[0] for o in tk[4].split(";") if "=" in o}) >= 2
    return False


# ---------------------------------------------------------------------------
# minimisation: drop elements of the lists a case is made of, keep the failure

def case_parts(case):
    """(prefix tokens, list of element lists, rebuild function)"""
    tk = case.split(" ")
    k = tk[0]

    def units(s):
        return [] if s == "-" else s.split(",")

    def funits(l):
        return ",".join(l) if l else "-"

    def elems(s):
        return [] if s == "~" else s.split(";")

    def felems(l):
        return ";".join(l) if l else "~"
    if k in ("S", "I"):
        return [units(tk[2]), units(tk[3])], lambda p: " ".join(tk[:2] + [funits(p[0]), funits(p[1])])
    if k == "T":
        return [units(tk[2]), units(tk[3]), units(tk[4])], lambda p: " ".join(tk[:2] + [funits(x) for x in p])
    if k in ("N", "L"):
        return [units(tk[2])], lambda p: " ".join(tk[:2] + [funits(p[0])])
    if k in ("R", "J"):
        return [elems(tk[3])], lambda p: " ".join(tk[:3] + [felems(p[0])])
    if k == "H":
        return [elems(tk[4]), elems(tk[5])], lambda p: " ".join(tk[:4] + [felems(p[0]), felems(p[1])])
    return [], lambda p: case


def fails(exe, case, want_oracle_fail):
    r = vlib.differential(COMP, exe, [case])
    if want_oracle_fail:
        return bool(r.oracle_fail)
    return bool(r.oracle_fail or r.mismatch)


def minimise(exe, case, want_oracle_fail=True):
    parts, rebuild = case_parts(case)
    if not parts:
        return case
    for i in range(len(parts)):
        def f(cand, i=i):
            p = list(parts)
            p[i] = cand
            return fails(exe, rebuild(p), want_oracle_fail)
        parts[i] = vlib.shrink_list(parts[i], f, max_steps=60)
    return rebuild(parts)


FORMAT = ("S w a b | I w a b | T w a b c | V w va vb | N dir list | L dir list | R dir w strs | J dir w vals | H dir w via ops queries "
          "(w: 0 char 1 char16_t 2 char32_t 3 wchar_t; dir 1 ascending 0 descending; strings as comma separated code units, - empty; "
          "values u n t f U<n> I<z> D<bits> S<units> A<size> O<size> P<value>; ops key=value insert-or-assign, key! remove)")
OBSERVED = {"S": "six results < <= > >= == != of String OP String / StringView OP StringView / String OP (const Char_T*) / StringView OP (const Char_T*); the C string is b followed by NUL, i.e. b cut at its first NUL",
            "I": "five results < > <= >= == of HAItem_T / HLItem_T with keys a, b (Hash, Next, Value differ)",
            "T": "six String results for (a,b) / (b,c) / (a,c)",
            "V": "Value results < > <= >= ==",
            "N": "Array<SizeT64> after Sort", "L": "numbers rendered by <loop sort=...>", "R": "Array<String> after Sort",
            "J": "Value array after Sort", "H": "raw slots before Sort | live entries after Sort | lookup results"}


def check(tier):
    rep = vlib.Report(PROP, tier, "proof")
    rng = random.Random(rep.seed)
    st = vlib.proof_stage(rep, "Properties_C15.v", [COMP], tables=TABLES, clean=False)
    theorems = st["theorems"]
    proof_ok = st["ok"]
    checker = "cd coq && make Properties_C15.vo  (coqc 8.16.1, full .vo build) ; coqc -Q . Qv Properties_C15.v for Print Assumptions"
    tb = [t for t in vlib.TRUSTED_BASE_COMMON if "gentables.cpp" not in t] + [
        "tools/gentables_cmp.cpp (prints the ValueType enumerator values and character signedness from the current headers)",
        "modelled: StringUtils::IsLess/IsGreater/IsEqual, the String/StringView operator families, Value operator < > <= >= ==, "
        "Memory::Sort as a function on the segment (element movement exact, index arithmetic abstracted); "
        "HashTable::generateHash after Sort, Array/HArray storage, Template loop sort are tied by the differential run only"]

    exe, msg = vlib.build_cpp("drv_cmp", "drv_cmp.cpp")
    if exe is None:
        rep.violation({"broken": "cpp/drv_cmp.cpp does not build against the current tree", "log": msg}, no_input=True)
        rep.cov = {"obligations": max(1, len(theorems)), "discharged": 0, "checker_cmd": checker, "trusted_base": tb}
        return rep.finish()

    cases, dist = gen_cases(rng, tier, 1)
    cases = corpus_cases() + cases
    r = vlib.differential(COMP, exe, cases)
    n_eval = len(cases)
    all_cases = list(cases)
    suspicious = bool(r.mismatch or r.bad or not proof_ok)
    if suspicious and not r.oracle_fail:
        # tie or proof broken while the oracle is satisfied: enlarge the search
        more, dist2 = gen_cases(random.Random(rep.seed + 7919), tier, 4)
        r2 = vlib.differential(COMP, exe, more)
        n_eval += len(more)
        all_cases += more
        r.oracle_fail += r2.oracle_fail
        r.mismatch += r2.mismatch
        r.bad += r2.bad
        r.crashes += r2.crashes
        for k, v in dist2.items():
            dist[k + "_boost"] = v

    found_input = False
    reported = {}
    prio = {k: n for n, k in enumerate("VSIJRHLNT")}
    sigs = set()
    for (c, i, m, tag) in sorted(r.oracle_fail, key=lambda x: prio.get(x[0][0], 9)):
        kind = c.split(" ")[0]
        # at most three per kind and ten in all; for the operator cases one per (observed, expected) pattern
        sig = (kind, i, m) if kind in ("V", "S", "T", "I") else None
        if reported.get(kind, 0) >= 3 or sum(reported.values()) >= 10 or (sig and sig in sigs):
            continue
        small = minimise(exe, c, True)
        if small in reported:
            continue
        if sig:
            sigs.add(sig)
        reported[kind] = reported.get(kind, 0) + 1
        reported[small] = 0
        found_input = True
        rr = vlib.differential(COMP, exe, [small])
        ii, mm, tg = (rr.oracle_fail[0][1], rr.oracle_fail[0][2], rr.oracle_fail[0][3]) if rr.oracle_fail else (i, m, tag)
        rep.violation({"component": "cmp", "case": small, "format": FORMAT, "observed": OBSERVED.get(kind, ""),
                       "observed_impl": ii, "model": mm,
                       "oracle": "fails (lexicographic / kind-then-content order; for sorts: ordered and a permutation of the input, lookups right)",
                       "original_case": c, "model_agrees_with_impl": tg == "same",
                       "broken": None if proof_ok else "Properties_C15.vo"})
    if not found_input and suspicious:
        what = []
        if not proof_ok:
            what.append("coq/Properties_C15.vo no longer builds (theorems c15_* not re-established)")
        if r.mismatch:
            what.append("correspondence CmpModel (str_ops / v_ops / sort) vs StringUtils::IsLess.. / Value operators / Memory::Sort differs")
        if r.bad:
            what.append("driver output malformed")
        ex = None
        if r.mismatch:
            c0, i0, m0 = r.mismatch[0]
            small = minimise(exe, c0, False)
            rr = vlib.differential(COMP, exe, [small])
            if rr.mismatch:
                c0, i0, m0 = rr.mismatch[0]
            ex = {"case": c0, "impl": i0, "model": m0}
        elif r.bad:
            ex = {"case": r.bad[0][0], "impl": r.bad[0][1], "model": r.bad[0][2]}
        rep.violation({"broken": what, "first_mismatch": ex, "format": FORMAT, "coq_log": st["log"][-3000:] if not proof_ok else "",
                       "searched_cases": n_eval}, no_input=True)

    nt = len({c for c in all_cases if nontrivial(c)})
    rep.cov = {
        "obligations": len(theorems) if theorems else 1,
        "discharged": len(theorems) if proof_ok else 0,
        "checker_cmd": checker,
        "trusted_base": tb,
        "theorems": [{"name": n, "assumptions": a} for n, a in theorems],
        "evaluations": n_eval,
        "distinct_nontrivial": nt,
        "rule": "S: all 121^2 pairs of strings of length <= 4 over {a,b,c} (char) + pairs over seven other alphabets/widths (signed-char range, NUL, surrogates, top of range) "
                "+ random long strings sharing prefixes; every S case evaluates all six operators of String and of StringView in BOTH overloads: object right-hand side, and (const Char_T*) right-hand side "
                "where the C string is b followed by a terminator, so the expected right operand is b CUT AT ITS FIRST NUL (embedded NULs are kept by the generator; model cstr_ops = str_ops on cstr_cut b, theorem c15_cstring_overloads); "
                "I: HAItem_T and HLItem_T operators < > <= >= == on all pairs of keys of length <= 3 over {a,b,c} in char/char16_t/char32_t + random related keys (they map to the string operators on the keys: item_ops, theorem c15_item_operators); "
                "T: all triples of %s + random; V: all pairs of a %d-value pool covering every kind, NaN, and pointers (1-3 levels) on either side + random numbers/doubles by bit pattern; "
                "N/L/R/J/H: exhaustive number lists of length <= 5 over {0,1,2}, random lists <= 12 (some 60) with duplicates, sorted, reversed, hash arrays with overwrites and removed members (tombstones), ascending and descending. "
                "non-trivial: strings differ / elements not all equal / two or more keys; counted as distinct case lines" % (
                    "a 40-string subset (40^3)" if tier == "quick" else "the 121 strings (121^3)", len(VAL_POOL + VAL_NAN + PTR_POOL + PTR2_POOL)),
        "samples": [cases[0], cases[len(cases) // 3], cases[len(cases) // 2], cases[-1]],
        "input_distribution": dist,
        "traces_validated_against_impl": n_eval,
        "oracle_failures": len(r.oracle_fail),
        "model_impl_mismatches": len(r.mismatch),
        "crashes": len(r.crashes),
        "exhaustive": False,
    }
    rep.assumptions = [
        "the theorems are about coq/CmpModel.v; the C++ is tied by gen/Tables_cmp.v and by the differential run reported here (finite)",
        "the model describes /repo with findings/D3_prefix_compare.patch, D4_value_eq_across_kinds.patch, D5_value_rhs_pointer.patch applied",
        "LP64 little-endian; char signed (read from the compiler by gentables_cmp), char16_t/char32_t unsigned, wchar_t 32-bit signed",
        "Value order theorems exclude NaN; double comparison is modelled on bit patterns and cross-checked against Coq's SpecFloat.SFcompare by the oracle",
        "lookup-after-sort (HashTable::generateHash) is correspondence only here (C13 owns the hash-chain model)",
    ]
    return rep.finish()


def replay(path):
    d = json.load(open(path))
    case = d.get("case")
    if not case:
        print("replay names a broken obligation, not an input:", d.get("broken"))
        fm = d.get("first_mismatch")
        if fm and fm.get("case"):
            case = fm["case"]
        else:
            return 1
    exe, msg = vlib.build_cpp("drv_cmp", "drv_cmp.cpp")
    if exe is None:
        print("driver does not build:", msg)
        return 1
    r = vlib.differential(COMP, exe, [case])
    print("case:", case)
    for (c, i, m, tag) in r.oracle_fail:
        print("impl:", i, "\nmodel:", m, "\noracle: FAIL")
        return 1
    for (c, i, m) in r.mismatch:
        print("impl:", i, "\nmodel:", m, "\noracle: ok, model differs")
        return 1
    for (c, i, m) in r.bad:
        print("impl:", i, "\nmodel:", m, "\nmalformed")
        return 1
    print("oracle ok, model agrees")
    return 0
