"""C03 -- {var:} output is HTML-safe for every string; {raw:} is verbatim.

Proof: coq/Properties_C03.v (unbounded, induction on the string).
Tie:   gen/Tables.v (entity strings, lengths, semicolon, auto-escape default)
       + differential run of cpp/drv_escape.cpp against the extracted model and
       the extracted specification oracle (Safe / decode-preservation)."""
import json
import os
import random
import itertools

import vlib
from vlib import fmt_list, parse_list

PROP = "C03"
ALPHA = [38, 97, 109, 112, 59, 108, 116, 60, 34]   # & a m p ; l t < "
ENTS = ["&amp;", "&lt;", "&gt;", "&quot;", "&apos;"]
BAD5 = ["<l", "<i", "<e", "</"]


def ok_kind5(units):
    if not units or len(units) > 200:
        return False
    s = "".join(chr(u) if u < 128 else "?" for u in units)
    if any(c in s for c in "{}[]") or s == "k":
        return False
    return not any(b in s for b in BAD5)


def ok_kind10(units):
    """kind 10 prints {var:v<units>} inside a loop over [{"name":1}]: it must not resolve and must not form other tags.
    Either a plain tail (no braces / brackets) or one bracketed index "[t]" with t free of braces / brackets and not the
    member name"""
    if not units:
        return True
    if units[0] == 91 and units[-1] == 93 and len(units) >= 2:
        t = units[1:-1]
        return (not t or ok_kind5(t)) and t != [110, 97, 109, 101] and t != [107]
    return ok_kind5(units)


def gen_cases(rng, tier, boost=1):
    cases = []
    dist = {"exhaustive": 0, "random": 0, "kinds": 0, "off": 0}
    # 1. exhaustive short strings over the look-alike alphabet, leaf escaper, char width
    maxlen = 5 if tier == "quick" else 6
    if boost > 1:
        maxlen = 6
    for n in range(0, maxlen + 1):
        for tup in itertools.product(ALPHA, repeat=n):
            cases.append("2 0 0 " + fmt_list(tup))
            dist["exhaustive"] += 1
    # 2. random longer strings with entities and near-entities spliced, all widths and kinds
    nrand = (6000 if tier == "quick" else 120000) * boost
    for _ in range(nrand):
        w = rng.randrange(4)
        kind = rng.choice([0, 0, 1, 1, 2, 3, 4, 4, 5, 6, 7, 8, 9, 10, 10])
        n = rng.choice([0, 1, 2, 3, 5, 8, 13, 21, 40, 64])
        maxu = [255, 65535, 0x10FFFF, 0x10FFFF][w]
        units = []
        while len(units) < n:
            r = rng.random()
            if r < 0.25:
                e = rng.choice(ENTS)
                cut = rng.choice([len(e)] * 3 + list(range(1, len(e))))
                units += [ord(c) for c in e[:cut]]
            elif r < 0.55:
                units.append(rng.choice(ALPHA + [62, 39, 123, 125, 48, 49, 103, 113, 117, 111, 115]))
            elif r < 0.6:
                units.append(rng.choice([0, 1, 127, 128, 255, maxu]))
            else:
                units.append(rng.randrange(1, min(maxu, 300) + 1))
        # entity look-alike at distance 0..6 from the end
        if rng.random() < 0.5:
            e = rng.choice(ENTS)
            cut = rng.randrange(1, len(e) + 1)
            units += [ord(c) for c in e[:cut]]
        if w == 0:
            units = [u & 0xFF for u in units]
        if kind in (1, 2, 3, 4, 6):
            pass
        if kind == 5 and not ok_kind5(units):
            units = [u for u in units if u not in (123, 125, 91, 93)]
            if not ok_kind5(units):
                kind = 1
        if kind == 10:
            units = [u for u in units if u not in (123, 125, 91, 93)][:60]
            if rng.random() < 0.5:
                units = [91] + units + [93]          # {var:v[...]}: an index that names no member
            if not ok_kind10(units):
                kind = 1
        cases.append("2 %d %d %s" % (w, kind, fmt_list(units)))
        dist["random"] += 1
    # 3. every kind on the short look-alike strings (all widths)
    pool = []
    for n in range(0, 4):
        pool += list(itertools.product([38, 97, 109, 112, 59, 60, 123, 48, 125], repeat=n))
    rng.shuffle(pool)
    for tup in pool[: (400 if tier == "quick" else 820) * boost]:
        for kind in (1, 2, 3, 4, 5, 6, 7, 8, 9, 10):
            if kind == 5 and not ok_kind5(list(tup)):
                continue
            if kind == 10 and not ok_kind10(list(tup)):
                continue
            cases.append("2 %d %d %s" % (rng.randrange(4), kind, fmt_list(tup)))
            dist["kinds"] += 1
    # 4. super-variable phrases with brace-wrapped units: "{X}" for every special / digit / other unit,
    # with and without text around it (the {n} substitution must not let anything through unescaped)
    for x in [38, 60, 62, 34, 39, 48, 49, 57, 47, 58, 97, 123, 125, 0, 127]:
        for pre in ([], [97], [38], [123]):
            for post in ([], [98], [60], [125], [123, 48, 125]):
                for w in (0, 1, 2):
                    cases.append("2 %d 4 %s" % (w, fmt_list(pre + [123, x, 125] + post)))
                    dist["kinds"] += 1
    return cases, dist


def corpus_cases():
    res = []
    p = os.path.join(vlib.ROOT, "corpus", PROP, "cases.txt")
    if os.path.exists(p):
        for line in open(p):
            line = line.strip()
            if line and not line.startswith("#"):
                res.append(line)
    return res


def nontrivial(case):
    """non-trivial: the string contains at least one of & < > \" ' (so that an
    escaping decision is taken)"""
    units = parse_list(case.split(" ")[3])
    return any(u in (38, 60, 62, 34, 39) for u in units)


def run_diff(rep, exe_on, exe_off, cases):
    on = [c for c in cases if c.startswith("2 ")]
    off = ["0" + c[1:] for c in on if c.split(" ")[2] != "4"][: max(2000, len(on) // 10)]
    r1 = vlib.differential("esc", exe_on, on)
    r2 = vlib.differential("esc", exe_off, off) if exe_off else vlib.DiffResult()
    return r1, r2, len(on), len(off)


def minimise(exe, case, want_oracle_fail):
    tk = case.split(" ")
    units = parse_list(tk[3])

    def fails(u):
        if tk[2] == "5" and not ok_kind5(u):
            return False
        if tk[2] == "10" and not ok_kind10(u):
            return False
        c = " ".join(tk[:3] + [fmt_list(u)])
        r = vlib.differential("esc", exe, [c])
        return bool(r.oracle_fail) if want_oracle_fail else bool(r.oracle_fail or r.mismatch)

    small = vlib.shrink_list(units, fails)
    return " ".join(tk[:3] + [fmt_list(small)])


def check(tier):
    rep = vlib.Report(PROP, tier, "proof")
    rng = random.Random(rep.seed)
    st = vlib.proof_stage(rep, "Properties_C03.v", ["esc"])
    theorems = st["theorems"]
    proof_ok = st["ok"]

    exe_on, msg = vlib.build_cpp("drv_escape", "drv_escape.cpp")
    if exe_on is None:
        rep.violation({"broken": "cpp/drv_escape.cpp does not build against the current tree", "log": msg}, no_input=True)
        rep.cov = {"obligations": max(1, len(theorems)), "discharged": 0, "checker_cmd": "make -C coq Properties_C03.vo", "trusted_base": vlib.TRUSTED_BASE_COMMON}
        return rep.finish()
    exe_off, msg2 = vlib.build_cpp("drv_escape_off", "drv_escape.cpp", defines=["QENTEM_AUTO_ESCAPE_HTML=0"])

    boost = 1 if proof_ok else 4
    cases, dist = gen_cases(rng, tier, boost)
    cases = corpus_cases() + cases
    r1, r2, n_on, n_off = run_diff(rep, exe_on, exe_off, cases)

    found_input = False
    seen = set()
    for r, exe in ((r1, exe_on), (r2, exe_off)):
        for (c, i, m, tag) in r.oracle_fail[:200]:
            key = (c.split(" ")[0], c.split(" ")[2], i[:40])
            if len(seen) >= 5:
                break
            small = minimise(exe, c, True)
            if small in seen:
                continue
            seen.add(small)
            found_input = True
            rr = vlib.differential("esc", exe, [small])
            ii, mm = (rr.oracle_fail[0][1], rr.oracle_fail[0][2]) if rr.oracle_fail else (i, m)
            rep.violation({"component": "escape", "case": small, "format": "<auto> <width> <kind> <units>",
                           "observed_impl": ii, "model": mm, "oracle": "fails (Safe / decode-preservation / verbatim)",
                           "original_case": c, "model_agrees_with_impl": tag == "same",
                           "broken": None if proof_ok else "Properties_C03.vo"})
    mism = r1.mismatch + r2.mismatch
    if not found_input and (mism or not proof_ok or r1.bad or r2.bad):
        # tie or proof broken, oracle satisfied on everything explored
        what = []
        if not proof_ok:
            what.append("coq/Properties_C03.vo no longer builds (theorems c03_* not re-established)")
        if mism:
            what.append("correspondence EscapeModel.c03_emit vs StringUtils::EscapeHTMLSpecialChars / Template render differs")
        if r1.bad or r2.bad:
            what.append("driver output malformed")
        ex = None
        if mism:
            ex = {"case": mism[0][0], "impl": mism[0][1], "model": mism[0][2]}
        rep.violation({"broken": what, "first_mismatch": ex, "coq_log": st["log"][-3000:] if not proof_ok else "",
                       "searched_cases": n_on + n_off}, no_input=True)

    allc = cases
    nt = len({c for c in allc if nontrivial(c)})
    rep.cov = {
        "obligations": len(theorems) if theorems else 1,
        "discharged": len(theorems) if proof_ok else 0,
        "checker_cmd": "cd coq && make Properties_C03.vo  (coqc 8.16.1, full .vo build) ; coqc -Q . Qv Properties_C03.v for Print Assumptions",
        "trusted_base": vlib.TRUSTED_BASE_COMMON + ["modelled: StringUtils::EscapeHTMLSpecialChars (all branches), the text-emitting paths of Template.hpp renderVariable / renderRawVariable / renderSuperVariable as a routing table; the rest of the renderer is tied by the differential run only"],
        "theorems": [{"name": n, "assumptions": a} for n, a in theorems],
        "evaluations": n_on + n_off,
        "distinct_nontrivial": nt,
        "rule": "exhaustive strings up to length %d over the 9-unit look-alike alphabet (leaf escaper, char) + seeded random strings with spliced (partial) entities in all four widths through seven tag positions, default build and -DQENTEM_AUTO_ESCAPE_HTML=0; non-trivial = contains one of & < > \" '" % (6 if tier != "quick" else 5),
        "samples": [cases[0], cases[len(cases) // 2], cases[-1]],
        "input_distribution": dist,
        "cases_default_build": n_on,
        "cases_auto_escape_off_build": n_off,
        "traces_validated_against_impl": n_on + n_off,
        "oracle_failures": len(r1.oracle_fail) + len(r2.oracle_fail),
        "model_impl_mismatches": len(mism),
        "crashes": len(r1.crashes) + len(r2.crashes),
    }
    rep.assumptions = [
        "the theorems are about coq/EscapeModel.v; the C++ is tied by gen/Tables.v and by the differential run reported here (finite)",
        "character widths: char, char16_t, char32_t, wchar_t on LP64 little-endian",
    ]
    return rep.finish()


def replay(path):
    d = json.load(open(path))
    case = d.get("case")
    if not case:
        print("replay names a broken obligation, not an input:", d.get("broken"))
        return 1
    auto = case.split(" ")[0]
    if auto == "0":
        exe, msg = vlib.build_cpp("drv_escape_off", "drv_escape.cpp", defines=["QENTEM_AUTO_ESCAPE_HTML=0"])
    else:
        exe, msg = vlib.build_cpp("drv_escape", "drv_escape.cpp")
    r = vlib.differential("esc", exe, [case])
    print("case:", case)
    for (c, i, m, tag) in r.oracle_fail:
        print("impl:", i, "\nmodel:", m, "\noracle: FAIL")
        return 1
    for (c, i, m) in r.mismatch:
        print("impl:", i, "\nmodel:", m, "\noracle: ok, model differs")
        return 1
    print("oracle ok, model agrees")
    return 0
